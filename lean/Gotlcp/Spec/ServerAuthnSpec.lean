/-
C07 — specification: when is a server's client-authentication policy *satisfied* by what a
client did?

Written from the property statement and from the documented meaning of the six policies
(doc comments of `ClientAuthType`, inherited from crypto/tls, plus the comment of
`RequireAndVerifyAnyKeyUsageClientCert`), **not** from the handshake code and independent of
`Gotlcp.Facts`:

* `NoClientCert`                           nothing is required; certificates are not verified
* `RequestClientCert`                      a certificate is requested; none is required
* `RequireAnyClientCert`                   at least one certificate is required; it need not be valid
* `VerifyClientCertIfGiven`                none is required; a certificate that is sent must be valid
* `RequireAndVerifyClientCert`             at least one *valid* certificate is required
* `RequireAndVerifyAnyKeyUsageClientCert`  the same, but the certificate's key usage is ignored

"valid" = chains to the configured client roots and is in date at `Config.Time` (property
text) and — except under the last policy — its extended key usage is one the library accepts
for a TLCP peer certificate: the documented set is {clientAuth, serverAuth} (a spec literal; this
is wider than crypto/tls, which accepts clientAuth only — noted, not a finding: the property
asks for no particular usage).  A certificate whose usage is outside that set (codeSigning only,
…) is the "wrong extended key usage" of the property's quantifier.  Whenever the client sent a certificate it must also have proved possession of
the key by a `CertificateVerify` that is valid under that certificate's key over the handshake
so far (property text).  Every suite the two stacks negotiate signs the handshake with SM2 over an
SM3 digest (GB/T 38636 6.4.5.9), so "a valid signature under the certificate's key" exists only
for an elliptic-curve key: a certificate with an RSA (or any other) key can be *sent*, but no
CertificateVerify proves possession of it.

This file also fixes the *vocabulary* shared by the model, the theorems and the oracle: what a
client did (`Behaviour`), with the x509 / SM2 verdicts as inputs (they are computed by the
harness with the real smx509 / sm2 and are part of the trusted base).
Core Lean only (linked into the oracle).
-/
namespace Gotlcp.Spec.ServerAuthn

/-- the six policies, by their Go names -/
inductive Policy where
  | noClientCert
  | requestClientCert
  | requireAnyClientCert
  | verifyClientCertIfGiven
  | requireAndVerifyClientCert
  | requireAndVerifyAnyKeyUsageClientCert
  deriving DecidableEq, Repr, Inhabited

namespace Policy

def all : List Policy :=
  [noClientCert, requestClientCert, requireAnyClientCert, verifyClientCertIfGiven,
   requireAndVerifyClientCert, requireAndVerifyAnyKeyUsageClientCert]

/-- the Go identifier -/
def name : Policy → String
  | noClientCert => "NoClientCert"
  | requestClientCert => "RequestClientCert"
  | requireAnyClientCert => "RequireAnyClientCert"
  | verifyClientCertIfGiven => "VerifyClientCertIfGiven"
  | requireAndVerifyClientCert => "RequireAndVerifyClientCert"
  | requireAndVerifyAnyKeyUsageClientCert => "RequireAndVerifyAnyKeyUsageClientCert"

def ofName (s : String) : Option Policy := all.find? (fun p => p.name == s)

/-- documented: does the policy demand that the client sends a certificate? -/
def requiresCert : Policy → Bool
  | requireAnyClientCert | requireAndVerifyClientCert | requireAndVerifyAnyKeyUsageClientCert => true
  | _ => false

/-- documented: must a certificate that was sent be valid? -/
def verifies : Policy → Bool
  | verifyClientCertIfGiven | requireAndVerifyClientCert | requireAndVerifyAnyKeyUsageClientCert => true
  | _ => false

/-- documented: is the certificate's (extended) key usage ignored? -/
def ignoresUsage : Policy → Bool
  | requireAndVerifyAnyKeyUsageClientCert => true
  | _ => false

end Policy

/-- the kind of public key a certificate carries -/
inductive KeyKind where
  /-- elliptic-curve key on the SM2 curve -/
  | sm2
  /-- elliptic-curve key on another curve (P-256, …) -/
  | ecOther
  | rsa
  /-- anything else (Ed25519, …) -/
  | other
  deriving DecidableEq, Repr, Inhabited

namespace KeyKind

/-- documented: client certificates may carry elliptic-curve or RSA keys -/
def usable : KeyKind → Bool
  | other => false
  | _ => true

/-- an SM2-with-SM3 handshake signature can be made (and verified) with this kind of key: the
signature algorithm of GB/T 32918.2 is defined over any prime-field curve, not for RSA -/
def canSign : KeyKind → Bool
  | sm2 | ecOther => true
  | _ => false

end KeyKind

/-- One certificate of the client's list with the verdicts of the real path validation
(`smx509.Certificate.Verify` against `Config.ClientCAs` at `Config.Time`, the other
certificates of the list as intermediates) for three acceptable-usage sets, and the kind of its
public key.  Each certificate of the list has its OWN verdicts: the signing certificate (first)
and, for ECDHE, the encryption certificate (second) are judged separately. -/
structure Cert where
  /-- chains to the client roots, in date, extended key usage permits *client authentication* -/
  okClient : Bool
  /-- the same with "client **or server** authentication" accepted -/
  okClientOrServer : Bool
  /-- chains to the client roots and is in date; usage ignored -/
  okAnyUsage : Bool
  key : KeyKind
  deriving DecidableEq, Repr, Inhabited

/-- ECDSA/SM2 or RSA public key -/
def Cert.keyOK (c : Cert) : Bool := c.key.usable

/-- a CertificateVerify message as the ideal-signature abstraction sees it -/
structure CertVerify where
  /-- made with the private key that belongs to the first certificate of the list -/
  byLeafKey : Bool
  /-- over the transcript ClientHello … ClientKeyExchange of *this* handshake -/
  overTranscript : Bool
  deriving DecidableEq, Repr, Inhabited

/-- ideal signature: it verifies iff it was made with that key over exactly that message -/
def CertVerify.valid (v : CertVerify) : Bool := v.byLeafKey && v.overTranscript

/-- what the client did in one full handshake, and the verdicts about it -/
structure Behaviour where
  /-- an ECDHE suite was negotiated (otherwise ECC) -/
  ecdhe : Bool
  /-- the client's flight starts with a Certificate message -/
  certMsg : Bool
  /-- the certificates in it, in order (`[]` for an empty list or no message) -/
  certs : List Cert
  /-- every certificate of the list parses (vacuous for an empty list) -/
  parseOK : Bool
  /-- a ClientKeyExchange follows and the key exchange succeeds on it -/
  kxOK : Bool
  /-- a CertificateVerify message follows the ClientKeyExchange -/
  cv : Option CertVerify
  /-- ChangeCipherSpec and a correct Finished end the flight -/
  finishedOK : Bool
  deriving DecidableEq, Repr, Inhabited

namespace Behaviour

/-- the certificates the client sent (none without a Certificate message) -/
def sent (b : Behaviour) : List Cert := if b.certMsg then b.certs else []

def present (b : Behaviour) : Bool := !b.sent.isEmpty

/-- the certificates the server relies on: the signing certificate, and for ECDHE also the
encryption certificate (its key enters the key exchange) -/
def relied (b : Behaviour) : List Cert := if b.ecdhe then b.sent.take 2 else b.sent.take 1

/-- proof of possession: a CertificateVerify valid under the first certificate's key over the
handshake so far — which takes a key the suite's signature scheme is defined for -/
def pop (b : Behaviour) : Bool :=
  match b.cv, b.sent.head? with
  | some v, some c => v.valid && c.key.canSign
  | _, _ => false

end Behaviour

/-- validity of one certificate under a policy (documented reading): the acceptable extended
key usages are {clientAuth, serverAuth}, any under `RequireAndVerifyAnyKeyUsageClientCert` -/
def validUnder (p : Policy) (c : Cert) : Bool :=
  if p.ignoresUsage then c.okAnyUsage else c.okClientOrServer

/-- **The policy is satisfied by the behaviour.** -/
def PolicySatisfied (p : Policy) (b : Behaviour) : Bool :=
  -- a required certificate is present
  (!p.requiresCert || b.present) &&
  -- a certificate that must be verified is valid
  (!p.verifies || b.relied.all (validUnder p)) &&
  -- whenever the client sent a certificate it proved possession of its key
  (!b.present || b.pop)

/-- documented: a CertificateRequest is sent for every policy above NoClientCert, and always
for ECDHE suites (GB/T 38636 6.4.5.8: ECDHE requires the client's certificates) -/
def certRequested (p : Policy) (ecdhe : Bool) : Bool := p != .noClientCert || ecdhe

/-- Everything *else* a handshake needs, none of which is a matter of the policy: the client's
flight has the shape the standard allows (Certificate iff requested, CertificateVerify only
with a certificate), the certificates parse and carry usable keys, an ECDHE exchange has its
two certificates, key exchange and Finished are correct. -/
def FlowOK (p : Policy) (b : Behaviour) : Bool :=
  (b.certMsg == certRequested p b.ecdhe) &&
  (b.sent.isEmpty || b.parseOK) &&
  (!b.ecdhe || 2 ≤ b.sent.length) &&
  b.relied.all (·.keyOK) &&
  b.kxOK &&
  (b.cv.isNone || b.present) &&
  b.finishedOK

/-- the statement of C07 for a full handshake -/
def ShouldComplete (p : Policy) (b : Behaviour) : Bool := FlowOK p b && PolicySatisfied p b

/-! ### what may be observed after completion -/

/-- observable result of a server handshake -/
structure Observed where
  completed : Bool
  resumed : Bool
  peerCerts : Nat
  chains : Nat
  /-- a CertificateRequest was seen in the server's flight (`none`: the flight was never sent) -/
  certReq : Option Bool := none
  /-- which certificate heads `PeerCertificates` / `VerifiedChains[0]` (an identifier of its bytes;
  `none`: the list is empty or the identity was not observed) -/
  peerLeaf : Option String := none
  chainLeaf : Option String := none
  deriving DecidableEq, Repr, Inhabited

/-- Judgement of one full handshake by the property: `none` = fine. -/
def judgeFull (p : Policy) (b : Behaviour) (o : Observed) : Option (String × String) :=
  if o.certReq.isSome && o.certReq != some (certRequested p b.ecdhe) then
    some ("request", s!"CertificateRequest {if certRequested p b.ecdhe then "missing" else "sent"} under {p.name}")
  else if o.completed && !PolicySatisfied p b then
    -- the reason names the clause
    if p.requiresCert && !b.present then some ("policy", s!"completed without the certificate {p.name} requires")
    else if b.present && !b.pop then some ("pop", "completed although the client sent a certificate and did not prove possession of its key")
    else some ("policy", s!"completed although a certificate that {p.name} must verify is not valid")
  else if o.completed && !FlowOK p b then some ("flow", "completed on a client flight the standard does not allow")
  else if !o.completed && ShouldComplete p b then some ("refused", s!"failed although {p.name} is satisfied and the client behaved correctly")
  else if o.completed && o.peerCerts != 0 && !b.pop then some ("pop", "peer certificates reported without a checked proof of possession")
  else if o.chains != 0 && !b.present then
    -- nothing was presented on this connection: there is no chain that could have been verified
    some ("chains", "verified chains reported although this client presented no certificate")
  else if o.chains != 0 && !(b.relied.all (fun c => c.okAnyUsage)) then
    some ("chains", "verified chains reported for a certificate that does not chain to the client roots")
  else none

/-- **Whose certificates are reported.**  "After completion a non-empty peer-certificate list means
that proof was checked, and non-empty verified chains mean the chain was verified": the proof and
the chain of the client of THIS connection — `presented` is the certificate that heads the list this
client sent (`none`: it presented nothing).  For a resumed handshake the client presents nothing
anew and the connection legitimately carries the certificates of the handshake that created the
session: `presented` is then the certificate that client presented.  A connection that reports the
certificate or the chain of anybody else attributes a verification to a client that never underwent
it.  (That a client that presented nothing has no peer certificates / chains at all is the matter of
`judgeFull` / `judgeResumed`.)  `none` = fine. -/
def judgeIdentity (presented : Option String) (o : Observed) : Option (String × String) :=
  if o.completed && o.chains != 0 && o.chainLeaf.isSome && o.chainLeaf != presented then
    some ("chains-leaf", "verified chains reported whose leaf is not the certificate this client presented")
  else if o.completed && o.peerCerts != 0 && o.peerLeaf.isSome && o.peerLeaf != presented then
    some ("peers-leaf", "peer certificates reported that are not the ones this client presented")
  else none

/-! ### resumption -/

/-- Judgement of a resumed handshake: the session was created by a client whose behaviour was
`orig` (verdicts re-taken under the configuration now in force); it may be resumed under `p`
only if that behaviour satisfies `p`. -/
def judgeResumed (p : Policy) (orig : Behaviour) (o : Observed) : Option (String × String) :=
  if o.completed && o.resumed && !PolicySatisfied p orig then
    -- the same three clauses as for a full handshake
    if p.requiresCert && !orig.present then
      some ("resumed-policy", s!"session without client certificate resumed under {p.name}, which requires one")
    else if orig.present && !orig.pop then
      some ("pop", "session resumed whose certificates were recorded without a proof of possession")
    else
      some ("resumed-policy", s!"session resumed under {p.name} although its certificates are not valid under the configuration now in force")
  else if o.completed && o.resumed && o.peerCerts != 0 && !orig.pop then
    some ("pop", "peer certificates reported on a resumed session without a checked proof of possession")
  else if o.completed && o.resumed && o.chains != 0 && !(orig.relied.all (fun c => c.okAnyUsage) && orig.present) then
    some ("chains", "verified chains reported on a resumed session for certificates that do not verify")
  else none

end Gotlcp.Spec.ServerAuthn

/-
Specification for C11: the textbook bounded least-recently-used map, written from the
documentation of `NewLRUSessionCache` / `SessionCache` and not from the code.

* a store of `(key, value)` pairs ordered by recency (most recent first);
* `put k v` makes `k ↦ v` the most recent pair and, if that exceeds the capacity,
  forgets the least recent pair;
* `put k nil` forgets `k` (nothing happens when `k` is absent);
* `get k` returns the value stored under `k` and makes it the most recent;
* `get ""` returns the most recent value without touching the order (documented special).

Documented side effect of an eviction (`NewLRUSessionCache`: "evicts the least recently used
entry and zeroes the corresponding master secret"): the master secret of the session held by
the evicted entry is overwritten. Nothing else about any session may change.

Core Lean only.
-/
namespace Gotlcp.Spec.LRUMap

abbrev Key := String

structure Map (V : Type) where
  cap   : Nat
  items : List (Key × V)

def erase {V} (l : List (Key × V)) (k : Key) : List (Key × V) := l.filter (·.1 != k)

def lookup {V} (l : List (Key × V)) (k : Key) : Option V := (l.find? (·.1 == k)).map (·.2)

def put {V} (m : Map V) (k : Key) : Option V → Map V
  | some v => { m with items := ((k, v) :: erase m.items k).take m.cap }
  | none   => { m with items := erase m.items k }

/-- the entries a store pushes out of the map: the least recently used ones beyond the capacity -/
def evictedByPut {V} (m : Map V) (k : Key) : Option V → List (Key × V)
  | some v => ((k, v) :: erase m.items k).drop m.cap
  | none   => []

/-- result of a lookup: the value and the `ok` flag -/
def get {V} (m : Map V) (k : Key) : Map V × Option V :=
  if k == "" then (m, m.items.head?.map (·.2))
  else match lookup m.items k with
    | some v => ({ m with items := (k, v) :: erase m.items k }, some v)
    | none   => (m, none)

inductive Op (V : Type) where
  | put (k : Key) (v : Option V)
  | get (k : Key)

def run {V} (m : Map V) : List (Op V) → Map V × List (Option (Option V))
  | [] => (m, [])
  | .put k v :: ops =>
    let (m', os) := run (put m k v) ops
    (m', none :: os)
  | .get k :: ops =>
    let (m1, r) := get m k
    let (m2, os) := run m1 ops
    (m2, some r :: os)

end Gotlcp.Spec.LRUMap

/-
C01 — the SPEC: which pairs of configurations are compatible and what both ends must then
report.  Written from the README / doc/ServerConfig.md / doc/ClientConfig.md and the
property text, not from the code, and with documented constants as literals (independent of
`Gotlcp.Facts`): when a fact moves, this is what judges the implementation.

Documented rules used:
* one protocol version, 0x0101;
* suite priority ECC_SM4_GCM_SM3 > ECC_SM4_CBC_SM3 > ECDHE_SM4_GCM_SM3 > ECDHE_SM4_CBC_SM3,
  fixed by the library ("the order in the configuration does not matter"); the negotiated
  suite is the first one in that order which both sides enabled and have keys for: the
  server needs an SM2 signing and an SM2 encryption key pair, ECDHE in addition needs both
  client key pairs (README, ServerConfig 2.3, ClientConfig 2.3);
* ALPN: ignored when either side lists nothing; otherwise the server picks, by its own
  preference, a protocol the client listed; no common protocol fails the handshake, except
  that an "h2" server lets an "http/1.1" client through without a protocol;
* client authentication by policy (ServerConfig 2.4): nothing is requested under
  NoClientCert; Require* need a certificate; VerifyClientCertIfGiven and RequireAndVerify*
  need a presented certificate to verify against ClientCAs; ECDHE always requests and needs
  both client certificates.  A client presents its signing certificate (followed by its
  encryption certificate when it has one) if it has one the server's advertised CA list
  accepts (a callback decides for itself), and nothing otherwise;
* a second connection with the same configurations resumes iff both sides have a cache and
  the server's policy admits the recorded session (a NoClientCert server does not resume a
  session that recorded client certificates; it then does a full handshake again);
* histories (any number of connections between the same two parties, the enabled suites,
  protocol lists, Clone() and the server's use of its session cache possibly changing in
  between): EVERY connection ends as the configurations in use at that moment prescribe — it
  succeeds iff they are compatible; it is either a full handshake, judged exactly like a first
  connection, or the resumption of the most recent full handshake, and then both ends report
  that session's suite and certificates, the suite must still be enabled (and keyed) on both
  sides of the configurations now in use, the application protocol is negotiated afresh, and
  both configurations must have a session cache.  When a session is resumed is not
  prescribed here beyond the second-connection rule above (that is C10);
* every handshake ENDS on both sides, succeeding on both or failing on both (`endsOK`): whatever
  the configurations, both calls of Handshake return by the protocol's own means — an endpoint
  that refuses tells its peer (fatal alert; on the stream stack the end of the stream does too),
  so that the peer fails as well instead of waiting for a flight that will never come.
-/
import Gotlcp.Model.NegotiateCfg

namespace Gotlcp.Spec.Negotiate
open Gotlcp.Negotiate

def docVersion : Nat := 0x0101

def ECC_GCM : Nat := 0xe053
def ECC_CBC : Nat := 0xe013
def ECDHE_GCM : Nat := 0xe051
def ECDHE_CBC : Nat := 0xe011

/-- the documented priority order -/
def docOrder : List Nat := [ECC_GCM, ECC_CBC, ECDHE_GCM, ECDHE_CBC]

def isECDHE (id : Nat) : Bool := id == ECDHE_GCM || id == ECDHE_CBC

/-- a version window admits the one protocol version -/
def versionOK (minV maxV : Nat) : Bool :=
  (minV == 0 || decide (minV ≤ docVersion)) && (maxV == 0 || decide (docVersion ≤ maxV))

/-- a suite is enabled: listed, or nothing listed (then all four documented suites are) -/
def enabled (s : Option (List Nat)) (id : Nat) : Bool :=
  match s with
  | none => docOrder.contains id
  | some l => l.contains id

def clientHasSig (c : ClientCfg) : Bool := decide (c.nCerts ≥ 1) || c.getCert
def clientHasEnc (c : ClientCfg) : Bool := decide (c.nCerts ≥ 2) || c.getKECert

/-- the server has a signing and an encryption key pair, both SM2 -/
def serverHasKeys (s : ServerCfg) : Bool :=
  (decide (s.nCerts ≥ 1) || s.getCert) && (decide (s.nCerts ≥ 2) || s.getKECert) &&
  s.sigKey == .sm2 && s.encKey == .sm2

/-- both sides enabled the suite and have keys for it -/
def usable (c : ClientCfg) (s : ServerCfg) (id : Nat) : Bool :=
  enabled c.suites id && enabled s.suites id && serverHasKeys s &&
  (!isECDHE id || (clientHasSig c && clientHasEnc c))

/-- the first usable suite in the documented order -/
def mutualSuite (c : ClientCfg) (s : ServerCfg) : Option Nat := docOrder.find? (usable c s)

/-- ALPN rule. `none` = the handshake fails; `some ""` = no protocol. -/
def alpnRule (server client : List String) : Option String :=
  if server.isEmpty || client.isEmpty then some ""
  else
    match server.find? (fun sp => client.contains sp) with
    | some sp => some sp
    | none => if server.contains "h2" && client.contains "http/1.1" then some "" else none

/-- policies that insist on a certificate -/
def requiresCert : ClientAuth → Bool
  | .requireAnyClientCert | .requireAndVerifyClientCert | .requireAndVerifyAnyKeyUsageClientCert => true
  | _ => false

/-- policies that verify a presented certificate -/
def verifiesCert : ClientAuth → Bool
  | .verifyClientCertIfGiven | .requireAndVerifyClientCert | .requireAndVerifyAnyKeyUsageClientCert => true
  | _ => false

/-- the server asks for a client certificate -/
def requested (s : ServerCfg) (suite : Nat) : Bool := s.auth != .noClientCert || isECDHE suite

/-- what the client presents when asked -/
def presented (c : ClientCfg) (s : ServerCfg) : List CertSym :=
  let ok := s.cas.accepts c.family
  let sig := clientHasSig c && (c.getCert || ok)
  let enc := clientHasEnc c && (c.getKECert || ok)
  if sig then (if enc then [.S, .E] else [.S]) else []

/-- the certificates the server ends up with -/
def clientCertsSeen (c : ClientCfg) (s : ServerCfg) (suite : Nat) : List CertSym :=
  if requested s suite then presented c s else []

def authOK (c : ClientCfg) (s : ServerCfg) (suite : Nat) : Bool :=
  let certs := clientCertsSeen c s suite
  (!(requested s suite && requiresCert s.auth) || !certs.isEmpty) &&
  (!isECDHE suite || certs.length == 2) &&
  (!(verifiesCert s.auth && !certs.isEmpty) || s.cas.verifies c.family)

/-- the two configurations are compatible -/
def compatible (c : ClientCfg) (s : ServerCfg) : Bool :=
  versionOK c.minV c.maxV && versionOK s.minV s.maxV &&
  (alpnRule s.alpn c.alpn).isSome &&
  match mutualSuite c s with
  | none => false
  | some suite => authOK c s suite

/-- what both ends report after the first handshake of a compatible pair
(`resumed` = whether this connection resumes an earlier one) -/
def expectedWith (resumed : Bool) (c : ClientCfg) (s : ServerCfg) : Agreed :=
  let suite := (mutualSuite c s).getD 0
  let proto := (alpnRule s.alpn c.alpn).getD ""
  { client := { vers := docVersion, suite := suite, alpn := proto, resumed := resumed,
                peerCerts := [.S, .E], serverName := c.serverName },
    server := { vers := docVersion, suite := suite, alpn := proto, resumed := resumed,
                peerCerts := clientCertsSeen c s suite,
                serverName := if c.nameIsIP then "" else c.serverName } }

def expected (c : ClientCfg) (s : ServerCfg) : Agreed := expectedWith false c s

/-- a second connection resumes iff both sides cache sessions — except that a server whose
policy is NoClientCert does not resume a session that recorded client certificates (ECDHE):
it falls back to a full handshake -/
def resumable (c : ClientCfg) (s : ServerCfg) : Bool :=
  c.cache && s.cache &&
  !(s.auth == .noClientCert && !(clientCertsSeen c s ((mutualSuite c s).getD 0)).isEmpty)

def expectedNext (c : ClientCfg) (s : ServerCfg) : Agreed := expectedWith (resumable c s) c s

/-! ### histories -/

/-- what both ends report when a connection resumes the session established by the earlier
connection `o`: suite and certificates are the session's, everything else is negotiated now -/
def resumedFrom (o : Agreed) (c : ClientCfg) (s : ServerCfg) : Agreed :=
  let proto := (alpnRule s.alpn c.alpn).getD ""
  { client := { vers := docVersion, suite := o.client.suite, alpn := proto, resumed := true,
                peerCerts := o.client.peerCerts, serverName := c.serverName },
    server := { vers := docVersion, suite := o.client.suite, alpn := proto, resumed := true,
                peerCerts := o.server.peerCerts,
                serverName := if c.nameIsIP then "" else c.serverName } }

/-- Judgement of one connection of a history.  `c`, `s`: the configurations in use;
`origin`: what the most recent successful full handshake of the history reported (if any);
`obs`: what the two ends report (`none` = the handshake failed on both). -/
def connOK (c : ClientCfg) (s : ServerCfg) (origin : Option Agreed) (obs : Option Agreed) : Bool :=
  match obs with
  | none => !compatible c s
  | some a =>
    compatible c s &&
    (if a.client.resumed || a.server.resumed then
      match origin with
      | none => false
      | some o => c.cache && s.cache && usable c s o.client.suite && a == resumedFrom o c s
     else a == expected c s)

/-- the session later connections may resume -/
def nextOrigin (origin : Option Agreed) (obs : Option Agreed) : Option Agreed :=
  match obs with
  | none => origin
  | some a => if a.client.resumed || a.server.resumed then origin else some a

/-- every connection of a history of the parties `c`, `s` is as prescribed -/
def historyOK (c : ClientCfg) (s : ServerCfg) : Option Agreed → List Reconf → List (Option Agreed) → Bool
  | _, [], [] => true
  | o, r :: rs, x :: xs =>
    connOK (r.client c) (r.server s) o x && historyOK c s (nextOrigin o x) rs xs
  | _, _, _ => false

/-! ### "ends on both sides, succeeding on both or failing on both"

How a call of Handshake came to its end, as far as the property is concerned.  `notEnded`: the call
had not returned by the protocol's own means — because the endpoint raised an error, because the
peer's fatal alert told it, or (stream stack) because the transport ended — when the observer gave
up.  On a reliable transport that delivers at once a retransmission timer is no such means: the
datagram stack re-sends its flight with a capped back-off and has no retry limit, so an endpoint
whose peer failed WITHOUT telling it waits for ever; whatever finite time the observer allows
separates the two. -/
inductive EndStatus | succeeded | failed | notEnded
  deriving DecidableEq, Repr

/-- the first clause of the property, for one connection and whatever the configurations -/
def endsOK (client server : EndStatus) : Bool :=
  (client == .succeeded && server == .succeeded) || (client == .failed && server == .failed)

/-- the parameters both ends must agree on -/
def viewsAgree (a : Agreed) : Bool :=
  a.client.vers == a.server.vers && a.client.suite == a.server.suite &&
  a.client.alpn == a.server.alpn && a.client.resumed == a.server.resumed

end Gotlcp.Spec.Negotiate

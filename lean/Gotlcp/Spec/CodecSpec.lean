/-
Specification side of C14, written from the message definitions of GM/T 0024-2023 (6.4.5, annex
A), RFC 4346 section 7.4, RFC 6066 and RFC 6347 section 4.2.2 — not from the Go code and not from
`Generated/Facts` (type codes, lengths and ranges are literals here on purpose).

* `framed st b`      the handshake header agrees with the data: `length` = number of body bytes;
                     for DTLCP additionally `fragment_offset = 0` and `fragment_length = length`
                     (a complete, unfragmented message).
* `bodyShape st k`   the body is *exactly* the sequence of fixed fields and length-prefixed vectors
                     the standard defines for kind `k`: every inner vector ends where its
                     container ends, nothing trails.  Only lengths are judged here, not value
                     ranges.  An extension of unknown type is opaque; a trusted authority of an
                     unknown identifier type has no defined body (a bare type octet).
* `shape`            `framed ∧ bodyShape` — what "inner lengths agree with the outer length and
                     nothing trails" means for an accepted input.
* `wf…`              the standard's length ranges for the fields of each message.
* `decodeStrict…`    a strict decoder: right type code, `framed`, canonical body (every vector
                     exact, extensions at most once in the order the standard lists them,
                     host_name entries only, empty OCSP responder list, …), fields within `wf`.
-/
import Gotlcp.Base.Wire

namespace Gotlcp.Spec.Codec
open Gotlcp Gotlcp.Wire Gotlcp.Wire.Msg

inductive Stack where
  | tlcp | dtlcp
  deriving Repr, DecidableEq

inductive Kind where
  | clientHello | serverHello | helloVerifyRequest | certificate | serverKeyExchange
  | certificateRequest | serverHelloDone | certificateVerify | clientKeyExchange | finished
  deriving Repr, DecidableEq

/-- HandshakeType values (RFC 4346 7.4, RFC 6347 4.2.2; GM/T 0024 uses the same numbers) -/
def Kind.code : Kind → Nat
  | .clientHello => 1
  | .serverHello => 2
  | .helloVerifyRequest => 3
  | .certificate => 11
  | .serverKeyExchange => 12
  | .certificateRequest => 13
  | .serverHelloDone => 14
  | .certificateVerify => 15
  | .clientKeyExchange => 16
  | .finished => 20

def Stack.headerLen : Stack → Nat
  | .tlcp => 4
  | .dtlcp => 12

structure Header where
  msgType : UInt8
  length : Nat
  dh : DHdr          -- zeros for TLCP
  deriving Repr, DecidableEq

/-- the handshake header and what follows it -/
def splitHeader : Stack → Bytes → Option (Header × Bytes)
  | .tlcp, t :: a :: b :: c :: rest => some (⟨t, nat24 a b c, ⟨(0, 0), 0, 0⟩⟩, rest)
  | .dtlcp, t :: a :: b :: c :: s1 :: s2 :: o1 :: o2 :: o3 :: l1 :: l2 :: l3 :: rest =>
    some (⟨t, nat24 a b c, ⟨(s1, s2), nat24 o1 o2 o3, nat24 l1 l2 l3⟩⟩, rest)
  | _, _ => none

def headerOk (st : Stack) (h : Header) (body : Bytes) : Bool :=
  h.length == body.length &&
    (match st with
     | .tlcp => true
     | .dtlcp => h.dh.fragOff == 0 && h.dh.fragLen == h.length)

def framed (st : Stack) (b : Bytes) : Bool :=
  match splitHeader st b with
  | some (h, body) => headerOk st h body
  | none => false

/-! ### body shapes -/

def isNil (s : Bytes) : Bool := match s with | [] => true | _ => false

/-- `s` is a sequence of items, `item` returning what follows one item -/
def itemsOk (item : Bytes → Option Bytes) : Nat → Bytes → Bool
  | _, [] => true
  | 0, _ :: _ => false
  | f + 1, a :: s =>
    match item (a :: s) with
    | none => false
    | some r => itemsOk item f r

def seqOk (item : Bytes → Option Bytes) (s : Bytes) : Bool := itemsOk item s.length s

def dropVec8 (s : Bytes) : Option Bytes := (readVec8 s).map (·.2)
def dropVec16 (s : Bytes) : Option Bytes := (readVec16 s).map (·.2)
def dropVec24 (s : Bytes) : Option Bytes := (readVec24 s).map (·.2)
def dropN (n : Nat) (s : Bytes) : Option Bytes := skip n s

/-- `s` is exactly one 16-bit-length vector whose content satisfies `inner` -/
def oneVec16 (inner : Bytes → Bool) (s : Bytes) : Bool :=
  match readVec16 s with
  | some (c, r) => isNil r && inner c
  | none => false

def oneVec24 (inner : Bytes → Bool) (s : Bytes) : Bool :=
  match readVec24 s with
  | some (c, r) => isNil r && inner c
  | none => false

/-- ServerName: name_type(1) HostName<1..2^16-1> (every name type defined so far has this form) -/
def sniItem (s : Bytes) : Option Bytes := (dropN 1 s).bind dropVec16

/-- TrustedAuthority: identifier_type(1) then pre_agreed: nothing; key/cert_sm3_hash: 32 octets;
x509_name: DistinguishedName<1..2^16-1>; any other type: undefined, a bare octet -/
def taItem (s : Bytes) : Option Bytes :=
  match readU8 s with
  | none => none
  | some (ty, r) =>
    if ty == 0 then some r
    else if ty == 4 || ty == 5 then dropN 32 r
    else if ty == 2 then dropVec16 r
    else some r

def clientExtDataOk (ty : Nat) (d : Bytes) : Bool :=
  if ty = 0 then oneVec16 (seqOk sniItem) d
  else if ty = 3 then oneVec16 (seqOk taItem) d
  else if ty = 5 then (match (dropN 1 d).bind dropVec16 |>.bind dropVec16 with | some r => isNil r | none => false)
  else if ty = 10 ∨ ty = 13 then oneVec16 (seqOk (dropN 2)) d
  else if ty = 16 then oneVec16 (seqOk dropVec8) d
  else if ty = 66 then oneVec16 (fun _ => true) d
  else true

def serverExtDataOk (ty : Nat) (d : Bytes) : Bool :=
  if ty = 5 then (match (dropN 1 d).bind dropVec24 with | some r => isNil r | none => false)
  else if ty = 16 then oneVec16 (seqOk dropVec8) d
  else if ty = 0 then isNil d
  else true

/-- Extension: extension_type(2) extension_data<0..2^16-1> -/
def extItem (dataOk : Nat → Bytes → Bool) (s : Bytes) : Option Bytes :=
  match readU16 s with
  | none => none
  | some (ty, s1) =>
    match readVec16 s1 with
    | none => none
    | some (d, r) => if dataOk ty d then some r else none

/-- what may follow the fixed part of a hello: nothing, or exactly one extensions vector -/
def extTail (dataOk : Nat → Bytes → Bool) (s : Bytes) : Bool :=
  isNil s || oneVec16 (seqOk (extItem dataOk)) s

def clientHelloShape (st : Stack) (s : Bytes) : Bool :=
  match (dropN 34 s).bind dropVec8 with
  | none => false
  | some s1 =>
    match (if st = .dtlcp then dropVec8 s1 else some s1) with
    | none => false
    | some s2 =>
      match readVec16 s2 with
      | none => false
      | some (suites, s3) =>
        seqOk (dropN 2) suites &&
        (match dropVec8 s3 with
         | none => false
         | some s4 => extTail clientExtDataOk s4)

def serverHelloShape (s : Bytes) : Bool :=
  match (dropN 34 s).bind dropVec8 |>.bind (dropN 3) with
  | none => false
  | some s1 => extTail serverExtDataOk s1

def bodyShape (st : Stack) : Kind → Bytes → Bool
  | .finished, _ => true                                   -- opaque verify_data[12]
  | .serverHelloDone, s => isNil s                         -- struct { }
  | .certificateVerify, s => oneVec16 (fun _ => true) s    -- opaque signature<0..2^16-1>
  | .clientKeyExchange, _ => true                          -- opaque to the codec
  | .serverKeyExchange, _ => true
  | .certificate, s => oneVec24 (seqOk dropVec24) s        -- ASN.1Cert certificate_list<0..2^24-1>
  | .certificateRequest, s =>                              -- types<1..2^8-1> authorities<0..2^16-1>
    match dropVec8 s with
    | none => false
    | some r => oneVec16 (seqOk dropVec16) r
  | .helloVerifyRequest, s =>                              -- version(2) cookie<0..2^8-1>
    match (dropN 2 s).bind dropVec8 with
    | some r => isNil r
    | none => false
  | .serverHello, s => serverHelloShape s
  | .clientHello, s => clientHelloShape st s

/-- the header agrees with the data and the body is exactly what the grammar of `k` allows -/
def shape (st : Stack) (k : Kind) (b : Bytes) : Bool :=
  match splitHeader st b with
  | some (h, body) => headerOk st h body && bodyShape st k body
  | none => false

/-- reason a successful decode of `b` violates strictness, for the oracle's verdict -/
def shapeFailure (st : Stack) (k : Kind) (b : Bytes) : Option String :=
  match splitHeader st b with
  | none => some "unframed"
  | some (h, body) =>
    if !headerOk st h body then some "unframed"
    else if !bodyShape st k body then some "inner"
    else none

/-! ### ranges of the standard -/

def allB {α : Type} (p : α → Bool) (l : List α) : Bool := l.all p

def sumLen (l : List Bytes) (per : Nat) : Nat := l.foldr (fun c acc => per + c.length + acc) 0

def wfBlob : Kind → Blob → Bool
  | .finished, m => m.data.length == 12
  | .certificateVerify, m => decide (m.data.length < 65536)
  | _, m => decide (m.data.length < 16777216)

def wfCertificate (m : Certificate) : Bool :=
  allB (fun c => decide (0 < c.length)) m.certs && decide (3 + sumLen m.certs 3 < 16777216)

def wfCertificateRequest (m : CertificateRequest) : Bool :=
  decide (0 < m.types.length ∧ m.types.length < 256) &&
  allB (fun c => decide (0 < c.length)) m.cas && decide (sumLen m.cas 2 < 65536)

def wfHelloVerifyRequest (m : HelloVerifyRequest) : Bool := decide (m.cookie.length < 256)

def serverExtLen (m : ServerHello) : Nat :=
  (if m.ocsp then 2 + 2 + 1 + 3 + m.ocspResponse.length else 0) +
  (if m.alpn.length > 0 then 2 + 2 + 2 + 1 + m.alpn.length else 0) +
  (if m.sniAck then 4 else 0)

def wfServerHello (m : ServerHello) : Bool :=
  m.random.length == 32 && decide (m.sessionId.length ≤ 32) &&
  (m.ocsp == decide (0 < m.ocspResponse.length)) &&
  decide (1 + 3 + m.ocspResponse.length < 65536) &&
  decide (m.alpn.length < 256) && decide (serverExtLen m < 65536)

def wfTA (t : TA) : Bool :=
  if t.ty == 0 then t.id.length == 0
  else if t.ty == 4 || t.ty == 5 then t.id.length == 32
  else if t.ty == 2 then decide (0 < t.id.length ∧ t.id.length < 65536)
  else false

def taLen (t : TA) : Nat := if t.ty == 2 then 3 + t.id.length else 1 + t.id.length

def noTrailingDot (name : Bytes) : Bool :=
  match name.getLast? with
  | some b => b != 46
  | none => true

def clientExtLen (m : ClientHello) : Nat :=
  (if m.serverName.length > 0 then 2 + 2 + 2 + 1 + 2 + m.serverName.length else 0) +
  (if m.tas.length > 0 then 2 + 2 + 2 + (m.tas.foldr (fun t a => taLen t + a) 0) else 0) +
  (if m.ocsp then 9 else 0) +
  (if m.curves.length > 0 then 6 + 2 * m.curves.length else 0) +
  (if m.sigAlgs.length > 0 then 6 + 2 * m.sigAlgs.length else 0) +
  (if m.alpn.length > 0 then 6 + sumLen m.alpn 1 else 0) +
  (if m.clientId.length > 0 then 6 + m.clientId.length else 0)

def wfClientHello (st : Stack) (m : ClientHello) : Bool :=
  m.random.length == 32 && decide (m.sessionId.length ≤ 32) &&
  (match st with | .tlcp => m.cookie.length == 0 | .dtlcp => decide (m.cookie.length < 256)) &&
  decide (0 < m.suites.length ∧ m.suites.length < 32768) &&
  decide (0 < m.compression.length ∧ m.compression.length < 256) &&
  noTrailingDot m.serverName &&
  allB wfTA m.tas &&
  allB (fun p => decide (0 < p.length ∧ p.length < 256)) m.alpn &&
  decide (clientExtLen m < 65536)

/-- DTLCP: a message object describes a complete message when `fragment_offset` is 0 and
`fragment_length` is the body length (0 is the library's "fill in" value) -/
def wfDHdr (h : DHdr) (bodyLen : Nat) : Bool :=
  h.fragOff == 0 && (h.fragLen == 0 || h.fragLen == bodyLen) && decide (bodyLen < 16777216)

/-! ### strict decoders -/

/-- header of a complete message of kind `k`; returns the DTLCP header fields and the body -/
def strictHeader (st : Stack) (k : Kind) (b : Bytes) : Option (DHdr × Bytes) :=
  match splitHeader st b with
  | none => none
  | some (h, body) =>
    if h.msgType.toNat = k.code ∧ headerOk st h body then some (h.dh, body) else none

def strictBlob (st : Stack) (k : Kind) (b : Bytes) : Option (DHdr × Blob) :=
  match strictHeader st k b with
  | none => none
  | some (h, body) =>
    match k with
    | .certificateVerify =>
      (match readVec16 body with
       | some (sig, []) => some (h, ⟨sig⟩)
       | _ => none)
    | .finished => if body.length = 12 then some (h, ⟨body⟩) else none
    | _ => some (h, ⟨body⟩)

def strictServerHelloDone (st : Stack) (b : Bytes) : Option (DHdr × Unit) :=
  match strictHeader st .serverHelloDone b with
  | some (h, []) => some (h, ())
  | _ => none

def nonEmptyVec24 : Parser Bytes := fun s =>
  match readVec24 s with
  | some (c, r) => if isNil c then none else some (c, r)
  | none => none

def nonEmptyVec16 : Parser Bytes := fun s =>
  match readVec16 s with
  | some (c, r) => if isNil c then none else some (c, r)
  | none => none

def nonEmptyVec8 : Parser Bytes := fun s =>
  match readVec8 s with
  | some (c, r) => if isNil c then none else some (c, r)
  | none => none

def strictCertificate (st : Stack) (b : Bytes) : Option (DHdr × Certificate) :=
  match strictHeader st .certificate b with
  | none => none
  | some (h, body) =>
    match readVec24 body with
    | some (lst, []) =>
      (match many nonEmptyVec24 lst.length lst with
       | some cs => some (h, ⟨cs⟩)
       | none => none)
    | _ => none

def strictCertificateRequest (st : Stack) (b : Bytes) : Option (DHdr × CertificateRequest) :=
  match strictHeader st .certificateRequest b with
  | none => none
  | some (h, body) =>
    match nonEmptyVec8 body with
    | none => none
    | some (types, r) =>
      match readVec16 r with
      | some (lst, []) =>
        (match many nonEmptyVec16 lst.length lst with
         | some cas => some (h, ⟨types, cas⟩)
         | none => none)
      | _ => none

def strictHelloVerifyRequest (b : Bytes) : Option (DHdr × HelloVerifyRequest) :=
  match strictHeader .dtlcp .helloVerifyRequest b with
  | none => none
  | some (h, body) =>
    match readW16 body with
    | none => none
    | some (vers, r) =>
      match readVec8 r with
      | some (ck, []) => some (h, ⟨vers, ck⟩)
      | _ => none

/-- an optional extension of the given type at the head of the block -/
def optExt (code : Nat) (s : Bytes) : Option (Option Bytes × Bytes) :=
  match readU16 s with
  | some (ty, s1) =>
    if ty = code then
      (match readVec16 s1 with
       | some (d, s2) => some (some d, s2)
       | none => none)
    else some (none, s)
  | none => some (none, s)

/-- the optional extension block: absent, or a non-empty vector -/
def strictExtBlock (s : Bytes) : Option Bytes :=
  match s with
  | [] => some []
  | _ =>
    match readVec16 s with
    | some (e, []) => if isNil e then none else some e
    | _ => none

/-- status_request in a ServerHello: status_type ocsp(1), OCSPStatusResponse<1..2^24-1> -/
def sOcspOf (o : Option Bytes) : Option (Bool × Bytes) :=
  match o with
  | none => some (false, [])
  | some d =>
    match d with
    | 1 :: r =>
      (match readVec24 r with
       | some (resp, []) => if isNil resp then none else some (true, resp)
       | _ => none)
    | _ => none

/-- ALPN in a ServerHello: a list with exactly one non-empty protocol name -/
def sAlpnOf (o : Option Bytes) : Option Bytes :=
  match o with
  | none => some []
  | some d =>
    match readVec16 d with
    | some (lst, []) =>
      (match nonEmptyVec8 lst with
       | some (p, []) => some p
       | _ => none)
    | _ => none

/-- server_name acknowledgement: empty extension data -/
def sAckOf (o : Option Bytes) : Option Bool :=
  match o with
  | none => some false
  | some [] => some true
  | some _ => none

def strictServerExts (e : Bytes) : Option (Bool × Bytes × Bytes × Bool) :=
  match optExt 5 e with
  | none => none
  | some (o, e1) =>
  match sOcspOf o with
  | none => none
  | some (ocsp, resp) =>
  match optExt 16 e1 with
  | none => none
  | some (a, e2) =>
  match sAlpnOf a with
  | none => none
  | some alpn =>
  match optExt 0 e2 with
  | none => none
  | some (n, e3) =>
  match sAckOf n with
  | none => none
  | some ack => if isNil e3 then some (ocsp, resp, alpn, ack) else none

def strictServerHello (st : Stack) (b : Bytes) : Option (DHdr × ServerHello) :=
  match strictHeader st .serverHello b with
  | none => none
  | some (h, body) =>
  match readW16 body with
  | none => none
  | some (vers, s1) =>
  match readBytes 32 s1 with
  | none => none
  | some (rnd, s2) =>
  match readVec8 s2 with
  | none => none
  | some (sid, s3) =>
  match readW16 s3 with
  | none => none
  | some (suite, s4) =>
  match readU8 s4 with
  | none => none
  | some (cm, s5) =>
  match strictExtBlock s5 with
  | none => none
  | some e =>
  match strictServerExts e with
  | none => none
  | some (ocsp, resp, alpn, ack) =>
    if sid.length ≤ 32 then some (h, ⟨vers, rnd, sid, suite, cm, ocsp, resp, alpn, ack⟩) else none

def strictTA : Parser TA := fun s =>
  match readU8 s with
  | none => none
  | some (ty, r) =>
    if ty == 0 then some (⟨ty, []⟩, r)
    else if ty == 4 || ty == 5 then (match readBytes 32 r with | some (id, r') => some (⟨ty, id⟩, r') | none => none)
    else if ty == 2 then (match nonEmptyVec16 r with | some (id, r') => some (⟨ty, id⟩, r') | none => none)
    else none

/-- the content of one vec16 wrapped in the extension data -/
def inVec16 (d : Bytes) : Option Bytes :=
  match readVec16 d with
  | some (c, []) => if isNil c then none else some c
  | _ => none

structure ClientExts where
  serverName : Bytes := []
  tas : List TA := []
  ocsp : Bool := false
  curves : List W16 := []
  sigAlgs : List W16 := []
  alpn : List Bytes := []
  clientId : Bytes := []

/-- apply `p` to the extension data when present -/
def withExt {α : Type} (o : Option Bytes) (dflt : α) (p : Bytes → Option α) : Option α :=
  match o with
  | none => some dflt
  | some d => p d

def cSniOf (d : Bytes) : Option Bytes :=
  (inVec16 d).bind fun lst =>
    match lst with
    | 0 :: r =>
      (match nonEmptyVec16 r with
       | some (name, []) => if noTrailingDot name then some name else none
       | _ => none)
    | _ => none

def cTasOf (d : Bytes) : Option (List TA) := (inVec16 d).bind fun lst => many strictTA lst.length lst
def cStatusOf (d : Bytes) : Option Bool := if d = [1, 0, 0, 0, 0] then some true else none
def cW16sOf (d : Bytes) : Option (List W16) := (inVec16 d).bind fun lst => many readW16 lst.length lst
def cAlpnOf (d : Bytes) : Option (List Bytes) := (inVec16 d).bind fun lst => many nonEmptyVec8 lst.length lst

def strictClientExts (e : Bytes) : Option ClientExts :=
  match optExt 0 e with
  | none => none
  | some (o1, e1) =>
  match withExt o1 [] cSniOf with
  | none => none
  | some sni =>
  match optExt 3 e1 with
  | none => none
  | some (o2, e2) =>
  match withExt o2 [] cTasOf with
  | none => none
  | some tas =>
  match optExt 5 e2 with
  | none => none
  | some (o3, e3) =>
  match withExt o3 false cStatusOf with
  | none => none
  | some ocsp =>
  match optExt 10 e3 with
  | none => none
  | some (o4, e4) =>
  match withExt o4 [] cW16sOf with
  | none => none
  | some curves =>
  match optExt 13 e4 with
  | none => none
  | some (o5, e5) =>
  match withExt o5 [] cW16sOf with
  | none => none
  | some sigs =>
  match optExt 16 e5 with
  | none => none
  | some (o6, e6) =>
  match withExt o6 [] cAlpnOf with
  | none => none
  | some alpn =>
  match optExt 66 e6 with
  | none => none
  | some (o7, e7) =>
  match withExt o7 [] inVec16 with
  | none => none
  | some cid => if isNil e7 then some ⟨sni, tas, ocsp, curves, sigs, alpn, cid⟩ else none

/-- the DTLCP-only cookie vector of a ClientHello -/
def readCookie (st : Stack) (s : Bytes) : Option (Bytes × Bytes) :=
  match st with
  | .dtlcp => readVec8 s
  | .tlcp => some ([], s)

def strictClientHello (st : Stack) (b : Bytes) : Option (DHdr × ClientHello) :=
  match strictHeader st .clientHello b with
  | none => none
  | some (h, body) =>
  match readW16 body with
  | none => none
  | some (vers, s1) =>
  match readBytes 32 s1 with
  | none => none
  | some (rnd, s2) =>
  match readVec8 s2 with
  | none => none
  | some (sid, s3) =>
  match readCookie st s3 with
  | none => none
  | some (ck, s4) =>
  match nonEmptyVec16 s4 with
  | none => none
  | some (csb, s5) =>
  match many readW16 csb.length csb with
  | none => none
  | some suites =>
  match nonEmptyVec8 s5 with
  | none => none
  | some (cm, s6) =>
  match strictExtBlock s6 with
  | none => none
  | some e =>
  match strictClientExts e with
  | none => none
  | some x =>
    if sid.length ≤ 32 then
      some (h, ⟨vers, rnd, sid, ck, suites, cm, x.serverName, x.tas, x.ocsp, x.curves, x.sigAlgs, x.alpn, x.clientId⟩)
    else none

end Gotlcp.Spec.Codec

/-
Specification for C20, written from the statement of the property and the package
documentation (pa/README.md: "TLCP uses record major version 0x01, TLS 0x03"), not from the
code and not from the regenerated facts.

* routing is a function of the *first record's* major version byte (the second byte of the
  client's stream) and of which configurations the listener holds;
* the stack that serves the connection reads the client's byte stream from its first byte:
  what it has read so far is always a prefix of what the client sent, and once it is told
  end-of-stream it has read everything;
* fewer than five bytes before the client goes away: an error, never a served connection.

Core Lean only.
-/
import Gotlcp.Base.Hex

namespace Gotlcp.Spec.PA

inductive Verdict where
  | tlcp | tls | unsupported | config
  deriving Repr, DecidableEq

/-- documented dispatch -/
def route (hasTLCP hasTLS : Bool) (major : UInt8) : Verdict :=
  if major = 0x01 then (if hasTLCP then .tlcp else .config)
  else if major = 0x03 then (if hasTLS then .tls else .config)
  else .unsupported

/-- length of a record header: type(1) version(2) length(2) -/
def recordHeaderLen : Nat := 5

/-- the verdict for a whole client stream: `none` when the client sent fewer than five
bytes (no first record header exists) -/
def routeOfStream (hasTLCP hasTLS : Bool) (sent : Bytes) : Option Verdict :=
  if sent.length < recordHeaderLen then none
  else match sent[1]? with
    | some v => some (route hasTLCP hasTLS v)
    | none => none

def isPrefix : Bytes → Bytes → Bool
  | [], _ => true
  | _ :: _, [] => false
  | a :: as, b :: bs => a == b && isPrefix as bs

/-- the stream clause: `got` is what the serving stack has read, `sawEOF` whether it was told
end-of-stream -/
def streamOK (sent got : Bytes) (sawEOF : Bool) : Bool :=
  isPrefix got sent && (!sawEOF || got == sent)

end Gotlcp.Spec.PA

/-
Specification of handshake-message reassembly, written from the property statement and
RFC 6347 §4.2.3 (not from the code): coverage is a *set of byte indices*.

A message of announced length `n` is rebuilt from fragments `(offset, length, bytes)`:
  * a fragment is admissible iff `offset + length ≤ n`; others are rejected and change nothing;
  * byte index `i < n` is covered iff some admissible fragment has `offset ≤ i < offset+length`;
  * the message is complete iff every index `< n` is covered (so an empty message is
    complete from the start);
  * when complete, byte `i` of the message is the byte some admissible covering fragment
    carries for `i` (the latest one, when fragments disagree — disagreement is outside the
    property and is only reported).
Documented constants (literals here on purpose): 12-byte header, handshake messages of at
most 65536 bytes, at most 256 fragment iterations per message.
-/
import Gotlcp.Base.Hex

namespace Gotlcp.Spec.FragmentSpec

structure Frag where
  off : Nat
  len : Nat
  body : Bytes
deriving Repr, DecidableEq

def Frag.admissible (n : Nat) (f : Frag) : Bool := f.off + f.len ≤ n

def Frag.covers (f : Frag) (i : Nat) : Bool := f.off ≤ i && i < f.off + f.len

/-- index `i` is covered by an admissible fragment -/
def covered (n : Nat) (fs : List Frag) (i : Nat) : Bool :=
  fs.any fun f => f.admissible n && f.covers i

/-- every byte index below `n` is covered -/
def isComplete (n : Nat) (fs : List Frag) : Bool := (List.range n).all (covered n fs)

/-- the byte the latest admissible covering fragment carries for index `i` -/
def byteAt (n : Nat) (fs : List Frag) (i : Nat) : Option UInt8 :=
  (fs.reverse.find? fun f => f.admissible n && f.covers i).bind fun f => f.body[i - f.off]?

/-- the rebuilt message, if complete -/
def rebuilt (n : Nat) (fs : List Frag) : Option Bytes :=
  if isComplete n fs then (List.range n).mapM (byteAt n fs) else none

/-- all admissible fragments carry exactly `len` bytes and agree on every byte they share -/
def consistent (n : Nat) (fs : List Frag) : Bool :=
  let adm := fs.filter (·.admissible n)
  adm.all (fun f => f.body.length == f.len) &&
  adm.all fun f => adm.all fun g =>
    (List.range f.len).all fun j =>
      let i := f.off + j
      !(g.covers i) || f.body[j]? == g.body[i - g.off]?

/-- the documented limits -/
def maxHandshake : Nat := 65536
def maxFragmentIterations : Nat := 256
def headerLen : Nat := 12

/-- what a well-formed handshake message looks like: 12-byte header whose length field and
fragment_length both equal the body length, fragment_offset 0 -/
def wellFormedMessage (d : Bytes) : Bool :=
  let u24 (i : Nat) : Nat := (d.getD i 0).toNat * 65536 + (d.getD (i+1) 0).toNat * 256 + (d.getD (i+2) 0).toNat
  d.length ≥ 12 && u24 1 == d.length - 12 && u24 6 == 0 && u24 9 == d.length - 12

end Gotlcp.Spec.FragmentSpec

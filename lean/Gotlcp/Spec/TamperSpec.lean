/-
Spec of C03, written from the statement of the property (not from the code, no `Facts`):

  "If anything in a handshake is altered, dropped, duplicated, reordered, truncated or injected
   in transit, it is never the case that both endpoints complete unless they hold identical
   views: same version, suite, session id, application protocol, both Finished values and peer
   certificates, equal to what the untampered handshake would have negotiated.  Both can
   complete only when the handshake messages and change-cipher-spec signal each accepted are
   byte for byte those the other sent.  No tampering makes either endpoint panic."

Two forms:
  * symbolic (`SameTranscript`, `View`, `Views`) — what the theorems of `Props/C03.lean` prove
    about the model for every attacker;
  * executable on an observation of two real endpoints (`ObsView`, `judgeObs`) — what the
    oracle evaluates on every line the driver wrote.
Core Lean only.
-/
import Gotlcp.Base.Hex

namespace Gotlcp.Spec.Tamper

/-! ### symbolic form -/

/-- what an endpoint wrote and what it accepted, in order (handshake messages and the
ChangeCipherSpec signal) -/
structure EndpointLog (α : Type) where
  sent : List α
  accepted : List α

/-- each side accepted exactly what the other sent, in the same order -/
def SameTranscript {α : Type} (c s : EndpointLog α) : Prop :=
  c.accepted = s.sent ∧ s.accepted = c.sent

/-- an endpoint's conclusions.  Version, suite, session id and application protocol are fields
of the two hello messages; the peer certificates are the Certificate messages; `master` stands
for the session (a resumed handshake takes the certificates recorded with it). -/
structure View (M F S : Type) where
  clientHello : Option M
  serverHello : Option M
  serverCertificate : Option M
  clientCertificate : Option M
  clientFinished : Option F
  serverFinished : Option F
  master : Option S

/-- identical views -/
def Views {M F S : Type} (c s : View M F S) : Prop := c = s

/-! ### executable form, on the observation of two real endpoints

A view is printed by the driver as
`vers.suite.sid.alpn.resumed.clientFinished.serverFinished.peerCerts.ownCerts`
(`-` = not recorded / none). -/

structure ObsView where
  vers : String
  suite : String
  sid : String
  alpn : String
  resumed : String
  cfin : String
  sfin : String
  peer : String
  own : String
deriving Repr, DecidableEq

/-- split on dots; the ALPN name may itself contain dots, so the first three and the last five
fields are taken from the ends -/
def parseView (s : String) : Option ObsView :=
  let p := s.splitOn "."
  if p.length < 9 then none else
  let tail := p.drop (p.length - 5)
  let mid := (p.drop 3).take (p.length - 8)
  match p, tail with
  | v :: su :: si :: _, [r, cf, sf, pe, ow] =>
    some { vers := v, suite := su, sid := si, alpn := ".".intercalate mid, resumed := r,
           cfin := cf, sfin := sf, peer := pe, own := ow }
  | _, _ => none

/-- the untampered run: `vers.suite.alpn.resumed.servercerts` -/
structure ObsNego where
  vers : String
  suite : String
  alpn : String
  resumed : String
  cert : String
deriving Repr, DecidableEq

def parseNego (s : String) : Option ObsNego :=
  let p := s.splitOn "."
  if p.length < 5 then none else
  match p with
  | v :: su :: rest =>
    let n := rest.length
    some { vers := v, suite := su, alpn := ".".intercalate (rest.take (n - 2)),
           resumed := (rest.drop (n - 2)).headD "", cert := rest.getLast?.getD "" }
  | _ => none

/-- a Finished value is compared when both endpoints recorded it -/
def finAgree (a b : String) : Bool := a == "-" || b == "-" || a == b

/-- first field that differs between the two views, if any -/
def viewsDiffer (c s : ObsView) : Option String :=
  if c.vers != s.vers then some "version"
  else if c.suite != s.suite then some "suite"
  else if c.sid != s.sid || c.sid == "-" then some "session_id"
  else if c.alpn != s.alpn then some "alpn"
  else if c.resumed != s.resumed then some "resumed"
  else if !finAgree c.cfin s.cfin then some "client_finished"
  else if !finAgree c.sfin s.sfin then some "server_finished"
  else if c.peer != s.own then some "server_certificates"
  else if s.peer != c.own then some "client_certificates"
  else none

def negoDiffers (v : ObsView) (b : ObsNego) : Option String :=
  if v.vers != b.vers then some "version"
  else if v.suite != b.suite then some "suite"
  else if v.alpn != b.alpn then some "alpn"
  else if v.resumed != b.resumed then some "resumed"
  else if v.peer != b.cert then some "server_certificates"
  else none

/-- the property on one observation: `some (tag, reason)` when it fails -/
def judgeObs (panic : Bool) (cv sv : Option ObsView) (cDone sDone : Bool) (base : Option ObsNego)
    (alteredAccepted : Option String := none) (injectedTaken : Option String := none) : Option (String × String) :=
  if panic then some ("panic", "an endpoint panicked") else
  if cDone && sDone then
    -- both completed although a handshake message / change-cipher-spec signal that the peer never
    -- sent was put into the byte stream in front of items the reader still had to take: on a
    -- stream every item delivered is taken in order (only a datagram endpoint may discard), so the
    -- items that endpoint took are not, item for item, those the other sent
    match injectedTaken with
    | some what => some ("injected-accepted", s!"both completed although {what} was injected in transit before the end of the reader's handshake")
    | none =>
    -- both completed although an authenticated item (handshake message, change-cipher-spec signal)
    -- was altered in transit, or removed, and the sender never wrote another copy of it: what was
    -- accepted is not byte for byte what was sent (`what` says which item and what happened to it)
    match alteredAccepted with
    | some what => some ("altered-accepted", s!"both completed although {what} in transit and no other copy of it was sent")
    | none =>
    match cv, sv with
    | some c, some s =>
      match viewsDiffer c s with
      | some w => some ("views-differ", s!"both endpoints completed with different {w}")
      | none =>
        match base with
        | none => some ("no-baseline", "no untampered negotiation to compare with")
        | some b =>
          match negoDiffers c b with
          | some w => some ("downgrade", s!"both completed but {w} differs from the untampered handshake")
          | none => none
    | _, _ => some ("shape", "both completed but a view is missing")
  else none

end Gotlcp.Spec.Tamper

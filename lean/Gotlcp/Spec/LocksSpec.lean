/-
Spec side of C13, written from the net.Conn / net.PacketConn contract and the property text,
not from the code:

* "the payload of each Write appears contiguously and exactly once in the peer's stream":
  `WholeInterleaving stream payloads` — the stream is the concatenation of SOME ordering of
  the payloads, each as one whole block.  `isWholeInterleaving` is the executable checker the
  oracle runs on the REAL peer stream; it is proved sound and complete in `Props/C13.lean`.
* "bytes are neither lost nor duplicated among concurrent readers": the very same relation
  with the roles swapped — the stream that was sent is a whole interleaving of the chunks the
  readers got.
* datagrams: every received datagram is one of the sent ones, whole, and none more often than
  it was sent (`atMostOnce`).
* "every caller of Handshake observes the same result": `allSame`.
Core Lean only.
-/
namespace Gotlcp.Spec.Locks

/-- `stream` is the concatenation of a permutation of `payloads` -/
def WholeInterleaving {α : Type} (stream : List α) (payloads : List (List α)) : Prop :=
  ∃ order : List (List α), order.Perm payloads ∧ stream = order.flatten

/-- backtracking search: pick any payload that is a prefix of what is left of the stream -/
def wholeAux {α : Type} [BEq α] : Nat → List (List α) → List α → Bool
  | 0, ps, s => ps.isEmpty && s.isEmpty
  | fuel + 1, ps, s =>
    if ps.isEmpty then s.isEmpty
    else ps.any (fun p => p.isPrefixOf s && wholeAux fuel (ps.erase p) (s.drop p.length))

def isWholeInterleaving {α : Type} [BEq α] (stream : List α) (payloads : List (List α)) : Bool :=
  wholeAux payloads.length payloads stream

/-- every element of `received` occurs in `sent` at least as often -/
def atMostOnce {α : Type} [BEq α] (received sent : List α) : Bool :=
  received.all (fun d => received.count d ≤ sent.count d)

def allSame {α : Type} [BEq α] : List α → Bool
  | [] => true
  | x :: xs => xs.all (· == x)

end Gotlcp.Spec.Locks

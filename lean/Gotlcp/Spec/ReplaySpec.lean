/-
Spec for C16, written from the property statement and RFC 6347 §4.1.2.6 — not from
`replay.go`, and independent of `Gotlcp.Facts` (the documented constants 32 and 64 are
literals here, because when a fact moves it is this file that judges the implementation).

State: the set `seen` of sequence numbers accepted so far (a list used as a set).
`newest seen` is the largest of them (0 before anything was accepted).

A sequence number `s` is accepted iff it has not been accepted before and it is newer than
every accepted one or lies less than `W` behind the newest one.

The effective window `W` the property demands: never smaller than 32, never smaller than the
configured size up to 64, i.e. `W ≥ clamp configured`.  `accept` with `W = clamp configured`
is the *reference* the model is proved equal to; `judge` is the (weaker) *property*: a
replay must never be accepted, and a fresh number inside the demanded window must be
accepted — a fresh number further behind may go either way.

Core Lean only.
-/
namespace Gotlcp.Spec.ReplaySpec

def newest : List Nat → Nat
  | [] => 0
  | x :: xs => max x (newest xs)

/-- reference acceptance rule for a window of `W` sequence numbers -/
def accept (W : Nat) (seen : List Nat) (s : Nat) : Bool :=
  !seen.contains s && (decide (s > newest seen) || decide (newest seen - s < W))

def step (W : Nat) (seen : List Nat) (s : Nat) : List Nat × Bool :=
  if accept W seen s then (s :: seen, true) else (seen, false)

/-- the reference answers for a delivery history -/
def run (W : Nat) (seen : List Nat) : List Nat → List Nat × List Bool
  | [] => (seen, [])
  | s :: ss =>
    let (seen1, b) := step W seen s
    let (seen2, bs) := run W seen1 ss
    (seen2, b :: bs)

/-- `clamp(n, 32, 64)`: the smallest effective window the property allows for a window
created for size `n` -/
def clamp (n : Int) : Nat :=
  if n < 32 then 32 else if n > 64 then 64 else n.toNat

/-- `Config.ReplayWindow` is documented as "default 64, minimum 32": values ≤ 0 select 64 -/
def docWindow (configured : Int) : Nat :=
  if configured ≤ 0 then 64 else clamp configured

/-- The property on an observed history `(sequence number, was it accepted)`: returns the first
violation as `(tag, reason)`.
  * `replay-accepted` — a number accepted before is accepted again;
  * `fresh-rejected`  — a number never accepted, newer than all accepted ones or less than
                         `Wmin` behind the newest, is refused. -/
def judgeFrom (Wmin : Nat) : Nat → List Nat → List (Nat × Bool) → Option (String × String)
  | _, _, [] => none
  | i, seen, (s, b) :: rest =>
    if b && seen.contains s then
      some ("replay-accepted", s!"delivery {i}: sequence number {s} accepted although it was accepted before")
    else if !b && !seen.contains s && (decide (s > newest seen) || decide (newest seen - s < Wmin)) then
      some ("fresh-rejected", s!"delivery {i}: fresh sequence number {s} refused although newest accepted is {newest seen} and the window must cover {Wmin}")
    else judgeFrom Wmin (i + 1) (if b then s :: seen else seen) rest

def judge (Wmin : Nat) (obs : List (Nat × Bool)) : Option (String × String) := judgeFrom Wmin 0 [] obs

/-! ### delivery level (receive paths)

The history is described by what the *peer* and the *network* did and by what the receiving
application got — not by what the receiver computes.

`arrive`: the network put a datagram into the receiver's socket: `genuine s bytes` is the
application record the peer protected under sequence number `s` with payload `bytes`,
`close s` the peer's close_notify alert, `forged` anything else (a modified copy, a record
with a rewritten header, junk, a datagram from another address).

`call`: the application made one read call — `stream = true` for `Read` (a byte stream: a
buffer smaller than the record leaves the rest for the next `Read`), `false` for `ReadFrom`
(one record per call, what does not fit is discarded).  `bytes` is what the call handed
over, `fin` how it ended (`ok`, or nothing more available / end of stream / error — possibly
together with bytes), `stateChanged` whether the replay state (epoch, right edge, bitmap)
differs from before the call.

The socket is first-in first-out and a call works through it in order, so a call that hands
over (the beginning of) record X has consumed everything that arrived before X, and a call
that ends with `nothing` has consumed everything that arrived. -/

inductive RxItem where
  | genuine (seq : Nat) (payload : List Nat)
  | close (seq : Nat)
  | forged
deriving Repr, DecidableEq

inductive Fin where
  | ok | nothing | eof | error
deriving Repr, DecidableEq

inductive Ev where
  | arrive (it : RxItem)
  | call (stream : Bool) (bytes : Option (List Nat)) (fin : Fin) (stateChanged : Bool)
deriving Repr

structure RxJudge where
  seen : List Nat                    -- sequence numbers accepted so far (0 = the peer's Finished)
  pend : List (RxItem × Bool)        -- arrived and not known to be consumed, oldest first; the flag:
                                     -- a stream call was made since it arrived
  opened : List (Nat × List Nat)     -- records partly handed over by stream calls: (seq, bytes still to come)
  owed : List (Nat × List Nat)       -- records a stream call may hold back for the next stream call (see `consume`)
  held : List (Nat × List Nat)       -- the same for records that need not, but may, be accepted
  done : List (List Nat)             -- payloads (partly) handed over so far
  closed : Bool                      -- a stream call accepted the peer's close_notify
  forgedBefore : Bool

def isPrefix : List Nat → List Nat → Bool
  | [], _ => true
  | _ :: _, [] => false
  | a :: as, b :: bs => a == b && isPrefix as bs

def isInfix (xs : List Nat) : List Nat → Bool
  | [] => xs.isEmpty
  | b :: bs => isPrefix xs (b :: bs) || isInfix xs bs

/-- a genuine record that must be handed over when it is reached: never accepted, newer than
everything accepted or less than `Wmin` behind the newest (a stream call after the accepted
close_notify owes nothing) -/
def due (Wmin : Nat) (j : RxJudge) (stream : Bool) (s : Nat) : Bool :=
  !j.seen.contains s && (decide (s > newest j.seen) || decide (newest j.seen - s < Wmin)) && !(j.closed && stream)

def dropMsg (i : Nat) (j : RxJudge) (Wmin s : Nat) : String :=
  s!"call {i}: genuine fresh record {s} not handed over (newest accepted {newest j.seen}, window must cover {Wmin})"

/-- The datagrams `ds` were passed over by call `i` (it handed over something that arrived
later, or found nothing more).  A due record among them is a violation — except that a stream
call made after the record arrived may already have taken it out of the socket and keep it
for the NEXT stream call (a stream may read ahead); then a datagram call does not see it.  Such
a record counts as accepted now and is `owed`: the next stream call must begin with it. -/
def consume (Wmin i : Nat) (stream : Bool) : RxJudge → List (RxItem × Bool) → Except (String × String) RxJudge
  | j, [] => .ok j
  | j, (.genuine s pl, sawStream) :: rest =>
    if due Wmin j stream s then
      if !stream && sawStream then consume Wmin i stream { j with seen := s :: j.seen, owed := j.owed ++ [(s, pl)] } rest
      else .error ("fresh-rejected", dropMsg i j Wmin s)
    else if !stream && sawStream && !j.seen.contains s then consume Wmin i stream { j with held := j.held ++ [(s, pl)] } rest
    else consume Wmin i stream j rest
  | j, _ :: rest => consume Wmin i stream j rest

def isForged : RxItem → Bool
  | .forged => true
  | _ => false

/-- split the pending datagrams at the first one satisfying `f`: (before, it, after) -/
def splitAt (f : RxItem → Bool) : List (RxItem × Bool) → Option (List (RxItem × Bool) × RxItem × List (RxItem × Bool))
  | [] => none
  | x :: xs => if f x.1 then some ([], x.1, xs) else (splitAt f xs).map fun (b, y, a) => (x :: b, y, a)

/-- bytes `bs` handed over by a stream call: the continuation (or, for `owed`, the beginning)
of one of the listed records?  Returns the list without / with the shortened entry and what
is still to come of that record. -/
def takeFrom (bs : List Nat) : List (Nat × List Nat) → Option (List (Nat × List Nat) × Nat × List Nat)
  | [] => none
  | (s, rem) :: rest =>
    if !bs.isEmpty && isPrefix bs rem then some (rest, s, rem.drop bs.length)
    else (takeFrom bs rest).map fun (l, s', r') => ((s, rem) :: l, s', r')

/-- a call ended without (further) bytes: `nothing` / `eof` / `error` -/
def judgeFin (Wmin i : Nat) (j : RxJudge) (stream : Bool) (fin : Fin) (changed : Bool) :
    Except (String × String) RxJudge :=
  if fin != .ok && stream && !j.owed.isEmpty then
    .error ("fresh-rejected", s!"call {i}: a genuine fresh record taken out of the socket earlier was not handed over")
  else
  match fin with
  | .ok => .ok j
  | .nothing =>
    -- everything that arrived has been consumed
    match consume Wmin i stream j j.pend with
    | .error e => .error e
    | .ok j' =>
      if changed && !j.pend.isEmpty && j.pend.all (fun x => isForged x.1) then
        .error ("forged-changed-state", s!"call {i}: forged datagrams changed the replay state")
      else .ok { j' with pend := [] }
  | .eof =>
    if j.closed && stream then .ok j else
    match splitAt (fun it => match it with | .close s => !j.seen.contains s | _ => false) j.pend with
    | some (before, .close s, after) =>
      match consume Wmin i stream j before with
      | .error e => .error e
      | .ok j' => .ok { j' with seen := s :: j'.seen, pend := after, closed := j'.closed || stream }
    | _ =>
      if j.pend.any (fun x => match x.1 with | .close _ => true | _ => false) then
        .error ("delivered-twice", s!"call {i}: replayed close_notify accepted again")
      else if j.pend.any (fun x => isForged x.1) then
        .error ("forged-fatal", s!"call {i}: a forged datagram ended the stream")
      else match consume Wmin i stream j j.pend with
        | .error e => .error e
        | .ok _ => .ok j
  | .error =>
    if j.pend.any (fun x => isForged x.1) then
      .error ("forged-fatal", s!"call {i}: a forged datagram made the read call fail")
    else match consume Wmin i stream j j.pend with
      | .error e =>
        if j.forgedBefore then
          .error ("forged-fatal", s!"call {i}: a genuine fresh record is refused with an error after a forged datagram")
        else .error e
      | .ok j' => .ok { j' with pend := [] }

/-- The property on an observed history.
  * `forged-delivered`      — bytes no record of the peer accounts for were handed over while a
                              forged datagram was waiting;
  * `forged-fatal`          — a forged datagram made a call fail or ended the stream, or a fresh
                              genuine record after it is refused with an error;
  * `forged-changed-state`  — a call that consumed only forged datagrams changed the replay state;
  * `not-sent`              — the bytes handed over are neither the continuation of a record
                              partly handed over nor the beginning of a record that arrived;
  * `delivered-twice`       — bytes of a record already handed over are handed over again;
  * `fresh-rejected`        — a genuine record, never accepted, newer than all accepted ones or
                              less than `Wmin` behind the newest, was consumed without being
                              handed over. -/
def judgeEvs (Wmin : Nat) : Nat → RxJudge → List Ev → Option (String × String)
  | _, _, [] => none
  | i, j, .arrive it :: rest =>
    judgeEvs Wmin i { j with pend := j.pend ++ [(it, false)], forgedBefore := j.forgedBefore || isForged it } rest
  | i, j, .call stream bytes fin changed :: rest =>
    let next (r : Except (String × String) RxJudge) : Option (String × String) :=
      match r with
      | .error e => some e
      | .ok j' => judgeEvs Wmin (i + 1) (if stream then { j' with pend := j'.pend.map fun x => (x.1, true) } else j') rest
    match bytes with
    | none => next (judgeFin Wmin i j stream fin changed)
    | some bs =>
      -- a stream call: first what an earlier stream call holds back, then the rest of a record partly handed over
      match (if stream then takeFrom bs j.owed else none) with
      | some (owed', s, rem) =>
        next (judgeFin Wmin i { j with owed := owed', opened := if rem.isEmpty then j.opened else j.opened ++ [(s, rem)],
                                       done := (bs ++ rem) :: j.done } stream fin changed)
      | none =>
      if stream && !j.owed.isEmpty && !bs.isEmpty then
        some ("fresh-rejected", s!"call {i}: a genuine fresh record taken out of the socket earlier was not handed over")
      else
      match (if stream then takeFrom bs j.opened else none) with
      | some (opened', s, rem) =>
        next (judgeFin Wmin i { j with opened := if rem.isEmpty then opened' else opened' ++ [(s, rem)] } stream fin changed)
      | none =>
      match (if stream then takeFrom bs (j.held.filter fun x => !j.seen.contains x.1) else none) with
      | some (_, s, rem) =>
        next (judgeFin Wmin i { j with seen := s :: j.seen, opened := if rem.isEmpty then j.opened else j.opened ++ [(s, rem)],
                                       done := (bs ++ rem) :: j.done } stream fin changed)
      | none =>
        -- the beginning of a record that arrived and was never accepted
        let fresh (it : RxItem) : Bool := match it with
          | .genuine s pl => !j.seen.contains s && isPrefix bs pl && (!bs.isEmpty || !stream)
          | _ => false
        match splitAt fresh j.pend with
        | some (before, .genuine s pl, after) =>
          match consume Wmin i stream j before with
          | .error e => some e
          | .ok j' =>
            let opened' := if stream && bs.length < pl.length then j'.opened ++ [(s, pl.drop bs.length)] else j'.opened
            next (judgeFin Wmin i { j' with seen := s :: j'.seen, pend := after, opened := opened', done := pl :: j'.done }
                    stream fin changed)
        | _ =>
          if bs.isEmpty && stream then next (judgeFin Wmin i j stream fin changed)
          else if j.done.any (isInfix bs) ||
              j.pend.any (fun x => match x.1 with | .genuine s pl => j.seen.contains s && isPrefix bs pl | _ => false) then
            some ("delivered-twice", s!"call {i}: bytes of a record already handed over are handed over again")
          else if j.pend.any (fun x => isForged x.1) then
            some ("forged-delivered", s!"call {i}: a forged datagram made the application receive bytes the peer did not send")
          else some ("not-sent", s!"call {i}: the bytes handed over are neither the rest of a record partly handed over nor the beginning of a record that arrived")

def judgeRx (Wmin : Nat) (evs : List Ev) : Option (String × String) :=
  judgeEvs Wmin 0 { seen := [0], pend := [], opened := [], owed := [], held := [], done := [], closed := false, forgedBefore := false } evs

end Gotlcp.Spec.ReplaySpec

/-
Spec for C16, written from the property statement and RFC 6347 §4.1.2.6 — not from
`replay.go`, and independent of `Gotlcp.Facts` (the documented constants 32 and 64 are
literals here, because when a fact moves it is this file that judges the implementation).

State: the set `seen` of sequence numbers accepted so far (a list used as a set).
`newest seen` is the largest of them (0 before anything was accepted).

A sequence number `s` is accepted iff it has not been accepted before and it is newer than
every accepted one or lies less than `W` behind the newest one.

The effective window `W` the property demands: never smaller than 32, never smaller than the
configured size up to 64, i.e. `W ≥ clamp configured`.  `accept` with `W = clamp configured`
is the *reference* the model is proved equal to; `judge` is the (weaker) *property*: a
replay must never be accepted, and a fresh number inside the demanded window must be
accepted — a fresh number further behind may go either way.

Core Lean only.
-/
namespace Gotlcp.Spec.ReplaySpec

def newest : List Nat → Nat
  | [] => 0
  | x :: xs => max x (newest xs)

/-- reference acceptance rule for a window of `W` sequence numbers -/
def accept (W : Nat) (seen : List Nat) (s : Nat) : Bool :=
  !seen.contains s && (decide (s > newest seen) || decide (newest seen - s < W))

def step (W : Nat) (seen : List Nat) (s : Nat) : List Nat × Bool :=
  if accept W seen s then (s :: seen, true) else (seen, false)

/-- the reference answers for a delivery history -/
def run (W : Nat) (seen : List Nat) : List Nat → List Nat × List Bool
  | [] => (seen, [])
  | s :: ss =>
    let (seen1, b) := step W seen s
    let (seen2, bs) := run W seen1 ss
    (seen2, b :: bs)

/-- `clamp(n, 32, 64)`: the smallest effective window the property allows for a window
created for size `n` -/
def clamp (n : Int) : Nat :=
  if n < 32 then 32 else if n > 64 then 64 else n.toNat

/-- `Config.ReplayWindow` is documented as "default 64, minimum 32": values ≤ 0 select 64 -/
def docWindow (configured : Int) : Nat :=
  if configured ≤ 0 then 64 else clamp configured

/-- The property on an observed history `(sequence number, was it accepted)`: returns the first
violation as `(tag, reason)`.
  * `replay-accepted` — a number accepted before is accepted again;
  * `fresh-rejected`  — a number never accepted, newer than all accepted ones or less than
                         `Wmin` behind the newest, is refused. -/
def judgeFrom (Wmin : Nat) : Nat → List Nat → List (Nat × Bool) → Option (String × String)
  | _, _, [] => none
  | i, seen, (s, b) :: rest =>
    if b && seen.contains s then
      some ("replay-accepted", s!"delivery {i}: sequence number {s} accepted although it was accepted before")
    else if !b && !seen.contains s && (decide (s > newest seen) || decide (newest seen - s < Wmin)) then
      some ("fresh-rejected", s!"delivery {i}: fresh sequence number {s} refused although newest accepted is {newest seen} and the window must cover {Wmin}")
    else judgeFrom Wmin (i + 1) (if b then s :: seen else seen) rest

def judge (Wmin : Nat) (obs : List (Nat × Bool)) : Option (String × String) := judgeFrom Wmin 0 [] obs

/-! ### delivery level (receive path)

What the network delivered is described by what the *peer* did, not by what the receiver
computes: `genuine s` is the application record the peer protected under sequence number `s`
(its payload is identified with `s`), `close s` the peer's close_notify alert, `forged`
anything else (a modified copy, a record with a rewritten header, junk, a datagram from
another address).  `out` is what the receiving application got from its call, and
`stateChanged` whether the replay state (epoch, right edge, bitmap) differs from before the
call. -/

inductive RxItem where
  | genuine (seq : Nat)
  | close (seq : Nat)
  | forged
deriving Repr, DecidableEq

inductive RxOut where
  | data (id : Nat)
  | nothing
  | eof
  | error
deriving Repr, DecidableEq

structure RxObs where
  item : RxItem
  out : RxOut
  stateChanged : Bool
deriving Repr

structure RxJudge where
  seen : List Nat          -- sequence numbers accepted so far (0 = the peer's Finished)
  closed : Bool            -- the peer's close_notify has been accepted
  forgedBefore : Bool

/-- The property on an observed delivery history.
  * `forged-delivered`      — a forged datagram made the application receive something;
  * `forged-fatal`          — a forged datagram made the call fail, or a fresh genuine record
                              after it is refused with an error;
  * `forged-changed-state`  — a forged datagram changed the replay state;
  * `not-sent`              — the application received a payload other than the one the peer
                              put into that record;
  * `delivered-twice`       — a record already handed over is handed over again;
  * `fresh-rejected`        — a genuine record, never accepted, newer than all accepted ones or
                              less than `Wmin` behind the newest, is not handed over.
`streamPath` = the `Read` path, where an accepted close_notify legitimately ends delivery. -/
def judgeRxFrom (Wmin : Nat) (streamPath : Bool) : Nat → RxJudge → List RxObs → Option (String × String)
  | _, _, [] => none
  | i, j, o :: rest =>
    match o.item with
    | .forged =>
      match o.out with
      | .data id => some ("forged-delivered", s!"delivery {i}: a forged datagram made the application receive payload {id}")
      | .error => some ("forged-fatal", s!"delivery {i}: a forged datagram made the read call fail")
      | out =>
        -- after the peer's close_notify was accepted the stream path answers every call with EOF
        if out == .eof && !(j.closed && streamPath) then
          some ("forged-fatal", s!"delivery {i}: a forged datagram ended the stream")
        else if o.stateChanged then some ("forged-changed-state", s!"delivery {i}: a forged datagram changed the replay state")
        else judgeRxFrom Wmin streamPath (i + 1) { j with forgedBefore := true } rest
    | .genuine s =>
      match o.out with
      | .data id =>
        if id != s then some ("not-sent", s!"delivery {i}: record {s} handed over as payload {id}")
        else if j.seen.contains s then some ("delivered-twice", s!"delivery {i}: record {s} handed to the application a second time")
        else judgeRxFrom Wmin streamPath (i + 1) { j with seen := s :: j.seen } rest
      | out =>
        let due := !j.seen.contains s && (decide (s > newest j.seen) || decide (newest j.seen - s < Wmin))
                    && !(j.closed && streamPath)
        if due then
          if j.forgedBefore && out == .error then
            some ("forged-fatal", s!"delivery {i}: genuine fresh record {s} refused with an error after a forged datagram")
          else some ("fresh-rejected", s!"delivery {i}: genuine fresh record {s} not handed over (newest accepted {newest j.seen}, window must cover {Wmin})")
        else judgeRxFrom Wmin streamPath (i + 1) j rest
    | .close s =>
      match o.out with
      | .data id => some ("not-sent", s!"delivery {i}: the close_notify record handed over as payload {id}")
      | .eof =>
        if j.seen.contains s && !(j.closed && streamPath) then
          some ("delivered-twice", s!"delivery {i}: replayed close_notify {s} accepted again")
        else judgeRxFrom Wmin streamPath (i + 1) { j with seen := if j.seen.contains s then j.seen else s :: j.seen, closed := true } rest
      | _ => judgeRxFrom Wmin streamPath (i + 1) j rest

def judgeRx (Wmin : Nat) (streamPath : Bool) (obs : List RxObs) : Option (String × String) :=
  judgeRxFrom Wmin streamPath 0 { seen := [0], closed := false, forgedBefore := false } obs

end Gotlcp.Spec.ReplaySpec

/-
Spec of property C02, written from the property statement (and GB/T 38636-2020 6.4.5), not
from the code and not from `Gotlcp.Facts`:

  "A client that has not disabled verification completes a handshake only with a peer that
   presented a signing and an encryption certificate which both chain to a configured root,
   are valid at the configured time and (when a server name is configured) are valid for
   that name, and that proved possession of the signing key by a valid signature over this
   handshake's two random values and its key-exchange parameters, and of the key-exchange
   private key by a correct Finished.  With certificate verification disabled the two proofs
   of possession are still required; when a session is resumed, the certificates recorded
   with it must pass the same checks under the configuration now in use.  In every other case
   the client's handshake returns an error and it never reports completion or delivers data."

`Evidence` is what an observer who is *not* the client establishes about the peer (the
correspondence harness computes it with the real libraries: it runs smx509 path validation
itself, verifies the ServerKeyExchange signature itself over the randoms and parameters it saw
on the wire, and knows whether the peer could produce the right Finished).

The optional user callbacks of the client's configuration (`VerifyPeerCertificate`,
`VerifyConnection`) do not appear here, on purpose: the statement gives them no role.  What
user code answers is no evidence about the peer — a callback may make the client refuse a peer
the statement would let through (then the handshake returned an error and the first clause of
`judge` applies), it can never excuse a completion the statement forbids.  So the judgement of a
connection is the same whatever callbacks the client had installed.

Core Lean only.
-/
namespace Gotlcp.Spec.ClientAuthn

/-- what is established about the peer of one full handshake -/
structure Evidence where
  /-- certificates presented -/
  certCount        : Nat
  /-- signing certificate: chains to a configured root ∧ valid at the configured time ∧ valid
  for the configured server name (when one is configured) -/
  sigChainOK       : Bool
  /-- the same for the encryption certificate -/
  encChainOK       : Bool
  /-- the signed key-exchange message was received -/
  skxPresent       : Bool
  /-- its signature verifies with the signing certificate's key over THIS handshake's client
  random ‖ server random ‖ key-exchange parameters -/
  sigValidOverThis : Bool
  /-- the peer's Finished is the correct one for this handshake's master secret and transcript -/
  finishedCorrect  : Bool
  /-- the peer holds the private key that belongs to the encryption certificate it presented (the
  "key-exchange private key").  Ground truth about the peer, known to whoever set the peer up;
  the client never learns it directly — the Finished is supposed to be the proof.  `true` when
  nothing is known to the contrary. -/
  kexKeyHeld       : Bool := true
  deriving DecidableEq, Repr

/-- what is established when a cached session is resumed -/
structure SessionEvidence where
  certCount       : Nat
  /-- recorded signing / encryption certificate passes the checks under the configuration NOW in use -/
  sigChainNow     : Bool
  encChainNow     : Bool
  /-- the peer's Finished is the correct one for the master secret OF THE SESSION being resumed
  (the one agreed in the handshake that recorded the certificates) and this transcript: that is
  what ties the peer to the authenticated party.  A Finished that is merely consistent with
  whatever value the client computes with — an empty or all-zero buffer, say — proves nothing. -/
  finishedCorrect : Bool
  deriving DecidableEq, Repr

/-- the two proofs of possession: required whether or not certificates are verified -/
def ProofsOfPossession (e : Evidence) : Prop :=
  e.skxPresent = true ∧ e.sigValidOverThis = true ∧ e.finishedCorrect = true

/-- the statement's conjunction for a full handshake; `verifying` = not InsecureSkipVerify -/
def Authenticated (verifying : Bool) (e : Evidence) : Prop :=
  2 ≤ e.certCount ∧
  (verifying = true → e.sigChainOK = true ∧ e.encChainOK = true) ∧
  ProofsOfPossession e

/-- … and for a resumed one -/
def ResumedAuthenticated (verifying : Bool) (s : SessionEvidence) : Prop :=
  (verifying = true → 2 ≤ s.certCount ∧ s.sigChainNow = true ∧ s.encChainNow = true) ∧
  s.finishedCorrect = true

instance (e : Evidence) : Decidable (ProofsOfPossession e) := by
  unfold ProofsOfPossession; infer_instance
instance (b : Bool) (e : Evidence) : Decidable (Authenticated b e) := by
  unfold Authenticated; infer_instance
instance (b : Bool) (s : SessionEvidence) : Decidable (ResumedAuthenticated b s) := by
  unfold ResumedAuthenticated; infer_instance

/-- what the client did, as seen from outside -/
structure Observation where
  /-- `Handshake()` returned nil -/
  completed       : Bool
  /-- `ConnectionState().DidResume` -/
  resumed         : Bool
  /-- `ConnectionState().HandshakeComplete` -/
  reportsComplete : Bool
  /-- bytes a `Read` on the client delivered -/
  delivered       : Nat
  deriving DecidableEq, Repr

/-- The property on one observed connection.  `none` = holds; `some (tag, reason)` = fails.
The first failing clause names the tag; tags are stable (they key known findings). -/
def judge (verifying : Bool) (e : Evidence) (s : Option SessionEvidence) (o : Observation) :
    Option (String × String) :=
  if !o.completed then
    if o.reportsComplete then some ("reports-complete", "handshake returned an error but the connection reports completion")
    else if o.delivered != 0 then some ("delivered-data", s!"handshake returned an error but Read delivered {o.delivered} bytes")
    else none
  else if o.resumed then
    match s with
    | none => some ("resumed-nothing", "client reports a resumed session but none was cached")
    | some s =>
      if verifying && !(decide (2 ≤ s.certCount) && s.sigChainNow && s.encChainNow) then
        some ("resumed-unverified", "verifying client completed a resumed handshake whose recorded certificates do not pass the checks of the configuration in use")
      else if !s.finishedCorrect then some ("finished", "completed a resumed handshake without a Finished computed from the session's master secret: the peer proved possession of nothing")
      else none
  else
    if e.certCount < 2 then some ("single-cert", s!"completed with {e.certCount} certificate(s)")
    else if verifying && !(e.sigChainOK && e.encChainOK) then
      some ("chain", s!"verifying client completed although chain/validity/name verification fails (sig={e.sigChainOK} enc={e.encChainOK})")
    else if !e.skxPresent then some ("skx-omitted", "completed without a ServerKeyExchange: possession of the signing key was never proved")
    else if !e.sigValidOverThis then some ("signature", "completed although the ServerKeyExchange signature does not verify over this handshake's randoms and parameters")
    else if !e.finishedCorrect then some ("finished", "completed without a correct Finished")
    else if !e.kexKeyHeld then some ("no-kex-key", "completed with a peer that does not hold the key-exchange private key: a Finished such a peer can produce proves possession of nothing")
    else none

end Gotlcp.Spec.ClientAuthn

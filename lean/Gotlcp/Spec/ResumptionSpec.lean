/-
Specification for C10, written from the property statement (and GB/T 38636-2020 6.4.5.2.1 c),
not from the code: a predicate on a *history* — what was done (per connection: destination,
server, the suites each side enables, whether a man in the middle damaged a Finished flight,
whether the server's cache was lost, whether the harness copied a stale session) and what was
observed (results and DidResume on both sides, session identifiers in the hello messages,
negotiated suite, peer identity at the client, master secret in use, whether the Finished
values are new, the outcome of the same two configurations without any cache, and the peer
identity the SERVER reports — the client certificate in its ConnectionState).

Clauses (each returns the first violating connection):
  1. resumedOnlyIf  – a side reports resumption only if the client offered an identifier that
                      this server issued in an earlier completed full handshake, not lost
                      since, and the session's suite is enabled by both sides now; the
                      ServerHello echoes it.
  2. bothReport     – if both sides complete they agree on DidResume.
  3. fallback       – without a man in the middle a connection that is not resumed behaves
                      exactly like the cache-less handshake of the two configurations
                      (same success, same suite); a resumed one completes on both sides.
  4. sameIdentity   – the client's peer identity is the identity of the server it talks to;
                      for a resumed connection it equals the original's. On the server side: a
                      resumed connection reports the client identity (certificate or none) that
                      the server reported for the original connection, whatever client
                      authentication policy is configured now; a full handshake reports nothing
                      or the certificate the client is configured with.
  5. freshKeys      – Finished values never repeat; a resumed connection uses the master secret
                      of the original connection; a full one a master secret never seen before.
  6. freshIds       – a new session's identifier is 32 bytes long and differs from every
                      identifier seen before in the history, the one offered in this very
                      connection included: a ServerHello names the offered identifier only to
                      resume it, so (a) a connection that an endpoint completed as NOT resumed and
                      (b) a connection in which the offered session cannot be resumed (the server
                      did not issue it or lost it, or its suite is no longer enabled by both
                      sides) must not carry the offered identifier in the ServerHello — whether
                      or not a man in the middle disturbs it afterwards.
  7. failedNotReoffered – a session that the client offered in, or that was in use (named by
                      the ServerHello) by, a connection that failed at the client is not offered
                      by any later connection (unless the harness itself copied it).

The documented constant (identifier length 32) is a literal here. Core Lean only.
-/
namespace Gotlcp.Spec.Resumption

structure Desc where
  dst        : Nat
  server     : Nat
  csuites    : List Nat
  ssuites    : List Nat
  mitm       : Bool     -- a Finished flight of this connection is damaged in transit
  serverLost : Bool     -- the server's cache is lost before this connection
  staleCopy  : Bool     -- the harness copies another destination's session under this destination first
  auth       : Nat := 0              -- the server's client-authentication policy (position in the enumeration)
  ccert      : Option String := none -- the certificate the client is configured with (its name)
deriving Repr

structure Seen where
  cOk    : Bool
  sOk    : Bool
  cRes   : Option Bool
  sRes   : Option Bool
  off    : Option String
  ret    : Option String
  retLen : Option Nat
  suite  : Option Nat
  peer   : Option String
  ms     : Option String
  fresh  : Option Bool
  ctl    : Option Nat     -- suite of the cache-less control handshake; none = it fails
  speer  : Option String := none  -- the client identity the server reports when it completes ("n" = no certificates)
deriving Repr

abbrev Conn := Desc × Seen

def identityOf (server : Nat) : String := if server == 0 then "A" else if server == 1 then "B" else "?"

def resumed (s : Seen) : Bool := (s.cOk && s.cRes == some true) || (s.sOk && s.sRes == some true)

/-- the connection that created the session `x` at `server`: an earlier full handshake that the
server completed and that returned `x`, with no loss of that server's cache afterwards.
`before` is the history so far, oldest first. -/
def origin (before : List Conn) (server : Nat) (x : String) : Option Conn :=
  let rec go (l : List Conn) (found : Option Conn) : Option Conn :=
    match l with
    | [] => found
    | (d, s) :: rest =>
      let found := if d.server == server && d.serverLost then none else found
      let found := if d.server == server && s.sOk && s.ret == some x && s.sRes == some false then some (d, s) else found
      go rest found
  go before none

/-- the current connection loses the server cache before running -/
def originFor (before : List Conn) (d : Desc) (x : String) : Option Conn :=
  if d.serverLost then none else origin before d.server x

def idsSeen (before : List Conn) : List String :=
  before.foldl (fun acc c => acc ++ c.2.off.toList ++ c.2.ret.toList) []

def msSeen (before : List Conn) : List String :=
  before.foldl (fun acc c => acc ++ c.2.ms.toList) []

/-- identifiers the harness itself copied between destinations (offered by a connection that
starts with a stale copy) -/
def tainted (h : List Conn) : List String :=
  h.foldl (fun acc c => if c.1.staleCopy then acc ++ c.2.off.toList else acc) []

/-- sessions whose handshake ended in a fatal error at the client: the session the client
OFFERED in such a connection (whether or not the server accepted it) and the session named by
the ServerHello (the one in use) -/
def failedIds (before : List Conn) : List String :=
  before.foldl (fun acc c => if !c.2.cOk then acc ++ c.2.off.toList ++ c.2.ret.toList else acc) []

def checkOne (all before : List Conn) (i : Nat) (d : Desc) (s : Seen) : Option (String × String) :=
  let res := resumed s
  let orig := match s.off with
    | some x => originFor before d x
    | none => none
  -- 1. resumed only if
  if res && (s.off.isNone || s.ret != s.off) then
    some ("resumed-without-offer", s!"connection {i} reports resumption but the ServerHello does not echo an offered identifier")
  else if res && orig.isNone then
    some ("resumed-unknown-session", s!"connection {i} resumed an identifier that server {d.server} did not issue in a completed full handshake (or lost since)")
  else if res && (match s.suite, orig with
      | some su, some (_, os) => !(d.csuites.contains su && d.ssuites.contains su) || (os.suite.isSome && os.suite != some su)
      | _, _ => false) then
    some ("resumed-suite", s!"connection {i} resumed with a suite that is not the session's or is not enabled by both sides")
  -- 2. both report
  else if s.cOk && s.sOk && s.cRes != s.sRes then
    some ("report-mismatch", s!"connection {i}: client and server disagree on DidResume")
  -- 3. fallback / transparency
  else if !d.mitm && res && !(s.cOk && s.sOk) then
    some ("resumed-failed", s!"connection {i}: an undisturbed resumed handshake did not complete on both sides")
  else if !d.mitm && !res && (match s.ctl with
      | some su => !(s.cOk && s.sOk && s.suite == some su)
      | none => s.cOk || s.sOk) then
    some ("fallback", s!"connection {i}: not resumed and undisturbed, but it does not behave like the handshake without a cache")
  -- 4. identity
  else if s.cOk && s.peer != some (identityOf d.server) then
    some ("identity", s!"connection {i}: the client sees peer {s.peer.getD "-"} but talks to server {d.server}")
  else if s.cOk && res && (match orig with
      | some (_, os) => os.peer.isSome && os.peer != s.peer
      | none => false) then
    some ("identity", s!"connection {i}: resumed connection has another peer identity than the original")
  else if s.sOk && s.sRes == some true && (match orig with
      | some (_, os) => os.speer.isSome && os.speer != s.speer
      | none => false) then
    some ("identity-server", s!"connection {i}: the server of the resumed connection reports client identity {s.speer.getD "-"}, not the one of the original connection")
  else if s.sOk && s.sRes == some false && !(s.speer == some "n" || (s.speer.isSome && s.speer == d.ccert)) then
    some ("identity-server", s!"connection {i}: the server reports client identity {s.speer.getD "-"} after a full handshake, the client is configured with {d.ccert.getD "n"}")
  -- 5. fresh keys
  else if s.cOk && s.fresh != some true then
    some ("stale-keys", s!"connection {i}: Finished values repeat those of an earlier connection")
  else if s.cOk && res && (match orig with
      | some (_, os) => os.ms.isSome && os.ms != s.ms
      | none => false) then
    some ("master-secret", s!"connection {i}: resumed connection does not use the original master secret")
  else if s.cOk && !res && (match s.ms with
      | some m => (msSeen before).contains m
      | none => true) then
    some ("master-secret", s!"connection {i}: a full handshake re-uses an earlier master secret")
  -- 6. fresh identifiers
  else if s.ret.isSome && s.ret == s.off && !res && (s.cOk || s.sOk) then
    some ("session-id", s!"connection {i}: a handshake completed as not resumed, but its ServerHello names the offered identifier instead of a fresh one")
  else if s.ret.isSome && s.ret == s.off && (match orig with
      | some (_, os) => (match os.suite with
          | some su => !(d.csuites.contains su && d.ssuites.contains su)
          | none => false)
      | none => true) then
    some ("session-id", s!"connection {i}: the ServerHello names the offered identifier although that session cannot be resumed (not issued by server {d.server} or lost, or its suite is no longer enabled by both sides): a new session must get a fresh identifier")
  else if s.ret.isSome && s.ret != s.off && s.retLen != some 32 then
    some ("session-id", s!"connection {i}: new session identifier is not 32 bytes long")
  else if (match s.ret with
      | some r => s.ret != s.off && (idsSeen before).contains r
      | none => false) then
    some ("session-id", s!"connection {i}: new session identifier was seen before")
  -- 7. failed sessions are not offered again
  else if (match s.off with
      | some x => (failedIds before).contains x && !(tainted all).contains x
      | none => false) then
    some ("failed-session-reoffered", s!"connection {i} offers a session whose handshake ended in a fatal error at this client")
  else none

def checkFrom (all : List Conn) : List Conn → Nat → List Conn → Option (String × String)
  | _, _, [] => none
  | before, i, (d, s) :: rest =>
    match checkOne all before i d s with
    | some f => some f
    | none => checkFrom all (before ++ [(d, s)]) (i + 1) rest

/-- the property on a whole history -/
def check (h : List Conn) : Option (String × String) := checkFrom h [] 0 h

end Gotlcp.Spec.Resumption

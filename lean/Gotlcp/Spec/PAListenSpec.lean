/-
Specification for C20 at the level of the LISTENER, written from the statement of the property, not from
the code and not from the regenerated facts.

The property speaks about every connection accepted by the adaptive listener, over all schedules: it is
served by the stack its OWN first record's major version byte calls for, that stack sees ITS byte stream
from the first byte, "so a handshake and data exchange through the adapter behave as they would against that
stack directly", and a client that disconnects before five bytes gets an error, not a hang.  Against
`tlcp.Listen` / `tls.Listen` directly `Accept` does not read from the connection, so a server running the
usual loop (`Accept`, then serve each connection in a goroutine of its own) serves every client on that
client's own clock: what another peer does — stay silent, send slowly, never complete its first record —
delays nobody.

Time is counted in ticks; the world is observed when it has come to rest (every goroutine parked), so "by
tick t" means: without waiting for anything a peer does after tick t.  What is due to a connection is a
function of that peer's own timeline ONLY:

* it has sent five bytes by tick t (and connected by then): by tick t the first call on its connection has
  answered with the documented verdict for its second byte; if a stack serves it, that stack reads the peer's
  stream from its first byte, all of it by the end;
* it went away at tick t after fewer than five bytes: by tick t the first call has answered with an error;
* neither (a silent peer): nothing is due — but it must not be routed.

Core Lean only.
-/
import Gotlcp.Spec.PASpec

namespace Gotlcp.Spec.PA

/-- a peer's own timeline in absolute ticks: `(tick, some bytes)` it sends, `(tick, none)` it goes away -/
structure Line where
  arrive : Nat
  evs : List (Nat × Option Bytes)
  deriving Repr

/-- what the peer sent before it went away -/
def sentOf : List (Nat × Option Bytes) → Bytes
  | [] => []
  | (_, some c) :: r => c ++ sentOf r
  | (_, none) :: _ => []

/-- the tick at which the peer has sent `n` bytes (`none`: it never has) -/
def tickOfByte : Nat → List (Nat × Option Bytes) → Option Nat
  | _, [] => none
  | _, (_, none) :: _ => none
  | n, (t, some c) :: r => if n ≤ c.length then some t else tickOfByte (n - c.length) r

/-- the tick at which the peer goes away -/
def goneAt : List (Nat × Option Bytes) → Option Nat
  | [] => none
  | (t, none) :: _ => some t
  | (_, some _) :: r => goneAt r

inductive Due where
  /-- a complete first record header was there at tick `by`: the verdict is due then -/
  | routed (by_ : Nat) (v : Verdict)
  /-- the peer went away before five bytes at tick `by`: an error is due then -/
  | error (by_ : Nat)
  | nothing
  deriving Repr, DecidableEq

def due (hasTLCP hasTLS : Bool) (l : Line) : Due :=
  match tickOfByte recordHeaderLen l.evs, routeOfStream hasTLCP hasTLS (sentOf l.evs) with
  | some t, some v => .routed (max l.arrive t) v
  | _, _ =>
    match goneAt l.evs with
    | some t => .error (max l.arrive t)
    | none => .nothing

def Verdict.served : Verdict → Bool
  | .tlcp | .tls => true
  | _ => false

end Gotlcp.Spec.PA

/-
Spec for C05, written from the property statement (not from the code, not from `Facts`).

The sender handed the byte strings `payloads₀, payloads₁, …` to its record layer, one per record.
An attacker edited the protected stream; `n` is the index of the first wire record that is not the
sender's next record, untouched (or the number of records that arrived intact when the stream
was only cut).  The receiving application made a sequence of `Read` calls and observed, per call,
the bytes it got and whether the call failed.

The property:
  * `prefixOK`     — what was delivered is a prefix of `payloads₀ ++ … ++ payloadsₙ₋₁`
                     (no byte of a damaged, replayed or out-of-order record);
  * `wholeOnError` — once a read has failed, what was delivered is `payloads₀ ++ … ++ payloadsₘ₋₁`
                     for some `m ≤ n` (whole records, then the error);
  * `sticky`       — after the first failed read every later read fails and delivers nothing;
  * for block-cipher suites every kind of ciphertext damage is answered with alert 20
    (bad_record_mac, GB/T 38636 / RFC 5246 numbering).
-/
import Gotlcp.Base.Hex

namespace Gotlcp.Spec.RecordRx

/-- one `Read` call as the application saw it -/
structure Obs where
  data : Bytes
  failed : Bool
deriving Repr, DecidableEq

def delivered (os : List Obs) : Bytes := (os.map (·.data)).flatten

def sticky : List Obs → Bool
  | [] => true
  | o :: os => if o.failed then os.all (fun o' => o'.failed && o'.data.isEmpty) else sticky os

def prefixOK (payloads : List Bytes) (n : Nat) (os : List Obs) : Bool :=
  (delivered os).isPrefixOf (payloads.take n).flatten

def wholeOnError (payloads : List Bytes) (n : Nat) (os : List Obs) : Bool :=
  !(os.any (·.failed)) || (List.range (n + 1)).any (fun m => delivered os == (payloads.take m).flatten)

def holds (payloads : List Bytes) (n : Nat) (os : List Obs) : Bool :=
  sticky os && prefixOK payloads n os && wholeOnError payloads n os

/-- bad_record_mac -/
def badRecordMAC : Nat := 20

/-- the alert a receiver may answer ciphertext damage with -/
def uniformAlertOK (alertSent : Option Nat) : Bool := alertSent == some badRecordMAC

end Gotlcp.Spec.RecordRx

/-
Spec for C12, written from the property statement and DESIGN.md's reading of it ("stickiness per
call kind"); independent of the code and of `Facts`.

A history is a list of steps, each either something the peer / the transport did or an API call
on the connection under test together with what it returned.
-/
import Gotlcp.Base.Hex

namespace Gotlcp.Spec.ConnAPI

inductive Kind | read | write | close | closeWrite | handshake
deriving Repr, DecidableEq

/-- what a call returned: delivered bytes, and the error class -/
structure Outcome where
  data : Bytes := []
  /-- "" = nil; "timeout" / "block" are not permanent -/
  err : String := ""
deriving Repr, DecidableEq

inductive Step
  /-- the peer wrote `n` bytes of application data -/
  | peerData (bytes : Bytes)
  /-- the peer sent close_notify (an alert with description 0) -/
  | peerCloseNotify
  /-- the transport ended: at a record boundary (`inside = false`) or inside a record -/
  | transportEnd (inside : Bool)
  /-- a record that is not the peer's (garbage, injected plaintext) arrived -/
  | forgery
  | other
  | call (k : Kind) (nonEmpty : Bool) (o : Outcome)
deriving Repr, DecidableEq

def permanent (e : String) : Bool := e != "" && e != "timeout" && e != "block"

structure St where
  readFailed : Bool := false
  writeFailed : Bool := false
  hsFailed : Bool := false
  closed : Bool := false
  writeShut : Bool := false
  sawCloseNotify : Bool := false
  endedClean : Bool := false
  endedInside : Bool := false
  forged : Bool := false
  /-- bytes the peer wrote before it closed / the stream ended -/
  owed : Bytes := []
  delivered : Bytes := []
  eofSeen : Bool := false

/-- first violated clause, if any -/
def check : St → List Step → Option (String × String)
  | _, [] => none
  | s, .peerData b :: rest =>
    check (if s.sawCloseNotify || s.endedClean || s.endedInside || s.forged then s else { s with owed := s.owed ++ b }) rest
  | s, .forgery :: rest => check { s with forged := true } rest
  | s, .peerCloseNotify :: rest => check { s with sawCloseNotify := true } rest
  | s, .transportEnd inside :: rest =>
    check (if inside then { s with endedInside := true } else { s with endedClean := true }) rest
  | s, .other :: rest => check s rest
  | s, .call k ne o :: rest =>
    let failed := permanent o.err
    match k with
    | .read =>
      if ne && s.closed && (o.err == "" || !o.data.isEmpty) then
        some ("read-after-close", "a Read after Close succeeded or delivered bytes")
      else if ne && s.readFailed && (!failed || !o.data.isEmpty) then
        some ("sticky-read", "a Read after a failed Read succeeded or delivered bytes")
      else if ne && s.hsFailed && (!failed || !o.data.isEmpty) then
        some ("sticky-handshake", "a Read after a failed handshake succeeded")
      else if !(s.delivered ++ o.data).isPrefixOf s.owed then
        some ("data-after-damage", "bytes were delivered that the peer did not write before its stream closed, ended or was damaged")
      else if o.err == "eof" && !s.sawCloseNotify && !s.endedClean then
        some ("eof-in-record", "end-of-stream reported without close_notify and without a clean transport end")
      else if o.err == "eof" && !s.eofSeen && s.delivered ++ o.data != s.owed then
        some ("eof-before-data", "end-of-stream reported before every byte the peer wrote was delivered")
      else
        check { s with readFailed := s.readFailed || (ne && failed), delivered := s.delivered ++ o.data,
                       eofSeen := s.eofSeen || o.err == "eof" } rest
    | .write =>
      -- a failed write has consumed a sequence number and possibly put part of a record on the
      -- wire: whatever the cause (also a write deadline), the write side is dead afterwards
      let failed := o.err != ""
      if s.closed && !failed then some ("write-after-close", "a Write after Close succeeded")
      else if s.writeShut && !failed then some ("write-after-closewrite", "a Write after CloseWrite succeeded")
      else if s.writeFailed && !failed then some ("sticky-write", "a Write after a failed Write succeeded")
      else if s.hsFailed && !failed then some ("sticky-handshake", "a Write after a failed handshake succeeded")
      else check { s with writeFailed := s.writeFailed || failed } rest
    | .close =>
      if s.closed && o.err != "closed" then some ("close-twice", "a second Close did not report that the connection is closed")
      else check { s with closed := true } rest
    | .closeWrite =>
      check (if o.err == "" then { s with writeShut := true } else s) rest
    | .handshake =>
      if s.hsFailed && !failed then some ("sticky-handshake", "Handshake succeeded after it had failed")
      else check { s with hsFailed := s.hsFailed || failed } rest

end Gotlcp.Spec.ConnAPI

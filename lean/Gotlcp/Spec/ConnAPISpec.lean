/-
Spec for C12, written from the property statement and DESIGN.md's reading of it ("stickiness per
call kind"); independent of the code and of `Facts`.

A history is a list of steps, each either something the peer / the transport did or an API call
on the connection under test together with what it returned.
-/
import Gotlcp.Base.Hex

namespace Gotlcp.Spec.ConnAPI

inductive Kind | read | write | close | closeWrite | handshake
deriving Repr, DecidableEq

/-- what a call returned: delivered bytes, and the error class -/
structure Outcome where
  data : Bytes := []
  /-- "" = nil; "timeout" / "block" are not permanent ("block": the call had not returned when the
      observer stopped waiting) -/
  err : String := ""
deriving Repr, DecidableEq

inductive Step
  /-- the peer wrote `n` bytes of application data -/
  | peerData (bytes : Bytes)
  /-- the peer sent close_notify (an alert with description 0) -/
  | peerCloseNotify
  /-- the transport ended: at a record boundary (`inside = false`) or inside a record -/
  | transportEnd (inside : Bool)
  /-- a record that is not the peer's (garbage, injected plaintext) arrived -/
  | forgery
  /-- anything else that may legitimately make a later Read fail: an alert other than close_notify,
      a record of a type the application does not read, a transport error that does not pass, the
      peer's application acting on what this side wrote -/
  | other
  /-- something that does not touch the incoming stream: the transport refusing this side's writes,
      a read timeout that passes -/
  | benign
  | call (k : Kind) (nonEmpty : Bool) (o : Outcome)
deriving Repr, DecidableEq

def permanent (e : String) : Bool := e != "" && e != "timeout" && e != "block"

structure St where
  readFailed : Bool := false
  writeFailed : Bool := false
  hsFailed : Bool := false
  closed : Bool := false
  writeShut : Bool := false
  sawCloseNotify : Bool := false
  endedClean : Bool := false
  endedInside : Bool := false
  forged : Bool := false
  /-- bytes the peer wrote before it closed / the stream ended -/
  owed : Bytes := []
  delivered : Bytes := []
  eofSeen : Bool := false
  /-- the incoming stream carried something other than application data, close_notify and a clean
      end (a forgery, another alert, a foreign record type, a transport error, a cut inside a record,
      more than 16 empty records in a row — the documented limit of ignored records) -/
  damaged : Bool := false
  empties : Nat := 0
  /-- a CloseWrite has failed -/
  cwFailed : Bool := false
  /-- a forgery arrived on a stream that was intact and open until then: the next thing a `Read`
      meets once the bytes owed have been handed over -/
  forgedLive : Bool := false
  /-- this side has detected a fatal error on what it received (a record that does not
      authenticate has been looked at, or a `Read` has reported a local alert): the connection is
      dead in both directions -/
  fatal : Bool := false

/-- a `Read` reported an alert raised by this side (`local.<n>`) -/
def isLocalAlert (e : String) : Bool := e.startsWith "local."

/-- first violated clause, if any -/
def check : St → List Step → Option (String × String)
  | _, [] => none
  | s, .peerData b :: rest =>
    let s := if b.isEmpty then { s with empties := s.empties + 1, damaged := s.damaged || s.empties + 1 > 16 }
             else { s with empties := 0 }
    check (if s.sawCloseNotify || s.endedClean || s.endedInside || s.forged then s else { s with owed := s.owed ++ b }) rest
  | s, .forgery :: rest =>
    check { s with forged := true, damaged := true,
                   forgedLive := s.forgedLive || (!s.damaged && !s.sawCloseNotify && !s.endedClean && !s.endedInside) } rest
  | s, .peerCloseNotify :: rest => check { s with sawCloseNotify := true } rest
  | s, .transportEnd inside :: rest =>
    check (if inside then { s with endedInside := true, damaged := true } else { s with endedClean := true }) rest
  | s, .other :: rest => check { s with damaged := true } rest
  | s, .benign :: rest => check s rest
  | s, .call k ne o :: rest =>
    let failed := permanent o.err
    match k with
    | .read =>
      if ne && s.closed && (o.err == "" || !o.data.isEmpty) then
        some ("read-after-close", "a Read after Close succeeded or delivered bytes")
      else if ne && s.readFailed && (!failed || !o.data.isEmpty) then
        some ("sticky-read", "a Read after a failed Read succeeded or delivered bytes")
      else if ne && s.hsFailed && (!failed || !o.data.isEmpty) then
        some ("sticky-handshake", "a Read after a failed handshake succeeded")
      else if ne && s.fatal && (o.err == "" || o.err == "block" || !o.data.isEmpty) then
        some ("read-after-fatal", "a Read after a fatal error of the record layer did not fail or delivered bytes")
      else if !(s.delivered ++ o.data).isPrefixOf s.owed then
        some ("data-after-damage", "bytes were delivered that the peer did not write before its stream closed, ended or was damaged")
      else if o.err == "eof" && !s.sawCloseNotify && !s.endedClean then
        some ("eof-in-record", "end-of-stream reported without close_notify and without a clean transport end")
      else if o.err == "eof" && !s.eofSeen && s.delivered ++ o.data != s.owed then
        some ("eof-before-data", "end-of-stream reported before every byte the peer wrote was delivered")
      else if ne && failed && o.err != "eof" && !s.damaged && !s.closed && !s.hsFailed && !s.readFailed then
        -- reported faithfully: a stream that carried nothing but the peer's application data, its
        -- close_notify and a clean end is handed over byte for byte and ends in end-of-stream; an
        -- error here is made up, and (errors stay reported) it cuts the reader off from the bytes
        -- the peer wrote before closing
        some ("error-on-intact-stream", "a Read failed although only application data, close_notify or a clean transport end had arrived: the stream was not reported faithfully (undelivered bytes are lost, end-of-stream is never seen)")
      else
        -- fatal errors: the call reports a local alert; or it returns an error — whichever: with the
        -- transport refusing writes it may be the transport's — at the moment the forged record is
        -- the next thing in the stream (everything owed has been handed over, this call included):
        -- the record that does not authenticate has been looked at
        let sawForgery := ne && s.forgedLive && !s.closed && !s.hsFailed && o.err != "" && o.err != "block" &&
          s.delivered ++ o.data == s.owed
        check { s with readFailed := s.readFailed || (ne && failed), delivered := s.delivered ++ o.data,
                       eofSeen := s.eofSeen || o.err == "eof",
                       fatal := s.fatal || (ne && isLocalAlert o.err) || sawForgery } rest
    | .write =>
      -- a failed write has consumed a sequence number and possibly put part of a record on the
      -- wire: whatever the cause (also a write deadline), the write side is dead afterwards
      -- "block": the call is inside the transport write (a Write on another goroutine, observed up
      -- to there): it was not refused — as little as one that succeeded — but has not failed either
      let failed := o.err != "" && o.err != "block"
      if s.closed && !failed then some ("write-after-close", "a Write after Close succeeded or reached the transport")
      else if s.writeShut && !failed then some ("write-after-closewrite", "a Write after CloseWrite (successful or not) succeeded")
      else if s.writeFailed && !failed then some ("sticky-write", "a Write after a failed Write succeeded")
      else if s.hsFailed && !failed then some ("sticky-handshake", "a Write after a failed handshake succeeded")
      else if s.fatal && !failed then
        some ("write-after-fatal", "a Write succeeded after the record layer had detected a fatal error on this connection (a record that does not authenticate / a local alert reported by Read): errors stay reported in both directions")
      else check { s with writeFailed := s.writeFailed || failed } rest
    | .close =>
      if s.closed && o.err != "closed" then some ("close-twice", "a second Close did not report that the connection is closed")
      else check { s with closed := true } rest
    | .closeWrite =>
      -- refused because the handshake has not completed: nothing was shut down
      if o.err == "early_cw" then check s rest
      -- it waits for the Write in flight (which holds the write half): it has not returned
      else if o.err == "block" then check s rest
      -- the close_notify is attempted once; whatever became of it the write side is shut down
      -- (a record was sealed with the next sequence number), and its result stays reported
      else if s.cwFailed && o.err == "" then
        some ("sticky-closewrite", "a CloseWrite after a failed CloseWrite reported success")
      else check { s with writeShut := true, cwFailed := s.cwFailed || o.err != "" } rest
    | .handshake =>
      if s.hsFailed && !failed then some ("sticky-handshake", "Handshake succeeded after it had failed")
      else check { s with hsFailed := s.hsFailed || failed } rest

/-! ### `Dialer.DialContext` against a peer that stalls

"cancelling the handshake context aborts the handshake with the context's error": the context of a
dial is the one the caller hands to `DialContext`, bounded in addition by the `Timeout` / `Deadline`
of the `net.Dialer` when there is one.  Whichever of them ends first while the peer has accepted
the TCP connection but does not carry the handshake on, the call comes back (the driver gives it
2 s) with that context's error. -/

/-- what ended the dial -/
inductive DialEnd
  | callerCancel     -- the caller's CancelFunc (before the call or while it waits)
  | callerDeadline   -- the deadline of the caller's context
  | dialerTimeout    -- the net.Dialer's own Timeout / Deadline; the caller's context never ends
  deriving DecidableEq, Repr

/-- `res`: class of what the call returned (`ctx` = errors.Is context.Canceled, `ctxdl` = errors.Is
context.DeadlineExceeded, `timeout` = another net.Error with Timeout(), `ok`, `blocked` = it had
not returned when the driver stopped waiting); `prompt`: it returned within the bound. -/
def checkDial (why : DialEnd) (res : String) (prompt : Bool) : Option (String × String) :=
  if !prompt || res == "blocked" then
    some ("dial-not-aborted", "the context of the dial ended while the peer stalled in the handshake, but DialContext did not return")
  else if res == "ok" then
    some ("dial-not-aborted", "DialContext reported success against a peer that never finished the handshake")
  else match why with
    | .callerCancel =>
      if res == "ctx" then none
      else some ("dial-ctx-error", s!"the caller's context was cancelled but DialContext returned {res}, not the context's error")
    | .callerDeadline =>
      if res == "ctxdl" then none
      else some ("dial-ctx-error", s!"the caller's context ran into its deadline but DialContext returned {res}, not the context's error")
    | .dialerTimeout =>
      -- the dialer's own bound: a timeout error (the derived context's error is one)
      if res == "ctxdl" || res == "timeout" then none
      else some ("dial-ctx-error", s!"the dialer's timeout expired but DialContext returned {res}, not a timeout")

end Gotlcp.Spec.ConnAPI

/-
C09 — the property, as the simplest possible judgement of one observation of the real code.

Written from the property statement, not from the code, and independent of `Facts`: the
documented limits are literals here (GB/T 38636 record layer: 2^14 bytes of plaintext, at
most 2048 bytes of expansion; a handshake message of at most 65536 bytes as the library
documents in `maxHandshake`; a datagram reassembly budget that is a fixed number).

"Whatever bytes a peer sends the endpoint either makes progress or returns an error: it never
panics, never loops without consuming input, and the memory it holds for the connection
stays within a fixed bound (one maximum-size handshake message plus one record on the stream
stack; a fixed number of reassembly buffers on the datagram stack)."
-/
import Gotlcp.Base.Hex

namespace Gotlcp.Spec.Robust

/-- what one case of the driver observed -/
structure Obs where
  /-- outcome class of the call(s): "ok" | "err" | "panic" -/
  cls : String
  /-- the per-case watchdog fired: a call ran past its deadline without consuming input -/
  stalled : Bool := false
  /-- largest number of bytes seen in the handshake buffer / raw input buffer -/
  hand : Nat := 0
  raw : Nat := 0
  /-- datagram stack: largest number of pending reassembly buffers and bytes they held -/
  pending : Nat := 0
  pendingBytes : Nat := 0
  /-- number of `readHandshake` calls the case made (datagram stack) -/
  hsCalls : Nat := 1
  /-- number of consecutive records that neither advance the handshake nor deliver data (empty
  application data, warning alerts, handshake records once the handshake is over — there is no
  renegotiation) the peer sent before the record that the call could deliver, where the library
  documents a limit for them -/
  uselessRun : Nat := 0
  /-- growth of the goroutine stacks of the process while the call ran -/
  stackGrowth : Nat := 0

def maxPlaintext : Nat := 16384
def maxCiphertext : Nat := 16384 + 2048
def maxHandshake : Nat := 65536
/-- stream stack: one maximum-size handshake message (with its 4-byte header) plus one record -/
def handBound : Nat := 4 + maxHandshake + maxCiphertext
/-- stream stack: the read buffer holds one record (5-byte header) plus a constant read-ahead;
`bytes.Buffer` grows geometrically, so "a constant" is up to three further records -/
def rawBound : Nat := 4 * (5 + maxCiphertext + 512) + 8192
/-- datagram stack: reassembly buffers per `readHandshake` call, and bytes per buffer
(message + one bit per byte) -/
def pendingPerCall : Nat := 256
def pendingBufBytes : Nat := maxHandshake + maxHandshake / 8
/-- the documented limit on consecutive non-advancing records ("maxUselessRecords is the maximum
number of consecutive non-advancing records permitted": 16) -/
def maxUseless : Nat := 16
/-- a receive call may not need more stack the more the peer sends: 4 MiB is far above what any
call uses and far below what one frame per ignored record costs in a flood -/
def stackBound : Nat := 4 * 1024 * 1024

/-- `none` = the property holds on this observation; `some (tag, reason)` otherwise -/
def verdict (o : Obs) : Option (String × String) :=
  if o.cls == "panic" then some ("panic", "the endpoint panicked on peer input")
  else if o.stalled then some ("spin", "a call ran past the watchdog without consuming input or returning")
  else if o.uselessRun > maxUseless && o.cls == "ok" then
    some ("spin", s!"{o.uselessRun} consecutive non-advancing records were ignored (limit {maxUseless}) and the call still succeeded")
  else if o.stackGrowth > stackBound then
    some ("mem", s!"goroutine stack grew by {o.stackGrowth} bytes during one receive call, bound {stackBound}")
  else if o.hand > handBound then some ("mem", s!"handshake buffer holds {o.hand} bytes, bound {handBound}")
  else if o.raw > rawBound then some ("mem", s!"raw input buffer holds {o.raw} bytes, bound {rawBound}")
  else if o.pending > pendingPerCall * o.hsCalls then
    some ("mem", s!"{o.pending} pending reassembly buffers after {o.hsCalls} readHandshake calls, bound {pendingPerCall} per call")
  else if o.pendingBytes > o.pending * pendingBufBytes then
    some ("mem", s!"pending reassembly buffers hold {o.pendingBytes} bytes, bound {pendingBufBytes} each")
  else none

end Gotlcp.Spec.Robust

/-
Spec of property C08, written from the property statement and GB/T 38636-2020 §6.4.4 (message
flow of the handshake protocol) — independent of the Go code and of `Gotlcp.Facts`.

"Viewed as sequences of message kinds received from the peer, the set of sequences after which
an endpoint completes a handshake is exactly the standard's":

* client, full handshake:   ServerHello, Certificate, ServerKeyExchange, [CertificateRequest],
                            ServerHelloDone, ChangeCipherSpec, Finished
  (with an ECDHE suite the standard requires the client's certificate — 6.4.5.8 — so the
  CertificateRequest is not optional there);
* client, resumed:          ServerHello (echoing the offered session), ChangeCipherSpec, Finished;
* server, full handshake:   ClientHello, Certificate iff requested, ClientKeyExchange,
                            CertificateVerify iff a (non-empty) certificate was sent,
                            ChangeCipherSpec, Finished
  (an empty Certificate message is a legal answer to a request only when the server's policy
  does not insist on a certificate);
* server, resumed:          ClientHello, ChangeCipherSpec, Finished.

"Any omission, repetition, transposition or foreign message leads to an error."

The only records an endpoint may *ignore* are warning alerts (alert protocol, not part of the
handshake message sequence), and only a bounded number of them: at most 16 between two
consecutive handshake messages (the documented tolerance `maxUselessRecords = 16`).  A word is
in the language when it is one of the legal flows with warning alerts interleaved within that
tolerance, and nothing at all after the completing Finished.

DTLCP (datagram transport) adds the stateless cookie exchange in front of the server's flow
and lets the client see HelloVerifyRequest before ServerHello; see `dtlcp*` below.
-/
import Gotlcp.Base.FlowKind

namespace Gotlcp.Spec.StandardFlow
open Gotlcp.Flow
open Gotlcp.Flow.Kind

/-- documented tolerance for ignorable records -/
def maxIgnorable : Nat := 16

/-! ### the legal flows (lists with options) -/

/-- what the client may be asked: options of the client's full handshake -/
structure ClientOpts where
  /-- the negotiated suite is an SM2-ECDHE suite (client certificate mandatory) -/
  ecdhe : Bool
  deriving DecidableEq, Repr

/-- what the server asked for: options of the server's full handshake -/
structure ServerOpts where
  /-- the server sent a CertificateRequest -/
  requested : Bool
  /-- the server's policy accepts "no certificate" as an answer to its request -/
  emptyAllowed : Bool
  deriving DecidableEq, Repr

def opt (present : Bool) (k : Kind) : List Kind := if present then [k] else []

/-- client, full handshake: CertificateRequest present or absent -/
def clientFullWith (certReq : Bool) : List Kind :=
  [serverHello, certificate, serverKeyExchange] ++ opt certReq certificateRequest ++
  [serverHelloDone, ccs, finished]

def clientFull (o : ClientOpts) : List (List Kind) :=
  if o.ecdhe then [clientFullWith true] else [clientFullWith false, clientFullWith true]

def clientResumed : List (List Kind) := [[serverHello, ccs, finished]]

/-- server, full handshake: Certificate iff requested; CertificateVerify iff a certificate was sent -/
def serverFull (o : ServerOpts) : List (List Kind) :=
  if o.requested then
    [[clientHello, certificate, clientKeyExchange, certificateVerify, ccs, finished]] ++
    (if o.emptyAllowed then [[clientHello, certificateEmpty, clientKeyExchange, ccs, finished]] else [])
  else
    [[clientHello, clientKeyExchange, ccs, finished]]

def serverResumed : List (List Kind) := [[clientHello, ccs, finished]]

/-! ### membership -/

/-- `matchFlow f w n`: the word `w` is exactly the flow `f` with warning alerts interleaved, `n`
being the number of warning alerts seen since the last handshake message (ChangeCipherSpec is
not a handshake message and does not restart the count). -/
def matchFlow : List Kind → List Kind → Nat → Bool
  | [], [], _ => true
  | [], _ :: _, _ => false            -- nothing may follow the completing message
  | _ :: _, [], _ => false            -- incomplete
  | f :: fs, k :: ks, n =>
    if k = warningAlert then
      n + 1 ≤ maxIgnorable && matchFlow (f :: fs) ks (n + 1)
    else if k = f then
      matchFlow fs ks (if k.isHandshake then 0 else n)
    else false

/-- the language of a set of legal flows -/
def inLang (flows : List (List Kind)) (w : List Kind) : Bool :=
  flows.any (fun f => matchFlow f w 0)

/-! ### DTLCP (datagram transport)

The flows are the same, preceded by the stateless cookie exchange: the server answers the first
ClientHello (no cookie) with HelloVerifyRequest and starts the handshake on the second one; the
client may see HelloVerifyRequest before ServerHello.

A datagram endpoint must tolerate *retransmission*: while it waits for the peer's next flight,
a duplicate of the first message of the peer's previous flight is dropped, not fatal —
HelloVerifyRequest while the client waits for ServerHello, ClientHello while the server waits
for the handshake messages of the client's second flight (Certificate, ClientKeyExchange,
CertificateVerify).  Once ChangeCipherSpec is due, nothing but it is acceptable.  So a position
of a flow is a pair: the kind expected there, and the kinds ignored while waiting for it. -/

abbrev Item := Kind × List Kind

def plain (f : List Kind) : List Item := f.map (fun k => (k, []))

/-- `matchItems`: `matchFlow` with per-position ignorable duplicates. An ignored duplicate is a
handshake record: it restarts the count of warning alerts like any handshake message. -/
def matchItems : List Item → List Kind → Nat → Bool
  | [], [], _ => true
  | [], _ :: _, _ => false
  | _ :: _, [], _ => false
  | (f, ign) :: fs, k :: ks, n =>
    if k = warningAlert then
      n + 1 ≤ maxIgnorable && matchItems ((f, ign) :: fs) ks (n + 1)
    else if k = f then
      matchItems fs ks (if k.isHandshake then 0 else n)
    else if ign.contains k then
      matchItems ((f, ign) :: fs) ks (if k.isHandshake then 0 else n)
    else false

def inLangI (flows : List (List Item)) (w : List Kind) : Bool :=
  flows.any (fun f => matchItems f w 0)

/-- DTLCP client: any number of HelloVerifyRequest before the ServerHello -/
def dtlcpClient (flows : List (List Kind)) : List (List Item) :=
  flows.map fun f => match f with
    | sh :: rest => (sh, [helloVerifyRequest]) :: plain rest
    | [] => []

/-- a handshake message of the client's second flight -/
def inSecondFlight (k : Kind) : Bool :=
  k = certificate || k = certificateEmpty || k = clientKeyExchange || k = certificateVerify

/-- DTLCP server: ClientHello (no cookie), ClientHello (cookie), then the TLCP flow, a
retransmitted ClientHello being ignored while a message of the second flight is awaited -/
def dtlcpServer (flows : List (List Kind)) : List (List Item) :=
  flows.map fun f => match f with
    | ch :: rest => (ch, []) :: (ch, []) :: rest.map (fun k => (k, if inSecondFlight k then [clientHello] else []))
    | [] => []

end Gotlcp.Spec.StandardFlow

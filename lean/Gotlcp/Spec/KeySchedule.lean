/-
Key schedule and record protection of TLCP / DTLCP as the standard states them — written from
GB/T 38636-2020 (6.3.3 record layer, 6.5 key calculation; the structure is that of RFC 4346 /
RFC 5246 / RFC 5288 / RFC 8998 and, for the 13-byte datagram header, RFC 6347 4.1), NOT from
the Go code and NOT from `Gotlcp.Facts`: documented constants are literals here.

  6.5.1  master_secret = PRF(pre_master_secret, "master secret",
                             ClientHello.random + ServerHello.random)[0..47]
  6.5.2  key_block = PRF(master_secret, "key expansion", server_random + client_random),
         partitioned as client_write_MAC_secret, server_write_MAC_secret, client_write_key,
         server_write_key, client_write_IV, server_write_IV
  6.4.5.10 (Finished)  verify_data = PRF(master_secret, finished_label,
                             SM3(handshake_messages))[0..11]
  6.3.3.4  CBC:  IV ‖ E(content ‖ MAC ‖ padding ‖ padding_length);
           MAC = HMAC(MAC_write_secret, seq_num + type + version + length + content);
           every padding byte equals padding_length
  AEAD (RFC 5288 / 8998): nonce = 4-byte write IV ‖ 8-byte explicit nonce carried in the record,
           additional_data = seq_num + type + version + length (of the plaintext)
  DTLCP: the 64-bit seq_num is epoch(2) ‖ sequence_number(6), both explicit in the 13-byte
           header  type(1) version(2) epoch(2) sequence_number(6) length(2).

Everything is parameterised by the primitives (`Prims`) so that the theorems of C04 hold for
any HMAC / block permutation / AEAD; `sm` instantiates them with the Lean-native SM3/SM4.
Core Lean only.
-/
import Gotlcp.Crypto.Prims

namespace Gotlcp.Spec.KeySchedule
open Gotlcp.Crypto

/-! ### labels and lengths (ASCII, no terminator) -/

/-- "master secret" -/
def labelMaster : Bytes := [109, 97, 115, 116, 101, 114, 32, 115, 101, 99, 114, 101, 116]
/-- "key expansion" -/
def labelKeyExpansion : Bytes := [107, 101, 121, 32, 101, 120, 112, 97, 110, 115, 105, 111, 110]
/-- "client finished" -/
def labelClientFinished : Bytes := [99, 108, 105, 101, 110, 116, 32, 102, 105, 110, 105, 115, 104, 101, 100]
/-- "server finished" -/
def labelServerFinished : Bytes := [115, 101, 114, 118, 101, 114, 32, 102, 105, 110, 105, 115, 104, 101, 100]

def masterLen : Nat := 48
def verifyLen : Nat := 12
def blockLen : Nat := 16
def fixedIVLen : Nat := 4
def explicitNonceLen : Nat := 8

inductive Mode | cbc | gcm
  deriving DecidableEq, Repr

structure SuiteParams where
  mode : Mode
  macLen : Nat
  keyLen : Nat
  ivLen : Nat
  deriving DecidableEq, Repr

/-- GB/T 38636-2020 table 2: the four SM2 suites. SM4 keys are 16 bytes, the HMAC-SM3 key is
the hash length (32), a CBC write IV is one block, a GCM write IV is the 4-byte implicit part. -/
def suite (id : Nat) : Option SuiteParams :=
  if id = 0xe011 ∨ id = 0xe013 then some ⟨.cbc, 32, 16, 16⟩
  else if id = 0xe051 ∨ id = 0xe053 then some ⟨.gcm, 0, 16, 4⟩
  else none

/-- GB/T 38636-2020 table 2: the two suites whose key exchange is ECDHE (SM2 key agreement,
6.4.5.3/6.4.5.4); the other two use ECC (the client encrypts the pre-master secret to the server's
encryption certificate). -/
def isECDHE (id : Nat) : Bool := id = 0xe011 ∨ id = 0xe051

/-- 6.4.5.4 / 6.5.1: what a well-formed pre-master secret looks like.  ECC: 48 bytes, the first two
the client's version (1.1), the rest random.  ECDHE: the 48 bytes the SM2 key agreement (GB/T
32918.3, key length 48) produces, used AS THEY ARE — in particular leading zero bytes are part of
the secret (unlike the (EC)DH shared secrets of RFC 5246 8.1.2, this is the output of a KDF). -/
def preMasterWellFormed (id : Nat) (pre : Bytes) : Bool :=
  pre.length == masterLen && (isECDHE id || pre.take 2 == be 2 0x0101)

/-! ### key schedule -/

def prf (P : Prims) (secret label seed : Bytes) (len : Nat) : Bytes :=
  PRF.prf P.hmac P.hLen secret label seed len

def masterSecret (P : Prims) (pre clientRandom serverRandom : Bytes) : Bytes :=
  prf P pre labelMaster (clientRandom ++ serverRandom) masterLen

structure KeyBlock where
  clientMAC : Bytes
  serverMAC : Bytes
  clientKey : Bytes
  serverKey : Bytes
  clientIV : Bytes
  serverIV : Bytes
  deriving DecidableEq, Repr

/-- partition of the key block, in the order of 6.5.2 -/
def cut (sp : SuiteParams) (kb : Bytes) : KeyBlock :=
  let clientMAC := kb.take sp.macLen
  let kb := kb.drop sp.macLen
  let serverMAC := kb.take sp.macLen
  let kb := kb.drop sp.macLen
  let clientKey := kb.take sp.keyLen
  let kb := kb.drop sp.keyLen
  let serverKey := kb.take sp.keyLen
  let kb := kb.drop sp.keyLen
  let clientIV := kb.take sp.ivLen
  let kb := kb.drop sp.ivLen
  let serverIV := kb.take sp.ivLen
  ⟨clientMAC, serverMAC, clientKey, serverKey, clientIV, serverIV⟩

def keyBlockLen (sp : SuiteParams) : Nat := 2 * sp.macLen + 2 * sp.keyLen + 2 * sp.ivLen

def keyBlock (P : Prims) (sp : SuiteParams) (master clientRandom serverRandom : Bytes) : KeyBlock :=
  cut sp (prf P master labelKeyExpansion (serverRandom ++ clientRandom) (keyBlockLen sp))

inductive Role | client | server
  deriving DecidableEq, Repr

/-- keys protecting one direction -/
structure DirKeys where
  mac : Bytes
  key : Bytes
  iv : Bytes
  deriving DecidableEq, Repr

/-- what `r` writes with -/
def writeKeys (kb : KeyBlock) : Role → DirKeys
  | .client => ⟨kb.clientMAC, kb.clientKey, kb.clientIV⟩
  | .server => ⟨kb.serverMAC, kb.serverKey, kb.serverIV⟩

def peer : Role → Role
  | .client => .server
  | .server => .client

/-- what `r` reads with: the peer's write keys -/
def readKeys (kb : KeyBlock) (r : Role) : DirKeys := writeKeys kb (peer r)

def finishedLabel : Role → Bytes
  | .client => labelClientFinished
  | .server => labelServerFinished

/-- verify_data of `r`'s Finished over the handshake messages exchanged so far -/
def verifyData (P : Prims) (master : Bytes) (r : Role) (transcript : Bytes) : Bytes :=
  prf P master (finishedLabel r) (P.hash transcript) verifyLen

/-! ### record protection -/

inductive Stack | tlcp | dtlcp
  deriving DecidableEq, Repr

/-- the 64-bit seq_num that is authenticated with every record -/
def seqNum : Stack → Nat → Nat → Bytes
  | .tlcp, _, seq => be 8 seq
  | .dtlcp, epoch, seq => be 2 epoch ++ be 6 seq

/-- record header on the wire: 5 bytes (TLCP) or 13 bytes (DTLCP) -/
def header : Stack → (typ ver epoch seq len : Nat) → Bytes
  | .tlcp, typ, ver, _, _, len => be 1 typ ++ be 2 ver ++ be 2 len
  | .dtlcp, typ, ver, epoch, seq, len => be 1 typ ++ be 2 ver ++ be 2 epoch ++ be 6 seq ++ be 2 len

def headerLen : Stack → Nat
  | .tlcp => 5
  | .dtlcp => 13

/-- seq_num + type + version + length -/
def pseudoHeader (st : Stack) (typ ver epoch seq len : Nat) : Bytes :=
  seqNum st epoch seq ++ be 1 typ ++ be 2 ver ++ be 2 len

/-- MAC input of a CBC record -/
def macInput (st : Stack) (typ ver epoch seq : Nat) (content : Bytes) : Bytes :=
  pseudoHeader st typ ver epoch seq content.length ++ content

/-- additional data of an AEAD record (length = plaintext length) -/
def additionalData (st : Stack) (typ ver epoch seq plainLen : Nat) : Bytes :=
  pseudoHeader st typ ver epoch seq plainLen

def gcmNonce (writeIV explicit : Bytes) : Bytes := writeIV ++ explicit

/-- minimal padding for `n` bytes of content ‖ MAC: p+1 bytes of value p, total a block multiple -/
def padding (n : Nat) : Bytes :=
  let p := blockLen - 1 - n % blockLen
  List.replicate (p + 1) (UInt8.ofNat p)

/-- a CBC-protected record with explicit IV `iv` (chosen at random by the sender) -/
def sealCBC (P : Prims) (k : DirKeys) (st : Stack) (typ ver epoch seq : Nat) (iv content : Bytes) : Bytes :=
  let mac := P.hmac k.mac (macInput st typ ver epoch seq content)
  let body := content ++ mac
  let pt := body ++ padding body.length
  header st typ ver epoch seq (iv.length + pt.length) ++ iv ++ CBC.encrypt (P.enc k.key) iv pt

/-- 6.3.3.4.2: "padding: … may be any length up to 255 bytes, as long as it results in the
ciphertext length being an integral multiple of the block length"; every byte of it (and the
padding_length byte that ends it) carries the value padding_length.  All legal paddings for `n`
bytes of content ‖ MAC: padding_length = minimal + 16·k ≤ 255. -/
def paddingOfLength (p : Nat) : Bytes := List.replicate (p + 1) (UInt8.ofNat p)

def legalPaddingLengths (n : Nat) : List Nat :=
  let p0 := blockLen - 1 - n % blockLen
  (List.range 16).filterMap fun k => if p0 + blockLen * k ≤ 255 then some (p0 + blockLen * k) else none

/-- A CBC record whose bytes after content ‖ MAC are given verbatim (`tail` = padding ‖
padding_length as the sender chose to write them). With `tail = paddingOfLength p`, `p` a legal
padding length, this is a record of the standard (a sender may pad up to 255 bytes); with any other
`tail` it is what a faulty or hostile sender can put on the wire with the right keys — the
receiver's padding check is judged on both. -/
def sealCBCTail (P : Prims) (k : DirKeys) (st : Stack) (typ ver epoch seq : Nat) (iv content tail : Bytes) : Bytes :=
  let mac := P.hmac k.mac (macInput st typ ver epoch seq content)
  let pt := content ++ mac ++ tail
  header st typ ver epoch seq (iv.length + pt.length) ++ iv ++ CBC.encrypt (P.enc k.key) iv pt

/-- an AEAD-protected record with 8-byte explicit nonce `explicit` (sender's choice, unique per key) -/
def sealGCM (P : Prims) (k : DirKeys) (st : Stack) (typ ver epoch seq : Nat) (explicit content : Bytes) : Bytes :=
  let ct := P.aeadSeal k.key (gcmNonce k.iv explicit) (additionalData st typ ver epoch seq content.length) content
  header st typ ver epoch seq (explicit.length + ct.length) ++ explicit ++ ct

def sealRecord (P : Prims) (m : Mode) (k : DirKeys) (st : Stack) (typ ver epoch seq : Nat) (nonce content : Bytes) : Bytes :=
  match m with
  | .cbc => sealCBC P k st typ ver epoch seq nonce content
  | .gcm => sealGCM P k st typ ver epoch seq nonce content

structure Parsed where
  typ : Nat
  ver : Nat
  epoch : Nat
  seq : Nat
  body : Bytes
  deriving DecidableEq, Repr

/-- split one record off the front of a byte stream -/
def parse (st : Stack) (wire : Bytes) : Option (Parsed × Bytes) :=
  let hl := headerLen st
  if wire.length < hl then none else
  let len := fromBE ((wire.drop (hl - 2)).take 2)
  let rest := wire.drop hl
  if rest.length < len then none else
  let typ := fromBE (wire.take 1)
  let ver := fromBE ((wire.drop 1).take 2)
  match st with
  | .tlcp => some (⟨typ, ver, 0, 0, rest.take len⟩, rest.drop len)
  | .dtlcp => some (⟨typ, ver, fromBE ((wire.drop 3).take 2), fromBE ((wire.drop 5).take 6), rest.take len⟩, rest.drop len)

/-- open the body of a CBC record that claims (typ, ver, epoch, seq) -/
def openCBC (P : Prims) (k : DirKeys) (st : Stack) (typ ver epoch seq : Nat) (body : Bytes) : Except String Bytes :=
  if body.length < 2 * blockLen ∨ body.length % blockLen ≠ 0 then .error "length" else
  let iv := body.take blockLen
  let pt := CBC.decrypt (P.dec k.key) iv (body.drop blockLen)
  let p := (pt.getLast?.getD 0).toNat
  if pt.length < p + 1 + P.hLen then .error "padding" else
  if (pt.drop (pt.length - (p + 1))).any (· != UInt8.ofNat p) then .error "padding" else
  let content := pt.take (pt.length - (p + 1) - P.hLen)
  let mac := (pt.drop content.length).take P.hLen
  if mac == P.hmac k.mac (macInput st typ ver epoch seq content) then .ok content else .error "mac"

/-- open the body of an AEAD record that claims (typ, ver, epoch, seq) -/
def openGCM (P : Prims) (k : DirKeys) (st : Stack) (typ ver epoch seq : Nat) (body : Bytes) : Except String Bytes :=
  if body.length < explicitNonceLen + P.tagLen then .error "length" else
  let explicit := body.take explicitNonceLen
  let ct := body.drop explicitNonceLen
  match P.aeadOpen k.key (gcmNonce k.iv explicit) (additionalData st typ ver epoch seq (ct.length - P.tagLen)) ct with
  | some p => .ok p
  | none => .error "tag"

def openBody (P : Prims) (m : Mode) (k : DirKeys) (st : Stack) (typ ver epoch seq : Nat) (body : Bytes) : Except String Bytes :=
  match m with
  | .cbc => openCBC P k st typ ver epoch seq body
  | .gcm => openGCM P k st typ ver epoch seq body

/-- the per-record value that must never repeat under one key: explicit IV (CBC) / explicit nonce (GCM) -/
def explicitPart (m : Mode) (body : Bytes) : Bytes :=
  match m with
  | .cbc => body.take blockLen
  | .gcm => body.take explicitNonceLen

/-! ### the receiving side of a protected connection

6.3.3: "once the handshake is complete, the two parties have shared secrets that are used to
encrypt records and compute MACs on them"; 6.4.5.9 (ChangeCipherSpec): the receiver "instructs the
record layer to immediately copy the read pending state into the read current state" — from then on
EVERY record of that direction is processed under the read state installed then: it is opened with
the peer's write keys and its seq_num + type + version + length + content must authenticate.  There
is no record type, no epoch and no moment after that point at which a body is taken as it stands.
DTLCP (RFC 6347 4.1): the epoch in the header names the cipher state the record was sealed under; a
receiver whose read state is that of epoch e has no other state to process a record with. -/

/-- read state of one direction after the peer's ChangeCipherSpec -/
structure ReadState where
  mode : Mode
  /-- the PEER's write keys -/
  keys : DirKeys
  /-- DTLCP: the epoch these keys belong to (1 after the first handshake) -/
  epoch : Nat
  /-- TLCP: the implicit sequence number of the next record of this direction -/
  seq : Nat

/-- The standard's receiver on one record put in front of it: `some (type, content)` when it opens
under the read state — the header's version is the negotiated one, (DTLCP) its epoch is the read
state's, and the body opens under the peer's write keys with seq_num (TLCP: the implicit counter;
DTLCP: epoch ‖ sequence_number of the header), type, version and length authenticated — `none`
otherwise: the record yields nothing (DTLCP: it is discarded; TLCP: the connection fails). -/
def receive (P : Prims) (st : Stack) (rs : ReadState) (ver : Nat) (rec : Bytes) : Option (Nat × Bytes) :=
  match parse st rec with
  | some (p, []) =>
    if p.ver != ver then none else
    if st == .dtlcp && p.epoch != rs.epoch then none else
    let seq := match st with | .tlcp => rs.seq | .dtlcp => p.seq
    match openBody P rs.mode rs.keys st p.typ p.ver p.epoch seq p.body with
    | .ok x => some (p.typ, x)
    | .error _ => none
  | _ => none

/-- What "opens under the direction's own key with the sequence number (and for DTLCP epoch), type,
version and length authenticated" says about a content handed on from a record body:
GCM — the AEAD opens the ciphertext to it under write key, write IV ‖ explicit nonce and the
additional data seq_num + type + version + length; CBC — it is the front of the decryption under
the write key and the bytes that follow it are HMAC(MAC key, seq_num + type + version + length +
content). -/
def Authentic (P : Prims) (m : Mode) (k : DirKeys) (st : Stack) (typ ver epoch seq : Nat) (body content : Bytes) : Prop :=
  match m with
  | .gcm =>
    let ct := body.drop explicitNonceLen
    P.aeadOpen k.key (gcmNonce k.iv (body.take explicitNonceLen))
      (additionalData st typ ver epoch seq (ct.length - P.tagLen)) ct = some content
  | .cbc =>
    let pt := CBC.decrypt (P.dec k.key) (body.take blockLen) (body.drop blockLen)
    pt.take content.length = content ∧
      (pt.drop content.length).take P.hLen = P.hmac k.mac (macInput st typ ver epoch seq content)

/-! ### build-time checks -/

#guard preMasterWellFormed 0xe053 (be 2 0x0101 ++ List.replicate 46 7)
#guard !preMasterWellFormed 0xe053 (List.replicate 48 0)
#guard preMasterWellFormed 0xe051 (List.replicate 48 0)
#guard !preMasterWellFormed 0xe051 (List.replicate 47 1)

#guard (suite 0xe013).map (keyBlockLen ·) == some 128
#guard (suite 0xe053).map (keyBlockLen ·) == some 40
#guard padding 0 == List.replicate 16 15
#guard padding 15 == [0]
#guard padding 16 == List.replicate 16 15
#guard padding 33 == List.replicate 15 14
#guard
  let k : DirKeys := ⟨List.replicate 32 1, SM4.katKey, List.replicate 16 2⟩
  let r := sealCBC sm k .tlcp 23 0x0101 0 5 (List.replicate 16 9) [1,2,3]
  (parse .tlcp r).map (fun (p, rest) => (p.typ, p.ver, rest.length, (openCBC sm k .tlcp 23 0x0101 0 5 p.body).toOption)) ==
    some (23, 0x0101, 0, some [1,2,3])
#guard legalPaddingLengths 35 == [12, 28, 44, 60, 76, 92, 108, 124, 140, 156, 172, 188, 204, 220, 236, 252]
#guard legalPaddingLengths 32 == [15, 31, 47, 63, 79, 95, 111, 127, 143, 159, 175, 191, 207, 223, 239, 255]
-- long legal padding opens; one damaged padding byte far from the end does not; minimal tail = sealCBC
#guard
  let k : DirKeys := ⟨List.replicate 32 1, SM4.katKey, List.replicate 16 2⟩
  let iv : Bytes := List.replicate 16 9
  let opens (r : Bytes) := (parse .dtlcp r).map (fun (p, _) => (openCBC sm k .dtlcp 23 0x0101 1 5 p.body).toOption)
  let good := paddingOfLength 252
  let bad := good.set 3 0xaa
  opens (sealCBCTail sm k .dtlcp 23 0x0101 1 5 iv [1,2,3] good) == some (some [1,2,3]) &&
  opens (sealCBCTail sm k .dtlcp 23 0x0101 1 5 iv [1,2,3] bad) == some none &&
  sealCBCTail sm k .dtlcp 23 0x0101 1 5 iv [1,2,3] (padding 35) == sealCBC sm k .dtlcp 23 0x0101 1 5 iv [1,2,3]
#guard
  let k : DirKeys := ⟨[], SM4.katKey, [1,2,3,4]⟩
  let r := sealGCM sm k .dtlcp 23 0x0101 1 7 (be 2 1 ++ be 6 7) [1,2,3]
  (parse .dtlcp r).map (fun (p, rest) => (p.epoch, p.seq, rest.length, (openGCM sm k .dtlcp 23 0x0101 p.epoch p.seq p.body).toOption,
      (openGCM sm k .dtlcp 23 0x0101 p.epoch (p.seq + 1) p.body).toOption)) ==
    some (1, 7, 0, some [1,2,3], none)

end Gotlcp.Spec.KeySchedule

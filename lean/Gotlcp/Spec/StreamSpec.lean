/-
Specification for C06, written from the statement of the property and GB/T 38636 (record
layer: a fragment carries at most 2^14 bytes of plaintext, a protected fragment at most
2^14 + 2048 bytes), not from the code and not from the regenerated facts.

An observation of a one-directional run is: what each `Write` was given and returned, the
lengths in the record headers on the wire, the plaintext length of every record, what every
`Read` returned (bytes, error), and whether the writer closed after its last write.

Core Lean only.
-/
import Gotlcp.Base.Hex

namespace Gotlcp.Spec.Stream

def maxPlaintext : Nat := 16384
def maxCiphertext : Nat := 16384 + 2048

/-- record protection modes of TLCP and the least number of bytes each adds to a fragment
(GB/T 38636 6.3.3: GCM = 8-byte explicit nonce + 16-byte tag; CBC = 16-byte IV + 32-byte
HMAC-SM3 + 1..16 bytes of padding) -/
inductive Mode where
  | plain | gcm | cbc
  deriving Repr, DecidableEq

def maxExpansion : Mode → Nat
  | .plain => 0
  | .gcm => 8 + 16
  | .cbc => 16 + 32 + 16

/-- a protected fragment of `n` bytes carries at least this much plaintext -/
def plainAtLeast (m : Mode) (n : Nat) : Nat := n - maxExpansion m

def isPrefix : Bytes → Bytes → Bool
  | [], _ => true
  | _ :: _, [] => false
  | a :: as, b :: bs => a == b && isPrefix as bs

/-- what a `Read` reported besides bytes -/
inductive REnd where
  | ok | eof | other
  /-- a read deadline fired: not an error of the stream — the reader extends its deadline and
  reads on (that a time-out is not latched is C12; here: nothing may be lost around it) -/
  | timeout
  deriving Repr, DecidableEq

structure Obs where
  writes : List Bytes
  returned : List Nat
  mode : Mode
  wireLens : List Nat
  /-- plaintext length of every record, when the observer could see it -/
  plainLens : Option (List Nat)
  reads : List (Bytes × REnd)
  /-- how many times the transport stalled (held bytes back until the reader's read deadline had
  fired and been extended); the reader extends its deadline after every time-out -/
  stalls : Nat := 0

/-- `none` = the property holds on the observation; otherwise (tag, reason) -/
def check (o : Obs) : Option (String × String) :=
  let sent := o.writes.flatten
  let got := (o.reads.map (·.1)).flatten
  if o.returned != o.writes.map (·.length) then
    some ("write-len", s!"Write returned {o.returned} for writes of {o.writes.map (·.length)} bytes")
  else if o.wireLens.any (· > maxCiphertext) then
    some ("cipher-limit", s!"a record on the wire carries more than {maxCiphertext} bytes: {o.wireLens.filter (· > maxCiphertext)}")
  else if o.wireLens.any (fun n => plainAtLeast o.mode n > maxPlaintext) then
    some ("plain-limit", s!"a record on the wire carries more than {maxPlaintext} bytes of plaintext: protected lengths {o.wireLens.filter (fun n => plainAtLeast o.mode n > maxPlaintext)}")
  else if (o.plainLens.getD []).any (· > maxPlaintext) then
    some ("plain-limit", s!"a record carries more than {maxPlaintext} bytes of plaintext: {(o.plainLens.getD []).filter (· > maxPlaintext)}")
  else if o.plainLens.isSome && (o.plainLens.getD []).sum != sent.length then
    some ("records", s!"the records carry {(o.plainLens.getD []).sum} bytes of plaintext for {sent.length} bytes written")
  else if o.reads.any (fun r => r.2 == .other) then
    some ("read-error", "a Read failed with an error other than end-of-stream on an unmodified transport")
  else if (o.reads.filter (fun r => r.2 == .timeout)).length > o.stalls then
    some ("spurious-timeout", s!"{(o.reads.filter (fun r => r.2 == .timeout)).length} Reads timed out although the transport stalled only {o.stalls} times and the reader extended its deadline each time")
  else if !isPrefix got sent then
    some ("stream", s!"what was read is not a prefix of what was written (read {got.length} of {sent.length} bytes)")
  else if o.reads.any (fun r => r.2 == .eof) && got != sent then
    some ("early-eof", s!"end-of-stream reported after {got.length} of {sent.length} bytes")
  else none
-- (with stalls: a stream desynchronised by a time-out shows as `read-error` — a bogus header or
-- bad_record_mac on an unmodified transport — or as `stream` / `early-eof`)

/-- the hook-level clause: every answer of `maxPayloadSizeForWrite` must let the split loop make
progress and keep the record within the plaintext limit -/
def checkMaxPayload (answers : List Int) : Option (String × String) :=
  match answers.find? (fun x => x ≤ 0 || x > (maxPlaintext : Int)) with
  | some x => some ("max-payload", s!"maxPayloadSizeForWrite answered {x}, outside 1..{maxPlaintext}")
  | none => none

end Gotlcp.Spec.Stream

/-
Spec for C19, written from the statement of the property and the documentation of
`Config.InitialRetransmitTimeout` / `MaxRetransmitTimeout` (RFC 6347 §4.2.4 schedule: the
retransmission timeout starts at the initial value and doubles at every expiry up to the maximum).
Independent of the code and of `Facts`.

A run of two endpoints under `k` datagram faults is summarised by an `Obs`; `judge` says whether the
property holds on it:
  * no fault      → both complete, no read deadline expired, completion at virtual time 0, data flows;
  * k ≥ 1 faults  → both complete within `budget init max k` (the first k timeouts of the schedule),
                    and one application datagram then gets through in each direction;
  * always        → if both complete they agree; nothing is handed to the application by an end that
                    has not completed.
-/
namespace Gotlcp.Spec.Flights

/-- the k-th timeout of the documented schedule (k = 0 is the initial timeout) -/
def sched (init max k : Nat) : Nat := Nat.min (init * 2 ^ k) max

/-- time allowed for k faults: the first k timeouts of the schedule -/
def budget (init max : Nat) : Nat → Nat
  | 0 => 0
  | k + 1 => budget init max k + sched init max k

structure Obs where
  cOk : Bool
  sOk : Bool
  /-- virtual completion times (same unit as init/max) -/
  ct : Option Nat
  st : Option Nat
  /-- read deadlines that expired on each side -/
  cto : Nat
  sto : Nat
  /-- the client got the server's application datagram / the server got the client's -/
  echoC : Bool
  echoS : Bool
  /-- both completed: do they report the same parameters and keys -/
  agree : Option Bool
  /-- some end holds application data although its handshake did not complete -/
  early : Bool
  deriving Repr

def within (t : Option Nat) (b : Nat) : Bool :=
  match t with
  | some v => v ≤ b
  | none => false

/-- `none` = the property holds on this run; `some (tag, reason)` otherwise -/
def judge (init max k : Nat) (o : Obs) : Option (String × String) :=
  if o.early then some ("early-data", "application data handed over before the peer's Finished was verified")
  else if o.cOk && o.sOk && o.agree == some false then some ("disagree", "both ends completed with different parameters or keys")
  else if !(o.cOk && o.sOk) then
    some (if k == 0 then "fatal-no-fault" else "fatal",
          s!"{k} fault(s): client {if o.cOk then "completed" else "did not complete"}, server {if o.sOk then "completed" else "did not complete"}")
  else if k == 0 && (o.cto != 0 || o.sto != 0 || !within o.ct 0 || !within o.st 0) then
    some ("stall-no-fault", s!"no fault, yet {o.cto}+{o.sto} retransmission timeouts expired (completion at {o.ct.getD 0}/{o.st.getD 0})")
  else if !(within o.ct (budget init max k) && within o.st (budget init max k)) then
    some ("slow", s!"{k} fault(s): completion at {o.ct.getD 0}/{o.st.getD 0} exceeds the first {k} timeouts of the schedule = {budget init max k}")
  else if !(o.echoC && o.echoS) then
    some ("no-data", s!"{k} fault(s): both completed but application data did not flow both ways")
  else none

end Gotlcp.Spec.Flights

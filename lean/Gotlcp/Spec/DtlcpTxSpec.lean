/-
Specification of the DTLCP transmit sizes, written from the property statement, the package
documentation (Config.PMTU: default 1400; "one WriteTo = one record = one datagram") and
GM/T 0024 / RFC 6347 record formats — not from the code.  Documented constants are literals.

  * a datagram handed to the network is never larger than the path MTU in force
    (the configured value, 1400 when it is not positive);
  * no record carries more than 16384 bytes of plaintext;
  * a WriteTo of at most `maxPayload` bytes is exactly one datagram carrying exactly those bytes;
  * larger writes are split into pieces whose concatenation is the input.
Record sizes on the wire (13-byte DTLCP record header):
  SM4-GCM : 8 explicit nonce bytes + plaintext + 16 tag bytes
  SM4-CBC : 16 IV bytes + (plaintext + 32 MAC bytes + padding of 1..16 bytes) to a multiple of 16
-/
import Gotlcp.Base.Hex

namespace Gotlcp.Spec.DtlcpTxSpec

inductive Suite where
  | none | gcm | cbc
deriving Repr, DecidableEq

def defaultPmtu : Nat := 1400
def maxPlaintext : Nat := 16384
def recordHeader : Nat := 13

def effPmtu (pmtu : Int) : Nat := if pmtu ≤ 0 then defaultPmtu else pmtu.toNat

/-- bytes on the wire for one record with `n` plaintext bytes -/
def wireLen (s : Suite) (n : Nat) : Nat :=
  match s with
  | .none => recordHeader + n
  | .gcm => recordHeader + 8 + n + 16
  | .cbc => recordHeader + 16 + 16 * ((n + 32) / 16 + 1)

/-- smallest path MTU at which one byte of payload fits at all -/
def minWorkablePmtu (s : Suite) : Nat := wireLen s 1

/-- plaintext bytes carried by a record of `w` wire bytes (exact for none/GCM; for CBC the
largest plaintext that pads to `w`) -/
def plainUpper (s : Suite) (w : Nat) : Nat :=
  match s with
  | .none => w - recordHeader
  | .gcm => w - recordHeader - 8 - 16
  | .cbc => w - recordHeader - 16 - 32 - 1

/-- the least plaintext a record of `w` wire bytes can carry (CBC: 16 padding bytes) -/
def plainLower (s : Suite) (w : Nat) : Nat :=
  match s with
  | .cbc => w - recordHeader - 16 - 32 - 16
  | s => plainUpper s w

/-- verdict on the datagrams observed for one application write of `n` bytes under the
announced `maxPayload`: `none` = fine, otherwise (tag, reason) -/
def judgeWrite (s : Suite) (pmtu : Int) (maxPayload n : Nat) (datagrams : List Nat) : Option (String × String) :=
  let p := effPmtu pmtu
  if maxPayload < 1 ∨ maxPayload > maxPlaintext then
    some ("max-payload-range", s!"maximum payload {maxPayload} outside 1..16384")
  else if datagrams.any (fun w => plainLower s w > maxPlaintext) then
    some ("record-overflow", "a record carries more than 16384 bytes of plaintext")
  else if p ≥ minWorkablePmtu s ∧ datagrams.any (· > p) then
    some ("datagram-exceeds-pmtu", s!"datagram of {(datagrams.filter (· > p)).headD 0} bytes with path MTU {p}")
  else if n = 0 ∧ datagrams.length ≠ 1 then
    some ("empty-payload", s!"an empty payload produced {datagrams.length} datagrams, not one")
  else if n ≤ maxPayload ∧ n > 0 ∧ datagrams ≠ [wireLen s n] then
    some ("not-one-datagram", s!"a payload of {n} <= {maxPayload} bytes left as {datagrams.length} datagrams")
  else if n > maxPayload ∧ datagrams.length < 2 then
    some ("not-split", s!"a payload of {n} > {maxPayload} bytes left as {datagrams.length} datagrams")
  else if s ≠ .cbc ∧ (datagrams.map (plainUpper s)).sum ≠ n then
    some ("bytes-lost", s!"the records carry {(datagrams.map (plainUpper s)).sum} plaintext bytes, {n} were written")
  else none

/-- verdict on a flushed handshake flight -/
def judgeFlight (pmtu : Int) (datagrams : List Nat) : Option (String × String) :=
  let p := effPmtu pmtu
  match datagrams.find? (· > p) with
  | some w => some ("flight-exceeds-pmtu", s!"handshake flight datagram of {w} bytes larger than the path MTU {p}")
  | none => none

end Gotlcp.Spec.DtlcpTxSpec

/-
Spec for C18, written from the property statement and the protocol documents (GM/T 0024,
RFC 6347 §4.2.1, RFC 2104), not from the code and not from `Facts`:

  "Until it receives a ClientHello carrying a cookie that is valid for the sender's address,
   the hello's version, random, session id, cipher suites and compression methods, and the
   server's secret, a DTLCP server answers each ClientHello with nothing but a
   HelloVerifyRequest no larger than the request, and performs no certificate transmission and
   no private-key operation.  A cookie is accepted only for exactly the address, parameters
   and secret it was issued for; changing any of them, or any byte of the cookie, makes it
   invalid.  When no secret is configured each server connection draws its own random one."
-/
import Gotlcp.Base.Hex

namespace Gotlcp.Spec.Cookie

/-- the covered ClientHello parameters -/
structure Params where
  vers : Nat
  random : Bytes
  sessionId : Bytes
  suites : List Nat
  compression : Bytes
  deriving DecidableEq, Repr

/-- what a cookie is issued for / presented with -/
structure Binding where
  secret : Bytes
  addr : Bytes
  params : Params
  deriving DecidableEq, Repr

/-- RFC 2104: a key shorter than the block size (64 bytes for SM3) is extended with zero
bytes, so two secrets of at most one block that differ only in trailing zeros are one key. -/
def trimZeros : Bytes → Bytes
  | [] => []
  | b :: bs => match trimZeros bs with
    | [] => if b == 0 then [] else [b]
    | t => b :: t

def sameSecret (k k' : Bytes) : Bool :=
  k == k' || (k.length ≤ 64 && k'.length ≤ 64 && trimZeros k == trimZeros k')

/-- "accepted only for exactly the address, parameters and secret it was issued for; changing
any of them, or any byte of the cookie, makes it invalid" — and the issued cookie is valid. -/
def mustAccept (issued presented : Binding) (cookieAltered : Bool) : Bool :=
  !cookieAltered && sameSecret issued.secret presented.secret && issued.addr == presented.addr
    && issued.params == presented.params

/-- which part of the binding an accepted cookie violates -/
def bindingBreach (issued presented : Binding) (cookieAltered : Bool) : String :=
  (if cookieAltered then "cookie-altered " else "")
    ++ (if sameSecret issued.secret presented.secret then "" else "other-secret ")
    ++ (if issued.addr == presented.addr then "" else "other-address ")
    ++ (if issued.params == presented.params then "" else "other-parameters ")

def judgeAccept (issued presented : Binding) (altered : Bool) (accepted : Bool) : Option (String × String) :=
  let want := mustAccept issued presented altered
  if accepted == want then none
  else if accepted then some ("binding", "cookie accepted for " ++ bindingBreach issued presented altered)
  else some ("rejects-valid", "the issued cookie is rejected for its own address, parameters and secret")

/-! ### the secret a connection draws when none is configured -/

/-- Config.CookieSecret: "the key must be random and secret, at least 16 bytes are recommended" -/
def minRandomSecret : Nat := 16

/-- number of positions at which two byte streams deliver the same byte -/
def agreeing : Bytes → Bytes → Nat
  | a :: as, b :: bs => (if a == b then 1 else 0) + agreeing as bs
  | _, _ => 0

/-- "When no secret is configured each server connection draws its own random one", judged for
connections whose random sources are known byte streams (possibly delivered in short reads):
every secret has at least the documented minimum of bytes and at least that many bytes were drawn
from the connection's source for it; two connections whose sources agree in fewer positions than
that minimum (so any 16 bytes taken from them differ) do not end up with the same secret.
`lens` / `drawn` per connection, `sources` = the streams, `same i j` = the implementation's
secrets of connections i and j are equal. -/
def judgeRandomSecret (lens drawn : List Nat) (sources : List Bytes) (same : Nat → Nat → Bool) :
    Option (String × String) :=
  match (lens.zip drawn).find? (fun (l, d) => l < minRandomSecret || d < minRandomSecret) with
  | some (l, d) =>
    some ("secret-not-random", s!"a connection's cookie secret of {l} bytes was made from {d} byte(s) of its random source (at least {minRandomSecret} random bytes are required)")
  | none =>
    let idx := List.range sources.length
    let clash := idx.findSome? fun i => idx.findSome? fun j =>
      if i < j && agreeing (sources.getD i []) (sources.getD j []) < minRandomSecret && same i j
      then some (i, j) else none
    match clash with
    | some (i, j) =>
      some ("secret-shared", s!"connections {i} and {j} use the same cookie secret although their random sources agree in only {agreeing (sources.getD i []) (sources.getD j [])} byte(s)")
    | none => none

/-! ### what a server may do before a valid cookie -/

/-- observation of the server's reaction to one received ClientHello (or datagram group) -/
structure Reaction where
  /-- bytes of the request: sum over the datagrams that carried the hello(s) -/
  requestBytes : Nat
  /-- number of complete ClientHello messages in the request -/
  hellos : Nat := 1
  /-- sizes of the datagrams the server sent in reaction -/
  sent : List Nat
  /-- handshake message types inside those datagrams, in order -/
  types : List Nat
  /-- alerts inside those datagrams -/
  alerts : Nat
  /-- private-key operations (Sign / Decrypt / key agreement) performed so far -/
  keyOps : Nat
  deriving Repr

def typeHelloVerifyRequest : Nat := 3
def typeCertificate : Nat := 11

/-- before a valid cookie: nothing but HelloVerifyRequests, at least one and at most one per
ClientHello received, in total not larger than the request; no certificate, no private-key
operation -/
def judgePreCookie (r : Reaction) : Option (String × String) :=
  if r.keyOps != 0 then some ("private-key-before-cookie", s!"{r.keyOps} private-key operations before a valid cookie")
  else if r.types.contains typeCertificate then some ("certificate-before-cookie", "certificate sent before a valid cookie")
  else if !(r.types.all (· == typeHelloVerifyRequest)) || r.types.isEmpty || r.types.length > r.hellos || r.alerts != 0 then
    some ("not-only-hvr", s!"answered {r.hellos} ClientHello(s) with handshake types {r.types} and {r.alerts} alerts instead of HelloVerifyRequests, at most one each")
  else if r.sent.foldl (· + ·) 0 > r.requestBytes then
    some ("amplification", s!"{r.sent.foldl (· + ·) 0} bytes sent in answer to {r.requestBytes} bytes")
  else none

/-! ### a ClientHello that arrives in fragments (RFC 6347 §4.2.3), datagram by datagram

"answers each ClientHello with nothing but a HelloVerifyRequest no larger than the request": a
datagram that carries a fragment is not a ClientHello; a ClientHello has been received once
every byte of it has been received. Whatever the order, repeats and overlaps of the fragments,
each received fragment can be part of one received ClientHello only, so after a series of
fragment datagrams the number of ClientHellos received is at most the number of times the
least-often received byte of the message was received. -/

/-- a received datagram carrying the fragment [off, off+len) of the message, and what the server
sent in reaction to it (`reaction.requestBytes` = size of this datagram) -/
structure FragDatagram where
  off : Nat
  len : Nat
  reaction : Reaction
  deriving Repr

/-- how many times over the fragments (offset, length) cover a message of `n` bytes: the number of
times its least-often received byte was received (fragments reaching beyond `n` count for nothing) -/
def timesCovered (n : Nat) (fs : List (Nat × Nat)) : Nat :=
  (List.range n).foldl
    (fun m i => min m (fs.filter fun f => f.1 + f.2 ≤ n && f.1 ≤ i && i < f.1 + f.2).length) fs.length

/-- before a valid cookie, for the datagrams of a fragmented ClientHello of `n` bytes in the order
received: nothing but HelloVerifyRequests, no alert, no certificate, no private-key operation; at
every point at most as many HelloVerifyRequests as ClientHellos received so far (a datagram that
completes no new ClientHello is answered with nothing), and not more bytes sent than received. -/
def judgeFragmented (n : Nat) (ds : List FragDatagram) : Option (String × String) :=
  let rec go (ds : List FragDatagram) (j : Nat) (seen : List (Nat × Nat)) (hvrs sent recv : Nat) :
      Option (String × String) :=
    match ds with
    | [] => none
    | d :: rest =>
      let r := d.reaction
      let seen := seen ++ [(d.off, d.len)]
      let hvrs := hvrs + r.types.length
      let out := r.sent.foldl (· + ·) 0
      let sent := sent + out
      let recv := recv + r.requestBytes
      let have_ := timesCovered n seen
      if r.keyOps != 0 then some ("private-key-before-cookie", s!"{r.keyOps} private-key operations before a valid cookie")
      else if r.types.contains typeCertificate then some ("certificate-before-cookie", "certificate sent before a valid cookie")
      else if !(r.types.all (· == typeHelloVerifyRequest)) || r.alerts != 0 || (r.types.isEmpty && !r.sent.isEmpty) then
        some ("not-only-hvr", s!"fragment datagram {j} answered with handshake types {r.types}, {r.alerts} alerts, {r.sent.length} datagrams")
      else if hvrs > have_ then
        some ("unsolicited-reply", s!"datagram {j} ({r.requestBytes} bytes, fragment {d.off}+{d.len} of {n}) completes no new ClientHello ({have_} received so far, {hvrs - r.types.length} answered) and was answered with {out} bytes")
      else if sent > recv then
        some ("amplification", s!"{sent} bytes sent in answer to {recv} bytes of fragment datagrams")
      else go rest (j + 1) seen hvrs sent recv
  go ds 0 [] 0 0 0

/-- GM/T 0024: the only protocol version is 1.1 (0x0101); SSL/TLS version numbers (0x03xx)
are not TLCP and anything below 1.1 does not exist -/
def versionAcceptable (v : Nat) : Bool := v ≥ 0x0101 && v / 256 != 3

/-- a ClientHello whose version cannot be served may be refused instead: one alert, not larger
than the request, nothing computed; the connection is over -/
def judgeRefusal (r : Reaction) : Option (String × String) :=
  if r.keyOps != 0 then some ("private-key-before-cookie", s!"{r.keyOps} private-key operations before a valid cookie")
  else if r.types != [] || r.alerts != 1 then some ("not-only-hvr", s!"unsupported version answered with handshake types {r.types} and {r.alerts} alerts")
  else if r.sent.foldl (· + ·) 0 > r.requestBytes then
    some ("amplification", s!"{r.sent.foldl (· + ·) 0} bytes sent in answer to {r.requestBytes} bytes")
  else none

/-- while the peer sends nothing the server sends nothing: every reply answers a received
ClientHello (one reply per hello, bytes out ≤ bytes in), so a single hello from a spoofed
address cannot draw a series of replies -/
def judgeSilence (r : Reaction) : Option (String × String) :=
  if r.keyOps != 0 then some ("private-key-before-cookie", s!"{r.keyOps} private-key operations before a valid cookie")
  else if r.sent != [] then
    some ("unsolicited-reply", s!"{r.sent.length} datagrams ({r.sent.foldl (· + ·) 0} bytes) sent while the peer was silent")
  else none

/-- a datagram the server must ignore (wrong source address): nothing is sent, nothing computed -/
def judgeIgnored (r : Reaction) : Option (String × String) :=
  if r.sent != [] then some ("answers-foreign-address", "a datagram from another address was answered")
  else if r.keyOps != 0 then some ("private-key-before-cookie", "private-key operation before a valid cookie")
  else none

end Gotlcp.Spec.Cookie

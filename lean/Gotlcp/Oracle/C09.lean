/-
Oracle for C09: re-computes what the checked-index / loop models predict for a case and
evaluates the (trivial) robustness spec on what the real code did.

Case and observation syntax: see harness/cmd/c09/*.go (one section per `fn=` family below).
The model's prediction is rendered by substituting the predicted values of the COMPARED keys
into the observed token list, so keys the property does not constrain never disagree; the
error branch (`why=`) is reported as a note.
-/
import Gotlcp.Oracle.Common
import Gotlcp.Model.ParsersFacts
import Gotlcp.Spec.RobustSpec

namespace Gotlcp.Oracle.C09
open Gotlcp.Model
open Gotlcp.Model.Parsers
open Gotlcp.Spec

/-- replace the value of `key=` in a token list (append when absent) -/
def subst (toks : List String) (key val : String) : List String :=
  if toks.any (fun t => t.startsWith (key ++ "=")) then
    toks.map (fun t => if t.startsWith (key ++ "=") then key ++ "=" ++ val else t)
  else toks ++ [key ++ "=" ++ val]

def render (toks : List String) : String := " ".intercalate toks

def parseKind (s : String) : Option KeyKind :=
  if s == "sm2" then some .sm2 else if s == "p256" then some .p256
  else if s == "rsa" then some .rsa else if s == "ed" then some .ed else none

def parsePeer (s : String) : Option (List KeyKind) :=
  if s == "-" || s == "" then some [] else (s.splitOn ",").mapM parseKind

def b01 (b : Bool) : String := if b then "1" else "0"

/-- the library answers, read off the observation (crypto verdicts are model inputs) -/
def libOf (ot : List String) : KxLib :=
  let why := (kv ot "why").getD "-"
  let dec := (kv ot "dec").getD "none"
  { decrypt := fun _ => if dec == "err" || dec == "none" then none else dec.toNat?,
    verify := why != "verify",
    libOk := why != "lib" }

structure Pred where
  cls : String
  why : String := "-"
  decin : String := "none"
  tmp : String := "0"

def ofOutcome {α : Type} (o : Outcome α) : Pred :=
  match o with
  | .ok _ => { cls := "ok" }
  | .err e => { cls := "err", why := e.name }
  | .panic => { cls := "panic" }

/-- key-agreement cases -/
def judgeKX (fn : String) (ct ot : List String) : Option Verdict := do
  let stack ← kv ct "stack"
  let dtls := stack == "dtlcp"
  let g := guardsOf dtls
  let lib := libOf ot
  let body := (kvHex ct "body").getD []
  let peer ← parsePeer ((kv ct "peer").getD "-")
  let p : Pred ←
    if fn == "ecc_pckx" then
      let srv := (kv ct "srv").getD "sm2"
      let haveCerts := srv != "nocert"
      let isDec := srv != "edenc"
      let parse := eccPckxParse g haveCerts body
      let decin := match parse with
        | .ok c => if isDec then Hex.encode c else "none"
        | _ => "none"
      some { ofOutcome (eccPckx g haveCerts isDec lib body) with decin := decin }
    else if fn == "ecc_pskx" then some (ofOutcome (eccPskx g lib peer body))
    else if fn == "ecc_gckx" then some (ofOutcome (eccGckx g lib peer))
    else if fn == "dhe_pub" then some (ofOutcome (dhePub g lib body))
    else if fn == "dhe_pckx" then some (ofOutcome (dhePckx g lib peer body))
    else if fn == "dhe_pskx" then
      let r := dhePskx g lib peer body
      some { ofOutcome r.1 with tmp := b01 r.2 }
    else if fn == "dhe_gckx" then
      let tmpSet := (kv ot "tmp").getD "0" == "1"
      let ce := (kv ct "cenc").getD "nil"
      let enc : EncPriv := if ce == "nil" then .nilCert else if ce == "sm2" then .sm2 else .other
      some { ofOutcome (dheGckx g lib tmpSet enc peer) with tmp := b01 tmpSet }
    else none
  let obsCls := (kv ot "out").getD "?"
  let obsWhy := (kv ot "why").getD "-"
  let m := subst (subst (subst ot "out" p.cls) "decin" p.decin) "tmp" p.tmp
  -- the recovered panic text is an observation detail: drop it from the prediction when the
  -- model predicts no panic (so that the difference shows in `out=` only)
  let note := if p.cls == "err" && obsCls == "err" && p.why != obsWhy then s!"branch:model={p.why},impl={obsWhy}" else ""
  pure { model := render m, spec := Robust.verdict { cls := obsCls }, note := note,
         trivial := false }

/-- the answers of the cipher, read off the observation -/
def decLibOf (hdr bs : Nat) (obsOk : Bool) (plen : Nat) (after : Bytes) : DecLib :=
  { aeadOpen := fun _ => if obsOk then some plen else none,
    cbcDecrypt := fun p => if (after.drop (hdr + bs)).length = p.length then after.drop (hdr + bs) else p,
    cbcLen := by intro b; split <;> simp_all,
    macOk := obsOk }

/-- record-protection cases -/
def judgeRec (fn : String) (ct ot : List String) : Option Verdict := do
  let stack ← kv ct "stack"
  let dtls := stack == "dtlcp"
  let hdr := if dtls then Facts.dtlcp.recordHeaderLen else Facts.tlcp.recordHeaderLen
  let obsCls := (kv ot "out").getD "?"
  if fn == "rec_pad" then
    let payload ← kvHex ct "payload"
    let m := match extractPadding payload with
      | .ok (rem, good) => subst (subst (subst ot "out" "ok") "rem" (toString rem)) "good" (b01 good)
      | .err _ => subst ot "out" "err"
      | .panic => subst ot "out" "panic"
    pure { model := render m, spec := Robust.verdict { cls := obsCls }, trivial := payload.isEmpty }
  else if fn == "rec_dec" then
    let rec_ ← kvHex ct "rec"
    let su ← kv ct "suite"
    let seqB ← kvHex ct "seq"
    let seq := seqB.foldl (fun a b => a * 256 + b.toNat) 0
    let after := (kvHex ot "after").getD []
    let plen := ((kv ot "plen").bind String.toNat?).getD 0
    let k : CipherKind := if su == "gcm" then .aead 8 16 else if su == "cbc" then .cbc 16 32 else .none
    let lib := decLibOf hdr 16 (obsCls == "ok") plen after
    let m := match decrypt dtls hdr k lib seq rec_ with
      | .ok n => subst (subst ot "out" "ok") "plen" (toString n)
      | .err _ => subst (subst ot "out" "err") "plen" "-"
      | .panic => subst (subst ot "out" "panic") "plen" "-"
    pure { model := render m, spec := Robust.verdict { cls := obsCls }, trivial := false }
  else none

/-- stream-stack loop cases -/
def judgeFrames (ct ot : List String) : Option Verdict := do
  let wire ← kvHex ct "wire"
  let hv := (kv ct "hv").getD "0" == "1"
  let segs := ((kv ct "seg").getD "0.0.1").splitOn "."
  let (a, b, k) ← match segs.map String.toNat? with
    | [some a, some b, some k] => some (a, b, k)
    | _ => none
  let ops := ((kv ct "ops").getD "").splitOn ","
  let obsSteps := ((kv ot "steps").getD "").splitOn ","
  let L := limitsT
  let seg : Nat → Nat := fun m => 1 + ((a * m + b) % (if k = 0 then 1 else k))
  let s0 : ParsersLoop.St := { ParsersLoop.St.init wire with haveVers := hv, vers := Facts.tlcp.VersionTLCP }
  let rec go (s : ParsersLoop.St) (ops obs : List String) (accS accL : List String) (maxHand maxRaw : Nat) (panicked : Bool) :
      List String × List String × Nat × Nat × Bool :=
    match ops with
    | [] => (accS.reverse, accL.reverse, maxHand, maxRaw, panicked)
    | op :: rest =>
      let o := obs.headD ""
      let lib : ParsersLoop.Lib := { seg := seg, dec := fun _ _ => none, unmarshalOk := fun _ => o.startsWith "m" }
      let (s1, res) : ParsersLoop.St × String :=
        if op == "H" then
          match ParsersLoop.readHandshake L lib s with
          | (s1, .ok (t, n)) => (s1, s!"m{t.toNat}:{n}")
          | (s1, .err _) => (s1, "err")
          | (s1, .panic) => (s1, "panic")
        else if op == "R" then
          match ParsersLoop.readRecord L lib s false with
          | (s1, .ok _) => (s1, "ok") | (s1, .err _) => (s1, "err") | (s1, .panic) => (s1, "panic")
        else if op == "C" then
          match ParsersLoop.readRecord L lib { s with nextCipher := true } true with
          | (s1, .ok _) => (s1, "ok") | (s1, .err _) => (s1, "err") | (s1, .panic) => (s1, "panic")
        else if op == "F" then ({ s with complete := true }, "ok")
        else if op == "D" then
          if s.complete then
            match ParsersLoop.readApp L lib s with
            | (s1, .ok n) => (s1, s!"d{n}") | (s1, .err _) => (s1, "err") | (s1, .panic) => (s1, "panic")
          else (s, "skip")
        else (s, "skip")
      let l := s!"{s1.hand.length}.{s1.raw.length}.{s1.retry}.{s1.input}"
      let mh := max maxHand s1.hand.length
      let mr := max maxRaw s1.raw.length
      if res == "panic" then ((res :: accS).reverse, (l :: accL).reverse, mh, mr, true)
      else go s1 rest obs.tail (res :: accS) (l :: accL) mh mr panicked
  let (ps, pl, _, _, _) := go s0 ops obsSteps [] [] 0 0 false
  let m := subst (subst ot "steps" (",".intercalate ps)) "lens" (",".intercalate pl)
  -- spec on the observation: classes and the largest buffer lengths the hook reported
  let obsLens := ((kv ot "lens").getD "").splitOn ","
  let nums := obsLens.map (fun e => (e.splitOn ".").map (fun x => x.toNat?.getD 0))
  let oh := nums.foldl (fun a l => max a (l.headD 0)) 0
  let or_ := nums.foldl (fun a l => max a ((l.drop 1).headD 0)) 0
  let cls := if obsSteps.contains "panic" then "panic" else if obsSteps.contains "err" then "err" else "ok"
  let stalled := obsSteps.contains "stall"
  pure { model := render m, spec := Robust.verdict { cls := cls, stalled := stalled, hand := oh, raw := or_ },
         trivial := !(obsSteps.any (fun x => x.startsWith "m" || x.startsWith "d" || x == "ok")) }

/-- the replay window as documented (64 records): a sequence number is accepted when it has
not been seen and is less than 64 behind the highest one seen -/
def replay64 (seen : List Nat) (seq : Nat) : Bool :=
  let top := seen.foldl max 0
  !seen.contains seq && (seen.isEmpty || seq + 64 > top)

/-- datagram-stack loop cases -/
def judgeFramesD (ct ot : List String) : Option Verdict := do
  let hv := (kv ct "hv").getD "0" == "1"
  let dg := (kv ct "dgrams").getD "-"
  let listed ← if dg == "-" then some [] else (dg.splitOn "/").mapM Hex.decode
  -- `flood=<n>x<size>`: n more datagrams, each one handshake record (epoch 0, record sequence
  -- numbers 1000, 1001, ..) of `size` zero bytes
  let flood : List Bytes := match ((kv ct "flood").getD "").splitOn "x" |>.map String.toNat? with
    | [some n, some size] =>
      if n ≤ 4096 ∧ size ≤ 16384 then
        let body : Bytes := List.replicate size 0
        (List.range n).map (fun i =>
          let q := 1000 + i
          ([22, 1, 1, 0, 0, 0, 0, UInt8.ofNat (q / 16777216), UInt8.ofNat (q / 65536), UInt8.ofNat (q / 256), UInt8.ofNat q,
            UInt8.ofNat (size / 256), UInt8.ofNat size] : Bytes) ++ body)
      else []
    | _ => []
  let dgrams := listed ++ flood
  let ops := ((kv ct "ops").getD "").splitOn ","
  let obsSteps := ((kv ot "steps").getD "").splitOn ","
  let L := limitsD
  let s0 : ParsersLoopD.StD := { ParsersLoopD.StD.init dgrams with haveVers := hv, vers := Facts.dtlcp.VersionTLCP }
  let show_ (o : Outcome Unit) : String := match o with
    | .ok _ => "ok" | .err .timeout => "tmo" | .err _ => "err" | .panic => "panic"
  let rec go (s : ParsersLoopD.StD) (ops obs : List String) (accS accL : List String) : List String × List String :=
    match ops with
    | [] => (accS.reverse, accL.reverse)
    | op :: rest =>
      let o := obs.headD ""
      let lib : ParsersLoopD.LibD := { dec := fun _ => none, replayOk := replay64, unmarshalOk := fun _ => o.startsWith "m",
                                       dwell := false, stale := fun _ => false, cookieOk := fun _ => true }
      let (s1, res) : ParsersLoopD.StD × String :=
        if op == "H" then
          match ParsersLoopD.readHandshake L lib s with
          | (s1, .ok (t, n)) => (s1, s!"m{t.toNat}:{n}")
          | (s1, .err .timeout) => (s1, "tmo")
          | (s1, .err _) => (s1, "err")
          | (s1, .panic) => (s1, "panic")
        else if op == "R" then
          let r := ParsersLoopD.readRecord L lib s false
          (r.1, show_ r.2)
        else if op == "F" then ({ s with complete := true }, "ok")
        else (s, "skip")
      let pb := s1.pending.foldl (fun a b => a + b.bytes) 0
      let l := s!"{s1.hand.length}.{s1.raw.length}.{s1.retry}.{s1.pending.length}.{pb}"
      if res == "panic" then ((res :: accS).reverse, (l :: accL).reverse)
      else go s1 rest obs.tail (res :: accS) (l :: accL)
  let (ps, pl) := go s0 ops obsSteps [] []
  let m := subst (subst ot "steps" (",".intercalate ps)) "lens" (",".intercalate pl)
  let obsLens := ((kv ot "lens").getD "").splitOn ","
  let nums := obsLens.map (fun e => (e.splitOn ".").map (fun x => x.toNat?.getD 0))
  let col (i : Nat) : Nat := nums.foldl (fun a l => max a ((l.drop i).headD 0)) 0
  let cls := if obsSteps.contains "panic" then "panic" else if obsSteps.contains "err" then "err" else "ok"
  let hsCalls := (ops.filter (· == "H")).length
  pure { model := render m,
         spec := Robust.verdict { cls := cls, stalled := obsSteps.contains "stall", hand := col 0, raw := col 1,
                                  pending := col 3, pendingBytes := col 4, hsCalls := max 1 hsCalls },
         trivial := !(obsSteps.any (fun x => x.startsWith "m" || x == "ok")) }

/-- live endpoints: the model has nothing to add to the observation (the class is an input of
the environment: crypto, timing); the spec is the judge -/
def judgeLive (ct ot : List String) : Option Verdict := do
  let cls ← kv ot "out"
  if cls == "setup" || cls == "badcase" then none else
  let n (k : String) : Nat := ((kv ot k).bind String.toNat?).getD 0
  -- floods of non-advancing records: the limit is documented for every such record on the stream
  -- stack (each costs a recursion) and for warning alerts on the datagram stack (empty records
  -- are dropped there by the loop itself)
  -- A handshake record that arrives after the handshake neither advances anything nor delivers
  -- data (there is no renegotiation); on the stream stack an ignored one is a non-advancing
  -- record like the others.  (On the datagram stack such records are retransmissions of the
  -- peer's last flight and are dropped by the loop itself.)
  let fn := (kv ct "fn").getD ""
  let kind := (kv ct "kind").getD ""
  let stack := (kv ct "stack").getD ""
  let useless : Nat :=
    if fn == "live_flood" && ((stack == "tlcp" && (kind == "warn" || kind == "empty" || kind == "mix" || kind == "hs")) || (stack == "dtlcp" && kind == "warn"))
    then ((kv ct "n").bind String.toNat?).getD 0 else 0
  let obs : Robust.Obs := { cls := cls, stalled := (kv ot "stalled").getD "0" == "1", hand := n "hand", raw := n "raw",
                            pending := n "pend", pendingBytes := n "pendb", hsCalls := max 1 (n "hs"),
                            uselessRun := useless, stackGrowth := n "stackd" }
  pure { model := render ot, spec := Robust.verdict obs, trivial := false }

def judge (c o : String) : Option Verdict := do
  let ct := tokens c
  let ot := tokens o
  let fn ← kv ct "fn"
  if fn.startsWith "ecc_" || fn.startsWith "dhe_" then judgeKX fn ct ot
  else if fn.startsWith "rec_" then judgeRec fn ct ot
  else if fn == "frames" then judgeFrames ct ot
  else if fn == "framesd" then judgeFramesD ct ot
  else if fn.startsWith "live_" then judgeLive ct ot
  else none

end Gotlcp.Oracle.C09

/-
Oracle for C09: re-computes what the checked-index / loop models predict for a case and
evaluates the (trivial) robustness spec on what the real code did.

Case and observation syntax: see harness/cmd/c09/*.go (one section per `fn=` family below).
The model's prediction is rendered by substituting the predicted values of the COMPARED keys
into the observed token list, so keys the property does not constrain never disagree; the
error branch (`why=`) is reported as a note.
-/
import Gotlcp.Oracle.Common
import Gotlcp.Model.ParsersFacts
import Gotlcp.Spec.RobustSpec

namespace Gotlcp.Oracle.C09
open Gotlcp.Model.Parsers
open Gotlcp.Spec

/-- replace the value of `key=` in a token list (append when absent) -/
def subst (toks : List String) (key val : String) : List String :=
  if toks.any (fun t => t.startsWith (key ++ "=")) then
    toks.map (fun t => if t.startsWith (key ++ "=") then key ++ "=" ++ val else t)
  else toks ++ [key ++ "=" ++ val]

def render (toks : List String) : String := " ".intercalate toks

def parseKind (s : String) : Option KeyKind :=
  if s == "sm2" then some .sm2 else if s == "p256" then some .p256
  else if s == "rsa" then some .rsa else if s == "ed" then some .ed else none

def parsePeer (s : String) : Option (List KeyKind) :=
  if s == "-" || s == "" then some [] else (s.splitOn ",").mapM parseKind

def b01 (b : Bool) : String := if b then "1" else "0"

/-- the library answers, read off the observation (crypto verdicts are model inputs) -/
def libOf (ot : List String) : KxLib :=
  let why := (kv ot "why").getD "-"
  let dec := (kv ot "dec").getD "none"
  { decrypt := fun _ => if dec == "err" || dec == "none" then none else dec.toNat?,
    verify := why != "verify",
    libOk := why != "lib" }

structure Pred where
  cls : String
  why : String := "-"
  decin : String := "none"
  tmp : String := "0"

def ofOutcome {α : Type} (o : Outcome α) : Pred :=
  match o with
  | .ok _ => { cls := "ok" }
  | .err e => { cls := "err", why := e.name }
  | .panic => { cls := "panic" }

/-- key-agreement cases -/
def judgeKX (fn : String) (ct ot : List String) : Option Verdict := do
  let stack ← kv ct "stack"
  let dtls := stack == "dtlcp"
  let g := guardsOf dtls
  let lib := libOf ot
  let body := (kvHex ct "body").getD []
  let peer ← parsePeer ((kv ct "peer").getD "-")
  let p : Pred ←
    if fn == "ecc_pckx" then
      let srv := (kv ct "srv").getD "sm2"
      let haveCerts := srv != "nocert"
      let isDec := srv != "edenc"
      let parse := eccPckxParse g haveCerts body
      let decin := match parse with
        | .ok c => if isDec then Hex.encode c else "none"
        | _ => "none"
      some { ofOutcome (eccPckx g haveCerts isDec lib body) with decin := decin }
    else if fn == "ecc_pskx" then some (ofOutcome (eccPskx g lib peer body))
    else if fn == "ecc_gckx" then some (ofOutcome (eccGckx g lib peer))
    else if fn == "dhe_pub" then some (ofOutcome (dhePub g lib body))
    else if fn == "dhe_pckx" then some (ofOutcome (dhePckx g lib peer body))
    else if fn == "dhe_pskx" then
      let r := dhePskx g lib peer body
      some { ofOutcome r.1 with tmp := b01 r.2 }
    else if fn == "dhe_gckx" then
      let tmpSet := (kv ot "tmp").getD "0" == "1"
      let ce := (kv ct "cenc").getD "nil"
      let enc : EncPriv := if ce == "nil" then .nilCert else if ce == "sm2" then .sm2 else .other
      some { ofOutcome (dheGckx g lib tmpSet enc peer) with tmp := b01 tmpSet }
    else none
  let obsCls := (kv ot "out").getD "?"
  let obsWhy := (kv ot "why").getD "-"
  let m := subst (subst (subst ot "out" p.cls) "decin" p.decin) "tmp" p.tmp
  -- the recovered panic text is an observation detail: drop it from the prediction when the
  -- model predicts no panic (so that the difference shows in `out=` only)
  let note := if p.cls == "err" && obsCls == "err" && p.why != obsWhy then s!"branch:model={p.why},impl={obsWhy}" else ""
  pure { model := render m, spec := Robust.verdict { cls := obsCls }, note := note,
         trivial := false }

def judge (c o : String) : Option Verdict := do
  let ct := tokens c
  let ot := tokens o
  let fn ← kv ct "fn"
  if fn.startsWith "ecc_" || fn.startsWith "dhe_" then judgeKX fn ct ot
  else none

end Gotlcp.Oracle.C09

/-
Shared main loop of the per-property oracle executables.

stdin : one case per line, `<case tokens> => <observed tokens>` (written by the Go driver
        after running the real code)
stdout: one line per case
          `agree spec=ok`                       model predicts the observation, spec holds
          `DISAGREE model=[..] spec=ok`         model and implementation differ
          `agree spec=FAIL:<tag>:<reason>`      the *property* fails on the implementation's
                                                observation (tag keys known findings)
A line that cannot be parsed is answered `BADLINE`.
-/
import Gotlcp.Base.Hex

namespace Gotlcp.Oracle

structure Verdict where
  /-- what the model predicts for the observation part, in the same token syntax -/
  model : String
  /-- `none` = property holds on this observation; `some (tag, reason)` = fails -/
  spec  : Option (String × String)
  /-- optional notes (finer detail the model predicts; never fails a check) -/
  note  : String := ""
  /-- the case exercises nothing of interest (evidence counts distinct non-trivial cases) -/
  trivial : Bool := false

def splitCase (line : String) : Option (String × String) :=
  match line.splitOn " => " with
  | [a, b] => some (a, b)
  | [a] => if line.endsWith " =>" then some (String.ofList (a.toList.take (a.length - 3)), "") else none
  | _ => none

def normalise (s : String) : String := " ".intercalate (tokens s)

def renderSpec : Option (String × String) → String
  | none => "spec=ok"
  | some (tag, why) => s!"spec=FAIL:{tag}:{why.replace " " "_"}"

def answer (judge : String → String → Option Verdict) (line : String) : String :=
  match splitCase line with
  | none => "BADLINE"
  | some (c, o) =>
    match judge c o with
    | none => "BADLINE"
    | some v =>
      let agree := normalise v.model == normalise o
      let head := if agree then "agree" else s!"DISAGREE model=[{normalise v.model}]"
      let note := if v.note.isEmpty then "" else s!" note={v.note.replace " " "_"}"
      let triv := if v.trivial then " triv" else ""
      s!"{head} {renderSpec v.spec}{note}{triv}"

partial def loop (judge : String → String → Option Verdict) (h : IO.FS.Stream) (out : IO.FS.Stream) : IO Unit := do
  let line ← h.getLine
  if line.isEmpty then return ()
  let l := stripEol line
  if l.isEmpty || l.startsWith "#" then
    loop judge h out
  else
    out.putStrLn (answer judge l)
    loop judge h out

def mainWith (judge : String → String → Option Verdict) : IO Unit := do
  let stdin ← IO.getStdin
  let stdout ← IO.getStdout
  loop judge stdin stdout
  stdout.flush

end Gotlcp.Oracle

/-
Oracle for C17: re-computes the model's prediction and evaluates the spec on what the real
fragmentBuffer / readHandshake / writeHandshakeRecord did.

case (kind=fb): `n=<total> msg=<msgspec> frags=<off>.<len>.<bodyspec>,… or -`
  observed    : `c0=<0|1> acc=<bits|-> comp=<bits|-> asm=<enc>`
case (kind=rx): `msg=<msgspec> calls=<item>+<item>… / <item>… / -`   (one readHandshake call per `/` part,
                 the items of a part are queued as records before that call)
                 item = `F.<typ>.<total>.<seq>.<off>.<len>.<bodyspec>` | `R.<hex>`
  observed    : `res=<r>/<r>… pend=<seq>:<total>:<datalen>:<masklen>,…|- hand=<bytes left in handBuf>`
                 r = `m:<enc>@<pending buffers>` | `e:<toolong|oob|mismatch|toomany|needmore|other>@<n>`
                 optional `clk=<clock>`: the Config.Time of the receiving Conn (`w` | `w+N` | `w-N` | `p` | `r` | `j` | `jp`,
                 see `clockOk`); not an input of the prediction
case (kind=tx): `pmtu=<int> seq=<message_seq> msg=<msgspec>`
  observed    : `max=<maxPayload> recs=<12-byte header hex>:<enc body>,… rt=<m:enc|e:kind> keep=<0|1>`
                 (keep: marshal() of the message object after the write is still the unfragmented encoding)
               | `max=<maxPayload> err=<short|pmtu|other> sent=<datagrams>`
case (kind=e2e): `suite=<ecc-gcm|ecc-cbc|ecdhe-gcm|ecdhe-cbc> cp=<client PMTU> sp=<server PMTU>`  one real handshake
                 optional `cclk=<clock> sclk=<clock>`: Config.Time of the client / the server (default: pinned)
  observed    : `hs=ok cs=<version>.<suite>.<resumed>.<peer certs at client>.<at server> same=<both ends agree>
                 fin=<both ends recorded the same Finished values> bigC=<largest handshake body the client sent> bigS=<… server>`
               | `hs=fail bigC=… bigS=…`      (bigC/bigS depend on certificates: inputs to the model, echoed)
msgspec  = `-` | hex | `@<len>.<seed>` (m[i] = byte(i*(2*seed+1) + i/256 + seed))
bodyspec = `g` (m[off:off+len], clipped) | `z<k>` (k bytes 0x5a) | hex | `-`
enc      = hex when ≤ 48 bytes, else `h<len>.<FNV-1a 64>`
-/
import Gotlcp.Oracle.Common
import Gotlcp.Model.Fragment
import Gotlcp.Model.DtlcpTx
import Gotlcp.Spec.FragmentSpec
import Gotlcp.Generated.Facts

namespace Gotlcp.Oracle.C17
open Gotlcp.Model
open Gotlcp.Model.Fragment
open Gotlcp.Spec

/-! ### encodings shared with the driver -/

def parseMsg (s : String) : Option Bytes :=
  if s.startsWith "@" then
    match (String.ofList (s.toList.drop 1)).splitOn "." with
    | [a, b] => do
      let n ← a.toNat?
      let seed ← b.toNat?
      pure ((List.range n).map fun i => UInt8.ofNat (i * (2 * seed + 1) + i / 256 + seed))
    | _ => none
  else Hex.decode s

def parseBody (s : String) (m : Bytes) (off len : Nat) : Option Bytes :=
  if s == "g" then some ((m.drop off).take len)
  else if s.startsWith "z" then (String.ofList (s.toList.drop 1)).toNat?.map fun k => List.replicate k 0x5a
  else Hex.decode s

def fnv64 (b : Bytes) : UInt64 :=
  b.foldl (fun h x => (h ^^^ x.toUInt64) * 1099511628211) 14695981039346656037

def hex16 (x : UInt64) : String :=
  String.ofList ((List.range 16).map fun i => Hex.digit ((x >>> (UInt64.ofNat (4 * (15 - i)))).toNat % 16))

def enc (b : Bytes) : String :=
  if b.length ≤ 48 then Hex.encode b else s!"h{b.length}.{hex16 (fnv64 b)}"

def b01 (b : Bool) : String := if b then "1" else "0"
def bits (l : List Bool) : String := if l.isEmpty then "-" else String.join (l.map b01)

def strict : Bool := Facts.dtlcp.rxTotalMismatchFatal
def maxHs : Nat := Facts.dtlcp.maxHandshake
def fuel : Nat := Facts.dtlcp.maxHandshakeFragments

def txConsts : DtlcpTx.Consts :=
  DtlcpTx.treeConsts Facts.dtlcp.recordHeaderLen Facts.dtlcp.maxPlaintext

/-! ### kind=fb -/

def parseFrag (m : Bytes) (s : String) : Option Frag :=
  match s.splitOn "." with
  | [a, b, c] => do
    let off ← a.toNat?
    let len ← b.toNat?
    let body ← parseBody c m off len
    pure ⟨off, len, body⟩
  | _ => none

def parseFrags (m : Bytes) (s : String) : Option (List Frag) :=
  if s == "-" then some [] else (s.splitOn ",").mapM (parseFrag m)

/-- per-add accept and complete bits, final buffer -/
def runObs (fb : FragBuf) : List Frag → FragBuf × List Bool × List Bool
  | [] => (fb, [], [])
  | f :: fs =>
    let (fb1, ok) := addFragment fb f.off f.len f.body
    let c := complete fb1
    let (fb2, oks, cs) := runObs fb1 fs
    (fb2, ok :: oks, c :: cs)

def toSpec (f : Frag) : FragmentSpec.Frag := ⟨f.off, f.len, f.body⟩

/-- prefixes `[f1]`, `[f1,f2]`, … -/
def prefixes {α} (l : List α) : List (List α) := (List.range l.length).map fun i => l.take (i + 1)

/-- interval-sweep form of `FragmentSpec.isComplete` (same predicate; used for long messages
where the index-by-index form is slow): the admissible intervals, sorted by offset, must
leave no gap in `[0,n)` -/
def completeFast (n : Nat) (fs : List FragmentSpec.Frag) : Bool :=
  let iv := (fs.filter fun f => f.admissible n && f.len > 0).map fun f => (f.off, f.off + f.len)
  let sorted := (iv.toArray.qsort fun a b => a.1 < b.1).toList
  let reach := sorted.foldl (fun r (p : Nat × Nat) => if p.1 ≤ r then max r p.2 else r) 0
  reach ≥ n

def specComplete (n : Nat) (fs : List FragmentSpec.Frag) : Bool :=
  if n ≤ 64 then FragmentSpec.isComplete n fs else completeFast n fs

def judgeFB (ct ot : List String) : Option Verdict := do
  let n ← kvNat ct "n"
  let m ← (kv ct "msg").bind parseMsg
  let fs ← (kv ct "frags").bind (parseFrags m)
  let fb0 := newBuf n
  let (fb, oks, cs) := runObs fb0 fs
  let model := s!"c0={b01 (complete fb0)} acc={bits oks} comp={bits cs} asm={enc (assembled fb)}"
  -- spec on the observation
  let sfs := fs.map toSpec
  let spec : Option (String × String) :=
    if n == 0 then none  -- empty messages never reach a buffer (C17_empty_unreachable); model agreement only
    else
      match kv ot "acc", kv ot "comp", kv ot "asm", kv ot "c0" with
      | some acc, some comp, some asm, some c0 =>
        let wantAcc := bits (sfs.map (·.admissible n))
        let wantComp := bits ((prefixes sfs).map (specComplete n))
        if c0 != "0" then some ("complete-early", "an empty buffer for a non-empty message reports complete")
        else if acc != wantAcc then
          some ("accept", s!"accept bits {acc}, but fragments within the announced length {n} are {wantAcc}")
        else if comp != wantComp then
          -- partial treated as complete, or covered but not complete
          let tag := if (comp.toList.zip wantComp.toList).any (fun p => p.1 == '1' && p.2 == '0') then "partial-complete" else "covered-incomplete"
          some (tag, s!"complete flags {comp}, coverage says {wantComp}")
        else if specComplete n sfs then
          -- all accepted fragments genuine slices of m: the rebuilt message is m itself
          let genuine := m.length == n && (sfs.filter (·.admissible n)).all fun f => f.body == (m.drop f.off).take f.len
          let want := if genuine then some m
                      else if n ≤ 512 && FragmentSpec.consistent n sfs then FragmentSpec.rebuilt n sfs else none
          match want with
          | some want =>
            if asm != enc want then some ("assembled", s!"assembled {asm} differs from the message {enc want}") else none
          | none => none
        else none
      | _, _, _, _ => if (kv ot "panic").isSome then some ("panic", "fragmentBuffer panicked") else some ("shape", "unparseable observation")
  let covers := specComplete (if n == 0 then 1 else n) sfs
  pure { model := model, spec := spec, trivial := fs.isEmpty,
         note := if n == 0 then "empty-message" else if covers then "covered" else "gap" }

/-! ### kind=rx -/

inductive Item where
  | frag (typ total seq off len : Nat) (body : Bytes)
  | raw (b : Bytes)

def parseItem (m : Bytes) (s : String) : Option Item :=
  match s.splitOn "." with
  | ["F", t, tot, sq, o, l, bd] => do
    let off ← o.toNat?
    let len ← l.toNat?
    let body ← parseBody bd m off len
    pure (.frag (← t.toNat?) (← tot.toNat?) (← sq.toNat?) off len body)
  | ["R", h] => (Hex.decode h).map .raw
  | _ => none

def Item.bytes : Item → Bytes
  | .frag t tot sq o l bd => header t tot sq o l ++ bd
  | .raw b => b

def parseCall (m : Bytes) (s : String) : Option (List Item) :=
  if s == "-" || s == "" then some [] else (s.splitOn "+").mapM (parseItem m)

/-- chunks of at most 16000 bytes: how the driver puts one item into records -/
partial def chunk (b : Bytes) : List Bytes :=
  if b.isEmpty then [] else if b.length ≤ 16000 then [b] else b.take 16000 :: chunk (b.drop 16000)

def showFatal : Fatal → String
  | .tooLong => "toolong" | .oob => "oob" | .mismatch => "mismatch" | .tooMany => "toomany" | .other => "other"

def showResult (r : Result) (np : Nat) : String :=
  match r with
  | .msg d => s!"m:{enc d}@{np}"
  | .fatal f => s!"e:{showFatal f}@{np}"
  | .needMore => s!"e:needmore@{np}"

def showPending (st : Pending) : String :=
  if st.isEmpty then "-" else
  let sorted := (st.toArray.qsort fun a b => a.1 < b.1).toList
  ",".intercalate (sorted.map fun p => s!"{p.1}:{p.2.total}:{p.2.data.length}:{p.2.received.length}")

def runCalls (c : Conn) : List (List Item) → Conn × List String
  | [] => (c, [])
  | call :: rest =>
    let recs := call.flatMap fun it => chunk it.bytes
    let c := { c with queue := c.queue ++ recs }
    let (c, r) := readHandshake strict maxHs fuel c
    let (c', rs) := runCalls c rest
    (c', showResult r c.pending.length :: rs)

/-! the spec's own reading of the receive path (documented behaviour; sets of byte indices) -/

structure SpecEntry where
  seq : Nat
  total : Nat
  frags : List FragmentSpec.Frag

inductive SpecRes where
  | msg (d : Bytes) (checkBytes : Bool)
  | err (tag : String)
  | needMore
  | unconstrained

def be (k : Nat) (x : Nat) : Bytes := (List.range k).map fun i => UInt8.ofNat (x / 256 ^ (k - 1 - i))

def specHeader (typ total seq off len : Nat) : Bytes :=
  be 1 typ ++ be 3 total ++ be 2 seq ++ be 3 off ++ be 3 len

/-- one call over well-framed fragment items: `iters` counts loop iterations (cap 256) -/
def specCall (m : Bytes) (tab : List SpecEntry) : (items : List Item) → (iters : Nat) → List SpecEntry × SpecRes × List Item
  | [], iters => if iters ≥ FragmentSpec.maxFragmentIterations then (tab, .err "accepted-invalid", []) else (tab, .needMore, [])
  | .raw _ :: rest, _ => (tab, .unconstrained, rest)
  | .frag typ total seq off len body :: rest, iters =>
    if iters ≥ FragmentSpec.maxFragmentIterations then (tab, .err "accepted-invalid", .frag typ total seq off len body :: rest)
    else if body.length != len then (tab, .unconstrained, rest)
    else if total > FragmentSpec.maxHandshake then (tab, .err "accepted-invalid", rest)
    else if off + len > total then (tab, .err "exceeds-announced-length", rest)
    else if off == 0 && len == total then (tab, .msg (specHeader typ total seq 0 total ++ body) true, rest)
    else
      match tab.find? (·.seq == seq) with
      | some e =>
        if e.total != total then (tab, .err "total-mismatch", rest)   -- fragments of one message announce one length
        else
          let fs := e.frags ++ [⟨off, len, body⟩]
          let tab' := tab.filter (·.seq != seq)
          if specComplete total fs then
            -- all fragments genuine slices of m: the rebuilt message is m itself (cheap for long messages)
            let genuine := m.length == total && fs.all fun f => f.body == (m.drop f.off).take f.len
            if genuine then (tab', .msg (specHeader typ total seq 0 total ++ m) true, rest)
            else if total ≤ 512 then
              (tab', .msg (specHeader typ total seq 0 total ++ ((FragmentSpec.rebuilt total fs).getD [])) (FragmentSpec.consistent total fs), rest)
            else (tab', .msg [] false, rest)
          else specCall m (⟨seq, total, fs⟩ :: tab') rest (iters + 1)
      | none =>
        let fs : List FragmentSpec.Frag := [⟨off, len, body⟩]
        -- a single fragment cannot be complete here (it is smaller than the message)
        specCall m (⟨seq, total, fs⟩ :: tab) rest (iters + 1)

/-- compare one observed result with the spec's expectation -/
def cmpRes (obs : String) (want : SpecRes) : Option (String × String) :=
  let o := (obs.splitOn "@").headD ""
  match want with
  | .unconstrained => none
  | .needMore => if o == "e:needmore" then none else
      if o.startsWith "m:" then some ("partial-complete", s!"delivered {o} although the fragments received do not cover the message")
      else some ("spurious-error", s!"{o} although more fragments were merely awaited")
  | .err tag => if o.startsWith "e:" && o != "e:needmore" then none else
      some (tag, s!"{o} where the fragment stream must be refused")
  | .msg d chk =>
    if !o.startsWith "m:" then some ("covered-incomplete", s!"{o} although the fragments cover the message {enc d}")
    else if chk && o != s!"m:{enc d}" then some ("assembled", s!"delivered {o}, the message is m:{enc d}")
    else none

def specRx (m : Bytes) (calls : List (List Item)) (obs : List String) : Option (String × String) :=
  let rec go (tab : List SpecEntry) (pendingItems : List Item) (calls : List (List Item)) (obs : List String) (dead : Bool) :
      Option (String × String) :=
    match calls, obs with
    | [], [] => none
    | call :: cs, o :: os =>
      if dead then none   -- what happens after a refusal is the subject of C12, not of this property
      else
        let (tab', want, rest) := specCall m tab (pendingItems ++ call) 0
        match want with
        | .unconstrained => none          -- framing outside the spec's reading: model agreement only
        | _ =>
          match cmpRes o want with
          | some f => some f
          | none =>
            let dead' := match want with | .err _ => true | _ => false
            go tab' rest cs os dead'
    | _, _ => some ("shape", "number of results differs from the number of calls")
  go [] [] calls obs false

/-- an injected clock (`Config.Time`) of a case: `w` the wall clock, `w+N` / `w-N` the wall clock shifted by
N seconds, `p` pinned, `r` running from another epoch, `j` / `jp` jumping by an hour call by call. The
clock is NOT an input of the model's prediction nor of the spec: reassembly must not depend on the
configured clock at all (a pending buffer may be dropped only when real time ≥ the stale timeout passes
between two fragments, which never happens inside a case; `C17_cleanup_offset_free`,
`C17_cleanup_keeps_recent`, `C17_facts_one_clock`). The oracle only checks that the token is well formed. -/
def clockOk (s : String) : Bool :=
  s == "w" || s == "p" || s == "r" || s == "j" || s == "jp" ||
    ((s.startsWith "w+" || s.startsWith "w-") && ((String.ofList (s.toList.drop 2)).toNat?).isSome)

def clockTokOk (ct : List String) (key : String) : Bool :=
  match kv ct key with
  | some k => clockOk k
  | none => true

def judgeRX (ct ot : List String) : Option Verdict := do
  guard (clockTokOk ct "clk")
  let m ← (kv ct "msg").bind parseMsg
  let callsStr ← kv ct "calls"
  let calls ← (callsStr.splitOn "/").mapM (parseCall m)
  let (c, rs) := runCalls {} calls
  let model := s!"res={"/".intercalate rs} pend={showPending c.pending} hand={c.hand.length}"
  let spec : Option (String × String) :=
    match kv ot "res" with
    | some r =>
      let obs := r.splitOn "/"
      -- every delivered short message must be well formed (header length = body length)
      let bad := obs.find? fun o =>
        o.startsWith "m:" && !o.startsWith "m:h" &&
          match Hex.decode (((String.ofList (o.toList.drop 2)).splitOn "@").headD "") with
          | some d => !FragmentSpec.wellFormedMessage d
          | none => true
      match bad with
      | some o => some ("hdr-len-mismatch", s!"delivered message {o} whose header does not announce its body length")
      | none =>
        -- bounded state: pending buffers after every call
        let tooMany := obs.zipIdx.find? fun (o, i) =>
          match ((o.splitOn "@").getD 1 "").toNat? with
          | some np => np > (i + 1) * FragmentSpec.maxFragmentIterations
          | none => true
        match tooMany with
        | some (o, _) => some ("pending-unbounded", s!"{o}: more pending buffers than 256 per call")
        | none => specRx m calls obs
    | none => if (kv ot "panic").isSome then some ("panic", "readHandshake panicked") else some ("shape", "unparseable observation")
  let delivered := rs.any (·.startsWith "m:")
  pure { model := model, spec := spec, trivial := calls.all (·.isEmpty),
         note := if delivered then "delivered" else "nodelivery" }

/-! ### kind=tx -/

def showTx (maxp : Nat) (r : TxResult) (rt : String) : String :=
  match r with
  | .single d => s!"max={maxp} recs={Hex.encode (d.take 12)}:{enc (d.drop 12)} rt={rt} keep=1"
  | .frags rs =>
    let ss := rs.map fun d => s!"{Hex.encode (d.take 12)}:{enc (d.drop 12)}"
    s!"max={maxp} recs={if ss.isEmpty then "-" else ",".intercalate ss} rt={rt} keep=1"
  | .errTooShort => s!"max={maxp} err=short sent=0"
  | .errPmtuTooSmall => s!"max={maxp} err=pmtu sent=0"

def txRecords : TxResult → List Bytes
  | .single d => [d]
  | .frags rs => rs
  | _ => []

def parseInt (s : String) : Option Int :=
  if s.startsWith "-" then (String.ofList (s.toList.drop 1)).toNat?.map (fun n => -(n : Int)) else s.toNat?.map Int.ofNat

def u24 (b : Bytes) (i : Nat) : Nat := (b.getD i 0).toNat * 65536 + (b.getD (i+1) 0).toNat * 256 + (b.getD (i+2) 0).toNat

def judgeTX (ct ot : List String) : Option Verdict := do
  let pmtu ← (kv ct "pmtu").bind parseInt
  let seq ← kvNat ct "seq"
  let m ← (kv ct "msg").bind parseMsg
  let maxp := DtlcpTx.maxPayloadSizeForWrite txConsts pmtu .none
  let data := header Facts.dtlcp.typeFinished m.length seq 0 m.length ++ m
  let r := writeHandshake data maxp
  let recs := txRecords r
  let (_, rr) := readHandshake strict maxHs fuel { queue := recs }
  let rt := match rr with
    | .msg d => s!"m:{enc d}"
    | .fatal f => s!"e:{showFatal f}"
    | .needMore => "e:needmore"
  let model := showTx maxp r rt
  -- spec: documented behaviour of the sender, judged on the observed records
  let eff : Int := if pmtu ≤ 0 then 1400 else pmtu
  let budget : Nat := (eff - 13).toNat     -- a handshake record payload must fit PMTU − 13
  let spec : Option (String × String) :=
    match kv ot "recs", kv ot "rt" with
    | some rs, some ort =>
      let parsed := (if rs == "-" then [] else rs.splitOn ",").map fun s =>
        match s.splitOn ":" with
        | [h, b] => (Hex.decode h).map fun hb => (hb, b)
        | _ => none
      if parsed.any (·.isNone) || (kv ot "badrec").isSome then some ("shape", "malformed record") else
      if kv ot "keep" != some "1" then
        some ("cached-encoding-changed", "after sending, the message object no longer marshals to its unfragmented encoding (a transcript hashing it later differs from the receiver's)") else
      let ps := parsed.filterMap id
      let n := m.length
      -- each fragment: right type / length / seq, body = the message bytes at its offset
      let bad := ps.find? fun (hb, b) =>
        let off := u24 hb 6
        let len := u24 hb 9
        !(hb.length == 12 && (hb.getD 0 0).toNat == 20 && u24 hb 1 == n &&
          (hb.getD 4 0).toNat * 256 + (hb.getD 5 0).toNat == seq % 65536 && off + len ≤ n &&
          b == enc ((m.drop off).take len))
      match bad with
      | some (hb, _) => some ("tx-fragment", s!"fragment {Hex.encode hb} does not carry the message bytes at its offset")
      | none =>
        let fs : List FragmentSpec.Frag := ps.map fun (hb, _) => ⟨u24 hb 6, u24 hb 9, []⟩
        if n > 0 && !completeFast n fs then some ("tx-gap", "the fragments sent do not cover the message")
        else if budget ≥ 13 && ps.any (fun (hb, _) => 12 + u24 hb 9 > budget) then
          some ("tx-oversize", s!"a handshake record payload exceeds PMTU-13 = {budget}")
        else if ps.length ≤ FragmentSpec.maxFragmentIterations && n ≤ FragmentSpec.maxHandshake then
          let want := s!"m:{enc (specHeader 20 n (seq % 65536) 0 n ++ m)}"
          if ort != want then some ("roundtrip", s!"receiver returned {ort} for the sender's fragments, the message is {want}") else none
        else if ort.startsWith "m:" && ort != s!"m:{enc (specHeader 20 n (seq % 65536) 0 n ++ m)}" then
          some ("roundtrip", s!"receiver returned {ort}") else none
    | _, _ =>
      match kv ot "err" with
      | some "pmtu" => if budget ≤ 12 then none else some ("tx-refused", s!"sender refused with PMTU budget {budget}")
      | some "short" => if budget < 12 then none else some ("tx-refused", s!"sender refused with PMTU budget {budget}")
      | some e => some ("tx-refused", s!"sender failed: {e}")
      | none => if (kv ot "panic").isSome then some ("panic", "writeHandshakeRecord panicked") else some ("shape", "unparseable observation")
  pure { model := model, spec := spec, trivial := false,
         note := match r with | .single _ => "single" | .frags _ => "fragmented" | _ => "refused" }

/-! ### kind=e2e -/

def suiteOf (s : String) : Option (Nat × DtlcpTx.Cipher × Bool × Bool) :=   -- id, cipher, isCBC, isECDHE
  let gcm : DtlcpTx.Cipher := .aead (Facts.dtlcp.aeadNonceLength - Facts.dtlcp.noncePrefixLength) 16
  let cbc : DtlcpTx.Cipher := .cbc 16 32
  if s == "ecc-gcm" then some (Facts.dtlcp.ECC_SM4_GCM_SM3, gcm, false, false)
  else if s == "ecc-cbc" then some (Facts.dtlcp.ECC_SM4_CBC_SM3, cbc, true, false)
  else if s == "ecdhe-gcm" then some (Facts.dtlcp.ECDHE_SM4_GCM_SM3, gcm, false, true)
  else if s == "ecdhe-cbc" then some (Facts.dtlcp.ECDHE_SM4_CBC_SM3, cbc, true, true)
  else none

/-- model: can a side with this PMTU send its handshake? every message either fits one
record or is fragmented with a positive fragment body and at most `maxHandshakeFragments`
fragments (the receiver's iteration cap, `C17_sender_receiver_conn`) -/
def sendable (pmtu : Int) (c : DtlcpTx.Cipher) (bodyLen : Nat) : Bool :=
  let mp := DtlcpTx.maxPayloadSizeForWrite txConsts pmtu c
  12 + bodyLen ≤ mp || (mp > 12 && (bodyLen + (mp - 12) - 1) / (mp - 12) ≤ fuel)

def modelWorkable (pmtu : Int) (c : DtlcpTx.Cipher) (big : Nat) : Bool :=
  sendable pmtu .none big && sendable pmtu c Facts.dtlcp.finishedVerifyLength

/-- spec (documented sizes): one byte of fragment body must fit a protected record
(SM4-GCM: 13+8+16+12+1 = 50, SM4-CBC: 13+16+48 = 77) and the largest message must not need
more than 256 fragments of PMTU−25 bytes -/
def specWorkable (pmtu : Int) (isCBC : Bool) (big : Nat) : Bool :=
  let p : Nat := if pmtu ≤ 0 then 1400 else pmtu.toNat
  p ≥ (if isCBC then 77 else 50) && big ≤ FragmentSpec.maxFragmentIterations * (p - 25)

def judgeE2E (ct ot : List String) : Option Verdict := do
  guard (clockTokOk ct "cclk" && clockTokOk ct "sclk")
  let (id, c, isCBC, isECDHE) ← (kv ct "suite").bind suiteOf
  let cp ← (kv ct "cp").bind parseInt
  let sp ← (kv ct "sp").bind parseInt
  let bigC := (kvNat ot "bigC").getD 0
  let bigS := (kvNat ot "bigS").getD 0
  let nS := if isECDHE then 2 else 0
  let works := modelWorkable cp c bigC && modelWorkable sp c bigS
  let model := if works then s!"hs=ok cs={Facts.dtlcp.VersionTLCP}.{id}.0.2.{nS} same=1 fin=1 bigC={bigC} bigS={bigS}"
               else s!"hs=fail bigC={bigC} bigS={bigS}"
  let spec : Option (String × String) :=
    if !(specWorkable cp isCBC bigC && specWorkable sp isCBC bigS) then none
    else if kv ot "hs" != some "ok" then
      some ("pmtu-dependent-result", s!"the handshake fails with path MTU {cp} (client) / {sp} (server) although it completes at 1400")
    else if kv ot "fin" != some "1" || kv ot "same" != some "1" then
      some ("finished-differs", "the two ends completed with different Finished values or parameters")
    else if kv ot "cs" != some s!"257.{id}.0.2.{nS}" then
      some ("parameters-differ", s!"negotiated parameters {(kv ot "cs").getD "?"} differ from the PMTU-1400 baseline 257.{id}.0.2.{nS}")
    else none
  pure { model := model, spec := spec, trivial := false,
         note := if works then "workable" else "unworkable" }

def judge (c o : String) : Option Verdict :=
  let ct := tokens c
  let ot := tokens o
  match kv ct "kind" with
  | some "fb" => judgeFB ct ot
  | some "rx" => judgeRX ct ot
  | some "tx" => judgeTX ct ot
  | some "e2e" => judgeE2E ct ot
  | _ => none

end Gotlcp.Oracle.C17

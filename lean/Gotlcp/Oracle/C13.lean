/-
Oracle for C13.  The driver (harness/cmd/c13 → cmd/c13race, built with -race) runs real
endpoints under concurrent use and reports what the PEER received; this file judges it.

case     : see harness/internal/c13run (stack, scen, procs, seed, yield, cw/sw writer groups,
           hs, misc, fail, closeafter, closers, slen, rbufs)
observed : cwres/swres=<w>.<j>.<n>.<err>,…   result of every Write / WriteTo call
           cstream/sstream=<hex>              everything the server got from the client / vice versa
           chs/shs=<r>,…                      results of the explicit Handshake callers
           close=<r>,… post=<r> blocked=<r>   Close callers (sorted), a Write after Close, a Read
                                              that was blocked when Close came
           chunks=<hex>,…                     (read) every chunk returned to any reader
           dg=<hex>,…                         (dgram) every datagram returned by ReadFrom (sorted)
           bad=<r>,…                          (dgram) results of the WriteTo calls to a foreign address (not judged:
                                              the property does not say how they fail; the Close that follows must return)
           call=<r> close=<r>                 (silent) the parked call and the Close that must unblock it
           call=<r> set=<r>                   (stall) the call parked in the transport and the deadline setter /
                                              Close issued from another goroutine (`-` = never returned)
           call=<r> pend=<r>,… set=<r>        (pafirst) the first call of the adapter's object parked on a client that sent k
                                              bytes, the calls queued behind it, and the Close / deadline setter issued
                                              from another goroutine (`-` = had not returned when the watchdog fired)
           ran=<n> res=… echo same swres sstream  (switch) the first suspicious of n first-use trials, else the last
           dead=0|1 panic=<msg|-> races=<n|na> sites=<…>

Judgement.  What the lock model predicts (no deadlock, whole payloads, one handshake result,
Close protocol) goes into `model` — the observation is copied where the model is silent
(scheduler-dependent values, race reports).  The spec verdict additionally fails on race
reports.  The stream checks run the VERIFIED checker `Spec.Locks.isWholeInterleaving`
(`Props.C13.C13_checker_sound_complete`) on the real bytes.
-/
import Gotlcp.Oracle.Common
import Gotlcp.Model.Locks
import Gotlcp.Model.LocksPA
import Gotlcp.Spec.LocksSpec
import Gotlcp.Generated.Facts

namespace Gotlcp.Oracle.C13
open Gotlcp.Spec.Locks

/-- mirrors `c13run.Payload` -/
def payload (w j n : Nat) : List UInt8 :=
  let base := 1000003 * w + 7919 * j + 1
  (List.range n).map fun i => UInt8.ofNat (((i + base) * 2654435761 / 8192) % 256)

def hexVal (c : Char) : Option Nat :=
  if '0' ≤ c ∧ c ≤ '9' then some (c.toNat - 48)
  else if 'a' ≤ c ∧ c ≤ 'f' then some (c.toNat - 87)
  else none

/-- tail-recursive hex decoder (streams are long) -/
def unhexLoop : List Char → Array UInt8 → Option (Array UInt8)
  | [], acc => some acc
  | [_], _ => none
  | a :: b :: r, acc =>
    match hexVal a, hexVal b with
    | some x, some y => unhexLoop r (acc.push (UInt8.ofNat (x * 16 + y)))
    | _, _ => none

def unhex (s : String) : Option (List UInt8) :=
  if s == "-" then some [] else (unhexLoop s.toList #[]).map Array.toList

def nats (s : String) : List Nat :=
  if s == "-" || s.isEmpty then [] else (s.splitOn ".").filterMap String.toNat?

def groups (s : String) : List (List Nat) :=
  if s == "-" || s.isEmpty then [] else (s.splitOn "/").map nats

def items (s : String) : List String :=
  if s == "-" || s.isEmpty then [] else s.splitOn ","

structure WRes where
  w : Nat
  j : Nat
  n : Nat
  err : String

def parseW (s : String) : Option WRes :=
  match s.splitOn "." with
  | [w, j, n, e] => do pure ⟨← w.toNat?, ← j.toNat?, ← n.toNat?, e⟩
  | _ => none

/-- the calls a case makes: (writer id, call index, length) -/
def calls (base : Nat) (g : List (List Nat)) : List (Nat × Nat × Nat) :=
  (g.zipIdx).flatMap fun (ls, w) => (ls.zipIdx).map fun (l, j) => (base + w, j, l)

/-- results must name exactly the calls made, with `n ≤ len` and `n = len` on success;
returns the pieces `b[:n]` that must appear in the peer's stream -/
def pieces (cs : List (Nat × Nat × Nat)) (rs : List WRes) : Except String (List (List UInt8)) :=
  if rs.length != cs.length then .error s!"{rs.length} results for {cs.length} calls" else
  (cs.zip rs).foldr (fun (c, r) acc => do
      let rest ← acc
      let (w, j, l) := c
      if r.w != w || r.j != j then .error s!"result {r.w}.{r.j} where call {w}.{j} was made"
      else if r.n > l then .error s!"call {w}.{j} reports {r.n} of {l} bytes"
      else if r.err == "ok" && r.n != l then .error s!"call {w}.{j} succeeded with {r.n} of {l} bytes"
      else if r.n == 0 then pure rest
      else pure ((payload w j l).take r.n :: rest))
    (.ok [])

def streamVerdict (name : String) (cs : List (Nat × Nat × Nat)) (res stream : Option String) :
    Option (String × String) :=
  match res, stream with
  | some rs, some st =>
    match (items rs).mapM parseW, unhex st with
    | some ws, some bytes =>
      match pieces cs ws with
      | .error e => some ("results", e)
      | .ok ps =>
        if isWholeInterleaving bytes ps then none
        else some ("torn", s!"{name}: the {bytes.length} bytes the peer received are not the {ps.length} written payloads, each whole and exactly once")
    | _, _ => some ("shape", s!"unparseable {name} results/stream")
  | _, _ => some ("shape", s!"missing {name} results/stream")

/-- model parameters regenerated from the Go AST: is everything `Write` does after the handshake
ONE `out` section taken outside the record loop (`out.Lock(); loop { transport write };
out.Unlock()`); does handshakeContext re-check under its mutex -/
def atomicWrite (stack : String) : Bool :=
  let secs := if stack == "dtlcp" then Facts.dtlcp.lockWriteSections else Facts.tlcp.lockWriteSections
  Model.Locks.sectionEvents (Model.Locks.lookupProg secs "Write") == [(0, 2), (10, 0), (2, 0), (11, 0), (1, 2)]

def recheck (stack : String) : Bool :=
  if stack == "dtlcp" then Facts.dtlcp.hsRecheckUnderMutex else Facts.tlcp.hsRecheckUnderMutex

def firstSome : List (Option (String × String)) → Option (String × String)
  | [] => none
  | some x :: _ => some x
  | none :: r => firstSome r

def judge (c o : String) : Option Verdict := do
  let ct := tokens c
  let ot := tokens o
  let stack ← kv ct "stack"
  let scen ← kv ct "scen"
  let cw := groups ((kv ct "cw").getD "-")
  let sw := groups ((kv ct "sw").getD "-")
  let dead := (kv ot "dead").getD "?"
  let pan := (kv ot "panic").getD "?"
  let races := (kv ot "races").getD "?"
  let sites := (kv ot "sites").getD "-"
  let setup := kv ot "setup"
  -- what the lock protocol constrains, per scenario
  let protocol : Option (String × String) :=
    if setup.isSome then some ("setup", setup.getD "") else
    if scen == "write" then
      firstSome [streamVerdict "client→server" (calls 0 cw) (kv ot "cwres") (kv ot "cstream"),
                 streamVerdict "server→client" (calls 100 sw) (kv ot "swres") (kv ot "sstream")]
    else if scen == "whole" then
      streamVerdict "client→server" (calls 0 cw) (kv ot "cwres") (kv ot "cstream")
    else if scen == "stall" then
      -- `-` (never returned) comes with dead=1 and is judged as a deadlock below
      let call := (kv ot "call").getD "-"
      let how := (kv ct "how").getD "?"
      if call == "-" || (kv ot "set").getD "-" == "-" then none
      else if how == "close" then
        (if call == "ok" then some ("close-unblock", "the call parked in the transport reported success after Close") else none)
      else if call == "timeout" then none
      else some ("deadline-unblock", s!"the call parked in the transport returned {call}, not a timeout, after its deadline had passed")
    else if scen == "wake" then
      -- a Read interrupted by a deadline setter from another goroutine, then resumed: every call is
      -- concurrency-safe per net.Conn, so the reader must still get exactly what was written
      let got := (kv ot "got").getD "-"
      if got == "ok" || got == "-" then none
      else some ("lost-on-wake", s!"a Read parked in the transport with part of a record taken was woken by a deadline setter from another goroutine (it returned {(kv ot "wake").getD "?"}), set a new deadline and read on: it got {got} instead of the 200 bytes written — bytes were lost between the two Reads")
    else if scen == "pafirst" then
      let call := (kv ot "call").getD "-"
      let pend := items ((kv ot "pend").getD "-")
      let how := (kv ct "how").getD "?"
      let queued := ((kv ct "pend").getD "-").toList
      -- a queued Read / Write (not the getters ProtectedConn, LocalAddr / RemoteAddr) cannot have succeeded either: the client never completes anything
      let queuedOk := ((queued.zip pend).filter fun (q, r) => (q == 'R' || q == 'W') && r == "ok").length
      if call == "-" || (kv ot "set").getD "-" == "-" || pend.contains "-" then none
      else if call == "ok" || queuedOk > 0 then
        some ("close-unblock", s!"a call pending on a silent client reported success after {Model.LocksPA.unblockerOf how}: call={call} pend={pend}")
      else if how == "close" || call == "timeout" then none
      else some ("deadline-unblock", s!"the parked first call returned {call}, not a timeout, after its deadline had passed")
    else if scen == "first" then
      let chs := items ((kv ot "chs").getD "-")
      let shs := items ((kv ot "shs").getD "-")
      firstSome [
        (if allSame chs && allSame shs then none
         else some ("hs-differ", s!"Handshake callers saw different results: client {chs} server {shs}")),
        streamVerdict "client→server" (calls 0 cw) (kv ot "cwres") (kv ot "cstream")]
    else if scen == "hsclose" then
      let chs := items ((kv ot "chs").getD "-")
      let shs := items ((kv ot "shs").getD "-")
      if allSame chs && allSame shs then none
      else some ("hs-differ", s!"Handshake callers saw different results: client {chs} server {shs}")
    else if scen == "close" then
      let cl := items ((kv ot "close").getD "-")
      let winners := (cl.filter (· != "closed")).length
      firstSome [
        (if winners == 1 then none else some ("close-once", s!"{winners} of {cl.length} Close calls were not refused: {cl}")),
        (if (kv ot "post") == some "closed" then none
         else some ("write-after-close", s!"a Write after Close returned {(kv ot "post").getD "?"}")),
        (if (kv ot "blocked") == some "-" then some ("close-unblock", "a Read blocked before Close never returned") else none),
        streamVerdict "client→server" (calls 0 cw) (kv ot "cwres") (kv ot "cstream")]
    else if scen == "read" then
      match (kv ct "slen").bind String.toNat?, (items ((kv ot "chunks").getD "-")).mapM unhex with
      | some n, some chunks =>
        if isWholeInterleaving (payload 9 0 n) chunks then none
        else some ("read-lossdup", s!"the {chunks.length} chunks returned to the readers are not the {n} bytes sent, each byte once")
      | _, _ => some ("shape", "unparseable chunks")
    else if scen == "dgram" then
      match (kv ot "cwres").bind (fun rs => (items rs).mapM parseW), (items ((kv ot "dg").getD "-")).mapM unhex with
      | some ws, some got =>
        match pieces (calls 0 cw) ws with
        | .error e => some ("results", e)
        | .ok sent =>
          if !atMostOnce got sent then some ("dgram", "a received datagram is not one of the datagrams sent, whole and at most once")
          else if got.length != sent.length then some ("dgram-lost", s!"{got.length} of {sent.length} datagrams arrived over a lossless transport")
          else none
      | _, _ => some ("shape", "unparseable datagrams")
    else if scen == "silent" then
      let call := (kv ot "call").getD "-"
      let cl := (kv ot "close").getD "-"
      if cl == "-" then some ("close-unblock", "Close did not return while a call was parked on a silent peer")
      else if call == "-" then some ("close-unblock", "the call parked on a silent peer never returned after Close")
      else if call == "ok" then some ("close-unblock", "the call parked on a silent peer reported success")
      else none
    else if scen == "switch" then
      let n := ((kv ct "n").bind String.toNat?).getD 1
      let writers := (List.range n).map fun w => (10 + w, 0, 64)
      firstSome [
        (if (items ((kv ot "res").getD "-")).all (· == "ok") && (kv ot "echo") == some "1" then none
         else some ("switch", s!"first use from several goroutines failed: {(kv ot "res").getD "?"} echo={(kv ot "echo").getD "?"}")),
        (if (kv ot "same") == some "1" then none
         else some ("switch-twice", "the first callers did not all end up on the same protected connection")),
        streamVerdict "server→client" writers (kv ot "swres") (kv ot "sstream")]
    else some ("shape", s!"unknown scenario {scen}")
  -- a torn stream / diverging handshake results ARE behaviours of the model when the extracted
  -- code no longer has the one `out` section / the re-check (the spec still fails them)
  let admitted := match protocol with
    | none => true
    | some (tag, _) => (tag == "torn" && !atomicWrite stack) || (tag == "hs-differ" && !recheck stack)
  -- scenario pafirst: does the extracted program of the unblocking call get past the parked first call?
  let paMethod := if (kv ct "call") == some "write" then "Write" else "Read"
  let paK := ((kv ct "k").bind String.toNat?).getD 0
  let paHow := (kv ct "how").getD "close"
  let paHangs := scen == "pafirst" && setup.isNone &&
    !Model.LocksPA.pafirstReturns Facts.pa.swProgs Facts.pa.swUnblockers Facts.pa.headerLen paMethod paK paHow
  let setTok := (kv ot "set").getD "-"
  let modelOk := (if paHangs then dead == "1" && setTok == "-" else dead == "0") && pan == "-" && admitted
  -- model prediction in observation syntax: the observation itself when it is one of the
  -- behaviours the lock model admits, otherwise the violated clause
  let model :=
    if modelOk then o
    else if paHangs then
      s!"set=- dead=1 (the extracted {Model.LocksPA.unblockerOf paHow} acquires a mutex that the parked first {paMethod} holds)"
    else if dead != "0" then
      (if scen == "pafirst" then "dead=0 (Close / a deadline setter of the adapter's object needs no mutex held across anything blocking: C13_pa_unblockers_never_wait, C13_pa_parked_call_can_be_unblocked)"
       else if scen == "stall" then "dead=0 (a deadline setter / Close needs no mutex held across transport I/O: C13_deadline_setters_never_wait, C13_close_never_waits_for_handshake)"
       else "dead=0 (the lock protocol has no reachable deadlock: C13_lock_order_acyclic)")
    else if pan != "-" then "panic=-"
    else match protocol with
      | some (tag, _) => s!"no-{tag}"
      | none => o
  let spec : Option (String × String) :=
    if dead != "0" && scen == "pafirst" && setup.isNone then
      some ("deadlock",
        if setTok == "-" then
          s!"{Model.LocksPA.unblockerOf paHow} on the adapter's connection did not return while its first {paMethod} was parked on a client that had sent {paK} byte(s): it waits behind the call it is meant to unblock"
        else s!"calls pending on the adapter's connection did not come back after {Model.LocksPA.unblockerOf paHow} had returned: call={(kv ot "call").getD "?"} pend={(kv ot "pend").getD "?"}")
    else if dead != "0" then some ("deadlock", "goroutines did not finish within the watchdog")
    else if pan != "-" then some ("panic", pan)
    else match protocol with
      | some p => some p
      | none =>
        if races == "na" || races == "0" then none
        else some ("race", s!"{races} data race report(s) on {stack}: {sites}")
  let note := if races == "na" then "race-detector-unavailable" else ""
  pure { model := model, spec := spec, note := note, trivial := setup.isSome }

end Gotlcp.Oracle.C13

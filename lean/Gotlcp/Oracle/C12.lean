/-
Oracle for C12.  Case lines (first token):

`api side=client|server suite=gcm|cbc [seg=all] ops=<op>,…`  =>  `res=<r>,…` (one per API call)
    `seg=all`: a transport read of the unit returns everything the transport holds (records the
    peer wrote back to back arrive together); default: one record per transport read
`cancel side=… k=<n> ops=<op>,…`  =>  `res=<handshake result>,<r>,… fired=0|1`
`early side=… j=<n> len=<n> injected=0|1 first=0|1 afterccs=0|1`  =>  `res=<handshake result>,<R8>,<H>,<W1>`
`dial nd=none|to|dl|both|shortto|shortdl stall=accept|hello|partial caller=cancel|deadline|pre|never`  =>  `res=<class> when=prompt|late`
    `Dialer.DialContext` over loopback TCP to a peer that accepts and stalls (never reads / reads the
    ClientHello / then writes part of a handshake record); nd = the net.Dialer has no bound / a 30 s
    Timeout / Deadline / both / a 200 ms Timeout / Deadline; caller = its context is cancelled 50 ms
    after the peer began to stall / has a 300 ms deadline / was cancelled before the call / never ends;
    class = ctx | ctxdl | timeout (with caller=never: any timeout error) | ok | blocked | <err>; when = returned within 2 s of that moment

op  = R<n> W<n> C CW H                        API calls on the connection under test
      pd<n> ph<n> pa<level>.<desc> pc         the peer writes a data / handshake-type / alert record, close_notify
      te  tx<n>.<k>  tt  tp                   transport: EOF, EOF after k bytes of an n-byte data record,
                                              temporary error, permanent error
      wft wfp wfh wfn                         writes of the unit's transport fail (timeout taking nothing / permanently /
                                              timeout after taking half of the bytes / no more)
      pg<t>                                   a record of type t that does not authenticate is injected towards the unit
      PR<n>                                   the peer's application reads (observed as `peer=<r>,…`, judged by the spec only)
      WP<n>  WK                               a Write on another goroutine, cut in two at the transport write: WP = the call
                                              up to there (`block`: it is inside the transport write, which makes it wait;
                                              anything else: it returned before), WK = the transport lets that write go on (or
                                              has been closed under it) and the Write returns (`none`: no Write was in flight)
r   = ok | ok.<hex> | okerr.<hex>.<err> | <err>
-/
import Gotlcp.Oracle.Common
import Gotlcp.Model.ConnAPI
import Gotlcp.Spec.ConnAPISpec

namespace Gotlcp.Oracle.C12
open Gotlcp.Model.RecordRx
open Gotlcp.Model.ConnAPI

def pattern (i len : Nat) : Bytes := (List.range len).map fun j => UInt8.ofNat ((i * 37 + j * 11 + 1) % 256)

def wireLen (suite : String) (n : Nat) : Nat :=
  if suite == "cbc" then 5 + 16 + (n + 32 + 16) / 16 * 16 else 5 + 8 + n + 16

def vers : Nat := Model.ConnAPI.P.vers

/-- an op as model calls (transport events first) -/
def parseOp (suite : String) (idx : Nat) (op : String) : Option (List Call) :=
  let num (s : String) := s.toNat?
  match op.toList with
  | ['C'] => some [.close]
  | ['C', 'W'] => some [.closeWrite]
  | ['H'] => some [.handshake false]
  | 'R' :: r => (num (String.ofList r)).map fun n => [.read n]
  | 'W' :: 'P' :: r => (num (String.ofList r)).map fun n => [.writeStart (pattern idx n)]
  | ['W', 'K'] => some [.writeEnd]
  | 'W' :: r => (num (String.ofList r)).map fun n => [.write (pattern idx n)]
  | 'p' :: 'd' :: r => (num (String.ofList r)).map fun n => [.arrive (.record ⟨23, vers, pattern idx n⟩)]
  | 'p' :: 'h' :: r => (num (String.ofList r)).map fun n => [.arrive (.record ⟨22, vers, pattern idx n⟩)]
  | 'p' :: 'a' :: r =>
    match (String.ofList r).splitOn "." with
    | [l, d] => do pure [.arrive (.record ⟨21, vers, [UInt8.ofNat (← num l), UInt8.ofNat (← num d)]⟩)]
    | _ => none
  | ['p', 'c'] => some [.arrive (.record ⟨21, vers, [1, 0]⟩)]
  | 'p' :: 'g' :: r => (num (String.ofList r)).map fun t => [.arrive (.record ⟨forgedMark + t, vers, pattern idx 20⟩)]
  | 'P' :: 'R' :: _ => some []
  | ['w', 'f', 'h'] => some [.setWFail .temp]
  | ['t', 'e'] => some [.arrive (.eof none)]
  | 't' :: 'x' :: r =>
    match (String.ofList r).splitOn "." with
    | [n, k] => do
      let n ← num n
      let k ← num k
      let L := wireLen suite n
      if k == 0 then pure [.arrive (.eof none)]
      else if k < 5 then pure [.arrive (.eof (some (.hdr 23 k)))]
      else if k < L then pure [.arrive (.eof (some (.body 23 vers (L - 5))))]
      else pure [.arrive (.record ⟨23, vers, pattern idx n⟩), .arrive (.eof none)]
    | _ => none
  | ['t', 't'] => some [.arrive .tempErr]
  | ['t', 'p'] => some [.arrive .permErr]
  | ['w', 'f', 't'] => some [.setWFail .temp]
  | ['w', 'f', 'p'] => some [.setWFail .perm]
  | ['w', 'f', 'n'] => some [.setWFail .none]
  | _ => none

def showErr : ApiErr → String
  | .eof => "eof" | .unexpectedEOF => "ueof" | .closed => "closed" | .shutdown => "shutdown"
  | .earlyCloseWrite => "early_cw" | .remoteAlert a => s!"remote.{a}" | .localAlert a => s!"local.{a}"
  | .recordHeader => "hdr" | .tooManyIgnored => "toomany" | .ctxCanceled => "ctx"
  | .transportTemp => "timeout" | .transportPerm => "perm" | .handshakeFailed t => s!"hsfail.{t}" | .internal => "other"
  | .block => "block"

def showRes (isRead : Bool) : Res → Option String
  | .ok d => some (if isRead && !d.isEmpty then s!"ok.{Hex.encode d}" else "ok")
  | .okErr d e => some s!"okerr.{Hex.encode d}.{showErr e}"
  | .err e => some (showErr e)
  | .wouldBlock => some "block"
  | .event => none

def isReadCall : Call → Bool
  | .read n => n > 0
  | _ => false

def runModel (c : Conn) : List Call → List String
  | [] => []
  | k :: ks =>
    let (c', r) := step c k
    match showRes (isReadCall k) r with
    | some s => s :: runModel c' ks
    | none => if k == .writeEnd then "none" :: runModel c' ks else runModel c' ks

/-! ### the spec's view of a history -/
open Spec.ConnAPI in
def specSteps (suite : String) : List (Nat × String) → List String → List Step
  | [], _ => []
  | (idx, op) :: ops, obs =>
    -- the peer's application reads: it may answer what this side wrote with an alert
    if op.startsWith "PR" then .other :: specSteps suite ops obs else
    let isCall := op == "C" || op == "CW" || op == "H" || op.startsWith "R" || op.startsWith "W"
    if isCall then
      match obs with
      | [] => []
      | o :: obs' =>
        let parts := o.splitOn "."
        let out : Outcome :=
          match parts with
          | ["ok"] => {}
          | ["ok", h] => { data := (Hex.decode h).getD [] }
          | "okerr" :: h :: e => { data := (Hex.decode h).getD [], err := ".".intercalate e }
          | _ => { err := o }
        let k : Kind := if op == "C" then .close else if op == "CW" then .closeWrite else if op == "H" then .handshake
          else if op.startsWith "R" then .read else .write
        let ne := op != "R0"
        -- no Write was in flight: nothing happened
        if op == "WK" && o == "none" then .benign :: specSteps suite ops obs' else
        .call k ne out :: specSteps suite ops obs'
    else
      let st : Step :=
        match op.toList with
        | 'p' :: 'd' :: r => .peerData (pattern idx ((String.ofList r).toNat?.getD 0))
        | ['p', 'c'] => .peerCloseNotify
        | 'p' :: 'g' :: _ => .forgery
        | 'p' :: 'a' :: r => if ((String.ofList r).splitOn ".").getD 1 "" == "0" then .peerCloseNotify else .other
        | ['t', 'e'] => .transportEnd false
        | 't' :: 'x' :: r =>
          match (String.ofList r).splitOn "." with
          | [n, k] =>
            let n := n.toNat?.getD 0
            let k := k.toNat?.getD 0
            if k == 0 then .transportEnd false else if k < wireLen suite n then .transportEnd true else .other
          | _ => .other
        | ['t', 't'] => .benign
        | 'w' :: 'f' :: _ => .benign
        | _ => .other
      -- a complete record followed by EOF: data, then a clean end
      let extra : List Step :=
        match op.toList with
        | 't' :: 'x' :: r =>
          match (String.ofList r).splitOn "." with
          | [n, k] =>
            let n := n.toNat?.getD 0
            if k.toNat?.getD 0 ≥ wireLen suite n then [.peerData (pattern idx n), .transportEnd false] else []
          | _ => []
        | _ => []
      (if extra.isEmpty then [st] else extra) ++ specSteps suite ops obs

/-- does this side seal another record after a record it had sealed was lost at the transport?
A failed `Write`, or a `CloseWrite` / `Close` whose close_notify the transport refused, has consumed
a sequence number; `closeNotify` (Close / CloseWrite) and `sendAlert` (a `Read` that answers bad
input with an alert: result `local.N`; the alert itself is lost when the transport refuses writes at
that moment) still seal their alert with the next one — as crypto/tls
does; the peer then reports bad_record_mac instead of a truncated stream / the alert.  Reported as
a note, see F39. -/
def sealAfterLostRecord : List String → List String → Bool → Bool → Bool
  | [], _, _, _ => false
  | op :: ops, obs, lost, wf =>
    let isCall := op == "C" || op == "CW" || op == "H" || (op.startsWith "R" ) || (op.startsWith "W")
    -- the unit's transport refuses writes from `wf?` until `wfn`
    if op.startsWith "wf" then sealAfterLostRecord ops obs lost (op != "wfn") else
    if op.startsWith "PR" || !isCall then sealAfterLostRecord ops obs lost wf else
    match obs with
    | [] => false
    | o :: obs' =>
      let sendsAlert := op.startsWith "R" && ((o.splitOn "local.").length > 1)
      if (op == "C" || op == "CW" || sendsAlert) && lost then true
      -- lost records: a failed Write, a refused close_notify, an alert the read path sealed while
      -- the transport refused writes
      else sealAfterLostRecord ops obs' (lost || (op.startsWith "W" && o != "ok" && o != "block" && o != "none") ||
        ((op == "C" || op == "CW") && (o == "timeout" || o == "perm")) || (sendsAlert && wf)) wf

def parseOps (s : String) : List String := if s == "-" || s == "" then [] else s.splitOn ","

/-- The peer's application reads (`PR`) are the environment's doing; what they returned is part of
the observation.  The first of them that fails with a local alert N (`local.N`: the peer could not
authenticate what this side sent, …) has made the peer send that fatal alert to the unit — an
arrival the model has to be told about.  Returns, per op, the extra transport events. -/
def peerAlerts : List String → List String → Bool → List (List Call)
  | [], _, _ => []
  | op :: ops, pobs, sent =>
    if op.startsWith "PR" then
      match pobs with
      | [] => [] :: peerAlerts ops [] sent
      | p :: pobs' =>
        match (p.splitOn "local.") with
        | [_, n] =>
          if sent then [] :: peerAlerts ops pobs' sent
          else [.arrive (.record ⟨21, vers, [2, UInt8.ofNat (n.toNat?.getD 0)]⟩)] :: peerAlerts ops pobs' true
        | _ => [] :: peerAlerts ops pobs' sent
    else [] :: peerAlerts ops pobs sent

def judgeAPI (ct ot : List String) : Option Verdict := do
  let suite := (kv ct "suite").getD "gcm"
  let ops := parseOps ((kv ct "ops").getD "-")
  let calls0 ← (ops.zipIdx.mapM fun (op, i) => parseOp suite i op)
  let calls := (calls0.zip (peerAlerts ops (parseOps ((kv ot "peer").getD "-")) false)).map fun (a, b) => a ++ b
  let c0 : Conn := { hsDone := true, seg := if kv ct "seg" == some "all" then .all else .record }
  let outs := runModel c0 calls.flatten
  -- what the peer's application read (`PR` ops) is not modelled: echoed, judged by the spec only
  let peerTok := match kv ot "peer" with | some p => s!" peer={p}" | none => ""
  let model := (if outs.isEmpty then "res=-" else s!"res={",".intercalate outs}") ++ peerTok
  let obs := parseOps ((kv ot "res").getD "-")
  let steps := specSteps suite (ops.zipIdx.map fun (op, i) => (i, op)) obs
  -- the peer must never be handed a record out of sequence: unless this side's transport took
  -- part of a record (`wfh`) or garbage was injected towards the peer, the peer's reads never
  -- fail with a local alert
  let peerObs := parseOps ((kv ot "peer").getD "-")
  let partial_ := ops.any (· == "wfh")
  let cnAfter := sealAfterLostRecord ops obs false false
  let desyncSeen := peerObs.any (·.startsWith "local.")
  let desync := !partial_ && !cnAfter && desyncSeen
  let spec := if (kv ot "panic").isSome then some ("panic", "a call panicked")
    else match Spec.ConnAPI.check {} steps with
      | some f => some f
      | none => if desync then some ("peer-desync", "the peer was handed a record it could not authenticate after a failed Write") else none
  let note := if desyncSeen && cnAfter then "close-notify-after-failed-write-desyncs-peer" else ""
  pure { model := model, spec := spec, note := note, trivial := outs.isEmpty }

def judgeCancel (ct ot : List String) : Option Verdict := do
  let ops := parseOps ((kv ct "ops").getD "-")
  let fired := kv ot "fired" == some "1"
  let calls ← (ops.zipIdx.mapM fun (op, i) => parseOp "gcm" (i + 1) op)
  let c0 : Conn := {}
  let outs := runModel c0 (.handshake fired :: calls.flatten)
  let model := s!"res={",".intercalate outs} fired={if fired then "1" else "0"}"
  let obs := parseOps ((kv ot "res").getD "-")
  let steps := specSteps "gcm" ((0, "H") :: ops.zipIdx.map fun (op, i) => (i + 1, op)) obs
  let spec :=
    if (kv ot "panic").isSome then some ("panic", "a call panicked")
    else if fired && obs.head? != some "ctx" then
      some ("cancel", s!"the context was cancelled during the handshake but Handshake returned {obs.head?.getD "?"}")
    else Spec.ConnAPI.check {} steps
  pure { model := model, spec := spec }

def judgeEarly (ct ot : List String) : Option Verdict := do
  let injected := kv ct "injected" == some "1"
  let first := kv ct "first" == some "1"
  let afterccs := kv ct "afterccs" == some "1"
  let len ← kvNat ct "len"
  -- what `readRecordOrCCS` does with the injected record in the state the handshake is in
  let ctx : Ctx := { hsComplete := false, expectCCS := false, haveVers := !first, keyed := afterccs }
  let body : SymBody := .junk 0 len (pattern 7 len)
  let D := symDec Model.ConnAPI.P [] (fun _ => 0)
  let (_, o) := rx Model.ConnAPI.P D ctx {} ⟨23, vers, body⟩
  let hsErr : Option ApiErr := if !injected then none else match o with
    | .err e => some (ofRx e)
    | _ => some .internal     -- would mean: accepted
  let c0 : Conn := match hsErr with
    | none => {}
    | some (.localAlert a) => { hsScript := .fail a }
    | some _ => { hsScript := .fail 0 }
  let render (s : String) : String :=
    match hsErr with
    | some (.localAlert a) => if s == s!"hsfail.{a}" then s!"local.{a}" else s
    | some .recordHeader => if s == "hsfail.0" then "hdr" else s
    | _ => s
  let outs := (runModel c0 [.handshake false, .read 8, .handshake false, .write (pattern 3 1)]).map render
  let model := s!"res={",".intercalate outs}"
  let obs := parseOps ((kv ot "res").getD "-")
  let spec :=
    if (kv ot "panic").isSome then some ("panic", "a call panicked")
    else if injected && (obs.head? == some "ok" || (obs.getD 1 "").startsWith "ok") then
      some ("early-data", "application data before the handshake completed was not refused")
    else Spec.ConnAPI.check {} (specSteps "gcm" [(0, "H"), (1, "R8"), (2, "H"), (3, "W1")] obs)
  pure { model := model, spec := spec, trivial := !injected }

/-- `Dialer.DialContext` to a peer that stalls in the handshake: the context that ends first (the
caller's, or the one `dial` derives from the net.Dialer's Timeout / Deadline) is cancelled while
`handshakeFn` runs — the model's `.handshake true` — and its error is what comes back. -/
def judgeDial (ct ot : List String) : Option Verdict := do
  let nd ← kv ct "nd"
  let caller ← kv ct "caller"
  let _ ← kv ct "stall"
  let short := nd == "shortto" || nd == "shortdl"
  guard (["none", "to", "dl", "both", "shortto", "shortdl"].contains nd)
  let why : Spec.ConnAPI.DialEnd ←
    match caller with
    | "cancel" => some .callerCancel
    | "pre" => some .callerCancel
    | "deadline" => some .callerDeadline
    | "never" => if short then some .dialerTimeout else none
    | _ => none
  -- (a caller that ends at about the same time as a short dialer bound is a race: not generated)
  guard (!short || caller == "never")
  let outs := runModel {} [.handshake true]
  let render (s : String) : String :=
    if s != "ctx" then s else match why with
      | .callerCancel => "ctx" | .callerDeadline => "ctxdl" | .dialerTimeout => "timeout"
  let model := s!"res={",".intercalate (outs.map render)} when=prompt"
  let res := (kv ot "res").getD "?"
  let prompt := kv ot "when" == some "prompt"
  pure { model := model, spec := Spec.ConnAPI.checkDial why res prompt }

def judge (c o : String) : Option Verdict :=
  let ct := tokens c
  let ot := tokens o
  match ct.head? with
  | some "api" => judgeAPI ct ot
  | some "cancel" => judgeCancel ct ot
  | some "early" => judgeEarly ct ot
  | some "dial" => judgeDial ct ot
  | _ => none

end Gotlcp.Oracle.C12

/-
Oracle for C08: predicts with the generated model what the real endpoint does with a word of
message kinds, and judges the observation with the standard language.

case     : `stack=tlcp|dtlcp role=client|server suite=ecc|ecdhe[-cbc] mode=full|resumed
            auth=none|request|require|verify word=K,K,...`
observed : `completed at=<i>` | `failed at=<i>` | `pending`
           (i = index of the symbol after which Handshake() returned)

spec     : completed at=i  ⇒  w[0..i] ∈ standard language            (tag `no-skx` when the only
                                                                      defect is a missing
                                                                      ServerKeyExchange, else `illegal-order`)
           w[0..j] ∈ standard language for some j ⇒ completed at=j   (tag `rejected-legal`)
-/
import Gotlcp.Oracle.Common
import Gotlcp.Model.Flow
import Gotlcp.Spec.StandardFlow
import Gotlcp.Generated.Facts

namespace Gotlcp.Oracle.C08
open Gotlcp.Flow
open Gotlcp.Model.Flow
open Gotlcp.Spec

def skeletonTLCP : Skeleton where
  flows := Facts.tlcp.flows
  table := Facts.tlcp.recordTable
  pre := Facts.tlcp.recordPre
  retryIncrementsFirst := Facts.tlcp.retryIncrementsFirst
  retryLimitCond := Facts.tlcp.retryLimitCond
  ecdheNeedsSkx := Facts.tlcp.ecdheClientCkxNeedsSkx
  maxUseless := Facts.tlcp.maxUselessRecords

def skeletonDTLCP : Skeleton where
  flows := Facts.dtlcp.flows
  table := Facts.dtlcp.recordTable
  pre := Facts.dtlcp.recordPre
  retryIncrementsFirst := Facts.dtlcp.retryIncrementsFirst
  retryLimitCond := Facts.dtlcp.retryLimitCond
  ecdheNeedsSkx := Facts.dtlcp.ecdheClientCkxNeedsSkx
  maxUseless := Facts.dtlcp.maxUselessRecords

def clientRoot : String := "client:Conn.clientHandshake"
def serverRoot : String := "server:Conn.serverHandshake"

structure Case where
  stack : String
  role : String
  ecdhe : Bool
  resumed : Bool
  auth : String
  recs : List (List Kind)
  word : List Kind     -- the records flattened: the sequence of message kinds

def parseCase (c : String) : Option Case := do
  let t := tokens c
  let stack ← kv t "stack"
  let role ← kv t "role"
  let suite ← kv t "suite"
  let mode ← kv t "mode"
  let auth ← kv t "auth"
  let recs ← (kv t "word").bind parseRecords
  let w := recs.flatten
  if stack != "tlcp" && stack != "dtlcp" then none
  if role != "client" && role != "server" then none
  if mode != "full" && mode != "resumed" then none
  pure { stack, role, ecdhe := suite.startsWith "ecdhe", resumed := mode == "resumed", auth, recs := recs, word := w }

/-- documented policy semantics: a certificate is requested for every policy but NoClientCert,
and always with an ECDHE suite; "no certificate" is acceptable for NoClientCert / RequestClientCert
(and VerifyClientCertIfGiven) outside ECDHE -/
def requested (c : Case) : Bool := c.auth != "none" || c.ecdhe
def emptyAllowed (c : Case) : Bool := (c.auth == "none" || c.auth == "request" || c.auth == "ifgiven") && !c.ecdhe

def cfgOf (c : Case) : Cfg :=
  { resume := c.resumed, certRequested := c.role == "server" && requested c,
    emptyOK := emptyAllowed c, ecdhe := c.ecdhe }

def stdFlows (c : Case) : List (List StandardFlow.Item) :=
  let base :=
    if c.role == "client" then
      (if c.resumed then StandardFlow.clientResumed else StandardFlow.clientFull ⟨c.ecdhe⟩)
    else
      (if c.resumed then StandardFlow.serverResumed
       else StandardFlow.serverFull ⟨requested c, emptyAllowed c⟩)
  if c.stack == "dtlcp" then
    (if c.role == "client" then StandardFlow.dtlcpClient base else StandardFlow.dtlcpServer base)
  else base.map StandardFlow.plain

def showObs : Obs → String
  | .completed i => s!"completed at={i}"
  | .failed i => s!"failed at={i}"
  | .pending => "pending"

/-- first index j with w[0..j] in the language -/
def firstLegal (flows : List (List StandardFlow.Item)) (w : List Kind) : Option Nat :=
  (List.range w.length).find? (fun j => StandardFlow.inLangI flows (w.take (j + 1)))

def withoutWarn (w : List Kind) : List Kind := w.filter (· != .warningAlert)

def judge (cs o : String) : Option Verdict := do
  let c ← parseCase cs
  let sk := if c.stack == "dtlcp" then skeletonDTLCP else skeletonTLCP
  let root := if c.role == "client" then clientRoot else serverRoot
  let model := match observe sk root (cfgOf c) c.recs with
    | some ob => showObs ob
    | none => "model-unavailable"
  let flows := stdFlows c
  let ot := tokens o
  let spec : Option (String × String) :=
    match ot.head?, kvNat ot "at" with
    | some "completed", some i =>
      let pre := (c.recs.take (i + 1)).flatten
      if StandardFlow.inLangI flows pre then none
      else
        -- name the F1 shape: legal once a ServerKeyExchange is put back after the Certificate
        let core := withoutWarn pre
        let patched := match core.span (· != Kind.certificate) with
          | (a, b :: rest) => a ++ b :: Kind.serverKeyExchange :: rest
          | (a, []) => a
        if c.role == "client" && !c.resumed && StandardFlow.inLangI flows patched then
          some ("no-skx", s!"client completed after {showWord pre}: no ServerKeyExchange, the server never proved possession of its signing key")
        else if StandardFlow.inLangI flows core then
          some ("too-many-ignorable", s!"{c.role} completed after {showWord pre}: more than {StandardFlow.maxIgnorable} consecutive ignorable records were tolerated")
        else if (core.dropWhile (· != Kind.finished)).contains Kind.ccs then
          some ("finished-before-ccs", s!"{c.role} completed after {showWord pre}: the peer's Finished was sent before ChangeCipherSpec, unprotected")
        else some ("illegal-order", s!"{c.role} completed after {showWord pre}, which is not a legal {if c.resumed then "resumed" else "full"} flow")
    | some h, _ =>
      if h == "failed" || h == "pending" then
        match (if c.recs.all (fun r => r.length == 1) then firstLegal flows c.word else none) with
        | some j => some ("rejected-legal", s!"{c.role} did not complete on the legal flow {showWord (c.word.take (j + 1))} (observed {o})")
        | none => none
      else some ("shape", s!"unexpected observation {o}")
    | none, _ => some ("shape", "empty observation")
  pure { model := model, spec := spec, trivial := c.word.isEmpty }

end Gotlcp.Oracle.C08

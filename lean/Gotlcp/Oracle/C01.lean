/-
Oracle for C01: re-computes what the model (`Model.Negotiate`, with the regenerated facts of
the stack) predicts for a pair of configurations and evaluates the spec
(`Spec.Negotiate`) on what the two real endpoints reported.

case     : see harness/cmd/c01/main.go (abstract client and server configuration, optionally
           `hist=<step>;<step>…`: further connections between the same two parties, each
           `same` or `+`-joined overrides `cs: calpn: ccl: ss: salpn: sca: scl:` of the first
           connection's settings — a history, judged connection by connection with
           `Spec.Negotiate.connOK`, the model being `runHistory`)
observed : `h1=<client>|<server>|<echo> [h2=…] [e1c=… e1s=… …]`
             end  = `ok:<vers>:<suite>:<alpn|->:<resumed>:<peer certs S/E|->:<server name|->`
                  | `fail` | `timeout` | `incomplete`
             echo = `ok` | `bad` | `-`
             `timeout` = the end had not returned from Handshake by itself when the harness gave up
             (4 s after the other end had failed, or at the watchdog's limit): the handshake did not
             END on that side — judged as `hang`, whatever the configurations
           the `w…` (how each end of a failed connection came to its end: ok | own | alert | eof |
           timeout) and `e…` tokens (error texts) are secondary: copied into the model line, compared
           with the failure the model predicts in a note only.
-/
import Gotlcp.Oracle.Common
import Gotlcp.Model.NegotiateFacts
import Gotlcp.Spec.NegotiateSpec
import Gotlcp.Generated.Facts

namespace Gotlcp.Oracle.C01
open Gotlcp.Negotiate
open Gotlcp.Model.Negotiate

/-! ### parameters from the regenerated facts -/

def params (stack : String) : Option Params :=
  if stack == "tlcp" then some tlcpParams else if stack == "dtlcp" then some dtlcpParams else none

/-! ### parsing the case -/

def hexNat (s : String) : Option Nat :=
  if s.isEmpty then none else
  s.toList.foldlM (fun acc c => (Hex.nib c).map fun d => acc * 16 + d) 0

def parseSuites (s : String) : Option (Option (List Nat)) :=
  if s == "nil" then some none
  else if s == "-" then some (some [])
  else ((s.splitOn ",").mapM hexNat).map some

def parseList (s : String) : List String := if s == "-" then [] else s.splitOn ","

def parseVer (s : String) : Option (Nat × Nat) :=
  match s.splitOn "." with
  | [a, b] => do pure (← hexNat a, ← hexNat b)
  | _ => none

def parseKey (s : String) : Option KeyKind :=
  if s == "sm2" then some .sm2 else if s == "p256" then some .p256
  else if s == "ed" then some .ed25519 else if s == "rsa" then some .rsa else none

def parseAuth (s : String) : Option ClientAuth :=
  match s with
  | "0" => some .noClientCert
  | "1" => some .requestClientCert
  | "2" => some .requireAnyClientCert
  | "3" => some .verifyClientCertIfGiven
  | "4" => some .requireAndVerifyClientCert
  | "5" => some .requireAndVerifyAnyKeyUsageClientCert
  | _ => none

def parseCAs (s : String) : Option CAKind :=
  if s == "none" then some .none else if s == "root" then some .root else if s == "other" then some .other else none

def kvd (t : List String) (k d : String) : String := (kv t k).getD d

def parseClient (t : List String) : Option ClientCfg := do
  let suites ← parseSuites (kvd t "cs" "nil")
  let n ← (kvd t "cn" "0").toNat?
  let (mn, mx) ← parseVer (kvd t "cver" "0.0")
  let fam ← (match kvd t "cfam" "root" with | "root" => some Family.root | "other" => some Family.other | _ => none)
  let sn := kvd t "csn" "-"
  pure { suites := suites, nCerts := n, getCert := kvd t "cgc" "0" == "1", getKECert := kvd t "cgk" "0" == "1",
         family := fam, alpn := parseList (kvd t "calpn" "-"),
         serverName := if sn == "-" then "" else sn, nameIsIP := kvd t "csip" "0" == "1",
         cache := kvd t "cca" "0" == "1", minV := mn, maxV := mx, clone := kvd t "ccl" "0" == "1" }

def parseServer (t : List String) : Option ServerCfg := do
  let suites ← parseSuites (kvd t "ss" "nil")
  let n ← (kvd t "sn" "2").toNat?
  let (mn, mx) ← parseVer (kvd t "sver" "0.0")
  let (sk, ek) ← (match (kvd t "skey" "sm2.sm2").splitOn "." with
    | [a, b] => do pure (← parseKey a, ← parseKey b)
    | [a] => do pure (← parseKey a, KeyKind.sm2)
    | _ => none)
  let auth ← parseAuth (kvd t "auth" "0")
  let cas ← parseCAs (kvd t "scas" "none")
  pure { suites := suites, nCerts := n, getCert := kvd t "sgc" "0" == "1", getKECert := kvd t "sgk" "0" == "1",
         sigKey := sk, encKey := ek, alpn := parseList (kvd t "salpn" "-"), auth := auth, cas := cas,
         cache := kvd t "sca" "0" == "1", minV := mn, maxV := mx, clone := kvd t "scl" "0" == "1" }

/-! ### rendering -/

def hex4 (n : Nat) : String :=
  String.ofList [Hex.digit (n / 4096 % 16), Hex.digit (n / 256 % 16), Hex.digit (n / 16 % 16), Hex.digit (n % 16)]

def dash (s : String) : String := if s.isEmpty then "-" else s

def showCerts (l : List CertSym) : String :=
  dash (String.join (l.map fun c => match c with | .S => "S" | .E => "E"))

def showView (v : View) : String :=
  s!"ok:{hex4 v.vers}:{hex4 v.suite}:{dash v.alpn}:{if v.resumed then "1" else "0"}:{showCerts v.peerCerts}:{dash v.serverName}"

def showRound (i : Nat) : Except Failure Agreed → String
  | .ok a => s!"h{i}={showView a.client}|{showView a.server}|ok"
  | .error _ => s!"h{i}=fail|fail|-"

def failName : Failure → String
  | .clientNoVersion => "clientNoVersion" | .version => "version" | .alpn => "alpn"
  | .serverNoCert => "serverNoCert" | .serverKeyType => "serverKeyType" | .noSuite => "noSuite"
  | .clientSuite => "clientSuite" | .clientALPN => "clientALPN" | .clientVersion => "clientVersion"
  | .skxSignature => "skxSignature" | .clientNoEncCert => "clientNoEncCert"
  | .certMissing => "certMissing" | .ecdheCerts => "ecdheCerts" | .certVerify => "certVerify"
  | .certVerifyMsg => "certVerifyMsg" | .resumeMismatch => "resumeMismatch"

/-- a fragment of the error text (spaces are underscores in the trace) that the failing side
reports for each predicted failure -/
def failText : Failure → String
  | .clientNoVersion => "no_supported_versions"
  | .version => "client_offered_only_unsupported_versions"
  | .alpn => "unsupported_application_protocols"
  | .serverNoCert => "no_certificates_configured"
  | .serverKeyType => "unsupported_signing_key_type"
  | .noSuite => "no_cipher_suite_supported_by_both"
  | .clientSuite => "unconfigured_cipher_suite"
  | .clientALPN => "ALPN"
  | .clientVersion => "unsupported_protocol_version"
  | .skxSignature => "sm2_verification_failure"
  | .clientNoEncCert => "no_certificates_configured"
  | .certMissing => "didn't_provide_a_certificate"
  | .ecdheCerts => "didn't_provide_both"
  | .certVerify => "failed_to_verify_certificate"
  | .certVerifyMsg => "unexpected_message"
  | .resumeMismatch => "resumed_a_session_with_a_different"

def containsSub (s sub : String) : Bool := (s.splitOn sub).length > 1

/-! ### the spec on an observation -/

structure ObsEnd where
  status : String             -- ok | fail | timeout | incomplete
  view : Option View

def parseEnd (s : String) : Option ObsEnd :=
  match s.splitOn ":" with
  | ["ok", v, su, al, r, cs, sn] => do
    let vers ← hexNat v
    let suite ← hexNat su
    let certs ← (if cs == "-" then some [] else cs.toList.mapM fun c =>
      if c == 'S' then some CertSym.S else if c == 'E' then some CertSym.E else none)
    pure ⟨"ok", some { vers := vers, suite := suite, alpn := if al == "-" then "" else al, resumed := r == "1",
                       peerCerts := certs, serverName := if sn == "-" then "" else sn }⟩
  | [st] => if st == "fail" || st == "timeout" || st == "incomplete" then some ⟨st, none⟩ else none
  | _ => none

def viewDiff (got want : View) : String :=
  if got.vers != want.vers then "version"
  else if got.suite != want.suite then "suite"
  else if got.alpn != want.alpn then "alpn"
  else if got.resumed != want.resumed then "resumed"
  else if got.peerCerts != want.peerCerts then "certs"
  else if got.serverName != want.serverName then "name"
  else ""

/-- "ends on both sides": an end that had not returned from Handshake by itself when the harness gave
up (`timeout`: 4 s after the other end had failed, or at the watchdog's limit — the transport is
lossless and immediate, an end that is told returns within milliseconds) has not ended -/
def hangReason (i : Nat) (c s : String) : String :=
  let one (who other ost : String) :=
    s!"handshake {i} did not end on both sides: the {who} had not returned from Handshake when the harness gave up" ++
    (if ost == "fail" then s!" although the {other} had failed — it was never told (no fatal alert reached it) and went on waiting / retransmitting"
     else s!" (the {other}: {ost})")
  if c == "timeout" && s == "timeout" then s!"handshake {i} did not end on either side"
  else if c == "timeout" then one "client" "server" s
  else one "server" "client" c

def endStatus (st : String) : Spec.Negotiate.EndStatus :=
  if st == "ok" then .succeeded else if st == "fail" then .failed else .notEnded

def judgeRound (i : Nat) (c : ClientCfg) (s : ServerCfg) (want : Agreed) (tok : String) : Option (String × String) :=
  match tok.splitOn "|" with
  | [ce, se, echo] =>
    match parseEnd ce, parseEnd se with
    | some oc, some os =>
      if oc.status == "incomplete" || os.status == "incomplete" then
        some ("incomplete", s!"handshake {i} returned nil without completing ({oc.status}/{os.status})")
      else if !Spec.Negotiate.endsOK (endStatus oc.status) (endStatus os.status) then
        -- "ends on both sides, succeeding on both or failing on both"
        if oc.status == "timeout" || os.status == "timeout" then some ("hang", hangReason i oc.status os.status)
        else some ("split", s!"handshake {i}: client {oc.status}, server {os.status}")
      else
        let compat := Spec.Negotiate.compatible c s
        match oc.view, os.view with
        | some cv, some sv =>
          if !compat then some ("accepted", s!"handshake {i} succeeded although the configurations are incompatible")
          else if !Spec.Negotiate.viewsAgree ⟨cv, sv⟩ then
            some ("disagree", s!"handshake {i}: the two ends report different parameters ({showView cv} / {showView sv})")
          else
            let dc := viewDiff cv want.client
            let ds := viewDiff sv want.server
            if dc != "" then some (dc, s!"handshake {i}: client reports {showView cv}, expected {showView want.client}")
            else if ds != "" then some (ds, s!"handshake {i}: server reports {showView sv}, expected {showView want.server}")
            else if echo != "ok" then some ("echo", s!"handshake {i}: application bytes were not echoed unchanged")
            else none
        | _, _ =>
          if compat then some ("refused", s!"handshake {i} failed although the configurations are compatible (expected {showView want.client})")
          else none
    | _, _ => some ("shape", s!"unparseable ends in {tok}")
  | _ => some ("shape", s!"unparseable round {tok}")

/-! ### histories -/

def parseStep (base : Reconf) (t : String) : Option Reconf :=
  if t == "same" then some base else
  (t.splitOn "+").foldlM (fun (r : Reconf) f =>
    match f.splitOn ":" with
    | ["cs", v] => (parseSuites v).map fun x => { r with cs := x }
    | ["ss", v] => (parseSuites v).map fun x => { r with ss := x }
    | ["calpn", v] => some { r with calpn := parseList v }
    | ["salpn", v] => some { r with salpn := parseList v }
    | ["ccl", v] => some { r with cclone := v == "1" }
    | ["scl", v] => some { r with sclone := v == "1" }
    | ["sca", v] => some { r with scache := v == "1" }
    | _ => none) base

/-- one observed connection: `inl` = a verdict that does not need the spec (hang, split, shape),
`inr` = what the two ends report (`none`: both failed) and the echo -/
def parseRound (i : Nat) (tok : String) : Sum (String × String) (Option Agreed × String) :=
  match tok.splitOn "|" with
  | [ce, se, echo] =>
    match parseEnd ce, parseEnd se with
    | some oc, some os =>
      if oc.status == "incomplete" || os.status == "incomplete" then
        .inl ("incomplete", s!"handshake {i} returned nil without completing ({oc.status}/{os.status})")
      else if !Spec.Negotiate.endsOK (endStatus oc.status) (endStatus os.status) then
        if oc.status == "timeout" || os.status == "timeout" then .inl ("hang", hangReason i oc.status os.status)
        else .inl ("split", s!"handshake {i}: client {oc.status}, server {os.status}")
      else
        match oc.view, os.view with
        | some cv, some sv => .inr (some ⟨cv, sv⟩, echo)
        | none, none => .inr (none, echo)
        | _, _ => .inl ("split", s!"handshake {i}: client {oc.status}, server {os.status}")
    | _, _ => .inl ("shape", s!"unparseable ends in {tok}")
  | _ => .inl ("shape", s!"unparseable round {tok}")

/-- why `connOK` rejects (for the replay; the verdict itself is `connOK`) -/
def diagnose (i : Nat) (c : ClientCfg) (s : ServerCfg) (origin : Option Agreed) (obs : Option Agreed) : String × String :=
  match obs with
  | none => ("refused", s!"connection {i} failed although the configurations in use are compatible (expected {showView (Spec.Negotiate.expected c s).client})")
  | some a =>
    if !Spec.Negotiate.compatible c s then
      ("accepted", s!"connection {i} succeeded although the configurations in use are incompatible")
    else if !Spec.Negotiate.viewsAgree a then
      ("disagree", s!"connection {i}: the two ends report different parameters ({showView a.client} / {showView a.server})")
    else if a.client.resumed || a.server.resumed then
      match origin with
      | none => ("resumed", s!"connection {i} reports a resumption but no earlier full handshake of this history succeeded")
      | some o =>
        if !(c.cache && s.cache) then
          ("resumed", s!"connection {i} reports a resumption although a configuration in use has no session cache")
        else if !Spec.Negotiate.usable c s o.client.suite then
          ("suite", s!"connection {i} resumed suite {hex4 o.client.suite}, which the configurations in use do not both enable and have keys for ({showView a.client})")
        else
          let want := Spec.Negotiate.resumedFrom o c s
          let dc := viewDiff a.client want.client
          let ds := viewDiff a.server want.server
          if dc != "" then (dc, s!"connection {i} (resumed): client reports {showView a.client}, expected {showView want.client}")
          else (if ds == "" then "view" else ds, s!"connection {i} (resumed): server reports {showView a.server}, expected {showView want.server}")
    else
      let want := Spec.Negotiate.expected c s
      let dc := viewDiff a.client want.client
      let ds := viewDiff a.server want.server
      if dc != "" then (dc, s!"connection {i}: client reports {showView a.client}, expected {showView want.client}")
      else (if ds == "" then "view" else ds, s!"connection {i}: server reports {showView a.server}, expected {showView want.server}")

/-- the spec on an observed history: the first connection that is not as prescribed -/
def judgeHistory (c0 : ClientCfg) (s0 : ServerCfg) (ot : List String) :
    Nat → Option Agreed → List Reconf → Option (String × String)
  | _, _, [] => none
  | i, origin, r :: rs =>
    match kv ot s!"h{i}" with
    | none => some ("shape", s!"connection {i} missing")
    | some tok =>
      match parseRound i tok with
      | .inl f => some f
      | .inr (obs, echo) =>
        let c := r.client c0
        let s := r.server s0
        if !Spec.Negotiate.connOK c s origin obs then some (diagnose i c s origin obs)
        else if obs.isSome && echo != "ok" then some ("echo", s!"connection {i}: application bytes were not echoed unchanged")
        else judgeHistory c0 s0 ot (i + 1) (Spec.Negotiate.nextOrigin origin obs) rs

def judgeHist (p : Params) (c : ClientCfg) (s : ServerCfg) (hist : String) (os : String) : Option Verdict := do
  let base := Reconf.of c s
  let steps ← (hist.splitOn ";").mapM (parseStep base)
  let rs := base :: steps
  let outs := runHistory p c s {} rs
  let ot := tokens os
  let secondary := ot.filter fun t => !t.startsWith "h"
  let rounds := (List.range outs.length).zipWith (fun i r => showRound (i + 1) r) outs
  let model := " ".intercalate (rounds ++ secondary)
  let nres := (outs.filter fun r => match r with | .ok a => a.client.resumed | .error _ => false).length
  let nfail := (outs.filter fun r => !isOk r).length
  pure { model := model, spec := judgeHistory c s ot 1 none rs,
         note := s!"hist:{rs.length}:resumed{nres}:failed{nfail}", trivial := false }

def judge (cs os : String) : Option Verdict := do
  let ct := tokens cs
  let p ← params (kvd ct "stack" "tlcp")
  let c ← parseClient ct
  let s ← parseServer ct
  if let some h := kv ct "hist" then
    return ← judgeHist p c s h os
  let two := c.cache || s.cache
  -- model
  let r1 := negotiate p c s
  let r2 : Option (Except Failure Agreed) :=
    match r1 with
    | .ok a => if two then some (negotiateNext p c s a) else none
    | .error _ => none
  let ot := tokens os
  let secondary := ot.filter fun t => !t.startsWith "h"
  let rounds := [showRound 1 r1] ++ (match r2 with | some r => [showRound 2 r] | none => [])
  let model := " ".intercalate (rounds ++ secondary)
  -- note: predicted failure vs reported error text
  let firstFail : Option Failure :=
    match r1, r2 with
    | .error f, _ => some f
    | _, some (.error f) => some f
    | _, _ => none
  let note := match firstFail with
    | none => ""
    | some f =>
      if secondary.any (fun t => containsSub t (failText f)) then failName f
      else s!"{failName f}:other-error-text"
  -- spec
  let h1 := kv ot "h1"
  let h2 := kv ot "h2"
  let compat := Spec.Negotiate.compatible c s
  let spec : Option (String × String) :=
    match h1 with
    | none => some ("shape", "no h1 token")
    | some t1 =>
      match judgeRound 1 c s (Spec.Negotiate.expected c s) t1 with
      | some f => some f
      | none =>
        if compat && two then
          match h2 with
          | none => some ("shape", "second handshake missing")
          | some t2 => judgeRound 2 c s (Spec.Negotiate.expectedNext c s) t2
        else none
  pure { model := model, spec := spec, note := note, trivial := false }

end Gotlcp.Oracle.C01

/-
Oracle for C10: re-computes what the model `Gotlcp.Model.Resumption` predicts for a history of
connections and evaluates the spec `Gotlcp.Spec.Resumption.check` on what the real endpoints did.

case     : `stack=tlcp|dtlcp ccap=<int> scap=<int> hist=<conn>,<conn>,...`
             conn = `<pre>/d<dst>/s<server>/<client suites>/<server suites>/<fault>[/a<policy 0..5><n|c|d>]`
                    (policy = the server's Config.ClientAuth; n|c|d = the client has no certificate /
                     certificate C / certificate D; absent = `a0n`)
             pre  = `-` | act{`+`act},  act = `j<k>` | `fg`[n] | `fn`[n] | `st<d>` | `sl`
                    (n = 1..32: length in bytes of the forged identifier, absent = 32)
             suites = hex ids joined by `.`;  fault = `ok` | `sf` | `cf`
observed : `c<i>=<c ok|fail>/<s ok|fail>/<cResumed 0|1|->/<sResumed>/<offered id>/<returned id>/<id len>/<suite>/<peer>/<master>/<fresh>/<control>/<server view>` …
           server view = `-` (server failed) | `<id>[v]:<vpc>:<vc>`: id = client certificate in the server's
           ConnectionState (`n` none), `v` = VerifiedChains non-empty, vpc / vc = what the server's
           VerifyPeerCertificate / VerifyConnection callbacks saw (`x` = not called)
           `why=<reasons>` (informational, echoed).
Identifiers and master secrets are named `n0,n1,…` / `m0,m1,…` in order of first appearance.
-/
import Gotlcp.Oracle.Common
import Gotlcp.Model.Resumption
import Gotlcp.Spec.ResumptionSpec
import Gotlcp.Generated.Facts

namespace Gotlcp.Oracle.C10
open Gotlcp.Model
open Gotlcp.Model.Resumption

/-! ### parameters from the regenerated facts -/

def indexOf? (l : List String) (x : String) : Option Nat := l.findIdx? (· == x)

/-- F16: does `createNewSession` come after `readFinished` in the extracted call order? -/
def storeAfter (order : List String) : Bool :=
  match indexOf? order "createNewSession", indexOf? order "readFinished" with
  | some a, some b => b < a
  | _, _ => false

/-- position of a policy in the ClientAuthType enumeration -/
def policyIdx (order : List String) (name : String) : Nat := (indexOf? order name).getD 0

def tlcpParams : Params :=
  { requires := Facts.tlcp.negRequiresClientCert, requestFrom := policyIdx Facts.tlcp.saPolicyOrder "RequestClientCert",
    verifyFrom := policyIdx Facts.tlcp.saPolicyOrder "VerifyClientCertIfGiven",
    strictDelete := Facts.tlcp.lruPutNilAbsentReturns, perKeyObject := Facts.tlcp.resClientPutDistinct,
    storeAfterFinished := storeAfter Facts.tlcp.resClientFullOrder, verifyOnLoad := Facts.tlcp.resLoadVerifiesCerts, prefOrder := Facts.tlcp.preferenceOrder,
    ecdhe := [Facts.tlcp.ECDHE_SM4_GCM_SM3, Facts.tlcp.ECDHE_SM4_CBC_SM3], version := Facts.tlcp.VersionTLCP }

def dtlcpParams : Params :=
  { requires := Facts.dtlcp.negRequiresClientCert, requestFrom := policyIdx Facts.dtlcp.saPolicyOrder "RequestClientCert",
    verifyFrom := policyIdx Facts.dtlcp.saPolicyOrder "VerifyClientCertIfGiven",
    strictDelete := Facts.dtlcp.lruPutNilAbsentReturns, perKeyObject := Facts.dtlcp.resClientPutDistinct,
    storeAfterFinished := storeAfter Facts.dtlcp.resClientFullOrder, verifyOnLoad := Facts.dtlcp.resLoadVerifiesCerts, prefOrder := Facts.dtlcp.preferenceOrder,
    ecdhe := [Facts.dtlcp.ECDHE_SM4_GCM_SM3, Facts.dtlcp.ECDHE_SM4_CBC_SM3], version := Facts.dtlcp.VersionTLCP }

def paramsOf (stack : String) : Option (Params × Nat × Nat) :=
  if stack == "tlcp" then some (tlcpParams, Facts.tlcp.lruDefaultCap, Facts.tlcp.resSessionIdLen)
  else if stack == "dtlcp" then some (dtlcpParams, Facts.dtlcp.lruDefaultCap, Facts.dtlcp.resSessionIdLen)
  else none

/-! ### parsing the history -/

def hexNat (s : String) : Option Nat :=
  s.toList.foldlM (fun acc c => (Hex.nib c).map (fun d => acc * 16 + d)) 0

def parseSuites (s : String) : Option (List Nat) :=
  if s == "-" then some [] else (s.splitOn ".").mapM hexNat

/-- the length suffix of a forged identifier: absent (= 32) or 1..32 -/
def forgedLenOk (s : String) : Bool :=
  s == "" || (match s.toNat? with
    | some n => 1 ≤ n && n ≤ 32
    | none => false)

/-- `fg<n>` / `fn<n>`: a forged identifier of n bytes. The model's identifiers are opaque naturals
(the server neither reads nor constrains the offered identifier except as a cache key — pinned by
`C10_facts_opaque_id`), so the length is not an input of the prediction: every legal length is the
same `Pre.forge`. -/
def parsePre (s : String) : Option Pre :=
  if s.startsWith "fg" && forgedLenOk (String.ofList (s.toList.drop 2)) then some (.forge true)
  else if s.startsWith "fn" && forgedLenOk (String.ofList (s.toList.drop 2)) then some (.forge false)
  -- "sn": the server's cache is lost and replaced by an empty foreign implementation that reports a miss as
  -- (nil, true); a server must treat that answer as a miss (F65), so for the model it is the same action
  else if s == "sl" || s == "sn" then some .dropServer
  else if s.startsWith "st" then (String.ofList (s.toList.drop 2)).toNat?.map Pre.stale
  else if s.startsWith "j" then (String.ofList (s.toList.drop 1)).toNat?.map Pre.junk
  else none

def parsePres (s : String) : Option (List Pre) :=
  if s == "-" then some [] else (s.splitOn "+").mapM parsePre

def parseFault (s : String) : Option Fault :=
  if s == "ok" then some .none else if s == "sf" then some .serverFin else if s == "cf" then some .clientFin else none

def dropPrefix (s : String) (n : Nat) : String := String.ofList (s.toList.drop n)

/-- `a<policy><n|c|d>` -/
def parseAuth (s : String) : Option (Nat × Option Nat) :=
  match s.toList with
  | ['a', d, c] => do
    let a ← (String.ofList [d]).toNat?
    let cc ← if c == 'n' then some none else if c == 'c' then some (some 0) else if c == 'd' then some (some 1) else none
    if a ≤ 5 then pure (a, cc) else none
  | _ => none

def parseConn (s : String) : Option Conn :=
  let mk (pre d sv cs ss f : String) (au : Nat × Option Nat) : Option Conn := do
    let pre ← parsePres pre
    let d ← (dropPrefix d 1).toNat?
    let sv ← (dropPrefix sv 1).toNat?
    let cs ← parseSuites cs
    let ss ← parseSuites ss
    let f ← parseFault f
    pure { pre := pre, dst := d, server := sv, csuites := cs, ssuites := ss, fault := f, auth := au.1, ccert := au.2 }
  match s.splitOn "/" with
  | [pre, d, sv, cs, ss, f] => mk pre d sv cs ss f (0, none)
  | [pre, d, sv, cs, ss, f, a] => (parseAuth a).bind (mk pre d sv cs ss f)
  | _ => none

def parseHist (s : String) : Option (List Conn) := (s.splitOn ",").mapM parseConn

def parseInt (s : String) : Option Int :=
  if s.startsWith "-" then (dropPrefix s 1).toNat?.map (fun n => -(n : Int)) else s.toNat?.map Int.ofNat

/-! ### rendering the model's prediction -/

def hex4 (n : Nat) : String :=
  String.ofList [Hex.digit (n / 4096 % 16), Hex.digit (n / 256 % 16), Hex.digit (n / 16 % 16), Hex.digit (n % 16)]

def okStr (b : Bool) : String := if b then "ok" else "fail"
def b01 (b : Bool) : String := if b then "1" else "0"

/-- canonical names in order of first appearance -/
def nameOf (pre : String) (seen : List Nat) (x : Nat) : List Nat × String :=
  match seen.findIdx? (· == x) with
  | some i => (seen, s!"{pre}{i}")
  | none => (seen ++ [x], s!"{pre}{seen.length}")

def nameOpt (pre : String) (seen : List Nat) : Option Nat → List Nat × String
  | none => (seen, "-")
  | some x => nameOf pre seen x

def identName : Option Nat → String
  | some 0 => "A"
  | some 1 => "B"
  | some _ => "?"
  | none => "-"

/-- names of the client certificates -/
def certName : Option Nat → String
  | none => "n"
  | some 0 => "C"
  | some 1 => "D"
  | some _ => "?"

def cbName : Option (Option Nat) → String
  | none => "x"
  | some x => certName x

structure RenderSt where
  ids  : List Nat := []
  mss  : List Nat := []
  keys : List (Nat × Nat × Nat) := []

def renderOne (idLen : Nat) (st : RenderSt) (o : Obs) : RenderSt × String :=
  let (ids, off) := nameOpt "n" st.ids o.offered
  let (ids, ret) := nameOpt "n" ids o.returned
  let len := if o.returned.isSome then toString idLen else "-"
  let suite := match o.suite with
    | some s => if o.cOk || o.sOk then hex4 s else "-"
    | none => "-"
  let (mss, ms) := if o.cOk then nameOpt "m" st.mss o.ms else (st.mss, "-")
  let key := (o.ms.getD 0, o.rnd.1, o.rnd.2)
  let fresh := if o.cOk then b01 (!st.keys.contains key) else "-"
  let keys := if o.cOk then key :: st.keys else st.keys
  let ctl := match o.full with
    | some s => s!"ok:{hex4 s}"
    | none => "fail"
  let sview := if o.sOk then s!"{certName o.speer}{if o.sver then "v" else ""}:{cbName o.vpc}:{cbName o.vc}" else "-"
  let fields := [okStr o.cOk, okStr o.sOk, if o.cOk then b01 o.cRes else "-", if o.sOk then b01 o.sRes else "-",
    off, ret, len, suite, if o.cOk then identName o.peer else "-", ms, fresh, ctl, sview]
  ({ ids := ids, mss := mss, keys := keys }, "/".intercalate fields)

def renderAll (idLen : Nat) : RenderSt → Nat → List Obs → List String
  | _, _, [] => []
  | st, i, o :: os =>
    let (st', s) := renderOne idLen st o
    s!"c{i}={s}" :: renderAll idLen st' (i + 1) os

/-! ### the observation, for the spec -/

def optTok (s : String) : Option String := if s == "-" then none else some s

def parseSeen (s : String) : Option Spec.Resumption.Seen :=
  match s.splitOn "/" with
  | [c, sv, cr, sr, off, ret, len, suite, peer, ms, fresh, ctl, sview] =>
    let flag (x : String) : Option Bool := if x == "1" then some true else if x == "0" then some false else none
    -- the client identity in the server's ConnectionState: the first part of the server view without the `v` mark
    let speer : Option String := if sview == "-" then none else
      match sview.splitOn ":" with
      | id :: _ => some (String.ofList (id.toList.filter (· != 'v')))
      | [] => none
    some { cOk := c == "ok", sOk := sv == "ok", cRes := flag cr, sRes := flag sr, off := optTok off, ret := optTok ret,
           retLen := len.toNat?, suite := (optTok suite).bind hexNat, peer := optTok peer, ms := optTok ms,
           fresh := flag fresh,
           ctl := match ctl.splitOn ":" with
             | ["ok", su] => hexNat su
             | _ => none,
           speer := speer }
  | _ => none

def descOf (c : Conn) : Spec.Resumption.Desc :=
  { dst := c.dst, server := c.server, csuites := c.csuites, ssuites := c.ssuites,
    mitm := c.fault != .none,
    serverLost := c.pre.contains .dropServer,
    staleCopy := c.pre.any (fun a => match a with | .stale _ => true | _ => false),
    auth := c.auth, ccert := c.ccert.map (fun x => certName (some x)) }

def collectSeen (ot : List String) : Nat → Nat → Option (List Spec.Resumption.Seen)
  | 0, _ => some []
  | n + 1, i => do
    let tok ← kv ot s!"c{i}"
    let s ← parseSeen tok
    let rest ← collectSeen ot n (i + 1)
    pure (s :: rest)

def judge (c o : String) : Option Verdict := do
  let ct := tokens c
  let stack ← kv ct "stack"
  let (p, dcap, idLen) ← paramsOf stack
  let ccap ← (kv ct "ccap").bind parseInt
  let scap ← (kv ct "scap").bind parseInt
  let hist ← (kv ct "hist").bind parseHist
  let (_, obs) := run p id (init dcap ccap scap) hist
  let ot := tokens o
  let whyTok := (kv ot "why").getD "-"
  let model := " ".intercalate (renderAll idLen {} 0 obs) ++ s!" why={whyTok}"
  let spec : Option (String × String) :=
    match collectSeen ot hist.length 0 with
    | some seen => Spec.Resumption.check ((hist.map descOf).zip seen)
    | none => some ("shape", "unparseable observation")
  let resumedSome := obs.any (fun x => x.cOk && x.cRes)
  pure { model := model, spec := spec, trivial := hist.length < 2 && !resumedSome }

end Gotlcp.Oracle.C10

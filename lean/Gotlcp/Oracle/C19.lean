/-
Oracle for C19: re-runs the model (`Gotlcp.Model.Flights`) on the case and evaluates the spec
(`Gotlcp.Spec.Flights.judge`) on what the REAL client and server did under the virtual-time network.

case     : mode=full|resume suite=.. auth=.. init=<ms> max=<ms> tie=c|s faults=<c|s><idx>:<drop|dup|swap>,..|-
observed : c=<ok|err|hang> s=<..> ct=<ms|-> st=<ms|-> cto=<n> sto=<n> cs=<n> ss=<n> echo=<b><b>
           agree=<1|0|-> resumed=<1|0|-> early=<0|1> hits=<c|s>.<kind>@<label>,..|- detail=<free>
`detail` (error classes) is not constrained by the property: it is copied from the observation.
Times are in milliseconds on both sides; the horizon is 6·max as in the driver.
-/
import Gotlcp.Oracle.Common
import Gotlcp.Model.Flights
import Gotlcp.Spec.FlightsSpec
import Gotlcp.Generated.Facts

namespace Gotlcp.Oracle.C19
open Gotlcp.Model.Flights

/-- the code-dependent parameters of the model, from the regenerated facts -/
def paramsOfFacts (init max : Nat) (resume auth : Bool) : Params :=
  { init := init, max := max, resume := resume, auth := auth,
    law := ⟨Facts.dtlcp.flBackoffMul, Facts.dtlcp.flBackoffCapsAtMax⟩,
    helloLaw := ⟨Facts.dtlcp.flHelloWaitMul, Facts.dtlcp.flHelloWaitCapsAtMax⟩,
    cookieBreakLeaves := Facts.dtlcp.flCookieBreakLeavesLoop,
    dupHvrBreakLeaves := Facts.dtlcp.flDupHvrBreakLeavesLoop,
    dropBadAfterHandshake := Facts.dtlcp.flDecryptFailDropsAfterHandshake,
    firstRecordOnlyEmptyHand := Facts.dtlcp.flFirstRecordCheckNeedsEmptyHand,
    appNeedsComplete := Facts.dtlcp.flAppDataNeedsComplete,
    serverResumeArmsTimer := Facts.dtlcp.flServerResumeArmsTimer }

def parseKind (s : String) : Option FK :=
  if s == "drop" then some .drop else if s == "dup" then some .dup else if s == "swap" then some .swap else none

def parseFault (s : String) : Option Fault :=
  match s.splitOn ":" with
  | [a, k] =>
    match a.toList with
    | d :: ds => do
      let idx ← (String.ofList ds).toNat?
      let kind ← parseKind k
      if d == 'c' then some ⟨true, idx, kind⟩ else if d == 's' then some ⟨false, idx, kind⟩ else none
    | [] => none
  | _ => none

def parseFaults (s : String) : Option (List Fault) :=
  if s == "-" then some [] else (s.splitOn ",").mapM parseFault

def showOutcome : Outcome → String
  | .ok => "ok" | .err => "err" | .hang => "hang"

def showTime : Option Nat → String
  | some t => toString t
  | none => "-"

def b01 (b : Bool) : String := if b then "1" else "0"

def showKind : FK → String
  | .drop => "drop" | .dup => "dup" | .swap => "swap"

def showLabel : Label → String
  | .ch0 => "ch0" | .ch1 => "ch1" | .hvr => "hvr" | .f4 => "f4" | .rsf => "rsf" | .f5a => "f5a"
  | .fin => "fin" | .alert => "alert" | .app => "app" | .other => "other"

def showHits (hs : List Hit) : String :=
  if hs.isEmpty then "-" else
  ",".intercalate (hs.map fun h => s!"{if h.fromClient then "c" else "s"}.{showKind h.kind}@{showLabel h.what}")

def render (n : Net) (detail : String) : String :=
  let both := n.c.complete && n.s.complete
  let agree := if both then b01 (n.c.tag == n.s.tag && n.c.resumed == n.s.resumed) else "-"
  let resumed := if both then b01 n.c.resumed else "-"
  let early := (n.c.delivered > 0 && !n.c.complete) || (n.s.delivered > 0 && !n.s.complete)
  s!"c={showOutcome (outcome n.c)} s={showOutcome (outcome n.s)} ct={showTime n.c.hsAt} st={showTime n.s.hsAt} " ++
  s!"cto={n.c.timeouts} sto={n.s.timeouts} cs={n.sentC} ss={n.sentS} echo={b01 (n.c.delivered > 0)}{b01 (n.s.delivered > 0)} " ++
  s!"agree={agree} resumed={resumed} early={b01 early} hits={showHits n.hits} detail={detail}"

def parseOptNat (s : String) : Option (Option Nat) :=
  if s == "-" then some none else s.toNat?.map some

def parseObs (ot : List String) : Option Spec.Flights.Obs := do
  let c ← kv ot "c"
  let s ← kv ot "s"
  let ct ← (kv ot "ct").bind parseOptNat
  let st ← (kv ot "st").bind parseOptNat
  let cto ← kvNat ot "cto"
  let sto ← kvNat ot "sto"
  let echo ← kv ot "echo"
  let agree ← kv ot "agree"
  let early ← kv ot "early"
  let (ec, es) ← match echo.toList with
    | [a, b] => some (a == '1', b == '1')
    | _ => none
  pure { cOk := c == "ok", sOk := s == "ok", ct := ct, st := st, cto := cto, sto := sto, echoC := ec, echoS := es,
         agree := if agree == "1" then some true else if agree == "0" then some false else none,
         early := early == "1" }

def judge (c o : String) : Option Verdict := do
  let ct := tokens c
  let mode ← kv ct "mode"
  let init ← kvNat ct "init"
  let max ← kvNat ct "max"
  let tie ← kv ct "tie"
  let faults ← (kv ct "faults").bind parseFaults
  if mode != "full" && mode != "resume" then none
  let auth ← kvNat ct "auth"
  let p := paramsOfFacts init max (mode == "resume") (auth == 1)
  let n := run p faults (tie == "c") (6 * max)
  let ot := tokens o
  let detail := (kv ot "detail").getD "-"
  let spec : Option (String × String) :=
    match parseObs ot with
    | some obs => Spec.Flights.judge init max faults.length obs
    | none => some ("shape", "unparseable observation")
  -- a case whose faults hit nothing (index beyond the run, or an application datagram) repeats the fault-free run
  let trivial := !faults.isEmpty && n.hits.isEmpty
  pure { model := render n detail, spec := spec, trivial := trivial }

end Gotlcp.Oracle.C19

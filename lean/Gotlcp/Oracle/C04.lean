/-
Oracle for C04.  For every case line it
  * re-computes what the *model* (`Model.KeySchedule`, the transcription of the Go code,
    parameterised by the regenerated facts) predicts, in the observation syntax, and
  * judges the observation with the *spec* (`Spec.KeySchedule`, written from GB/T 38636 with the
    Lean-native SM3 / SM4 / GCM): the implementation's bytes must be what the standard derives.

Layer 1 cases (phase `prim`; `stack=tlcp|dtlcp`, byte strings in hex, `-` = empty):
  op=phash  secret seed n                        => out
  op=prf    suite secret label seed n            => out
  op=master suite pre cr sr                      => out
  op=keys   suite master cr sr                   => cmac smac ckey skey civ siv
  op=fin    suite master transcript              => client server
  op=enc    suite key iv mac epoch seq typ ver payload rand rchunk  => rec | panic
  op=write  suite key iv mac epoch seq typ payload rand maxp rchunk => wire nepoch nseq | panic
            (rand = the bytes the random source hands out, at most rchunk per Read when rchunk > 0)
  op=dec    suite key iv mac seq rec             => out=ok:<typ>:<hex> | out=alert:<n>
Layer 2 cases (phase `hs`) are judged by `Oracle.C04HS`.
-/
import Gotlcp.Oracle.Common
import Gotlcp.Model.KeyScheduleSrc
import Gotlcp.Spec.KeySchedule

namespace Gotlcp.Oracle.C04
open Gotlcp.Crypto

abbrev MStack := Model.KeySchedule.Stack
abbrev SStack := Spec.KeySchedule.Stack

def parseStack (s : String) : Option (MStack × SStack) :=
  if s == "tlcp" then some (.tlcp, .tlcp) else if s == "dtlcp" then some (.dtlcp, .dtlcp) else none

def hex (b : Bytes) : String := Hex.encode b

/-- first index at which two byte strings differ -/
def firstDiff (a b : Bytes) : Nat :=
  let rec go : Bytes → Bytes → Nat → Nat
    | x :: xs, y :: ys, i => if x == y then go xs ys (i+1) else i
    | _, _, i => i
  go a b 0

def chunks16 (l : Bytes) : List Bytes :=
  let rec go : Nat → Bytes → List Bytes
    | 0, _ => []
    | n+1, l => if l.isEmpty then [] else l.take 16 :: go n (l.drop 16)
  go (l.length / 16 + 1) l

structure Suite where
  id : Nat
  keyLen : Nat
  macLen : Nat
  ivLen : Nat
  isAEAD : Bool

/-- the suite as the *source* describes it (extracted table) -/
def modelSuite (st : MStack) (id : Nat) : Option Suite :=
  (Model.KeySchedule.suiteRow st id).map fun (k, m, i, a) => ⟨id, k, m, i, a⟩

def mkCipher (s : Suite) (key iv mac : Bytes) : Model.KeySchedule.Cipher :=
  if s.isAEAD then .aead ⟨[], key, iv⟩ else .cbc ⟨mac, key, iv⟩

def showOutcome {α} (f : α → String) : Model.KeySchedule.Outcome α → String
  | .ok a => f a
  | .alert n => s!"err=alert{n}"
  | .panic => "panic=tlcp:_sequence_number_wraparound"

/-! ### spec judgements -/

/-- explain a key-schedule mismatch by trying the classic symmetric mistakes -/
def diagnosePRF (obs : Bytes) (secret : Bytes) (n : Nat) (want : Bytes × Bytes)
    (alts : List (String × Bytes × Bytes)) : String :=
  let hit := alts.find? fun (_, l, s) => PRF.prfSM3 secret l s n == obs
  match hit with
  | some (nm, _, _) => nm
  | none => s!"first differing byte {firstDiff obs (PRF.prfSM3 secret want.1 want.2 n)}"

open Spec.KeySchedule in
def specMaster (pre cr sr obs : Bytes) : Option (String × String) :=
  let want := masterSecret sm pre cr sr
  if obs == want then none else
  some ("master", "master secret is not PRF(pre,'master secret',client_random+server_random)[0..48]: " ++
    diagnosePRF obs pre masterLen (labelMaster, cr ++ sr)
      [("seed order is server_random+client_random", labelMaster, sr ++ cr),
       ("label is 'key expansion'", labelKeyExpansion, cr ++ sr),
       ("label is 'client finished'", labelClientFinished, cr ++ sr),
       ("label is 'server finished'", labelServerFinished, cr ++ sr)])

open Spec.KeySchedule in
def specKeys (id : Nat) (master cr sr : Bytes) (obs : List (String × Bytes)) : Option (String × String) :=
  match suite id with
  | none => some ("keyblock", s!"suite {id} is not a GB/T 38636 SM2 suite")
  | some sp =>
    let kb := keyBlock sm sp master cr sr
    let want : List (String × Bytes) :=
      [("cmac", kb.clientMAC), ("smac", kb.serverMAC), ("ckey", kb.clientKey), ("skey", kb.serverKey),
       ("civ", kb.clientIV), ("siv", kb.serverIV)]
    match want.find? (fun (nm, v) => (obs.find? (·.1 == nm)).map (·.2) != some v) with
    | none => none
    | some (nm, v) =>
      let got := ((obs.find? (·.1 == nm)).map (·.2)).getD []
      -- which mistake explains it?
      let whole := prf sm master labelKeyExpansion (sr ++ cr) (keyBlockLen sp)
      let swapped := cut sp (prf sm master labelKeyExpansion (cr ++ sr) (keyBlockLen sp))
      let why :=
        if got.length != v.length then s!"length {got.length}, expected {v.length}"
        else if (writeKeys swapped .client).mac == ((obs.find? (·.1 == "cmac")).map (·.2)).getD [] &&
                (writeKeys swapped .client).key == ((obs.find? (·.1 == "ckey")).map (·.2)).getD [] then
          "seed order is client_random+server_random"
        else if want.any (fun (nm2, v2) => nm2 != nm && v2 == got && !got.isEmpty) then
          s!"it is the standard's {((want.find? (fun (nm2, v2) => nm2 != nm && v2 == got)).map (·.1)).getD "?"} slice (cut in another order)"
        else if (List.range whole.length).any (fun off => (whole.drop off).take got.length == got && !got.isEmpty) then
          "taken from another offset of the key block"
        else "not a slice of PRF(master,'key expansion',server_random+client_random)"
      some ("keyblock", s!"slice {nm} differs from the standard's key block partition: {why}")

open Spec.KeySchedule in
def specFinished (master transcript client server : Bytes) : Option (String × String) :=
  let wc := verifyData sm master .client transcript
  let ws := verifyData sm master .server transcript
  if client == wc && server == ws then none
  else if client == ws && server == wc then some ("finished", "client and server finished labels are exchanged")
  else if client != wc then some ("finished", "client verify_data is not PRF(master,'client finished',SM3(transcript))[0..12]")
  else some ("finished", "server verify_data is not PRF(master,'server finished',SM3(transcript))[0..12]")

def specMode (id : Nat) : Option Spec.KeySchedule.Mode := (Spec.KeySchedule.suite id).map (·.mode)

/-- One protected record, judged against the standard: header fields, opens to `content`
under (typ, ver, epoch, seq), and is byte-identical to the standard's sealing with the same
explicit IV / nonce. Returns the failure or, on success, the explicit part and a note. -/
def specRecord (m : Spec.KeySchedule.Mode) (k : Spec.KeySchedule.DirKeys) (st : SStack)
    (typ ver epoch seq : Nat) (content : Bytes) (p : Spec.KeySchedule.Parsed) (raw : Bytes) :
    Except (String × String) (Bytes × String) :=
  open Spec.KeySchedule in
  if p.typ != typ then .error ("record-header", s!"type {p.typ} on the wire, {typ} written") else
  if p.ver != ver then .error ("record-header", s!"version {p.ver} on the wire, {ver} negotiated") else
  if st == .dtlcp && (p.epoch != epoch || p.seq != seq % 2^48) then
    .error ("record-header", s!"epoch/seq {p.epoch}/{p.seq} on the wire, {epoch}/{seq} expected") else
  match openBody sm m k st typ ver epoch seq p.body with
  | .error e =>
    -- which authenticated field was left out / altered?
    let tries : List (String × Except String Bytes) :=
      [("the sequence number is not the expected one (opens with seq+1)", openBody sm m k st typ ver epoch (seq+1) p.body),
       ("the sequence number is not the expected one (opens with seq-1)", openBody sm m k st typ ver epoch (seq-1) p.body),
       ("the sequence number is not authenticated (opens with seq 0)", openBody sm m k st typ ver epoch 0 p.body),
       ("the epoch is not authenticated (opens with epoch 0)", openBody sm m k st typ ver 0 seq p.body),
       ("the type is not authenticated (opens as type 0)", openBody sm m k st 0 ver epoch seq p.body),
       ("the version is not authenticated (opens as version 0)", openBody sm m k st typ 0 epoch seq p.body)]
    let why := match tries.find? (fun t => match t.2 with | .ok _ => true | .error _ => false) with
      | some (w, _) => w
      | none => "no single-field variation of seq_num+type+version+length opens it"
    .error ("record-open", s!"record (seq {seq}, type {typ}) does not open under this direction's key: {e} check failed; {why}")
  | .ok got =>
    if got != content then .error ("record-open", s!"record opens to {got.length} bytes that differ from the {content.length} bytes written") else
    let ex := explicitPart m p.body
    let again := sealRecord sm m k st typ ver epoch seq ex content
    if again != raw then
      .error ("record-bytes", s!"record differs from the standard's sealing with the same explicit part at byte {firstDiff again raw}")
    else
      let note := match m with
        | .gcm => if ex == seqNum st epoch seq then "gcm-explicit-nonce=seq" else "gcm-explicit-nonce=other"
        | .cbc => "cbc-explicit-iv"
      .ok (ex, note)

/-- all records of a wire image written from `content` starting at (`epoch`, `seq`) -/
def specWire (m : Spec.KeySchedule.Mode) (k : Spec.KeySchedule.DirKeys) (st : SStack) (typ ver epoch : Nat) :
    Nat → Nat → Bytes → Bytes → List Bytes → Except (String × String) (List Bytes × String)
  | 0, _, _, _, seen => .ok (seen, "")
  | fuel+1, seq, wire, content, seen =>
    if wire.isEmpty then
      if content.isEmpty then .ok (seen, "") else .error ("record-open", s!"{content.length} bytes written are missing from the wire")
    else
    match Spec.KeySchedule.parse st wire with
    | none => .error ("record-header", "wire bytes do not parse as a record")
    | some (p, rest) =>
      let raw := wire.take (wire.length - rest.length)
      -- the record's own content length is found by opening it; compare with the next bytes written
      match Spec.KeySchedule.openBody sm m k st typ ver epoch seq p.body with
      | .error _ =>
        (specRecord m k st typ ver epoch seq content p raw).bind fun _ => .ok (seen, "")
      | .ok got =>
        match specRecord m k st typ ver epoch seq (content.take got.length) p raw with
        | .error e => .error e
        | .ok (ex, note) =>
          if seen.contains ex then .error ("nonce-reuse", s!"explicit IV/nonce {hex ex} used twice under one key") else
          match specWire m k st typ ver epoch fuel (seq+1) rest (content.drop got.length) (ex :: seen) with
          | .error e => .error e
          | .ok (s, n) => .ok (s, if n.isEmpty then note else n)

/-! ### the cases -/

def judgePrim (ct ot : List String) : Option Verdict := do
  let op ← kv ct "op"
  let (mst, sst) ← (kv ct "stack").bind parseStack
  let S := Model.KeySchedule.srcOf mst
  if op == "phash" then
    let secret ← kvHex ct "secret"
    let seed ← kvHex ct "seed"
    let n ← kvNat ct "n"
    let model := Model.KeySchedule.pHash sm.hmac secret seed n
    let want := PRF.pHash HMAC.sm3 32 secret seed n
    let spec := match kvHex ot "out" with
      | some o => if o == want then none else some ("phash", s!"P_SM3 output differs at byte {firstDiff o want} of {n}")
      | none => some ("shape", "no out=")
    return { model := s!"out={hex model}", spec := spec, trivial := n == 0 }
  if op == "prf" then
    let secret ← kvHex ct "secret"
    let label ← kvHex ct "label"
    let seed ← kvHex ct "seed"
    let n ← kvNat ct "n"
    let model := Model.KeySchedule.prf12 sm.hmac secret label seed n
    let want := PRF.prfSM3 secret label seed n
    let spec := match kvHex ot "out" with
      | some o => if o == want then none else some ("prf", s!"PRF output differs at byte {firstDiff o want} of {n}")
      | none => some ("shape", "no out=")
    return { model := s!"out={hex model}", spec := spec, trivial := n == 0 }
  if op == "master" then
    let pre ← kvHex ct "pre"
    let cr ← kvHex ct "cr"
    let sr ← kvHex ct "sr"
    let model := Model.KeySchedule.masterFromPreMasterSecret sm S pre cr sr
    let spec := match kvHex ot "out" with
      | some o => specMaster pre cr sr o
      | none => some ("shape", "no out=")
    return { model := s!"out={hex model}", spec := spec }
  if op == "keys" then
    let id ← kvNat ct "suite"
    let su ← modelSuite mst id
    let master ← kvHex ct "master"
    let cr ← kvHex ct "cr"
    let sr ← kvHex ct "sr"
    let sl := Model.KeySchedule.keysFromMasterSecret sm S master cr sr su.macLen su.keyLen su.ivLen
    let g (nm : String) := hex (Model.KeySchedule.lookup sl nm)
    let model := s!"cmac={g "clientMAC"} smac={g "serverMAC"} ckey={g "clientKey"} skey={g "serverKey"} civ={g "clientIV"} siv={g "serverIV"}"
    let obs := ["cmac", "smac", "ckey", "skey", "civ", "siv"].filterMap fun nm => (kvHex ot nm).map (nm, ·)
    let spec := if obs.length != 6 then some ("shape", "missing slices") else specKeys id master cr sr obs
    return { model := model, spec := spec }
  if op == "fin" then
    let master ← kvHex ct "master"
    let tr ← kvHex ct "transcript"
    let mc := Model.KeySchedule.clientSum sm S master tr
    let ms := Model.KeySchedule.serverSum sm S master tr
    let spec := match kvHex ot "client", kvHex ot "server" with
      | some c, some s => specFinished master tr c s
      | _, _ => some ("shape", "missing client=/server=")
    return { model := s!"client={hex mc} server={hex ms}", spec := spec }
  -- record layer
  let id ← kvNat ct "suite"
  let su ← modelSuite mst id
  let key ← kvHex ct "key"
  let iv ← kvHex ct "iv"
  let mac ← kvHex ct "mac"
  let seq ← kvNat ct "seq"
  let epoch := (kvNat ct "epoch").getD 0
  let ciph := mkCipher su key iv mac
  let sk : Spec.KeySchedule.DirKeys := ⟨mac, key, iv⟩
  let mseq : Bytes := match mst with
    | .tlcp => be 8 seq
    | .dtlcp => be 2 epoch ++ be 6 seq
  if op == "enc" then
    let typ ← kvNat ct "typ"
    let ver ← kvNat ct "ver"
    let payload ← kvHex ct "payload"
    let rand ← kvHex ct "rand"
    let half : Model.KeySchedule.Half := ⟨some ciph, none, mseq⟩
    let w : Model.KeySchedule.WriteSide := ⟨half, epoch, seq⟩
    let hdr := Model.KeySchedule.buildHeader mst w typ ver payload.length
    let model := showOutcome (fun (r : Bytes × Model.KeySchedule.Half) => s!"rec={hex r.1}")
      (Model.KeySchedule.encrypt sm S mst half hdr payload rand)
    let spec : Option (String × String) × String :=
      match specMode id, kvHex ot "rec" with
      | some m, some rec =>
        match Spec.KeySchedule.parse sst rec with
        | some (p, []) =>
          match specRecord m sk sst typ ver epoch seq payload p rec with
          | .error e => (some e, "")
          | .ok (ex, note) =>
            -- the driver controls the random source: a CBC explicit IV must be the bytes it produced
            if m == .cbc && ex != rand.take 16 then
              (some ("iv-not-rng", s!"explicit IV {hex ex} is not the 16 bytes the random source produced ({hex (rand.take 16)}); first stale byte at {firstDiff ex (rand.take 16)}"), "")
            else (none, note)
        | _ => (some ("record-header", "output does not parse as exactly one record"), "")
      | none, _ => (some ("record-open", s!"suite {id} is not a GB/T 38636 SM2 suite"), "")
      | _, none => (if (kv ot "panic").isSome && mst == .tlcp && seq + 1 ≥ 2^64 then none
                    else some ("shape", "no rec="), "refuses-to-wrap")
    return { model := model, spec := spec.1, note := spec.2 }
  if op == "write" then
    let typ ← kvNat ct "typ"
    let payload ← kvHex ct "payload"
    let rand ← kvHex ct "rand"
    let maxp ← kvNat ct "maxp"
    let ver := 0x0101
    let half : Model.KeySchedule.Half := ⟨some ciph, none, mseq⟩
    let w : Model.KeySchedule.WriteSide := ⟨half, epoch, seq⟩
    let model := showOutcome
      (fun (r : Bytes × Model.KeySchedule.WriteSide) =>
        let nseq := match mst with | .tlcp => fromBE r.2.out.seq | .dtlcp => r.2.writeSeq
        s!"wire={hex r.1} nepoch={r.2.writeEpoch} nseq={nseq}")
      (Model.KeySchedule.writeRecordLocked sm S mst w typ ver maxp payload (chunks16 rand))
    let spec : Option (String × String) × String :=
      match specMode id, kvHex ot "wire" with
      | some m, some wire =>
        match specWire m sk sst typ ver epoch (payload.length + 2) seq wire payload [] with
        | .error e => (some e, "")
        | .ok (seen, note) =>
          -- the counters afterwards: one step per record, no reset (the type is never CCS here)
          match kvNat ot "nseq", kvNat ot "nepoch" with
          | some ns, some ne =>
            if ns != seq + seen.length || ne != epoch then
              (some ("seq-state", s!"after {seen.length} records the counters are epoch {ne} seq {ns}, expected {epoch}/{seq + seen.length}"), "")
            else
              let ivs := seen.reverse
              let want := (chunks16 rand).take ivs.length
              if m == .cbc && ivs != want then
                let i := ((List.range ivs.length).find? (fun i => ivs.getD i [] != want.getD i [])).getD 0
                (some ("iv-not-rng", s!"explicit IV of record {i} ({hex (ivs.getD i [])}) is not the 16 bytes the random source produced for it ({hex (want.getD i [])})"), "")
              else (none, note)
          | _, _ => (some ("shape", "missing nseq/nepoch"), "")
      | none, _ => (some ("record-open", s!"suite {id} is not a GB/T 38636 SM2 suite"), "")
      | _, none =>
        -- the stream stack refuses to let the implicit sequence number wrap (it panics after sealing the record
        -- numbered 2^64-1): legitimate exactly when this write needs a sequence number beyond that
        let nrec := if maxp == 0 then 1 else max 1 ((payload.length + maxp - 1) / maxp)
        (if (kv ot "panic").isSome && mst == .tlcp && seq + nrec ≥ 2^64 then none
         else some ("shape", "no wire="), "refuses-to-wrap")
    return { model := model, spec := spec.1, note := spec.2 }
  if op == "dec" then
    let rec ← kvHex ct "rec"
    let half : Model.KeySchedule.Half := ⟨some ciph, none, match mst with
      | .tlcp => mseq
      | .dtlcp => (rec.drop 3).take 8⟩
    let model := match Model.KeySchedule.decrypt sm S mst half rec with
      | .ok (pt, _) => s!"out=ok:{rec.headD 0}:{hex pt}"
      | .alert n => s!"out=alert:{n}"
      | .panic => "panic=tlcp:_sequence_number_wraparound"
    -- the standard's verdict on this record
    let want : Option (Nat × Bytes) := do
      let m ← specMode id
      let (p, rest) ← Spec.KeySchedule.parse sst rec
      if !rest.isEmpty then none
      match Spec.KeySchedule.openBody sm m sk sst p.typ p.ver p.epoch (if sst == .tlcp then seq else p.seq) p.body with
      | .ok c => some (p.typ, c)
      | .error _ => none
    let obs := (kv ot "out").getD ""
    let spec : Option (String × String) :=
      match want with
      | some (t, c) =>
        if obs == s!"ok:{t}:{hex c}" then none
        else if obs.startsWith "ok:" then some ("dec-wrong", "a valid record was opened to different bytes")
        else some ("dec-reject", s!"a record that is valid under the standard (type {t}, {c.length} bytes, seq {seq}) was refused: {obs}")
      | none =>
        if obs.startsWith "ok:" then some ("dec-accept", "a record that does not authenticate under the standard (wrong seq/epoch/type/version/length or forged) was accepted")
        else none
    return { model := model, spec := spec, note := if want.isSome then "valid" else "invalid" }
  none

/-- `oracle_c04 seal`: the Lean side as a *sender*. One request per line
(`stack suite key iv mac epoch seq typ ver nonce payload [tail]`), one sealed record (hex) per answer.
The Go driver feeds these records to the real `decrypt`. -/
def sealLine (line : String) : String :=
  let t := tokens line
  let r : Option String := do
    let (_, sst) ← (kv t "stack").bind parseStack
    let m ← (kvNat t "suite").bind specMode
    let key ← kvHex t "key"
    let iv ← kvHex t "iv"
    let mac ← kvHex t "mac"
    let typ ← kvNat t "typ"
    let ver ← kvNat t "ver"
    let epoch ← kvNat t "epoch"
    let seq ← kvNat t "seq"
    let nonce ← kvHex t "nonce"
    let payload ← kvHex t "payload"
    -- `tail=`: the bytes after content ‖ MAC of a CBC record, verbatim (long legal padding, or a
    -- damaged one); without it the minimal padding of the standard
    match m, kvHex t "tail" with
    | .cbc, some tail =>
      if (payload.length + sm.hLen + tail.length) % 16 != 0 then none
      else pure (hex (Spec.KeySchedule.sealCBCTail sm ⟨mac, key, iv⟩ sst typ ver epoch seq nonce payload tail))
    | _, _ => pure (hex (Spec.KeySchedule.sealRecord sm m ⟨mac, key, iv⟩ sst typ ver epoch seq nonce payload))
  r.getD "BAD"

partial def sealService : IO Unit := do
  let stdin ← IO.getStdin
  let stdout ← IO.getStdout
  let rec loop : IO Unit := do
    let line ← stdin.getLine
    if line.isEmpty then return ()
    stdout.putStrLn (sealLine (stripEol line))
    stdout.flush
    loop
  loop

end Gotlcp.Oracle.C04

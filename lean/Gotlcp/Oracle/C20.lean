/-
Oracle for C20: re-computes the model's prediction (`Gotlcp.Model.PA` over the regenerated
facts) and evaluates the spec (`Gotlcp.Spec.PA`) on what the real `pa` code did.

phase `route` (hooked: `detect` + `ProtocolDetectConn.Read` driven directly)
  case     : `ph=route cfg=dual|tlcp|tls ev=<e>,<e>,..|- tries=<k> bufs=<n>,<n>,..|-`
               e = `D<hex>` (one transport chunk) | `T` (one read that times out); end = EOF
  observed : `att=<r>,<r>,..|- ver=<major minor hex> reads=<hex>/<ok|eof|timeout>,..|-`
               r = tlcp | tls | unsupported | config | eof | unexpected_eof | timeout | panic
phase `pub` (no hooks: `Read` / `Write` of the PUBLIC object `Accept` returned, scripted transport)
  case     : `ph=pub cfg=.. ev=.. ops=<R|W>,<R|W>,..|-`
  observed : `att=<r>,<r>,..|-`   r as above | hang; a call made once a stack is installed
               answers that stack's name (whatever the stack then does with the scripted bytes)
phase `e2e` (no hooks: real client, real handshake and echo through `pa.NewListener`)
  case     : `ph=e2e client=tlcp|tls cfg=dual|tlcp|tls seg=<n> rb=<n> msg=<hex>`
             optional `slow=<k> first=R|W pre=<hex>`: the client's first record is delivered in
             two pieces, k = 0..4 bytes first; the server's first call (Read, or Write of `pre`)
             runs under an expired read deadline with only those k bytes there, the deadline is
             then cleared, the rest arrives, and the server goes on (Write of `pre` again, echo)
  observed : `[poll=<r>] served=tlcp|tls|none hs=ok|fail echo=<hex>`
phase `close` (no hooks: a second goroutine while the first call on the public object is parked)
  case     : `ph=close cfg=.. major=<n> k=<0..7> first=R|W act=close|rdl|dl|wdl+close`
               k bytes of the client's first record have arrived, the client is silent;
               act: Close / SetReadDeadline(past) / SetDeadline(past) / SetWriteDeadline(past) then Close
  observed : `act=ok|hang call=err|timeout|ok|hang|panic`  (`early=<r>`: the first call returned
               before the second goroutine acted; `parked=no`: it never reached the transport)
phase `listen` (ONE listener, one accept loop `for { c := Accept(); go serve(c) }`, several peers over blocking
               in-memory transports; time in ticks: the driver performs the peers' acts of a tick and goes on only
               when every goroutine of the server and of the real clients is parked)
  case     : `ph=listen cfg=.. mode=D|R rb=<n> seg=<n> peers=<P>|<P>|..`
               P = `<gap>/<act>,<act>,..|-`  the connection is established <gap> ticks after the previous peer's
                     (accept queue = list order); act = `<gap>D<hex>` send a chunk, `<gap>X` go away, each <gap>
                     ticks after the previous act
                 | `<gap>/C<tlcp|tls>[:<k>:<g>]`  a REAL client (handshake + echo); with `:k:g` the first k bytes of
                     its first record go out when it connects and the rest g ticks later
               mode D: serve(c) = detect through the hook, then, when a stack serves the connection, reads of
                     `ProtocolDetectConn.Read` with rb-byte buffers until the end; mode R: no hooks, serve(c) = an
                     echo loop on the public object; seg = most bytes one transport read returns (0: no limit)
  observed : `conns=<O>|<O>|..` per peer `<acc>/<dec>/<got>`: acc = tick at which Accept returned the connection,
               dec = `<tick>:<r>` tick and answer of the first call | `~<stack|none>` (mode R, scripted peer whose
               first call did not come back with an adapter error: the stack installed in the end, no tick: when
               that call returns is the stack's business), got = bytes the stack read (mode D) | ok|fail outcome of
               the real client's handshake + echo; `-` = never / nothing.  `wd=<tick>`: the world did not come to
               rest within the watchdog after that tick (the driver stops there; the connections are judged on
               what was due to them by then).
every phase: `accept=hang` = the listener's Accept did not return within the watchdog.
-/
import Gotlcp.Oracle.Common
import Gotlcp.Model.PAFacts
import Gotlcp.Model.PALock
import Gotlcp.Spec.PASpec
import Gotlcp.Spec.PAListenSpec

namespace Gotlcp.Oracle.C20
open Gotlcp.Model.PA

def parseCfg (s : String) : Option Cfg :=
  if s == "dual" then some ⟨true, true⟩
  else if s == "tlcp" then some ⟨true, false⟩
  else if s == "tls" then some ⟨false, true⟩
  else none

def parseEv (s : String) : Option Ev :=
  match s.toList with
  | ['T'] => some .timeout
  | 'D' :: rest => if rest.isEmpty then some (.data []) else (Hex.decodeChars rest).map .data
  | _ => none

def parseEvs (s : String) : Option (List Ev) :=
  if s == "-" then some [] else (s.splitOn ",").mapM parseEv

def parseNats (s : String) : Option (List Nat) :=
  if s == "-" then some [] else (s.splitOn ",").mapM String.toNat?

def showErr : Option IOErr → String
  | none => "ok"
  | some .eof => "eof"
  | some .unexpectedEOF => "unexpected_eof"
  | some .timeout => "timeout"

def showRoute : Route → String
  | .tlcp => "tlcp"
  | .tls => "tls"
  | .unsupported => "unsupported"
  | .config => "config"
  | .io e => showErr (some e)
  | .panic => "panic"

def showVerdict : Spec.PA.Verdict → String
  | .tlcp => "tlcp"
  | .tls => "tls"
  | .unsupported => "unsupported"
  | .config => "config"

def joinOr (l : List String) : String := if l.isEmpty then "-" else ",".intercalate l

/-- spec-side reading of the transport script: the bytes the client sent -/
def sentOf : List Ev → Bytes
  | [] => []
  | .data c :: r => c ++ sentOf r
  | .timeout :: r => sentOf r

def hasTimeout (evs : List Ev) : Bool := evs.any (fun e => e == .timeout)

/-- spec-side reading of the transport script: how many reads of the transport timed out -/
def timeoutsOf (evs : List Ev) : Nat := (evs.filter (fun e => e == .timeout)).length

def isRouting (r : String) : Bool := r == "tlcp" || r == "tls" || r == "unsupported" || r == "config"

/-- the property on one observed `route` case -/
def specRoute (cfg : Cfg) (evs : List Ev) (att : List String) (reads : List (Bytes × String)) :
    Option (String × String) :=
  let sent := sentOf evs
  let want := Spec.PA.routeOfStream cfg.tlcp cfg.tls sent
  let wantS := match want with
    | some v => showVerdict v
    | none => "an error (fewer than 5 bytes sent)"
  -- `failed` = calls so far that ended in an I/O error.  A client that sent a full header is to
  -- be routed however the transport delivered it: a call may fail only because a read of the
  -- transport timed out, and every timed-out read fails at most one call.
  let rec go (i failed : Nat) : List String → Option (String × String)
    | [] => none
    | r :: rs =>
      if r == "panic" then some ("panic", s!"call {i} panicked")
      else if r == "hang" then some ("hang", s!"call {i} did not return")
      else if isRouting r then
        if some r == want.map showVerdict then go (i + 1) failed rs
        else some ("misroute", s!"call {i} answered {r} but the first record (major version {Hex.encode (sent.drop 1 |>.take 1)}) calls for {wantS}")
      else if sent.length < 5 then go (i + 1) (failed + 1) rs
      else if !hasTimeout evs then
        some ("spurious-error", s!"call {i} failed with {r} although the client sent a full header and nothing timed out")
      else if r == "timeout" && failed < timeoutsOf evs then go (i + 1) (failed + 1) rs
      else some ("stale-error", s!"call {i} failed with {r}: the client sent a full header (first record calls for {wantS}), {timeoutsOf evs} read(s) of the transport timed out and {failed} call(s) had failed already")
  match go 0 0 att with
  | some f => some f
  | none =>
    let got := (reads.map (·.1)).flatten
    let sawEOF := reads.any (fun x => x.2 == "eof")
    -- "not a hang or a panic": a Read of the serving stack that panics is never acceptable
    if reads.any (fun x => x.2 == "panic") then
      some ("panic", s!"a Read through the adapter panicked after delivering {Hex.encode got}")
    else if Spec.PA.streamOK sent got sawEOF then none
    else some ("stream", s!"the serving stack read {Hex.encode got} (eof={sawEOF}) but the client sent {Hex.encode sent}")

def parseRead (s : String) : Option (Bytes × String) :=
  match s.splitOn "/" with
  | [h, e] => (Hex.decode h).map (·, e)
  | _ => none

def judgeRoute (ct : List String) (o : String) : Option Verdict := do
  let cfg ← (kv ct "cfg").bind parseCfg
  let evs ← (kv ct "ev").bind parseEvs
  let k ← kvNat ct "tries"
  let bufs ← (kv ct "bufs").bind parseNats
  let r := attempts factsP cfg k { p := { evs := evs } }
  let att := joinOr (r.1.map showRoute)
  let rd := match r.2.wrapped with
    | some _ => joinOr ((reads r.2.p bufs).1.map fun (x : Bytes × Option IOErr) => s!"{Hex.encode x.1}/{showErr x.2}")
    | none => "-"
  let model := s!"att={att} ver={Hex.encode [r.2.p.major, r.2.p.minor]} reads={rd}"
  let ot := tokens o
  let spec : Option (String × String) :=
    match kv ot "att", kv ot "reads" with
    | some a, some rs =>
      let al := if a == "-" then [] else a.splitOn ","
      match (if rs == "-" then some [] else (rs.splitOn ",").mapM parseRead) with
      | some rl => specRoute cfg evs al rl
      | none => some ("shape", "unparseable reads")
    | _, _ => some ("shape", "missing att/reads")
  pure { model := model, spec := spec, trivial := k == 0 || evs.isEmpty }

/-- phase `pub`: the same scripts through `Read` / `Write` of the public object -/
def judgePub (ct : List String) (o : String) : Option Verdict := do
  let cfg ← (kv ct "cfg").bind parseCfg
  let evs ← (kv ct "ev").bind parseEvs
  let ops ← kv ct "ops"
  let k := if ops == "-" then 0 else (ops.splitOn ",").length
  let r := calls factsP cfg k { c := { p := { evs := evs } } }
  let model := s!"att={joinOr (r.1.map showRoute)}"
  let ot := tokens o
  let spec : Option (String × String) :=
    match kv ot "att" with
    | some a => specRoute cfg evs (if a == "-" then [] else a.splitOn ",") []
    | none => some ("shape", "missing att")
  pure { model := model, spec := spec, trivial := k == 0 || evs.isEmpty }

/-- phase `close` -/
def judgeClose (ct : List String) (o : String) : Option Verdict := do
  let k ← kvNat ct "k"
  let first ← kv ct "first"
  let act ← kv ct "act"
  let parked := if first == "W" then "Write" else "Read"
  let kind := if k < Spec.PA.recordHeaderLen then evTransportRead else evIntoStack
  let name := if act == "close" then "Close" else if act == "rdl" then "SetReadDeadline"
    else if act == "dl" then "SetDeadline" else "SetWriteDeadline"
  let ret := unblockerReturns Facts.pa.swProgs Facts.pa.swUnblockers parked kind name &&
    (act != "wdl+close" || unblockerReturns Facts.pa.swProgs Facts.pa.swUnblockers parked kind "Close")
  let model := if ret then (if act == "rdl" || act == "dl" then "act=ok call=timeout" else "act=ok call=err")
    else "act=hang call=hang"
  let ot := tokens o
  let what := if act == "close" then "Close()" else if act == "rdl" then "SetReadDeadline()"
    else if act == "dl" then "SetDeadline()" else "SetWriteDeadline() + Close()"
  let spec : Option (String × String) :=
    match kv ot "act", kv ot "call" with
    | some a, some c =>
      if a == "hang" then
        some ("hang", s!"{what} from another goroutine did not return while the first {parked} was waiting with {k} byte(s) of the client's first record delivered")
      else if c == "hang" then
        some ("hang", s!"the first {parked} (client silent after {k} byte(s)) did not return after {what}")
      else if c == "panic" then some ("panic", s!"the first {parked} panicked")
      else if c == "ok" then
        some ("no-error", s!"the first {parked} returned without an error after {what} although the client never completed its first record ({k} byte(s))")
      else none
    | _, _ =>
      -- the first call came back before the second goroutine did anything: the model's
      -- prediction (parked) disagrees; the property itself only objects to a panic or to a
      -- call that reports success although the client never completed its first record
      match kv ot "early" with
      | some "panic" => some ("panic", s!"the first {parked} panicked")
      | some "ok" => some ("no-error", s!"the first {parked} returned without an error although the client never completed its first record ({k} byte(s))")
      | some _ => none
      | none => some ("shape", "missing act/call")
  pure { model := model, spec := spec }

def clientMajor (s : String) : Option UInt8 :=
  if s == "tlcp" then some 0x01 else if s == "tls" then some 0x03 else none

def judgeE2E (ct : List String) (o : String) : Option Verdict := do
  let cfg ← (kv ct "cfg").bind parseCfg
  let cl ← kv ct "client"
  let mj ← clientMajor cl
  let msg0 ← kv ct "msg"
  -- slow first record: the first call sees k < 5 bytes and an expired deadline; a first Write's
  -- greeting reaches the client ahead of the echo
  let slow := (kv ct "slow").isSome
  let slowK := (kvNat ct "slow").getD 0
  let pre := match kv ct "first", kv ct "pre" with
    | some "W", some p => if p == "-" then "" else p
    | _, _ => ""
  let msg := pre ++ msg0
  let poll := if slow then
      match (calls factsP cfg 1 { c := { p := { evs := [.data (List.replicate slowK 0x16), .timeout] } } }).1 with
      | [x] => s!"poll={showRoute x} "
      | _ => "poll=? "
    else ""
  -- the stack serving the client: the dispatch on its version byte; with a slow first record, the
  -- answer of the SECOND call on the public object (k header bytes, an expired deadline, the rest)
  let hdr : Bytes := [0x16, mj, 0x01, 0x00, 0x06]
  let r := if slow then
      match (calls factsP cfg 2 { c := { p := { evs := [.data (hdr.take slowK), .timeout, .data (hdr.drop slowK)] } } }).1 with
      | [_, x] => x
      | _ => .panic
    else route factsP cfg mj
  let model := poll ++ (if r.served then s!"served={showRoute r} hs=ok echo={msg}" else "served=none hs=fail echo=-")
  -- spec: a TLCP (TLS) client is served by the TLCP (TLS) stack iff it is configured, and then
  -- handshake and echo behave as against the stack directly
  let want := Spec.PA.route cfg.tlcp cfg.tls mj
  let wantLine := match want with
    | .tlcp => s!"served=tlcp hs=ok echo={msg}"
    | .tls => s!"served=tls hs=ok echo={msg}"
    | _ => "served=none hs=fail echo=-"
  let ot := tokens o
  let obs := " ".intercalate (ot.filter (fun t => !t.startsWith "poll="))
  let spec := if kv ot "poll" == some "hang" then
      some ("hang", s!"the first call of the server (expired read deadline, fewer than five bytes of the client's first record there) did not return")
    else if kv ot "poll" == some "panic" then some ("panic", "the first call of the server panicked")
    else if obs == wantLine then none
    else some ("e2e", s!"a {cl} client through the adapter{if slow then " (first record delivered in two pieces around an expired read deadline)" else ""}: expected {wantLine}")
  pure { model := model, spec := spec }

/-! ### phase `listen` -/

/-- one parsed peer: model side (gaps) and, for real clients, the protocol -/
structure LPeer where
  peer : Peer
  real : Option String := none

def realHeader (mj : UInt8) : Bytes := [0x16, mj, 0x01, 0x00, 0x06, 0x01, 0x00, 0x00, 0x02, 0x01, 0x01]

def parseAct (s : String) : Option (Nat × PAct) :=
  let cs := s.toList
  let ds := cs.takeWhile Char.isDigit
  let rest := cs.dropWhile Char.isDigit
  match (String.ofList ds).toNat?, rest with
  | some g, ['X'] => some (g, .close)
  | some g, 'D' :: h => if h.isEmpty then some (g, .send []) else (Hex.decodeChars h).map fun b => (g, .send b)
  | _, _ => none

def parsePeer (s : String) : Option LPeer :=
  match s.splitOn "/" with
  | [a, body] =>
    match a.toNat? with
    | none => none
    | some arr =>
      if body.startsWith "C" then
        match (String.ofList (body.toList.drop 1)).splitOn ":" with
        | [cl] => (clientMajor cl).map fun mj => { peer := ⟨arr, [(0, .send (realHeader mj))]⟩, real := some cl }
        | [cl, k, g] =>
          match clientMajor cl, k.toNat?, g.toNat? with
          | some mj, some k, some g =>
            some { peer := ⟨arr, [(0, .send ((realHeader mj).take k)), (g, .send ((realHeader mj).drop k))]⟩, real := some cl }
          | _, _, _ => none
        | _ => none
      else if body == "-" then some { peer := ⟨arr, []⟩ }
      else ((body.splitOn ",").mapM parseAct).map fun acts => { peer := ⟨arr, acts⟩ }
  | _ => none

def parsePeers (s : String) : Option (List LPeer) :=
  if s == "-" then some [] else (s.splitOn "|").mapM parsePeer

def showOptNat : Option Nat → String
  | none => "-"
  | some n => toString n

def hexOr (b : Bytes) : String := if b.isEmpty then "-" else Hex.encode b

/-- the model's outcome of one connection in the observation syntax -/
def showOutcome (mode : String) (lp : LPeer) (o : Outcome) : String :=
  match o.acc with
  | none => "-/-/-"
  | some a =>
    match lp.real with
    | some _ =>
      match o.dec with
      | none => s!"{a}/-/fail"
      | some (t, r) => s!"{a}/{t}:{showRoute r}/{if r.served then "ok" else "fail"}"
    | none =>
      if mode == "R" then
        match o.dec with
        | none => s!"{a}/~none/-"
        | some (t, r) => if r.served then s!"{a}/~{showRoute r}/-" else s!"{a}/{t}:{showRoute r}/-"
      else
        match o.dec with
        | none => s!"{a}/-/-"
        | some (t, r) => s!"{a}/{t}:{showRoute r}/{hexOr o.got}"

/-- spec side: the peer's own timeline in absolute ticks (computed here, not by the model) -/
def lineOf (arrive : Nat) (acts : List (Nat × PAct)) : Spec.PA.Line :=
  let rec go (t : Nat) : List (Nat × PAct) → List (Nat × Option Bytes)
    | [] => []
    | (g, .send c) :: r => (t + g, some c) :: go (t + g) r
    | (g, .close) :: r => (t + g, none) :: go (t + g) r
  { arrive := arrive, evs := go arrive acts }

def linesOf : Nat → List LPeer → List Spec.PA.Line
  | _, [] => []
  | t0, lp :: r => lineOf (t0 + lp.peer.arrive) lp.peer.acts :: linesOf (t0 + lp.peer.arrive) r

inductive ODec where
  | none | timed (t : Nat) (r : String) | fin (r : String)

def parseODec (s : String) : Option ODec :=
  if s == "-" then some .none
  else if s.startsWith "~" then some (.fin (String.ofList (s.toList.drop 1)))
  else match s.splitOn ":" with
    | [t, r] => t.toNat?.map fun t => .timed t r
    | _ => Option.none

/-- the property on one connection: what is due to it is a function of its own timeline only -/
def specConn (cfg : Cfg) (mode : String) (i : Nat) (lp : LPeer) (l : Spec.PA.Line) (obs : String) :
    Option (String × String) :=
  match obs.splitOn "/" with
  | [accS, decS, gotS] =>
    match parseODec decS with
    | Option.none => some ("shape", s!"connection {i}: unparseable {decS}")
    | some dec =>
      let sent := Spec.PA.sentOf l.evs
      let who := s!"connection {i} (connected at tick {l.arrive}, sent {Hex.encode sent})"
      let never := if accS == "-" then " — Accept never returned it" else s!" — Accept returned it at tick {accS}"
      let streamCheck : Option (String × String) :=
        -- mode D: bytes the serving stack read
        if mode == "D" && lp.real.isNone then
          match (if gotS == "-" then some [] else Hex.decode gotS) with
          | Option.none => some ("shape", s!"connection {i}: unparseable bytes")
          | some got =>
            if !Spec.PA.isPrefix got sent then
              some ("stream", s!"{who}: the serving stack read {Hex.encode got}, which is not the start of this peer's stream")
            else none
        else none
      match Spec.PA.due cfg.tlcp cfg.tls l with
      | .routed t v =>
        let wantS := showVerdict v
        let fullCheck : Option (String × String) :=
          if lp.real.isSome then
            (if (gotS == "ok") == v.served then none
             else some ("e2e", s!"{who}: a real {lp.real.getD ""} client; handshake and echo answered {gotS}, {wantS} is due"))
          else if mode == "D" && v.served then
            match (if gotS == "-" then some [] else Hex.decode gotS) with
            | some got => if got == sent then none
                else some ("stream", s!"{who}: served by {wantS}, but the stack had read only {Hex.encode got} when the world came to rest")
            | Option.none => some ("shape", "unparseable bytes")
          else none
        match dec with
        | .none =>
          some ("starved", s!"{who} had sent its complete first record header by tick {t} and is due {wantS}, but the first call on it has not answered when the world came to rest{never}: it waits for ANOTHER peer")
        | .timed t' r =>
          if r == "panic" then some ("panic", s!"{who}: the first call panicked")
          else if r == wantS then
            if t' ≤ t then (match streamCheck with | some f => some f | Option.none => fullCheck)
            else some ("starved", s!"{who} had sent its complete first record header by tick {t} but was answered ({r}) only at tick {t'}{never}: it waited for ANOTHER peer")
          else if isRouting r then
            some ("misroute", s!"{who}: answered {r}, its own first record (major version {Hex.encode (sent.drop 1 |>.take 1)}) calls for {wantS}")
          else some ("spurious-error", s!"{who}: the first call failed with {r} although the peer sent a full header ({wantS} is due)")
        | .fin r =>
          if r == wantS then fullCheck
          else if r == "none" then
            some ("starved", s!"{who} had sent its complete first record header by tick {t} and is due {wantS}, but no stack serves it when the world came to rest{never}")
          else some ("misroute", s!"{who}: served by {r}, its own first record calls for {wantS}")
      | .error t =>
        match dec with
        | .none =>
          some ("hang", s!"{who} went away at tick {t} before five bytes: an error is due, but the first call on it has not returned when the world came to rest{never}")
        | .timed t' r =>
          if r == "panic" then some ("panic", s!"{who}: the first call panicked")
          else if isRouting r then some ("misroute", s!"{who} went away before five bytes but was answered {r}")
          else if t' ≤ t then streamCheck
          else some ("hang", s!"{who} went away at tick {t} before five bytes, its error ({r}) came only at tick {t'}{never}: it waited for ANOTHER peer")
        | .fin r =>
          if r == "none" then some ("hang", s!"{who} went away at tick {t} before five bytes: an error is due, but the first call never returned one")
          else some ("misroute", s!"{who} went away before five bytes but is served by {r}")
      | .nothing =>
        match dec with
        | .timed _ r =>
          if r == "panic" then some ("panic", s!"{who}: the first call panicked")
          else if isRouting r then some ("misroute", s!"{who} has not sent five bytes but was answered {r}")
          else streamCheck
        | .fin r => if r == "none" then none else some ("misroute", s!"{who} has not sent five bytes but is served by {r}")
        | .none => streamCheck
  | _ => some ("shape", s!"connection {i}: expected acc/dec/got")

def judgeListen (ct : List String) (o : String) : Option Verdict := do
  let cfg ← (kv ct "cfg").bind parseCfg
  let mode ← kv ct "mode"
  let rb ← kvNat ct "rb"
  let lps ← (kv ct "peers").bind parsePeers
  let outs := listen factsP cfg factsAcceptPeeks rb (lps.map (·.peer))
  let shown := (lps.zip outs).map fun (lp, oc) => showOutcome mode lp oc
  let model := "conns=" ++ (if shown.isEmpty then "-" else "|".intercalate shown)
  let ot := tokens o
  let lines := linesOf 0 lps
  let spec : Option (String × String) :=
    match kv ot "conns" with
    | some cs =>
      -- `wd=<T>`: the driver stopped after tick T because the world did not come to rest (a goroutine blocked
      -- outside the instrumented transports); that alone is a disagreement with the model, not a verdict: the
      -- connections are judged on what was due to them by tick T
      let upTo := kvNat ot "wd"
      let obs := if cs == "-" then [] else cs.splitOn "|"
      if obs.length != lps.length then some ("shape", "one observation per peer expected")
      else
        let rec go (i : Nat) : List LPeer → List Spec.PA.Line → List String → Option (String × String)
          | lp :: lr, l :: llr, ob :: obr =>
            let later : Bool := match upTo, Spec.PA.due cfg.tlcp cfg.tls l with
              | some T, .routed t _ => decide (T < t)
              | some T, .error t => decide (T < t)
              | some T, .nothing => decide (T < l.arrive)
              | Option.none, _ => false
            match (if later then Option.none else specConn cfg mode i lp l ob) with
            | some f => some f
            | Option.none => go (i + 1) lr llr obr
          | _, _, _ => Option.none
        go 0 lps lines obs
    | Option.none => some ("shape", "missing conns")
  pure { model := model, spec := spec, trivial := lps.length < 2 }

def judge (c o : String) : Option Verdict := do
  let ct := tokens c
  let ph ← kv ct "ph"
  let v ← (if ph == "route" then judgeRoute ct o
    else if ph == "e2e" then judgeE2E ct o
    else if ph == "pub" then judgePub ct o
    else if ph == "close" then judgeClose ct o
    else if ph == "listen" then judgeListen ct o
    else none)
  -- whatever the phase: an Accept of the listener that does not return (the driver had a connection waiting in
  -- the inner listener) keeps the application from ever seeing the connection
  if kv (tokens o) "accept" == some "hang" then
    pure { v with spec := some ("hang", "the listener's Accept did not return although a connection was waiting in the inner listener: the application never gets the connection (nothing to read from, to put a deadline on or to close)") }
  else pure v

end Gotlcp.Oracle.C20

/-
Oracle for C20: re-computes the model's prediction (`Gotlcp.Model.PA` over the regenerated
facts) and evaluates the spec (`Gotlcp.Spec.PA`) on what the real `pa` code did.

phase `route` (hooked: `detect` + `ProtocolDetectConn.Read` driven directly)
  case     : `ph=route cfg=dual|tlcp|tls ev=<e>,<e>,..|- tries=<k> bufs=<n>,<n>,..|-`
               e = `D<hex>` (one transport chunk) | `T` (one read that times out); end = EOF
  observed : `att=<r>,<r>,..|- ver=<major minor hex> reads=<hex>/<ok|eof|timeout>,..|-`
               r = tlcp | tls | unsupported | config | eof | unexpected_eof | timeout | panic
phase `e2e` (no hooks: real client, real handshake and echo through `pa.NewListener`)
  case     : `ph=e2e client=tlcp|tls cfg=dual|tlcp|tls seg=<n> rb=<n> msg=<hex>`
  observed : `served=tlcp|tls|none hs=ok|fail echo=<hex>`
-/
import Gotlcp.Oracle.Common
import Gotlcp.Model.PAFacts
import Gotlcp.Spec.PASpec

namespace Gotlcp.Oracle.C20
open Gotlcp.Model.PA

def parseCfg (s : String) : Option Cfg :=
  if s == "dual" then some ⟨true, true⟩
  else if s == "tlcp" then some ⟨true, false⟩
  else if s == "tls" then some ⟨false, true⟩
  else none

def parseEv (s : String) : Option Ev :=
  match s.toList with
  | ['T'] => some .timeout
  | 'D' :: rest => if rest.isEmpty then some (.data []) else (Hex.decodeChars rest).map .data
  | _ => none

def parseEvs (s : String) : Option (List Ev) :=
  if s == "-" then some [] else (s.splitOn ",").mapM parseEv

def parseNats (s : String) : Option (List Nat) :=
  if s == "-" then some [] else (s.splitOn ",").mapM String.toNat?

def showErr : Option IOErr → String
  | none => "ok"
  | some .eof => "eof"
  | some .unexpectedEOF => "unexpected_eof"
  | some .timeout => "timeout"

def showRoute : Route → String
  | .tlcp => "tlcp"
  | .tls => "tls"
  | .unsupported => "unsupported"
  | .config => "config"
  | .io e => showErr (some e)
  | .panic => "panic"

def showVerdict : Spec.PA.Verdict → String
  | .tlcp => "tlcp"
  | .tls => "tls"
  | .unsupported => "unsupported"
  | .config => "config"

def joinOr (l : List String) : String := if l.isEmpty then "-" else ",".intercalate l

/-- spec-side reading of the transport script: the bytes the client sent -/
def sentOf : List Ev → Bytes
  | [] => []
  | .data c :: r => c ++ sentOf r
  | .timeout :: r => sentOf r

def hasTimeout (evs : List Ev) : Bool := evs.any (fun e => e == .timeout)

def isRouting (r : String) : Bool := r == "tlcp" || r == "tls" || r == "unsupported" || r == "config"

/-- the property on one observed `route` case -/
def specRoute (cfg : Cfg) (evs : List Ev) (att : List String) (reads : List (Bytes × String)) :
    Option (String × String) :=
  let sent := sentOf evs
  let want := Spec.PA.routeOfStream cfg.tlcp cfg.tls sent
  let wantS := match want with
    | some v => showVerdict v
    | none => "an error (fewer than 5 bytes sent)"
  let rec go (i : Nat) : List String → Option (String × String)
    | [] => none
    | r :: rs =>
      if r == "panic" then some ("panic", s!"call {i} panicked")
      else if isRouting r then
        if some r == want.map showVerdict then go (i + 1) rs
        else some ("misroute", s!"call {i} answered {r} but the first record (major version {Hex.encode (sent.drop 1 |>.take 1)}) calls for {wantS}")
      else if sent.length < 5 || hasTimeout evs then go (i + 1) rs
      else some ("spurious-error", s!"call {i} failed with {r} although the client sent a full header and nothing timed out")
  match go 0 att with
  | some f => some f
  | none =>
    let got := (reads.map (·.1)).flatten
    let sawEOF := reads.any (fun x => x.2 == "eof")
    -- "not a hang or a panic": a Read of the serving stack that panics is never acceptable
    if reads.any (fun x => x.2 == "panic") then
      some ("panic", s!"a Read through the adapter panicked after delivering {Hex.encode got}")
    else if Spec.PA.streamOK sent got sawEOF then none
    else some ("stream", s!"the serving stack read {Hex.encode got} (eof={sawEOF}) but the client sent {Hex.encode sent}")

def parseRead (s : String) : Option (Bytes × String) :=
  match s.splitOn "/" with
  | [h, e] => (Hex.decode h).map (·, e)
  | _ => none

def judgeRoute (ct : List String) (o : String) : Option Verdict := do
  let cfg ← (kv ct "cfg").bind parseCfg
  let evs ← (kv ct "ev").bind parseEvs
  let k ← kvNat ct "tries"
  let bufs ← (kv ct "bufs").bind parseNats
  let r := attempts factsP cfg k { p := { evs := evs } }
  let att := joinOr (r.1.map showRoute)
  let rd := match r.2.wrapped with
    | some _ => joinOr ((reads r.2.p bufs).1.map fun (x : Bytes × Option IOErr) => s!"{Hex.encode x.1}/{showErr x.2}")
    | none => "-"
  let model := s!"att={att} ver={Hex.encode [r.2.p.major, r.2.p.minor]} reads={rd}"
  let ot := tokens o
  let spec : Option (String × String) :=
    match kv ot "att", kv ot "reads" with
    | some a, some rs =>
      let al := if a == "-" then [] else a.splitOn ","
      match (if rs == "-" then some [] else (rs.splitOn ",").mapM parseRead) with
      | some rl => specRoute cfg evs al rl
      | none => some ("shape", "unparseable reads")
    | _, _ => some ("shape", "missing att/reads")
  pure { model := model, spec := spec, trivial := k == 0 || evs.isEmpty }

def clientMajor (s : String) : Option UInt8 :=
  if s == "tlcp" then some 0x01 else if s == "tls" then some 0x03 else none

def judgeE2E (ct : List String) (o : String) : Option Verdict := do
  let cfg ← (kv ct "cfg").bind parseCfg
  let cl ← kv ct "client"
  let mj ← clientMajor cl
  let msg ← kv ct "msg"
  let r := route factsP cfg mj
  let model := if r.served then s!"served={showRoute r} hs=ok echo={msg}" else "served=none hs=fail echo=-"
  -- spec: a TLCP (TLS) client is served by the TLCP (TLS) stack iff it is configured, and then
  -- handshake and echo behave as against the stack directly
  let want := Spec.PA.route cfg.tlcp cfg.tls mj
  let wantLine := match want with
    | .tlcp => s!"served=tlcp hs=ok echo={msg}"
    | .tls => s!"served=tls hs=ok echo={msg}"
    | _ => "served=none hs=fail echo=-"
  let spec := if normalise o == wantLine then none
    else some ("e2e", s!"a {cl} client through the adapter: expected {wantLine}")
  pure { model := model, spec := spec }

def judge (c o : String) : Option Verdict := do
  let ct := tokens c
  let ph ← kv ct "ph"
  if ph == "route" then judgeRoute ct o
  else if ph == "e2e" then judgeE2E ct o
  else none

end Gotlcp.Oracle.C20

/-
Oracle for C15: re-computes the model's prediction of the datagram sizes and evaluates the
spec (`Gotlcp.Spec.DtlcpTxSpec`) on what the real transmit path handed to the network.

case (kind=wr) : `suite=<none|gcm|cbc> [cfg=<reach>] pmtu=<int> n=<payload bytes>`      one application write
  <reach> (how the *Config with the configured PMTU got to the connection; absent = c0):
     c<k>        handed to Client/Server after k Config.Clone() calls
     g<k>l<int>  returned (after k Clone() calls) by GetConfigForClient of a listener Config whose own PMTU is <int>
  observed     : `max=<maxPayloadSizeForWrite> en=<explicitNonceLen> dg=<size>.<size>… or -`
case (kind=fl) : `suite=… pmtu=… recs=<n1>.<n2>… or -`   handshake records written while buffering, then flush
  observed     : `early=<datagrams before flush> dg=<sizes>`
case (kind=e2e): `suite=<ecc-gcm|ecc-cbc|ecdhe-gcm|ecdhe-cbc> [ccfg=c<k>] [scfg=<reach>] cp=<client PMTU> sp=<server PMTU> sizes=<n>.<n>…
                  rsizes=<n>.<n>… stream=<n>`   (PMTU is a send-side setting: cp bounds client→server, sp server→client)
  observed     : `hs=ok|fail hsC=<handshake datagram sizes of the client> hsS=<… server>
                  w=<n>:<datagram sizes>:<ReadFrom lengths at the peer, "!" when the bytes differ>,…   client WriteTo
                  v=…  server WriteTo     W=<n>:<datagram sizes>:<Read lengths>  client Write / server Read     V=… converse`
  (handshake datagram sizes depend on certificates and signatures: they are inputs to the
   model — echoed — and judged by the spec only)
-/
import Gotlcp.Oracle.Common
import Gotlcp.Model.DtlcpTx
import Gotlcp.Spec.DtlcpTxSpec
import Gotlcp.Generated.Facts

namespace Gotlcp.Oracle.C15
open Gotlcp.Model.DtlcpTx
open Gotlcp.Spec

/-- the same record as `Props.C15.here` / `Tie.RecordSize.Dtlcp.K`: the literal tree constants
(tied to the source by the translation proofs), not text-matching facts -/
def here : Consts := treeConsts Facts.dtlcp.recordHeaderLen Facts.dtlcp.maxPlaintext

def gcmHere : Cipher := .aead (Facts.dtlcp.aeadNonceLength - Facts.dtlcp.noncePrefixLength) 16
def cbcHere : Cipher := .cbc 16 32

/-- same definition as `Props.C15.cfgHere` (pinned there by `C15_config_facts`) -/
def cfgHere : CfgConsts :=
  { cloneCopiesPmtu := Facts.dtlcp.clonePmtu == Facts.dtlcp.cloneRecv ++ ".PMTU" &&
      !Facts.dtlcp.cloneMissing.contains "PMTU" && !Facts.dtlcp.cloneNotVerbatim.contains "PMTU",
    forClientInstalled :=
      Facts.dtlcp.txCfgAssigns.contains "Conn.selectConfigForClient: c.config = configForClient" &&
      Facts.dtlcp.txCfgForClient.contains "if configForClient != nil { c.config = configForClient }" }

def cipherOf (s : String) : Option (Cipher × DtlcpTxSpec.Suite) :=
  if s == "none" then some (.none, .none)
  else if s == "gcm" || s == "ecc-gcm" || s == "ecdhe-gcm" then some (gcmHere, .gcm)
  else if s == "cbc" || s == "ecc-cbc" || s == "ecdhe-cbc" then some (cbcHere, .cbc)
  else none

def parseInt (s : String) : Option Int :=
  if s.startsWith "-" then (String.ofList (s.toList.drop 1)).toNat?.map (fun n => -(n : Int)) else s.toNat?.map Int.ofNat

/-- `c<k>` / `g<k>l<int>`; an absent token is the configured object itself -/
def parseReach (o : Option String) : Option Reach :=
  match o with
  | none => some (.ctor .direct)
  | some s =>
    match s.toList with
    | 'c' :: ks => (String.ofList ks).toNat?.map fun k => .ctor (Via.clones k)
    | 'g' :: rest =>
      match (String.ofList rest).splitOn "l" with
      | [ks, lp] => do
        let k ← ks.toNat?
        let l ← parseInt lp
        pure (.forClient l (Via.clones k))
      | _ => none
    | _ => none

def reachNote : Reach → String
  | .ctor .direct => ""
  | .ctor _ => "+cloned"
  | .forClient _ .direct => "+forclient"
  | .forClient _ _ => "+forclient-cloned"

def showSizes (l : List Nat) : String := if l.isEmpty then "-" else ".".intercalate (l.map toString)

def parseSizes (s : String) : Option (List Nat) :=
  if s == "-" then some [] else (s.splitOn ".").mapM String.toNat?

def judgeWR (ct ot : List String) : Option Verdict := do
  let (c, su) ← (kv ct "suite").bind cipherOf
  let pmtu ← (kv ct "pmtu").bind parseInt
  let n ← kvNat ct "n"
  let reach ← parseReach (kv ct "cfg")
  -- the model computes with what the write path reads; the spec judges with what was configured
  let inForce := pmtuRead cfgHere reach pmtu
  let m := maxPayloadSizeForWrite here inForce c
  let dg := writeTo here inForce c (List.replicate n 0)
  let model := s!"max={m} en={explicitNonceLen c} dg={showSizes dg}"
  let spec : Option (String × String) :=
    match kvNat ot "max", (kv ot "dg").bind parseSizes with
    | some om, some odg => DtlcpTxSpec.judgeWrite su pmtu om n odg
    | _, _ => if (kv ot "panic").isSome then some ("panic", "the write path panicked") else some ("shape", "unparseable observation")
  pure { model := model, spec := spec, trivial := false,
         note := (if n == 0 then "empty" else if n ≤ m then "single" else "split") ++ reachNote reach }

def judgeFL (ct ot : List String) : Option Verdict := do
  let (c, _) ← (kv ct "suite").bind cipherOf
  let pmtu ← (kv ct "pmtu").bind parseInt
  let recs ← (kv ct "recs").bind parseSizes
  let dg := flightDatagrams here pmtu c (recs.map fun r => List.replicate r 0)
  let model := s!"early=0 dg={showSizes dg}"
  let spec : Option (String × String) :=
    match kvNat ot "early", (kv ot "dg").bind parseSizes with
    | some _, some odg => DtlcpTxSpec.judgeFlight pmtu odg
    | _, _ => if (kv ot "panic").isSome then some ("panic", "the write path panicked") else some ("shape", "unparseable observation")
  pure { model := model, spec := spec, trivial := recs.isEmpty, note := if dg.length == 1 then "oneflight" else "empty" }

/-- model of one direction: per size `n:<datagram sizes>:<lengths read at the peer>` -/
def showWay (pmtu : Int) (c : Cipher) (szs : List Nat) : String :=
  if szs.isEmpty then "-" else
  ",".intercalate (szs.map fun n =>
    let pieces := writeRecordPieces here pmtu c (List.replicate n 0)
    s!"{n}:{showSizes (pieces.map fun p => recordLen here c p.length)}:{showSizes (pieces.map List.length)}")

/-- spec on one direction: every datagram within the SENDER's path MTU, one datagram and one
read of exactly the payload when it is at most the maximum, nothing lost otherwise -/
def judgeWay (su : DtlcpTxSpec.Suite) (pmtu : Int) (m : Nat) (dir : String) (isStream : Bool) :
    List String → List Nat → Option (String × String)
  | [], _ => none
  | e :: es, n :: ns =>
    match e.splitOn ":" with
    | [_, dgs, rd] =>
      match parseSizes dgs with
      | some dg =>
        match DtlcpTxSpec.judgeWrite su pmtu m n dg with
        | some f => some f
        | none =>
          if rd.endsWith "!" || (rd.splitOn "err").length > 1 then
            some ("delivery", s!"{dir}: the peer did not read back the {n} bytes written (read {rd}) although no datagram was lost")
          else if !isStream && n ≤ m && rd != toString n then
            some ("boundary", s!"{dir}: a payload of {n} bytes was read as {rd}")
          else
            match parseSizes rd with
            | some ls => if ls.sum != n then some ("delivery", s!"{dir}: {ls.sum} of {n} bytes arrived") else judgeWay su pmtu m dir isStream es ns
            | none => some ("shape", "unparseable read lengths")
      | none => some ("delivery", s!"{dir}: write of {n} bytes failed")
    | _ => some ("shape", "unparseable write entry")
  | _, [] => some ("shape", "more write entries than sizes")

def entries (s : String) : List String := if s == "-" || s == "" then [] else s.splitOn ","

def judgeE2E (ct ot : List String) : Option Verdict := do
  let (c, su) ← (kv ct "suite").bind cipherOf
  let cp ← (kv ct "cp").bind parseInt
  let sp ← (kv ct "sp").bind parseInt
  let szs ← (kv ct "sizes").bind parseSizes
  let rszs := ((kv ct "rsizes").bind parseSizes).getD []
  let st := (kvNat ct "stream").getD 0
  let stl := if st == 0 then [] else [st]
  let cr ← parseReach (kv ct "ccfg")
  let sr ← parseReach (kv ct "scfg")
  -- what each write path reads (model) vs what was configured (cp / sp: the spec's bound)
  let cin := pmtuRead cfgHere cr cp
  let sin := pmtuRead cfgHere sr sp
  let mc := maxPayloadSizeForWrite here cin c
  let ms := maxPayloadSizeForWrite here sin c
  -- handshake datagram sizes are inputs (certificates, signatures): echoed
  let hs := (kv ot "hs").getD "?"
  let hsC := (kv ot "hsC").getD "?"
  let hsS := (kv ot "hsS").getD "?"
  let model := if hs == "ok" then
      s!"hs=ok hsC={hsC} hsS={hsS} mc={mc} ms={ms} w={showWay cin c szs} v={showWay sin c rszs} W={showWay cin c stl} V={showWay sin c stl}"
    else s!"hs=ok hsC={hsC} hsS={hsS}"
  -- the spec judges against the maximum payload each real connection REPORTED (not the model's)
  let mcS := (kvNat ot "mc").getD mc
  let msS := (kvNat ot "ms").getD ms
  let spec : Option (String × String) :=
    if hs != "ok" then some ("handshake-failed", s!"the handshake did not complete at PMTU {cp}/{sp}") else
    match parseSizes hsC, parseSizes hsS with
    | some dc, some ds =>
      -- the data phase first: the flight verdict (known finding K3) must not mask it
      (judgeWay su cp mcS "client->server" false (entries ((kv ot "w").getD "-")) szs).orElse fun _ =>
      (judgeWay su sp msS "server->client" false (entries ((kv ot "v").getD "-")) rszs).orElse fun _ =>
      (judgeWay su cp mcS "client Write" true (entries ((kv ot "W").getD "-")) stl).orElse fun _ =>
      (judgeWay su sp msS "server Write" true (entries ((kv ot "V").getD "-")) stl).orElse fun _ =>
      (DtlcpTxSpec.judgeFlight cp dc).orElse fun _ =>
      (DtlcpTxSpec.judgeFlight sp ds)
    | _, _ => some ("shape", "unparseable observation")
  pure { model := model, spec := spec, trivial := false,
         note := (if cp == sp then "e2e-symmetric" else "e2e-asymmetric") ++ reachNote cr ++ reachNote sr }

def judge (c o : String) : Option Verdict :=
  let ct := tokens c
  let ot := tokens o
  match kv ct "kind" with
  | some "wr" => judgeWR ct ot
  | some "fl" => judgeFL ct ot
  | some "e2e" => judgeE2E ct ot
  | _ => none

end Gotlcp.Oracle.C15

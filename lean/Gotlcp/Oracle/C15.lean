/-
Oracle for C15: re-computes the model's prediction of the datagram sizes and evaluates the
spec (`Gotlcp.Spec.DtlcpTxSpec`) on what the real transmit path handed to the network.

case (kind=wr) : `suite=<none|gcm|cbc> pmtu=<int> n=<payload bytes>`      one application write
  observed     : `max=<maxPayloadSizeForWrite> en=<explicitNonceLen> dg=<size>.<size>… or -`
case (kind=fl) : `suite=… pmtu=… recs=<n1>.<n2>… or -`   handshake records written while buffering, then flush
  observed     : `early=<datagrams before flush> dg=<sizes>`
case (kind=e2e): `suite=<ecc-gcm|ecc-cbc|ecdhe-gcm|ecdhe-cbc> cp=<client PMTU> sp=<server PMTU> sizes=<n>.<n>…`
  observed     : `hs=ok|fail hsC=<handshake datagram sizes of the client> hsS=<… server>
                  w=<n>:<datagram sizes>:<ReadFrom lengths at the peer, "!" when the bytes differ>,…`
  (handshake datagram sizes depend on certificates and signatures: they are inputs to the
   model — echoed — and judged by the spec only)
-/
import Gotlcp.Oracle.Common
import Gotlcp.Model.DtlcpTx
import Gotlcp.Spec.DtlcpTxSpec
import Gotlcp.Generated.Facts

namespace Gotlcp.Oracle.C15
open Gotlcp.Model.DtlcpTx
open Gotlcp.Spec

def here : Consts :=
  { defaultPmtu := Facts.dtlcp.txDefaultPmtu, recordHeaderLen := Facts.dtlcp.recordHeaderLen,
    maxPlaintext := Facts.dtlcp.maxPlaintext, cbcBudgetsPadding := Facts.dtlcp.txCbcBudgetsPadding }

def gcmHere : Cipher := .aead (Facts.dtlcp.aeadNonceLength - Facts.dtlcp.noncePrefixLength) 16
def cbcHere : Cipher := .cbc 16 32

def cipherOf (s : String) : Option (Cipher × DtlcpTxSpec.Suite) :=
  if s == "none" then some (.none, .none)
  else if s == "gcm" || s == "ecc-gcm" || s == "ecdhe-gcm" then some (gcmHere, .gcm)
  else if s == "cbc" || s == "ecc-cbc" || s == "ecdhe-cbc" then some (cbcHere, .cbc)
  else none

def parseInt (s : String) : Option Int :=
  if s.startsWith "-" then (String.ofList (s.toList.drop 1)).toNat?.map (fun n => -(n : Int)) else s.toNat?.map Int.ofNat

def showSizes (l : List Nat) : String := if l.isEmpty then "-" else ".".intercalate (l.map toString)

def parseSizes (s : String) : Option (List Nat) :=
  if s == "-" then some [] else (s.splitOn ".").mapM String.toNat?

def judgeWR (ct ot : List String) : Option Verdict := do
  let (c, su) ← (kv ct "suite").bind cipherOf
  let pmtu ← (kv ct "pmtu").bind parseInt
  let n ← kvNat ct "n"
  let m := maxPayloadSizeForWrite here pmtu c
  let dg := writeTo here pmtu c (List.replicate n 0)
  let model := s!"max={m} en={explicitNonceLen c} dg={showSizes dg}"
  let spec : Option (String × String) :=
    match kvNat ot "max", (kv ot "dg").bind parseSizes with
    | some om, some odg => DtlcpTxSpec.judgeWrite su pmtu om n odg
    | _, _ => if (kv ot "panic").isSome then some ("panic", "the write path panicked") else some ("shape", "unparseable observation")
  pure { model := model, spec := spec, trivial := false,
         note := if n == 0 then "empty" else if n ≤ m then "single" else "split" }

def judgeFL (ct ot : List String) : Option Verdict := do
  let (c, _) ← (kv ct "suite").bind cipherOf
  let pmtu ← (kv ct "pmtu").bind parseInt
  let recs ← (kv ct "recs").bind parseSizes
  let dg := flightDatagrams here pmtu c (recs.map fun r => List.replicate r 0)
  let model := s!"early=0 dg={showSizes dg}"
  let spec : Option (String × String) :=
    match kvNat ot "early", (kv ot "dg").bind parseSizes with
    | some _, some odg => DtlcpTxSpec.judgeFlight pmtu odg
    | _, _ => if (kv ot "panic").isSome then some ("panic", "the write path panicked") else some ("shape", "unparseable observation")
  pure { model := model, spec := spec, trivial := recs.isEmpty, note := if dg.length == 1 then "oneflight" else "empty" }

def judgeE2E (ct ot : List String) : Option Verdict := do
  let (c, su) ← (kv ct "suite").bind cipherOf
  let cp ← (kv ct "cp").bind parseInt
  let sp ← (kv ct "sp").bind parseInt
  let szs ← (kv ct "sizes").bind parseSizes
  let m := maxPayloadSizeForWrite here cp c
  let ws := szs.map fun n =>
    let pieces := writeRecordPieces here cp c (List.replicate n 0)
    s!"{n}:{showSizes (pieces.map fun p => recordLen here c p.length)}:{showSizes (pieces.map List.length)}"
  -- handshake datagram sizes are inputs (certificates, signatures): echoed
  let hs := (kv ot "hs").getD "?"
  let hsC := (kv ot "hsC").getD "?"
  let hsS := (kv ot "hsS").getD "?"
  let model := if hs == "ok" then s!"hs=ok hsC={hsC} hsS={hsS} w={",".intercalate ws}" else s!"hs=ok hsC={hsC} hsS={hsS}"
  let spec : Option (String × String) :=
    if hs != "ok" then some ("handshake-failed", s!"the handshake did not complete at PMTU {cp}/{sp}") else
    match parseSizes hsC, parseSizes hsS, kv ot "w" with
    | some dc, some ds, some w =>
      match DtlcpTxSpec.judgeFlight cp dc with
      | some f => some f
      | none =>
        match DtlcpTxSpec.judgeFlight sp ds with
        | some f => some f
        | none =>
          let entries := w.splitOn ","
          let rec go : List String → List Nat → Option (String × String)
            | [], _ => none
            | e :: es, n :: ns =>
              match e.splitOn ":" with
              | [_, dgs, rd] =>
                match parseSizes dgs with
                | some dg =>
                  match DtlcpTxSpec.judgeWrite su cp m n dg with
                  | some f => some f
                  | none =>
                    if rd.endsWith "!" || (rd.splitOn "err").length > 1 then
                      some ("delivery", s!"the peer did not read back the {n} bytes written: {rd}")
                    else if n ≤ m && rd != toString n then
                      some ("boundary", s!"a payload of {n} bytes was read as {rd}")
                    else go es ns
                | none => some ("shape", "unparseable write entry")
              | _ => some ("shape", "unparseable write entry")
            | _, [] => some ("shape", "more write entries than sizes")
          go entries szs
    | _, _, _ => some ("shape", "unparseable observation")
  pure { model := model, spec := spec, trivial := false, note := "e2e" }

def judge (c o : String) : Option Verdict :=
  let ct := tokens c
  let ot := tokens o
  match kv ct "kind" with
  | some "wr" => judgeWR ct ot
  | some "fl" => judgeFL ct ot
  | some "e2e" => judgeE2E ct ot
  | _ => none

end Gotlcp.Oracle.C15

/-
Oracle for C06: re-computes the model's prediction (`Model.RecordTx` + `Model.RecordRx` over
the regenerated facts, with a placeholder protection of the right lengths) and evaluates the
spec (`Spec.Stream`) on what the real record layer did.

phase `mps` (hook: maxPayloadSizeForWrite called directly)
  case     : `ph=mps kind=none|gcm|cbc dyn=0|1 app=0|1 bs=<bytesSent> ps=<packetsSent> k=<calls>`
  observed : `mp=<n>,<n>,.. ps=<packetsSent after>`
phase `loop` (two hooked Conns with matching dummy keys, no handshake) and phase `e2e` (real
handshake over an in-memory pipe; `bs`/`ps` of the sender after the handshake are observed
and fed to the model)
  case     : `ph=loop|e2e kind=gcm|cbc dyn=0|1 bs=<n> ps=<n> w=<size>,..|- seed=<n> close=0|1
              seg=<chunk size>,.. bufs=<buffer size>,..`   (seg and bufs are cycled)
             e2e also: `suite=<name> res=0|1` (full handshake / resumed session),
             `dir=c2s|s2c` (who writes), `gate=0|1` (1: the writer's ChangeCipherSpec + Finished
             reach the reader's transport together with the application records, as one byte
             stream cut by `seg`; the reader's handshake ends inside that stream)
             optional, both phases (omitted = 0, so older replays stay valid):
             `eof=1`   the reader's transport reports end-of-stream TOGETHER with its last chunk
                       (`n > 0, err == io.EOF` in one Read) instead of by a separate empty Read
             `last=<n>` the last chunk consists of the final n bytes of the stream (n <= 512); the
                       bytes before it are cut by `seg`
             `hc=1 w2=<size>,.. seg2=<..> bufs2=<..>`  half-close: the first writer calls CloseWrite
                       after its writes (the request: `w`, `seg`, `bufs`; `close` is 1) and keeps
                       reading; the peer reads to end-of-stream, writes `w2` (the response) and
                       closes; the half-closed side reads it with `seg2` / `bufs2`.  `eof` / `last`
                       then describe the transport of the response (the request's transport never
                       ends).  The two directions are judged independently by the same spec.
             `to=<k>,..` read time-outs (not with last / hc / gate=1): the reader's transport stalls
                       after k bytes of the stream, for each k (increasing offsets; others are
                       ignored): the transport Read that finds nothing returns a time-out (what a
                       blocked Read returns when the read deadline fires), the reader extends its
                       deadline, the rest arrives and it reads on.  The pieces between the stalls
                       are each cut by `seg`.  Reads that timed out are reported as `<n>/to`.
  observed : `[bs0=<n> ps0=<n> pre=<header lengths of the kept-back handshake records>|-
              hs=<ok|eof|other: the reader's handshake, when gate=1>|-]
              n=<write returns> recs=<header lengths> pl=<plaintext lengths>|?
              reads=<len>/<ok|eof|other>,.. data=<hex of everything read>`
             hc=1 adds `[bs2=<n> ps2=<n>] n2= recs2= pl2= reads2= data2=` for the response
-/
import Gotlcp.Oracle.Common
import Gotlcp.Model.RecordTxFacts
import Gotlcp.Model.RecordRxFacts
import Gotlcp.Model.RecordRxStall
import Gotlcp.Spec.StreamSpec

namespace Gotlcp.Oracle.C06
open Gotlcp.Model
open Gotlcp.Model.RecordTx (Kind TxState factsTx)
open Gotlcp.Model.RecordRx (factsRx factsHs Rx HsRx RxErr)

def parseKind (s : String) : Option Kind :=
  if s == "none" then some .none else if s == "gcm" then some .aead else if s == "cbc" then some .cbc else none

def parseNats (s : String) : Option (List Nat) :=
  if s == "-" then some [] else (s.splitOn ",").mapM String.toNat?

def showNats (l : List Nat) : String := if l.isEmpty then "-" else ",".intercalate (l.map toString)

/-- the test pattern both sides compute: byte `i` of write `j` -/
def pattern (seed j n : Nat) : Bytes := (List.range n).map fun i => UInt8.ofNat (i * 131 + j * 17 + seed)

def writesOf (seed : Nat) (sizes : List Nat) : List Bytes :=
  (sizes.zipIdx).map fun (n, j) => pattern seed j n

/-- placeholder protection with the lengths of the real one -/
def protect (k : Kind) (p : Bytes) : Bytes :=
  let P := factsTx
  match k with
  | .none => p
  | .aead => List.replicate P.aeadExplicit 0 ++ p ++ List.replicate P.aeadOverhead 0
  | .cbc =>
    let plaintextLen := p.length + P.macSize
    let paddingLen := P.blockSize - plaintextLen % P.blockSize
    List.replicate P.blockSize 0 ++ p ++ List.replicate P.macSize 0 ++
      List.replicate paddingLen (UInt8.ofNat (paddingLen - 1))

def unprotect (k : Kind) : RecordRx.Dec := fun _ _ body =>
  let P := factsTx
  match k with
  | .none => some body
  | .aead =>
    if body.length < P.aeadExplicit + P.aeadOverhead then none
    else some ((body.drop P.aeadExplicit).take (body.length - P.aeadExplicit - P.aeadOverhead))
  | .cbc =>
    let pad := (body.getLastD 0).toNat + 1
    if body.length < P.blockSize + P.macSize + pad then none
    else some ((body.drop P.blockSize).take (body.length - P.blockSize - P.macSize - pad))

/-- a Finished message as the record layer sees it: header and `finishedVerifyLength` bytes -/
def finishedPlain : Bytes :=
  [UInt8.ofNat factsHs.typeFinished, 0, 0, UInt8.ofNat Facts.tlcp.finishedVerifyLength] ++
    List.replicate Facts.tlcp.finishedVerifyLength 0

def frame (typ : Nat) (body : Bytes) : Bytes :=
  [UInt8.ofNat typ, UInt8.ofNat (factsRx.version / 256), UInt8.ofNat factsRx.version,
   UInt8.ofNat (body.length / 256), UInt8.ofNat body.length] ++ body

/-- cut `w` into chunks whose sizes cycle through `pat` -/
partial def chunkBy (pat : List Nat) (w : Bytes) : List Bytes :=
  let pat := if pat.isEmpty || pat.any (· == 0) then [512] else pat
  let rec go (w : Bytes) (ps : List Nat) (acc : Array Bytes) : Array Bytes :=
    if w.isEmpty then acc
    else match ps with
      | [] => go w pat acc
      | n :: ps' => go (w.drop n) ps' (acc.push (w.take n))
  (go w pat #[]).toList

/-- the transport's chunks: `seg` cycled; with `last > 0` the final `last` bytes form the last chunk -/
def chunksOf (seg : List Nat) (last : Nat) (w : Bytes) : List Bytes :=
  if last == 0 || w.isEmpty then chunkBy seg w
  else
    let k := w.length - min last w.length
    chunkBy seg (w.take k) ++ [w.drop k]

def showEnd : Option RxErr → String
  | none => "ok"
  | some .eof => "eof"
  | some _ => "other"

/-- on a stalling transport the reader reports its time-outs as such -/
def showEndS : Option RxErr → String
  | some .timeout => "to"
  | e => showEnd e

/-- the stall offsets that count: increasing, inside the stream -/
def stallOffsets (offs : List Nat) (n : Nat) : List Nat :=
  (offs.foldl (fun (acc : List Nat × Nat) k => if k > acc.2 && k < n then (acc.1 ++ [k], k) else acc) ([], 0)).1

/-- the stream cut at the stall offsets, every piece chunked by `seg` -/
def stallSegments (seg : List Nat) (offs : List Nat) (w : Bytes) : List (List Bytes) :=
  let rec go (prev : Nat) : List Nat → List (List Bytes)
    | [] => [chunkBy seg (w.drop prev)]
    | k :: ks => chunkBy seg ((w.take k).drop prev) :: go k ks
  go 0 (stallOffsets offs w.length)

/-- `readLoop` on a stalling transport: after a time-out the reader extends its deadline and reads on -/
partial def readLoopS (dec : RecordRx.Dec) (bufs : List Nat) (cap : Nat) (t : RecordRx.Stalled) :
    Array (Bytes × Option RxErr) :=
  let bufs := if bufs.isEmpty then [1024] else bufs
  let rec go (t : RecordRx.Stalled) (bs : List Nat) (left : Nat) (extra : Bool) (acc : Array (Bytes × Option RxErr)) :
      Array (Bytes × Option RxErr) :=
    if left == 0 then acc
    else match bs with
      | [] => go t bufs left extra acc
      | n :: bs' =>
        let r := t.read factsRx dec n
        let acc := acc.push (r.1, r.2.1)
        if r.2.1 == some .timeout then go r.2.2.extend bs' (left - 1) extra acc
        else if r.2.1.isSome then (if extra then acc else go r.2.2 bs' (left - 1) true acc)
        else go r.2.2 bs' (left - 1) extra acc
  go t bufs cap false #[]

/-- reads cycling through `bufs` until the first error, then one more; bounded by `cap` -/
partial def readLoop (dec : RecordRx.Dec) (bufs : List Nat) (cap : Nat) (s : Rx) :
    Array (Bytes × Option RxErr) :=
  let bufs := if bufs.isEmpty then [1024] else bufs
  let rec go (s : Rx) (bs : List Nat) (left : Nat) (extra : Bool) (acc : Array (Bytes × Option RxErr)) :
      Array (Bytes × Option RxErr) :=
    if left == 0 then acc
    else match bs with
      | [] => go s bufs left extra acc
      | n :: bs' =>
        let r := RecordRx.connRead factsRx dec s n
        let acc := acc.push (r.1, r.2.1)
        if r.2.1.isSome then (if extra then acc else go r.2.2 bs' (left - 1) true acc)
        else go r.2.2 bs' (left - 1) extra acc
  go s bufs cap false #[]

def readCap (total : Nat) : Nat := 4 * total + 20

def parseInt (s : String) : Option Int :=
  if s.startsWith "-" then (String.ofList (s.toList.drop 1)).toNat?.map (fun n => -(n : Int)) else s.toNat?.map Int.ofNat

def parseInts (s : String) : Option (List Int) :=
  if s == "-" then some [] else (s.splitOn ",").mapM parseInt

def specMode : Kind → Spec.Stream.Mode
  | .none => .plain
  | .aead => .gcm
  | .cbc => .cbc

def judgeMps (ct : List String) (o : String) : Option Verdict := do
  let k ← (kv ct "kind").bind parseKind
  let dyn ← kvNat ct "dyn"
  let app ← kvNat ct "app"
  let bs ← kvNat ct "bs"
  let ps ← kvNat ct "ps"
  let n ← kvNat ct "k"
  let rec go (i : Nat) (s : TxState) (acc : List Int) : List Int × TxState :=
    match i with
    | 0 => (acc.reverse, s)
    | i + 1 =>
      let r := RecordTx.maxPayload factsTx (dyn == 0) k (app == 1) s
      go i r.2 (r.1 :: acc)
  let r := go n ⟨bs, ps⟩ []
  let mp := if r.1.isEmpty then "-" else ",".intercalate (r.1.map toString)
  -- spec, on what the implementation answered: progress and the plaintext limit
  let spec := match (kv (tokens o) "mp").bind parseInts with
    | some obs => Spec.Stream.checkMaxPayload obs
    | none => some ("shape", "unparseable mp")
  pure { model := s!"mp={mp} ps={r.2.packetsSent}", spec := spec, trivial := n == 0 }

def parseReads (s : String) : Option (List (Nat × Spec.Stream.REnd)) :=
  if s == "-" then some [] else
  (s.splitOn ",").mapM fun t =>
    match t.splitOn "/" with
    | [a, e] => a.toNat?.map fun n => (n, if e == "ok" then .ok else if e == "eof" then .eof else if e == "to" then .timeout else .other)
    | _ => none

/-- cut `data` into pieces of the given lengths -/
def cutBy : List Nat → Bytes → List Bytes
  | [], _ => []
  | n :: ns, d => d.take n :: cutBy ns (d.drop n)

/-- one direction of a connection as the model predicts it -/
structure DirModel where
  hs : String := "-"
  finLen : Nat := 0
  n : String
  recs : String
  pl : String
  reads : String
  data : String

/-- the model's prediction for one direction: the writer (mode `k`, counters `bs`/`ps`) makes the
writes `ws` and closes (`close`); its byte stream — behind the last handshake flight when `gate` —
reaches the reader's transport cut by `seg`/`last`, the end reported with the last chunk when
`eof`; the reader, whose receive half is prepared by `prep` (identity, or `CloseWrite` before it
reads), reads with `bufs`.  `none` = the sender model is stuck. -/
def predictDir (k : Kind) (dyn : Nat) (bs ps : Nat) (ws : List Bytes) (close : Nat)
    (seg : List Nat) (last : Nat) (eof : Bool) (bufs : List Nat) (total : Nat) (gate : Bool)
    (prep : Rx → Rx) (plKnown : Bool) (stalls : Option (List Nat) := none) : Option DirModel :=
  match RecordTx.writes factsTx (dyn == 0) k ⟨bs, ps⟩ ws with
  | none => none
  | some (recs, ns, _) =>
    let bodies := recs.map (protect k)
    let alertBody := protect k [UInt8.ofNat factsRx.levelWarning, UInt8.ofNat factsRx.alertCloseNotify]
    let wire := (bodies.map (frame factsRx.typeAppData)).flatten ++
      (if close == 1 then frame factsRx.typeAlert alertBody else [])
    let bodies := if close == 1 then bodies ++ [alertBody] else bodies
    -- gate=1: the reader is still in its handshake; the peer's ChangeCipherSpec and Finished
    -- (placeholder verify data, placeholder protection of the right length) come first
    let finBody := protect k (finishedPlain)
    let flight := frame factsRx.typeCCS [1] ++ frame factsRx.typeHandshake finBody
    let chunks := chunksOf seg last (if gate then flight ++ wire else wire)
    let io : RecordRx.Raw := { raw := [], chunks := chunks, eofWithLast := eof }
    let (hs, start) : String × Rx :=
      if gate then
        match RecordRx.readLastFlight factsRx factsHs (unprotect k) (fun _ => true) { io := io } with
        | (e, s1) => (showEnd e, RecordRx.finishHandshake s1)
      else ("-", { io := io })
    let outs := match stalls with
      | none => (readLoop (unprotect k) bufs (readCap total) (prep start)).toList
      | some offs => (readLoopS (unprotect k) bufs (readCap total) (RecordRx.Stalled.start (stallSegments seg offs wire) eof)).toList
    let shw := if stalls.isSome then showEndS else showEnd
    let rd := if outs.isEmpty then "-" else ",".intercalate (outs.map fun (x : Bytes × Option RxErr) => s!"{x.1.length}/{shw x.2}")
    some { hs := hs, finLen := finBody.length, n := showNats ns, recs := showNats (bodies.map (·.length)),
           pl := if plKnown then showNats (recs.map (·.length)) else "?", reads := rd,
           data := Hex.encode (outs.map (·.1)).flatten }

/-- the spec on one direction as observed (`sfx` = "" or "2": which observation keys) -/
def specDir (ot : List String) (sfx : String) (ws : List Bytes) (k : Kind) (close : Nat) (stalls : Nat := 0) : Option (String × String) :=
  match (kv ot ("n" ++ sfx)).bind parseNats, (kv ot ("recs" ++ sfx)).bind parseNats, kv ot ("pl" ++ sfx),
      (kv ot ("reads" ++ sfx)).bind parseReads, kvHex ot ("data" ++ sfx) with
  | some ns, some recs, some pl, some rds, some data =>
    if (rds.map (·.1)).foldl (· + ·) 0 != data.length then some ("shape", "reads and data disagree") else
    let wireLens := if close == 1 && !recs.isEmpty then recs.dropLast else recs
    let plain := if pl == "?" then some none else (parseNats pl).map some
    match plain with
    | none => some ("shape", "unparseable pl")
    | some plain =>
      Spec.Stream.check { writes := ws, returned := ns, mode := specMode k, wireLens := wireLens, plainLens := plain,
                          reads := (cutBy (rds.map (·.1)) data).zip (rds.map (·.2)), stalls := stalls }
  | _, _, _, _, _ => some ("shape", "unparseable observation")

def judgeStream (ct : List String) (o : String) : Option Verdict := do
  let ot := tokens o
  let k ← (kv ct "kind").bind parseKind
  let dyn ← kvNat ct "dyn"
  let sizes ← (kv ct "w").bind parseNats
  let seed ← kvNat ct "seed"
  let close ← kvNat ct "close"
  let seg ← (kv ct "seg").bind parseNats
  let bufs ← (kv ct "bufs").bind parseNats
  let eof := (kvNat ct "eof") == some 1
  let last := (kvNat ct "last").getD 0
  let hc := (kvNat ct "hc") == some 1
  -- a half-closing writer always ends its direction with CloseWrite
  let close := if hc then 1 else close
  -- the sender's counters: given, or (real handshake) observed
  let bs ← (kvNat ot "bs0").orElse (fun _ => kvNat ct "bs")
  let ps ← (kvNat ot "ps0").orElse (fun _ => kvNat ct "ps")
  let pre := match kvNat ot "bs0", kvNat ot "ps0" with
    | some a, some b => s!"bs0={a} ps0={b} "
    | _, _ => ""
  let ws := writesOf seed sizes
  let total := (sizes.foldl (· + ·) 0)
  let e2e := (kv ct "ph") == some "e2e"
  let gate := e2e && (kvNat ct "gate") == some 1
  -- half-close: the response direction
  let sizes2 := if hc then ((kv ct "w2").bind parseNats).getD [] else []
  let seg2 := ((kv ct "seg2").bind parseNats).getD seg
  let bufs2 := ((kv ct "bufs2").bind parseNats).getD bufs
  let ws2 := writesOf (seed + 1) sizes2
  let total2 := (sizes2.foldl (· + ·) 0)
  let bs2 := (kvNat ot "bs2").getD 0
  let ps2 := (kvNat ot "ps2").getD 0
  let pre2 := match kvNat ot "bs2", kvNat ot "ps2" with
    | some a, some b => s!"bs2={a} ps2={b} "
    | _, _ => ""
  let plKnown := (kv ot "pl") != some "?"
  -- read time-outs: only on a plain one-directional run
  let stalls : Option (List Nat) := if hc || gate || last != 0 then none else (kv ct "to").bind parseNats
  -- the spec counts the stalls of the transport from the bytes on the wire as observed
  let wireLen := (((kv ot "recs").bind parseNats).getD []).foldl (fun a n => a + n + 5) 0
  let nStalls := match stalls with
    | some offs => (stallOffsets offs wireLen).length
    | none => 0
  let model : String :=
    -- the request's transport does not end, so `eof`/`last` describe the response's when hc=1
    match predictDir k dyn bs ps ws close seg (if hc then 0 else last) (eof && !hc) bufs total gate id plKnown stalls with
    | none => "stuck"
    | some d =>
      let pre := if e2e then s!"{pre}pre={if gate then showNats [1, d.finLen] else "-"} hs={d.hs} " else pre
      let first := s!"{pre}n={d.n} recs={d.recs} pl={d.pl} reads={d.reads} data={d.data}"
      if !hc then first else
      -- the half-closed side has called CloseWrite before it reads the response
      let prep : Rx → Rx := fun rx => (RecordDuplex.closeWrite RecordRx.factsDuplex { rx := rx }).2.rx
      match predictDir k dyn bs2 ps2 ws2 1 seg2 last eof bufs2 total2 false prep ((kv ot "pl2") != some "?") with
      | none => first ++ " stuck"
      | some d2 => s!"{first} {pre2}n2={d2.n} recs2={d2.recs} pl2={d2.pl} reads2={d2.reads} data2={d2.data}"
  -- spec on the observation
  let spec : Option (String × String) :=
    if (kv ot "panic").isSome then some ("panic", "the record layer panicked on an honest stream") else
    if (kv ot "handshake").isSome then some ("handshake", "the honest handshake before the stream failed") else
    if gate && (kv ot "hs") != some "ok" then
      some ("handshake", "the reader's handshake failed on an honest last flight that arrived together with application data") else
    match specDir ot "" ws k close nStalls with
    | some f => some f
    | none =>
      if !hc then none else
      -- the other direction of the same connection, after the first was shut down: same property
      match specDir ot "2" ws2 k 1 with
      | some (tag, why) => some (tag, "in the direction that is still open after this side's CloseWrite: " ++ why)
      | none => none
  pure { model := model, spec := spec, trivial := total + total2 == 0 }

def judge (c o : String) : Option Verdict := do
  let ct := tokens c
  let ph ← kv ct "ph"
  if ph == "mps" then judgeMps ct o
  else if ph == "loop" || ph == "e2e" then judgeStream ct o
  else none

end Gotlcp.Oracle.C06

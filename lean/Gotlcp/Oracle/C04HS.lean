/-
Oracle for the real-handshake cases of C04 (layer 2).

case     : op=hs stack suite auth resume nc ns pmtu seed rshort msz
           master smaster pre c2s s2c sentc sents crng srng   (captured by the driver; crng/srng =
           everything each side's Config.Rand handed out when rshort > 0)
observed : ok=1 resumed=<0|1> cfin=<12 bytes> sfin=<12 bytes>     (what the client Conn stored)

From the captured wire bytes alone the oracle splits records, reassembles the handshake
messages of both directions (TLCP: 4-byte headers over the record stream; DTLCP: 12-byte
headers, fragments re-joined and hashed in unfragmented form, the cookie-less ClientHello and
HelloVerifyRequest excluded as in RFC 6347 4.2.1), reads randoms and suite from the hellos,
re-derives master secret (when the pre-master secret is known), key block and both Finished
values with the Lean-native primitives, and opens every protected record of each direction
under that direction's write key with the expected sequence number (TLCP: implicit, counted
from the ChangeCipherSpec; DTLCP: epoch 1, explicit, counted per record).
-/
import Gotlcp.Oracle.C04

namespace Gotlcp.Oracle.C04HS
open Gotlcp.Crypto
open Gotlcp.Oracle.C04
open Gotlcp.Spec.KeySchedule

abbrev Fail := String × String

structure WireRec where
  p : Parsed
  raw : Bytes

def splitRecords (st : Stack) : Nat → Bytes → List WireRec → Except Fail (List WireRec)
  | 0, _, acc => .ok acc.reverse
  | fuel+1, wire, acc =>
    if wire.isEmpty then .ok acc.reverse else
    match parse st wire with
    | none => .error ("hs-shape", s!"wire bytes do not split into records ({wire.length} bytes left)")
    | some (p, rest) => splitRecords st fuel rest (⟨p, wire.take (wire.length - rest.length)⟩ :: acc)

/-- a handshake message in transcript form -/
structure Msg where
  typ : Nat
  /-- the bytes that are hashed: header ‖ body (DTLCP: unfragmented 12-byte header) -/
  full : Bytes
  body : Bytes
  /-- DTLCP message_seq (0 for TLCP) -/
  mseq : Nat := 0

/-- TLCP: cut a handshake byte stream into messages -/
def cutTLCP : Nat → Bytes → List Msg → Except Fail (List Msg)
  | 0, _, acc => .ok acc.reverse
  | fuel+1, s, acc =>
    if s.isEmpty then .ok acc.reverse else
    if s.length < 4 then .error ("hs-shape", "truncated handshake header") else
    let n := fromBE ((s.drop 1).take 3)
    if s.length < 4 + n then .error ("hs-shape", "truncated handshake message") else
    cutTLCP fuel (s.drop (4 + n)) (⟨fromBE (s.take 1), s.take (4 + n), (s.drop 4).take n, 0⟩ :: acc)

/-- DTLCP reassembly state of one direction: finished messages (reversed), next message_seq,
and the partial message (type, total, body so far) -/
structure Reasm where
  done : List Msg := []
  next : Nat := 0
  cur : Option (Nat × Nat × Bytes) := none

def dtlcpHeader (typ total msgSeq : Nat) : Bytes :=
  be 1 typ ++ be 3 total ++ be 2 msgSeq ++ be 3 0 ++ be 3 total

/-- feed the payload of one handshake record (one or more fragments) -/
def feedDTLCP : Nat → Reasm → Bytes → Except Fail Reasm
  | 0, r, _ => .ok r
  | fuel+1, r, s =>
    if s.isEmpty then .ok r else
    if s.length < 12 then .error ("hs-shape", "truncated DTLCP handshake header") else
    let typ := fromBE (s.take 1)
    let total := fromBE ((s.drop 1).take 3)
    let mseq := fromBE ((s.drop 4).take 2)
    let off := fromBE ((s.drop 6).take 3)
    let flen := fromBE ((s.drop 9).take 3)
    if s.length < 12 + flen then .error ("hs-shape", "truncated DTLCP handshake fragment") else
    let frag := (s.drop 12).take flen
    let rest := s.drop (12 + flen)
    if mseq < r.next then feedDTLCP fuel r rest            -- retransmission of a finished message
    else if mseq > r.next then .error ("hs-shape", s!"handshake message_seq {mseq} before {r.next}")
    else
      let (t0, tot0, sofar) := r.cur.getD (typ, total, [])
      if t0 != typ || tot0 != total then .error ("hs-shape", "fragments of one message disagree on type/length") else
      if off > sofar.length then .error ("hs-shape", s!"gap in fragments of message_seq {mseq}") else
      let sofar' := if off + flen > sofar.length then sofar ++ frag.drop (sofar.length - off) else sofar
      if sofar'.length ≥ total then
        let body := sofar'.take total
        feedDTLCP fuel { done := ⟨typ, dtlcpHeader typ total mseq ++ body, body, mseq⟩ :: r.done, next := mseq + 1, cur := none } rest
      else feedDTLCP fuel { r with cur := some (typ, total, sofar') } rest

/-- everything learned from one direction of the capture -/
structure DirView where
  /-- handshake messages sent in the clear, in order -/
  plain : List Msg
  /-- records after this direction's ChangeCipherSpec, with their expected sequence numbers -/
  prot : List (Nat × WireRec)
  sawCCS : Bool

/-- pass 1: plaintext handshake messages, and the protected records with expected seq -/
def viewDir (st : Stack) (recs : List WireRec) : Except Fail DirView := do
  match st with
  | .tlcp =>
    let pre := recs.takeWhile (fun r => r.p.typ != 20)
    let post := (recs.dropWhile (fun r => r.p.typ != 20)).drop 1
    let stream := (pre.filter (fun r => r.p.typ == 22)).foldl (fun acc r => acc ++ r.p.body) []
    let msgs ← cutTLCP (stream.length + 1) stream []
    let idx := (List.range post.length).zip post
    pure ⟨msgs, idx, pre.length < recs.length⟩
  | .dtlcp =>
    let e0 := recs.filter (fun r => r.p.epoch == 0)
    -- a byte-identical copy of an earlier protected record is a retransmission of stored flight
    -- bytes (the server's dwell period re-sends its last flight verbatim), not another sealing
    let e1 := (recs.filter (fun r => r.p.epoch != 0)).foldl
      (fun (acc : List WireRec) r => if acc.any (fun x => x.raw == r.raw) then acc else acc ++ [r]) []
    let r ← (e0.filter (fun r => r.p.typ == 22)).foldlM (fun acc r => feedDTLCP (r.p.body.length + 1) acc r.p.body) ({} : Reasm)
    if r.cur.isSome then throw ("hs-shape", "incomplete handshake message in the capture")
    pure ⟨r.done.reverse, (List.range e1.length).zip e1, e0.any (fun r => r.p.typ == 20)⟩

structure Hello where
  random : Bytes
  sessionId : Bytes
  /-- ServerHello only -/
  suite : Nat

def parseHello (isServer : Bool) (body : Bytes) : Option Hello :=
  if body.length < 35 then none else
  let random := (body.drop 2).take 32
  let sl := fromBE ((body.drop 34).take 1)
  let sid := (body.drop 35).take sl
  let suite := if isServer then fromBE ((body.drop (35 + sl)).take 2) else 0
  some ⟨random, sid, suite⟩

/-- opened protected records of one direction -/
structure Opened where
  hs : List Msg
  app : Bytes
  alerts : List Bytes
  explicit : List Bytes

def openDir (st : Stack) (m : Mode) (k : DirKeys) (ver : Nat) (who : String) (startSeq : Nat) (prot : List (Nat × WireRec)) :
    Except Fail Opened := do
  let mut hsStream : Bytes := []
  let mut reasm : Reasm := { next := startSeq }
  let mut app : Bytes := []
  let mut alerts : List Bytes := []
  let mut seen : List Bytes := []
  for (i, r) in prot do
    let epoch := match st with | .tlcp => 0 | .dtlcp => 1
    if r.p.ver != ver then throw ("record-header", s!"{who} record {i} after CCS carries version {r.p.ver}")
    -- the per-record explicit IV / nonce must never repeat under one key, whatever else is wrong
    let ex := explicitPart m r.p.body
    if seen.contains ex then
      throw ("nonce-reuse", s!"{who} record {i}: explicit IV/nonce {hex ex} used twice under one key (first by record {seen.length - 1 - (seen.idxOf ex)})")
    if st == .dtlcp && (r.p.epoch != 1 || r.p.seq != i) then
      throw ("seq-state", s!"{who} record {i} after CCS carries epoch {r.p.epoch} seq {r.p.seq}, expected 1/{i}")
    match openBody sm m k st r.p.typ r.p.ver epoch i r.p.body with
    | .error e =>
      -- re-use the single-record diagnosis
      match specRecord m k st r.p.typ r.p.ver epoch i [] r.p r.raw with
      | .error (t, why) => throw (if t == "record-open" then t else "record-open", s!"{who} {why}")
      | .ok _ => throw ("record-open", s!"{who} record {i}: {e}")
    | .ok content =>
      seen := ex :: seen
      -- byte-exactness against the standard's sealing with the same explicit part
      if sealRecord sm m k st r.p.typ r.p.ver epoch i ex content != r.raw then
        throw ("record-bytes", s!"{who} record {i} is not the standard's sealing of its content")
      if r.p.typ == 22 then
        match st with
        | .tlcp => hsStream := hsStream ++ content
        | .dtlcp =>
          -- accept the message_seq the sender chose (judged separately, see `check`)
          let r0 := if reasm.cur.isNone && content.length ≥ 6 then { reasm with next := fromBE ((content.drop 4).take 2) } else reasm
          reasm ← feedDTLCP (content.length + 1) r0 content
      else if r.p.typ == 23 then app := app ++ content
      else if r.p.typ == 21 then alerts := alerts ++ [content]
      else throw ("hs-shape", s!"{who} protected record of type {r.p.typ}")
  let hs ← match st with
    | .tlcp => cutTLCP (hsStream.length + 1) hsStream []
    | .dtlcp => pure reasm.done.reverse
  pure ⟨hs, app, alerts, seen⟩

/-- when the first protected record of a direction does not open, try the classic symmetric
mistakes and name the one that explains it -/
def explainKeys (st : Stack) (sp : SuiteParams) (master crnd srnd : Bytes) (r : Role) (first : Option (Nat × WireRec)) : String :=
  match first with
  | none => ""
  | some (i, w) =>
    let epoch := match st with | .tlcp => 0 | .dtlcp => 1
    let kb := keyBlock sm sp master crnd srnd
    let kbSeed := keyBlock sm sp master srnd crnd
    let kbLabel := cut sp (prf sm master labelMaster (srnd ++ crnd) (keyBlockLen sp))
    let own := writeKeys kb r
    let other := writeKeys kb (peer r)
    -- only when the FIRST protected record itself does not open under the direction's own keys
    -- (otherwise the keys are right and the failure lies with a later record)
    if (match openBody sm sp.mode own st w.p.typ w.p.ver epoch i w.p.body with | .ok _ => true | .error _ => false) then "" else
    let alts : List (String × DirKeys) :=
      [("it opens under the PEER's write keys: client and server keys are exchanged", other),
       ("it opens when the key block is expanded with seed client_random+server_random", writeKeys kbSeed r),
       ("it opens when the key block is expanded with the label 'master secret'", writeKeys kbLabel r),
       ("it opens with the peer's write_key slice (key slices cut in another order)", { own with key := other.key }),
       ("it opens with the peer's MAC slice (MAC slices cut in another order)", { own with mac := other.mac }),
       ("it opens with the peer's write IV slice (IV slices cut in another order)", { own with iv := other.iv })]
    match alts.find? (fun a => match openBody sm sp.mode a.2 st w.p.typ w.p.ver epoch i w.p.body with | .ok _ => true | .error _ => false) with
    | some (why, _) => "; " ++ why
    | none => ""

/-- find `needle` in `hay` scanning forward; the rest of `hay` after the match -/
def consume (needle : Bytes) : Nat → Bytes → Option Bytes
  | 0, _ => none
  | fuel+1, hay =>
    if hay.isEmpty then none
    else if needle.isPrefixOf hay then some (hay.drop needle.length)
    else consume needle fuel hay.tail

/-- every explicit CBC IV of a direction, in wire order, is a run of bytes the sender's random
source produced, at increasing positions (the driver recorded everything the source handed out) -/
def ivsFromRng (who : String) (rng : Bytes) : List Bytes → Except Fail Unit
  | [] => .ok ()
  | iv :: rest =>
    match consume iv (rng.length + 1) rng with
    | none => .error ("iv-not-rng", s!"{who} explicit IV {hex iv} is not a run of bytes its random source produced (stale or predictable IV)")
    | some rng' => ivsFromRng who rng' rest

def flat (ms : List Msg) : Bytes := ms.foldl (fun acc m => acc ++ m.full) []

structure Derived where
  sp : SuiteParams
  /-- client write keys and the client's protected records with their expected sequence numbers -/
  ckeys : DirKeys
  cprot : List (Nat × WireRec)
  /-- the same for the server -/
  skeys : DirKeys
  sprot : List (Nat × WireRec)
  resumed : Bool
  cfinSpec : Bytes
  sfinSpec : Bytes
  cfinModel : Bytes
  sfinModel : Bytes

/-- what both directions of a capture say before any record is opened: the plaintext handshake
messages, the protected records with their expected sequence numbers, randoms, suite, key block -/
structure Basis where
  sp : SuiteParams
  kb : KeyBlock
  cv : DirView
  sv : DirView
  cplain : List Msg
  splain : List Msg
  ch : Msg
  chello : Hello
  shello : Hello

def basis (st : Stack) (suiteId : Nat) (master smaster pre c2s s2c : Bytes) : Except Fail Basis := do
  let cr ← splitRecords st (c2s.length + 1) c2s []
  let sr ← splitRecords st (s2c.length + 1) s2c []
  let cv ← viewDir st cr
  let sv ← viewDir st sr
  if !cv.sawCCS || !sv.sawCCS then throw ("hs-shape", "a direction never sent ChangeCipherSpec")
  -- DTLCP: the transcript starts at the last ClientHello; HelloVerifyRequest is not part of it
  let cplain : List Msg := match st with
    | .tlcp => cv.plain
    | .dtlcp =>
      let nCH := (cv.plain.filter (fun (m : Msg) => m.typ == 1)).length
      cv.plain.drop (nCH - 1)
  let splain : List Msg := sv.plain.filter (fun m => !(st == .dtlcp && m.typ == 3))
  let ch : Msg ← match cplain.head? with
    | some m => if m.typ == 1 then pure m else throw ("hs-shape", "first client message is not ClientHello")
    | none => throw ("hs-shape", "no ClientHello")
  let sh : Msg ← match splain.head? with
    | some m => if m.typ == 2 then pure m else throw ("hs-shape", "first server message is not ServerHello")
    | none => throw ("hs-shape", "no ServerHello")
  let chello ← (parseHello false ch.body).elim (throw ("hs-shape", "ClientHello too short")) pure
  let shello ← (parseHello true sh.body).elim (throw ("hs-shape", "ServerHello too short")) pure
  if shello.suite != suiteId then throw ("hs-shape", s!"ServerHello selects suite {shello.suite}, configured {suiteId}")
  let sp ← (suite suiteId).elim (throw ("hs-shape", s!"suite {suiteId} is not a GB/T 38636 SM2 suite")) pure
  if master.length != 48 then throw ("master", s!"cached master secret has {master.length} bytes")
  if smaster != master then throw ("master", "client and server cache entries hold different master secrets")
  -- master secret from the pre-master secret (full handshakes; ECC: the driver opened the
  -- ClientKeyExchange with the real SM2; ECDHE: the agreed value computed by the driver's own
  -- key-agreement module, outside the library)
  if !pre.isEmpty then
    if !preMasterWellFormed suiteId pre then
      throw ("premaster", if isECDHE suiteId then s!"the SM2 key agreement produced {pre.length} bytes, the standard's pre-master secret has 48"
        else s!"pre-master secret is {pre.length} bytes starting {hex (pre.take 2)}, expected 48 bytes starting with the client version 0101")
    match specMaster pre chello.random shello.random master with
    | some (t, why) =>
      -- name the classic deviation for agreed values with leading zero bytes
      let z := (pre.takeWhile (· == 0)).length
      let stripped := pre.drop z
      let extra :=
        if z > 0 && masterSecret sm stripped chello.random shello.random == master then
          s!"; it IS the PRF of the agreed value with its {z} leading zero byte(s) removed ({stripped.length} bytes): the standard uses all 48 bytes"
        else if z > 0 then s!" (the agreed value starts with {z} zero byte(s))" else ""
      throw (t, why ++ extra)
    | none => pure ()
  pure ⟨sp, keyBlock sm sp master chello.random shello.random, cv, sv, cplain, splain, ch, chello, shello⟩

/-- the whole check; `.error` is a property failure -/
def check (mst : MStack) (st : Stack) (suiteId : Nat) (master smaster pre c2s s2c sentc sents crng srng : Bytes)
    (obsC obsS : Option Bytes) (appPrefix : Bool := false) : Except Fail (Derived × Option Fail) := do
  let S := Model.KeySchedule.srcOf mst
  let ⟨sp, _, cv, sv, cplain, splain, ch, chello, shello⟩ ← basis st suiteId master smaster pre c2s s2c
  let kb := keyBlock sm sp master chello.random shello.random
  let resumed := splain.length == 1
  let startC := cv.plain.length        -- next message_seq of each side (DTLCP)
  let startS := sv.plain.length
  let co ← match openDir st sp.mode (writeKeys kb .client) 0x0101 "client->server" startC cv.prot with
    | .ok o => pure o
    | .error (t, why) => throw (t, why ++ (if t == "record-open" then explainKeys st sp master chello.random shello.random .client cv.prot.head? else ""))
  let so ← match openDir st sp.mode (writeKeys kb .server) 0x0101 "server->client" startS sv.prot with
    | .ok o => pure o
    | .error (t, why) => throw (t, why ++ (if t == "record-open" then explainKeys st sp master chello.random shello.random .server sv.prot.head? else ""))
  -- (a DTLCP flight may be retransmitted: identical copies of the Finished are one message)
  if sp.mode == .cbc && !crng.isEmpty then
    match ivsFromRng "client->server" crng co.explicit.reverse with
    | .error f => throw f
    | .ok _ => pure ()
  if sp.mode == .cbc && !srng.isEmpty then
    match ivsFromRng "server->client" srng so.explicit.reverse with
    | .error f => throw f
    | .ok _ => pure ()
  let cfinMsg ← match co.hs with
    | m :: rest =>
      if !rest.all (fun (x : Msg) => x.full == m.full) then throw ("hs-shape", s!"client sent {rest.length + 1} different protected handshake messages, expected one Finished")
      else if m.typ == 20 && m.body.length == 12 then pure m else throw ("hs-shape", "client's protected handshake message is not a 12-byte Finished")
    | [] => throw ("hs-shape", "client sent no protected Finished")
  let sfinMsg ← match so.hs with
    | m :: rest =>
      if !rest.all (fun (x : Msg) => x.full == m.full) then throw ("hs-shape", s!"server sent {rest.length + 1} different protected handshake messages, expected one Finished")
      else if m.typ == 20 && m.body.length == 12 then pure m else throw ("hs-shape", "server's protected handshake message is not a 12-byte Finished")
    | [] => throw ("hs-shape", "server sent no protected Finished")
  -- transcripts
  let base := ch.full ++ flat splain ++ flat (cplain.drop 1)
  let (trC, trS) := if resumed then (base ++ sfinMsg.full, base) else (base, base ++ cfinMsg.full)
  let cfinSpec := verifyData sm master .client trC
  let sfinSpec := verifyData sm master .server trS
  if cfinMsg.body != cfinSpec then
    throw ((specFinished master trC cfinMsg.body (verifyData sm master .server trC)).getD
      ("finished", "client Finished on the wire is not PRF(master,'client finished',SM3(handshake messages))[0..12]"))
  if sfinMsg.body != sfinSpec then
    throw ("finished", "server Finished on the wire is not PRF(master,'server finished',SM3(handshake messages))[0..12]")
  match obsC, obsS with
  | some c, some s =>
    if c != cfinSpec || s != sfinSpec then throw ("finished", "verify_data stored by the connection differs from the standard's")
  | _, _ => pure ()
  -- application data of each direction is exactly what was written
  -- (`appPrefix`: a write was cut short by a transport fault — the records carry a prefix of what the
  -- application handed over)
  let sameApp (got want : Bytes) : Bool := if appPrefix then got.isPrefixOf want else got == want
  if !sameApp co.app sentc then throw ("appdata", s!"client->server records carry {co.app.length} bytes, {sentc.length} were written (first difference at {firstDiff co.app sentc})")
  if !sameApp so.app sents then throw ("appdata", s!"server->client records carry {so.app.length} bytes, {sents.length} were written (first difference at {firstDiff so.app sents})")
  -- DTLCP numbers handshake messages consecutively per sender (RFC 6347 4.2.2); the Finished
  -- messages continue the numbering of the flights sent in the clear
  let soft : Option Fail :=
    if st == .dtlcp && cfinMsg.mseq != startC then
      some ("msgseq", s!"client Finished carries message_seq {cfinMsg.mseq}; its {startC} earlier messages were numbered 0..{startC - 1}")
    else if st == .dtlcp && sfinMsg.mseq != startS then
      some ("msgseq", s!"server Finished carries message_seq {sfinMsg.mseq}; its {startS} earlier messages were numbered 0..{startS - 1}")
    else none
  pure (⟨sp, writeKeys kb .client, cv.prot, writeKeys kb .server, sv.prot, resumed, cfinSpec, sfinSpec,
    Model.KeySchedule.clientSum sm S master trC, Model.KeySchedule.serverSum sm S master trS⟩, soft)

def judgeHS (ct ot : List String) : Option Verdict := do
  let (mst, st) ← (kv ct "stack").bind parseStack
  let suiteId ← kvNat ct "suite"
  let resume ← kvNat ct "resume"
  match kvHex ct "c2s", kvHex ct "s2c" with
  | some c2s, some s2c =>
    let master ← kvHex ct "master"
    let smaster ← kvHex ct "smaster"
    let pre ← kvHex ct "pre"
    let sentc ← kvHex ct "sentc"
    let sents ← kvHex ct "sents"
    let crng := (kvHex ct "crng").getD []
    let srng := (kvHex ct "srng").getD []
    match check mst st suiteId master smaster pre c2s s2c sentc sents crng srng (kvHex ot "cfin") (kvHex ot "sfin") with
    | .ok (d, soft) =>
      let b (x : Bool) := if x then 1 else 0
      let z := (pre.takeWhile (· == 0)).length
      let note := s!"{if d.resumed then "resumed" else "full"}{if pre.isEmpty then "" else if Spec.KeySchedule.isECDHE suiteId then "+agreed" else "+premaster"}{if z > 0 then s!"+lead0x{z}" else ""}{if crng.isEmpty then "" else "+shortrng"}"
      let spec := if d.resumed != (resume == 1) then some ("hs-shape", s!"resume={resume} requested but the wire shows resumed={b d.resumed}") else soft
      pure { model := s!"ok=1 resumed={b d.resumed} cfin={hex d.cfinModel} sfin={hex d.sfinModel}", spec := spec, note := note }
    | .error f =>
      pure { model := s!"ok=1 resumed={resume} cfin=? sfin=?", spec := some f }
  | _, _ =>
    -- the handshake did not complete: nothing was captured
    pure { model := s!"ok=1 resumed={resume} cfin=? sfin=?", spec := some ("incomplete", "an honest handshake did not complete") }

/-! ### layer 3: what the real receive paths accept (op=rx) -/

def hexList (l : List Bytes) : String := if l.isEmpty then "-" else ",".intercalate (l.map hex)

/-- case: the hs capture tokens plus `t` (the record put in front of the receiver: a genuine
record with one header field rewritten, or untouched), `brec` (the genuine record held back),
`b c d` (payloads).  observed: `got=<payloads in delivery order> end=d|timeout|err`. -/
def judgeRX (ct ot : List String) : Option Verdict := do
  let (mst, st) ← (kv ct "stack").bind parseStack
  let suiteId ← kvNat ct "suite"
  match kvHex ct "c2s", kvHex ct "s2c" with
  | some c2s, some s2c =>
    let master ← kvHex ct "master"
    let smaster ← kvHex ct "smaster"
    let sentc ← kvHex ct "sentc"
    let t ← kvHex ct "t"
    let brec ← kvHex ct "brec"
    let b ← kvHex ct "b"
    let c ← kvHex ct "c"
    let d ← kvHex ct "d"
    let sents := (kvHex ct "sents").getD []
    -- whose receive paths are under test: the server's (the client sends) or the client's
    let fromClient := (kv ct "recv") != some "client"
    match check mst st suiteId master smaster [] c2s s2c sentc sents [] [] none none with
    | .error f => pure { model := "got=? end=?", spec := some f }
    | .ok (dv, _) =>
      let S := Model.KeySchedule.srcOf mst
      let (keys, prot) := if fromClient then (dv.ckeys, dv.cprot) else (dv.skeys, dv.sprot)
      -- position of the held-back record among the sender's protected records = its implicit seq (tlcp)
      let pos := ((prot.find? (fun x => x.2.raw == brec)).map (·.1)).getD 0
      let bp := (parse st brec).map (·.1)
      -- the standard's verdict on `t`: its receiver (`Spec.KeySchedule.receive`) under the read state
      -- the sender's ChangeCipherSpec installed — whatever `t` is (rewritten, Lean-sealed, or never
      -- protected at all) and whenever it arrives
      let specOpen : Option Bytes :=
        match receive sm st ⟨dv.sp.mode, keys, 1, pos⟩ 0x0101 t with
        | some (23, x) => some x
        | _ => none
      -- the model's verdict: the transcription of the receive path up to the record-type switch
      let ciph : Model.KeySchedule.Cipher :=
        match dv.sp.mode with
        | .gcm => .aead ⟨[], keys.key, keys.iv⟩
        | .cbc => .cbc ⟨keys.mac, keys.key, keys.iv⟩
      let modelOpen : Option Bytes :=
        match Model.KeySchedule.rxDeliver sm S mst ⟨⟨some ciph, none, be 8 pos⟩, 0x0101, 1⟩ t with
        | some (23, x) => some x
        | _ => none
      let slot : Bool :=
        match bp, (parse st t).map (·.1) with
        | some x, some y => x.epoch == y.epoch && x.seq == y.seq
        | _, _ => false
      let lateB : List Bytes := cond slot [] [b]
      let expect (o : Option Bytes) : List Bytes × String :=
        match st, o with
        | .tlcp, some x => ([x, c, d], "d")
        | .tlcp, none => ([], "err")             -- a forged record is fatal on a stream
        | .dtlcp, some x => ([x, c] ++ lateB ++ [d], "d")
        | .dtlcp, none => ([c, b, d], "d")       -- dropped silently; nothing else changes
      let (mg, me) := expect modelOpen
      let (sg, se) := expect specOpen
      let og := (kv ot "got").getD "?"
      let oe := (kv ot "end").getD "?"
      let spec : Option (String × String) :=
        if og == hexList sg && oe == se then none
        else
          let field := (kv ct "field").getD "?"
          let path := (kv ct "path").getD "?"
          let delivered := if og == "-" then [] else og.splitOn ","
          -- `pad…` fields: a CBC record sealed by the Lean side under the sender's keys with long
          -- padding (legal, or with damaged padding bytes); the other fields: a genuine record with
          -- one header field rewritten
          let what := if field.startsWith "plain" then s!"a record that was never protected ('{field}': plaintext body behind a type / version{if st == .dtlcp then " / epoch" else ""} header, {(kv ct "at").getD "app"}, receiver = {(kv ct "recv").getD "server"})"
            else if field.startsWith "pad" then s!"a CBC record with long padding ('{field}': padding bytes damaged)"
            else if field.startsWith "nonce" then s!"a GCM record with a sender-chosen explicit nonce ('{field}')"
            else s!"a record whose header field '{field}' was rewritten"
          -- the rewritten record is a copy of the held-back B (or of an older record): its content
          -- coming out first, or anything not sent at all, means the forgery was accepted
          if specOpen.isNone && (delivered.any (fun x => !(sg.map hex).contains x) || (st == .dtlcp && delivered.head? == some (hex b))) then
            some ("rx-accept", s!"{path}: {what} does not authenticate under the standard but its content was delivered")
          else if specOpen.isNone then
            some ("rx-state", s!"{path}: after rejecting {what} the genuine records were not all delivered (got {delivered.length} of {sg.length}, end={oe}): the forgery changed receiver state")
          else if field.startsWith "pad" && !(delivered.contains (hex (specOpen.getD []))) then
            some ("rx-reject", s!"{path}: a CBC record with {(kv ct "padlen").getD "?"} bytes of well-formed padding ('{field}') is valid under the standard (padding may be up to 255 bytes) but was not delivered (end={oe})")
          else if field.startsWith "nonce" && !(delivered.contains (hex (specOpen.getD []))) then
            some ("rx-reject", s!"{path}: an SM4-GCM record sealed under this direction's key for the expected epoch/sequence number whose 8-byte explicit nonce is {hex (((parse st t).map (fun x => explicitPart .gcm x.1.body)).getD [])} ('{field}': the sender's choice, not a copy of the sequence number) opens under the standard (nonce = write IV ‖ the explicit part carried in the record) but was not delivered (end={oe})")
          else some ("rx-lost", s!"{path}: genuine records were not delivered as sent (end={oe})")
      let where_ := s!"{if (kv ct "at") == some "hs" then "-hs" else ""}{if fromClient then "" else "-client"}"
      pure { model := s!"got={hexList mg} end={me}", spec := spec,
             note := (if specOpen.isSome then "rx-authentic" else if ((kv ct "field").getD "").startsWith "plain" then "rx-unprotected" else "rx-forged") ++ where_ }
  | _, _ => pure { model := "got=? end=?", spec := some ("incomplete", "the connection for the receive-path test could not be set up") }

/-! ### a failed transport write followed by another protected record (op=wf)

case     : op=wf stack suite side pre cut at next seed        (configuration, re-executable)
           master smaster pre c2s s2c sentc sents            (captured as for op=hs; the faulting
           side's stream is what it HANDED to the transport, record by record)
           fault=<offset>:<k>   of the record that starts at `offset` of the faulting side's stream
                                only the first k bytes reached the wire, then the transport
                                returned an error (k > header + explicit IV/nonce: at least one
                                protected byte is out)
observed : ok=1 werr=<1 if Write returned an error>
           tail=<the failed record and everything after it, as handed to the transport>

The standard's verdict is `check` itself, on the stream with the failed record in place: a record
whose protected bytes reached the wire has used its sequence number and its nonce, so the records
after it must open under the following numbers (DTLCP: carry them) and all explicit nonces / IVs of
the direction must be pairwise distinct.  The model's prediction: `writeOneFailed` for the failed
record, `writeOne` for those after it, on the same contents and IV bytes, each sealed under the
number the model's own state dictates (`seqConsumedOnWriteError` from the regenerated facts). -/
def judgeWF (ct ot : List String) : Option Verdict := do
  let (mst, st) ← (kv ct "stack").bind parseStack
  let suiteId ← kvNat ct "suite"
  let side ← kv ct "side"
  match kvHex ct "c2s", kvHex ct "s2c" with
  | some c2s, some s2c =>
    let master ← kvHex ct "master"
    let smaster ← kvHex ct "smaster"
    let sentc ← kvHex ct "sentc"
    let sents ← kvHex ct "sents"
    let (off, k) ← match ((kv ct "fault").getD "").splitOn ":" with
      | [a, b] => do pure ((← a.toNat?), (← b.toNat?))
      | _ => none
    match basis st suiteId master smaster [] c2s s2c with
    | .error f => pure { model := "ok=1 werr=1 tail=?", spec := some f }
    | .ok bs =>
      let S := Model.KeySchedule.srcOf mst
      let mode := bs.sp.mode
      let (keys, prot, wire) := if side == "client" then (writeKeys bs.kb .client, bs.cv.prot, c2s) else (writeKeys bs.kb .server, bs.sv.prot, s2c)
      -- the protected records of the faulting direction with their offsets in its stream
      let recs := (splitRecords st (wire.length + 1) wire []).toOption.getD []
      let offs := (recs.foldl (fun (acc : List Nat × Nat) r => (acc.1 ++ [acc.2], acc.2 + r.raw.length)) ([], 0)).1
      let isProt (r : WireRec) (i : Nat) : Bool := match st with
        | .tlcp => (recs.take i).any (fun x => x.p.typ == 20)
        | .dtlcp => r.p.epoch != 0
      let protOffs := ((recs.zip offs).zip (List.range recs.length)).filterMap fun ((r, o), i) => if isProt r i then some o else none
      match protOffs.idxOf? off with
      | none => pure { model := "ok=1 werr=1 tail=?", spec := some ("shape", s!"fault offset {off} is not the start of a protected record of the {side}") }
      | some f =>
        let tailRecs := prot.drop f
        let enl := match mode with | .cbc => 16 | .gcm => 8
        let flen := ((tailRecs.head?).map (·.2.raw.length)).getD 0
        let epoch := match st with | .tlcp => 0 | .dtlcp => 1
        let ciph : Model.KeySchedule.Cipher := match mode with
          | .gcm => .aead ⟨[], keys.key, keys.iv⟩
          | .cbc => .cbc ⟨keys.mac, keys.key, keys.iv⟩
        -- the write side as the records before the failed one left it (f records sealed since the CCS)
        let w0 : Model.KeySchedule.WriteSide := ⟨⟨some ciph, none, be 8 f⟩, epoch, f⟩
        -- The model's prediction, record by record: the content is what the record opens to under
        -- the number THE MODEL seals the next record with (`nextSealSeq` of its current state); the
        -- model then seals that content (same IV bytes) with the transport's answer for this record.
        let rec go (fuel : Nat) (w : Model.KeySchedule.WriteSide) (rs : List (Nat × WireRec)) (acc : Bytes) : Option Bytes :=
          match fuel, rs with
          | _, [] => some acc
          | 0, _ => none
          | fuel+1, (i, r) :: rest =>
            let sq := Model.KeySchedule.nextSealSeq mst w
            let (e, n) := match st with
              | .tlcp => (0, fromBE sq)
              | .dtlcp => (fromBE (sq.take 2), fromBE (sq.drop 2))
            match openBody sm mode keys st r.p.typ r.p.ver e n r.p.body with
            | .error _ => none
            | .ok content =>
              match Model.KeySchedule.writeOneT sm S mst w r.p.typ 0x0101 content (explicitPart mode r.p.body) (i != f) with
              | .ok (rec, w') => go fuel w' rest (acc ++ rec)
              | _ => none
        let modelTail : String := match go (tailRecs.length + 1) w0 tailRecs [] with
          | some b => hex b
          | none => "?"
        -- the standard's verdict: the whole capture, the failed record in its place
        let spec : Option Fail :=
          match check mst st suiteId master smaster [] c2s s2c sentc sents [] [] none none (appPrefix := true) with
          | .error e => some e
          | .ok _ =>
            if k ≤ headerLen st + enl || k > flen then
              some ("shape", s!"fault after {k} of {flen} bytes: no protected byte of the record reached the wire (not a case of this check)")
            else if (kv ot "werr") != some "1" then
              some ("shape", "the transport write failed but Write reported success")
            else if tailRecs.length < 2 then
              some ("shape", "no protected record followed the failed one (the case exercises nothing)")
            else none
        pure { model := s!"ok=1 werr=1 tail={modelTail}", spec := spec,
               note := s!"wf-{(kv ct "next").getD "?"}-{if k == flen then "full" else "partial"}" }
  | _, _ => pure { model := "ok=1 werr=1 tail=?", spec := some ("incomplete", "the connection for the write-fault test could not be set up") }

/-! ### two producers of protected records on one connection (op=cw)

case     : op=cw stack suite side second npre seed          (configuration, re-executable)
           master smaster pre c2s s2c sentc sents            (captured as for op=hs; the gated side's
           stream is what was put on the wire, in wire order)
observed : ok=1 swapped=<1 if a second producer's record reached the wire while the first one,
           already sealed, was held inside the transport>

The standard's verdict is `check` on the capture: every protected record of each direction, in wire
order, opens under that direction's key with the next sequence number (DTLCP: carries it).  The
model's prediction: `writeRecordLocked` seals and hands over a record in ONE step of the connection
state (`writeOne`: the record it returns is the one that goes out before anything else is sealed),
so nothing can overtake a sealed record — `swapped=0`. -/
def judgeCW (ct ot : List String) : Option Verdict := do
  let (mst, st) ← (kv ct "stack").bind parseStack
  let suiteId ← kvNat ct "suite"
  let second := (kv ct "second").getD "?"
  match kvHex ct "c2s", kvHex ct "s2c" with
  | some c2s, some s2c =>
    let master ← kvHex ct "master"
    let smaster ← kvHex ct "smaster"
    let sentc ← kvHex ct "sentc"
    let sents ← kvHex ct "sents"
    let spec : Option Fail :=
      match check mst st suiteId master smaster [] c2s s2c sentc sents [] [] none none with
      | .error (t, why) =>
        some (t, why ++ (if (kv ot "swapped") == some "1" then
          s!" [two producers: the record of a second producer ('{second}') was put on the wire while an earlier sealed record was still held in the transport: sealing and hand-over are not one step]" else ""))
      | .ok _ => none
    pure { model := "ok=1 swapped=0", spec := spec, note := s!"cw-{second}" }
  | _, _ => pure { model := "ok=1 swapped=0", spec := some ("incomplete", "the connection for the two-producer test could not be set up") }

def judge (c o : String) : Option Verdict :=
  let ct := tokens c
  let ot := tokens o
  if kv ct "op" == some "hs" then judgeHS ct ot
  else if kv ct "op" == some "rx" then judgeRX ct ot
  else if kv ct "op" == some "wf" then judgeWF ct ot
  else if kv ct "op" == some "cw" then judgeCW ct ot
  else judgePrim ct ot

end Gotlcp.Oracle.C04HS

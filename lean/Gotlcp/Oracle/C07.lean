/-
Oracle for C07: re-computes what the model `Gotlcp.Model.ServerAuthn` predicts for a history of
one or two connections and evaluates the spec `Gotlcp.Spec.ServerAuthn` on what the real
server reported.

case     : `stack=tlcp|dtlcp kind=full|script|hist|shist suite=<hex> pol=<Policy> [pol2=<Policy> cfg2=..] cli=<scenario>`
           (hist: two connections of a real client; shist: two connections of a SCRIPTED client — the
           second offers the session id announced in the first with the master secret the script
           derived itself, whether or not the first handshake completed)
           then per connection K ∈ {1,2} the client's behaviour as seen on the wire and the verdicts
           of the real path validation under the server's configuration:
           `K.e=0|1 K.msg=0|1 K.n=<certs> K.parse=0|1 K.c0=<okClient okClientOrServer okAny keyKind|-> K.c1=..
            (keyKind: s = SM2, p = elliptic curve other than SM2, r = RSA, x = anything else)
            K.kx=0|1 K.cv=none|<byLeafKey overTranscript> K.fin=0|1 [K.sig=0|1]`
           `K.leaf=<id>|-` (which certificate heads the list this client presented)
           and for histories `now0= now1=` (the certificates of connection 1 judged under the
           configuration of connection 2), `2.offer=0|1` (the second ClientHello carries a
           session id) and `2.mech=0|1` (the session's suite is still offered by the second
           ClientHello and supported by the second server: 0 = the resumption must be declined
           whatever the policy says; scenario tokens `suite2= decl=cli|srv cli2=`)
observed : per connection `K.srv=done|err K.resumed=0|1|- K.peers=<n>|- K.chains=0|1|-
           K.pleaf=<id>|- K.vleaf=<id>|- (PeerCertificates[0] / VerifiedChains[0][0]) K.req=0|1|-`
           and, not constrained by the property (copied; differences are notes):
           `K.cls=<error class> K.alert=<n> K.cli=ok|err`
-/
import Gotlcp.Oracle.Common
import Gotlcp.Model.ServerAuthnFacts

namespace Gotlcp.Oracle.C07
open Gotlcp.Spec.ServerAuthn Gotlcp.Model.ServerAuthn

def bit (c : Char) : Bool := c == '1'

def parseKind (c : Char) : Option KeyKind :=
  if c == 's' then some .sm2 else if c == 'p' then some .ecOther else if c == 'r' then some .rsa
  else if c == 'x' then some .other else none

def parseCert (s : String) : Option Cert :=
  match s.toList with
  | [a, b, c, d] => (parseKind d).map (fun k => ⟨bit a, bit b, bit c, k⟩)
  | _ => none

/-- a certificate nothing is known about (beyond index 1, or unparseable) -/
def filler : Cert := ⟨false, false, false, .sm2⟩

def mkCerts (n : Nat) (c0 c1 : Option Cert) : List Cert :=
  match n with
  | 0 => []
  | 1 => [c0.getD filler]
  | n + 2 => [c0.getD filler, c1.getD filler] ++ List.replicate n filler

def parseCV (s : String) : Option (Option CertVerify) :=
  if s == "none" then some none else
  match s.toList with
  | [a, b] => some (some ⟨bit a, bit b⟩)
  | _ => none

structure ConnCase where
  b : Behaviour
  sig : Option Bool
  /-- identifier of the certificate that heads the list this client presented (`-`: nothing) -/
  leaf : String := "-"

def parseConn (ct : List String) (k : String) : Option ConnCase := do
  let e ← kv ct s!"{k}.e"
  let msg ← kv ct s!"{k}.msg"
  let n ← kvNat ct s!"{k}.n"
  let parse ← kv ct s!"{k}.parse"
  let c0 ← kv ct s!"{k}.c0"
  let c1 ← kv ct s!"{k}.c1"
  let kx ← kv ct s!"{k}.kx"
  let cv ← (kv ct s!"{k}.cv").bind parseCV
  let fin ← kv ct s!"{k}.fin"
  let sig := (kv ct s!"{k}.sig").map (· == "1")
  pure { b := { ecdhe := e == "1", certMsg := msg == "1", certs := mkCerts n (parseCert c0) (parseCert c1),
                parseOK := parse == "1", kxOK := kx == "1", cv := cv, finishedOK := fin == "1" },
         sig := sig, leaf := (kv ct s!"{k}.leaf").getD "-" }

structure ConnObs where
  o : Observed
  req : String
  cls : String
  alert : String
  cli : String
  srv : String

def parseObs (ot : List String) (k : String) : Option ConnObs := do
  let srv ← kv ot s!"{k}.srv"
  let resumed ← kv ot s!"{k}.resumed"
  let peers ← kv ot s!"{k}.peers"
  let chains ← kv ot s!"{k}.chains"
  let req ← kv ot s!"{k}.req"
  let leafTok (name : String) : Option String :=
    match kv ot s!"{k}.{name}" with
    | some v => if v == "-" then none else some v
    | none => none
  let cls := (kv ot s!"{k}.cls").getD "-"
  let alert := (kv ot s!"{k}.alert").getD "-"
  let cli := (kv ot s!"{k}.cli").getD "-"
  -- a CertificateRequest can only be judged when the server sent a full-handshake flight
  let reqSeen : Option Bool := if req == "-" then none else some (req == "1")
  pure { o := { completed := srv == "done", resumed := resumed == "1", peerCerts := peers.toNat?.getD 0,
                chains := chains.toNat?.getD 0, certReq := reqSeen,
                peerLeaf := leafTok "pleaf", chainLeaf := leafTok "vleaf" },
         req := req, cls := cls, alert := alert, cli := cli, srv := srv }

def b01 (b : Bool) : String := if b then "1" else "0"

def tablesFor (stack : String) : Option Tables :=
  if stack == "tlcp" then tlcpTables else if stack == "dtlcp" then dtlcpTables else none

/-- the tokens the property does not constrain are copied from the observation -/
def copied (k : String) (ob : ConnObs) : String := s!"{k}.cls={ob.cls} {k}.alert={ob.alert} {k}.cli={ob.cli}"

/-- the identifier of the certificate an `Owner` stands for: `own` heads the list this connection's
client presented, `sess` the list of the client that created the session -/
def ownerLeaf (own sess : String) : Owner → String
  | .nobody => "-"
  | .thisClient => own
  | .session => sess

/-- a connection's report in the observation syntax -/
def showReport (k : String) (r : Report) (own sess : String) (ob : ConnObs) : String :=
  let req := match r.certReq with
    | some q => b01 q
    | none => "-"
  if r.completed then
    s!"{k}.srv=done {k}.resumed={b01 r.resumed} {k}.peers={r.peers} {k}.chains={b01 r.chains} {k}.pleaf={ownerLeaf own sess r.peerOwner} {k}.vleaf={ownerLeaf own sess r.chainOwner} {k}.req={req} {copied k ob}"
  else
    s!"{k}.srv=err {k}.resumed=- {k}.peers=- {k}.chains=- {k}.pleaf=- {k}.vleaf=- {k}.req={req} {copied k ob}"

def showFull (k : String) (r : Result) (own : String) (ob : ConnObs) : String :=
  showReport k (reportFull r) own "-" ob

/-- note when the class of the server's error is not the stage the model stops at -/
def stageNote (k : String) (stage : Stage) (ob : ConnObs) : String :=
  if ob.srv == "err" && stage != .done && ob.cls != stage.name
     && !(ob.cls == "peer-alert" || ob.cls == "eof" || ob.cls == "suite") then
    s!"{k}:stage-{stage.name}/cls-{ob.cls}"
  else ""

def sigCheck (c : ConnCase) : Option (String × String) :=
  match c.sig, c.b.cv with
  | some s, some _ => if s != c.b.pop then
      some ("harness", "the scenario's CertificateVerify description disagrees with the independent signature check") else none
  | _, _ => none

def orElse (a b : Option (String × String)) : Option (String × String) :=
  match a with
  | some x => some x
  | none => b

/-- what the model predicts for the history (model string, notes); needs the tables -/
def modelOf (t : Tables) (p1 : Policy) (c1 : ConnCase) (ob1 : ConnObs)
    (second : Option (Policy × ConnCase × ConnObs)) (now0 now1 : Option Cert) (offer mech : Bool) : String × String :=
  let r1 := full t p1 c1.b
  let noSuite := ob1.cls == "suite"
  let m1 := if noSuite then s!"1.srv=err 1.resumed=- 1.peers=- 1.chains=- 1.pleaf=- 1.vleaf=- 1.req=- {copied "1" ob1}" else showFull "1" r1 c1.leaf ob1
  match second with
  | none => (m1, stageNote "1" r1.stage ob1)
  | some (p2, c2, ob2) =>
    let recorded := mkCerts r1.recorded now0 now1
    -- the cache answers iff createSessionState ran in the first handshake (completed or not); a
    -- declined resumption (cache miss, policy gate, suite no longer offered / supported) is
    -- followed by a full handshake of the second client on a connection that is still fresh
    let r2 := Gotlcp.Model.ServerAuthn.second t p1 p2 c1.b recorded (offer && !noSuite) mech c2.b
    (m1 ++ " " ++ showReport "2" r2 c2.leaf c1.leaf ob2, stageNote "1" r1.stage ob1 ++ stageNote "2" r2.stage ob2)

def judge (c o : String) : Option Verdict := do
  let ct := tokens c
  let ot := tokens o
  let stack ← kv ct "stack"
  let kind ← kv ct "kind"
  let p1 ← (kv ct "pol").bind Policy.ofName
  let c1 ← parseConn ct "1"
  -- a driver-level panic or skip is reported as is
  if (kv ot "panic").isSome then
    return { model := "1.srv=?", spec := some ("panic", "the driver recovered a panic"), trivial := false }
  if (kv ot "skipped").isSome then
    return { model := o, spec := none, trivial := true }
  let ob1 ← parseObs ot "1"
  -- no mutual cipher suite: the handshake never reaches doFullHandshake (outside the model)
  let noSuite := ob1.cls == "suite"
  -- what a connection's client presented (`none`: nothing)
  let presented (c : ConnCase) : Option String := if c.leaf == "-" then none else some c.leaf
  let s1 := orElse (sigCheck c1) (if noSuite then none else orElse (judgeFull p1 c1.b ob1.o) (judgeIdentity (presented c1) ob1.o))
  let now0 := (kv ct "now0").bind parseCert
  let now1 := (kv ct "now1").bind parseCert
  -- second connection of a history
  let second : Option (Policy × ConnCase × ConnObs) ←
    if kind != "hist" && kind != "shist" then pure none else do
      let p2 ← (kv ct "pol2").bind Policy.ofName
      let c2 ← parseConn ct "2"
      let ob2 ← parseObs ot "2"
      pure (some (p2, c2, ob2))
  -- the SPEC verdict needs no tables: it is taken on the observation alone
  let spec : Option (String × String) :=
    match second with
    | none => s1
    | some (p2, c2, ob2) =>
      -- the behaviour that created the session, judged under the configuration now in force
      let orig : Behaviour := { c1.b with certs := mkCerts c1.b.sent.length now0 now1, certMsg := c1.b.certMsg }
      let s2 : Option (String × String) :=
        if ob2.o.completed && ob2.o.resumed then
          if !ob1.o.completed then
            -- the clause of the property that is broken, when there is one; else the plain fact
            orElse (judgeResumed p2 orig ob2.o)
              (some ("resumed-unfinished", "a session was resumed whose handshake never completed"))
          -- a resumed connection carries the certificates of the client that created the session
          else orElse (judgeResumed p2 orig ob2.o) (judgeIdentity (presented c1) ob2.o)
        -- not resumed (never offered, unknown, or DECLINED): only what THIS client presented counts
        else orElse (sigCheck c2) (orElse (judgeFull p2 c2.b ob2.o) (judgeIdentity (presented c2) ob2.o))
      orElse s1 s2
  -- a real client only ever offers the session of a completed handshake; a scripted one always does
  let trivial := if kind == "hist" then !ob1.o.completed else noSuite
  let offer := (kv ct "2.offer").getD "1" == "1"
  let mech := (kv ct "2.mech").getD "1" == "1"
  -- the MODEL prediction needs the tables regenerated from the source; when the source has
  -- moved outside the model's vocabulary there is no prediction (reported as a disagreement)
  match tablesFor stack with
  | none => pure { model := "model=unavailable(the extracted facts are outside the model's vocabulary)", spec := spec, trivial := trivial }
  | some t =>
    let (m, note) := modelOf t p1 c1 ob1 second now0 now1 offer mech
    pure { model := m, spec := spec, note := note, trivial := trivial }

end Gotlcp.Oracle.C07

/-
Oracle for C11: re-computes the model's prediction and evaluates the spec on what the real
`lruSessionCache` answered.

case     : `stack=tlcp|dtlcp cap=<int> ops=<op>,<op>,...`
             op = `P.<key>.<objid|nil>` | `G.<key>` ; the empty key is written `_`
observed : `outs=<o>,<o>,... len=<list len>/<map len> wiped=<id>.<id>...|-`
             o  = `U` | `G.<objid|nil>.<ok 0|1>.<wiped 0|1>`

Phase `conn` (histories of real client handshakes through a recording cache):
case     : `stack=.. cap=<int> hist=<history>` (syntax: harness/internal/resume; every
             connection is fault-free, so every handshake is expected to succeed)
observed : `ops=<recorded trace, same op syntax> outs=.. len=.. wiped=.. hs=<ok|fail>,...`
For these cases the recorded trace is run through the model, and the spec ALSO requires that
every handshake succeeded and that the client stored one object per `Put` (`freshPuts`).
-/
import Gotlcp.Oracle.Common
import Gotlcp.Model.LRU
import Gotlcp.Spec.LRUMap
import Gotlcp.Generated.Facts

namespace Gotlcp.Oracle.C11
open Gotlcp.Model

def parseKey (s : String) : String := if s == "_" then "" else s
def showKey (s : String) : String := if s == "" then "_" else s

def parseObj (s : String) : Option (Option Nat) :=
  if s == "nil" then some none else s.toNat?.map some

def parseOp (s : String) : Option LRU.Op :=
  match s.splitOn "." with
  | ["P", k, v] => (parseObj v).map (LRU.Op.put (parseKey k))
  | ["G", k] => some (.get (parseKey k))
  | _ => none

def parseOps (s : String) : Option (List LRU.Op) :=
  if s == "-" then some [] else (s.splitOn ",").mapM parseOp

def parseInt (s : String) : Option Int :=
  if s.startsWith "-" then (s.drop 1).toNat?.map (fun n => -(n : Int)) else s.toNat?.map Int.ofNat

def showObj : Option Nat → String
  | none => "nil"
  | some o => toString o

def b01 (b : Bool) : String := if b then "1" else "0"

/-- run the model, producing per-op outputs with the wiped flag as the real driver observes it:
the wiped flag of a returned object is looked up in the heap *at the time of the call*. -/
def runModel (strict : Bool) (s : LRU.State) : List LRU.Op → LRU.State × List String
  | [] => (s, [])
  | op :: ops =>
    let (s1, o) := LRU.step strict s op
    let str := match o with
      | .unit => "U"
      | .got v ok =>
        let w := match v with
          | some x => s1.zeroed.contains x
          | none => false
        s!"G.{showObj v}.{b01 ok}.{b01 w}"
    let (s2, rest) := runModel strict s1 ops
    (s2, str :: rest)

def sortNat (l : List Nat) : List Nat := (l.toArray.qsort (· < ·)).toList

def dedup (l : List Nat) : List Nat := l.foldl (fun acc x => if acc.contains x then acc else acc ++ [x]) []

structure Params where
  strict : Bool
  defaultCap : Nat

def params (stack : String) : Option Params :=
  if stack == "tlcp" then some ⟨Facts.tlcp.lruPutNilAbsentReturns, Facts.tlcp.lruDefaultCap⟩
  else if stack == "dtlcp" then some ⟨Facts.dtlcp.lruPutNilAbsentReturns, Facts.dtlcp.lruDefaultCap⟩
  else none

/-- `FreshPuts` of `Props.C11`, executable -/
def freshPuts : List Nat → List LRU.Op → Bool
  | _, [] => true
  | used, .get _ :: ops => freshPuts used ops
  | used, .put _ none :: ops => freshPuts used ops
  | used, .put _ (some o) :: ops => !used.contains o && freshPuts (o :: used) ops

def specOp : LRU.Op → Spec.LRUMap.Op Nat
  | .put k v => .put k v
  | .get k => .get k

/-- the documented capacity rule: values < 1 select the default of 64 -/
def docCap (c : Int) : Nat := if c < 1 then 64 else c.toNat

structure ObsOut where
  isGet : Bool
  obj : Option Nat
  ok : Bool
  wiped : Bool

def parseObs (s : String) : Option ObsOut :=
  match s.splitOn "." with
  | ["U"] => some ⟨false, none, false, false⟩
  | ["G", v, ok, w] => (parseObj v).map fun o => ⟨true, o, ok == "1", w == "1"⟩
  | _ => none

def checkSpec (cap : Int) (ops : List LRU.Op) (obs : List ObsOut) (qlen mlen : Nat) : Option (String × String) :=
  let sp := (Spec.LRUMap.run ({ cap := docCap cap, items := [] } : Spec.LRUMap.Map Nat) (ops.map specOp)).2
  let fresh := freshPuts [] ops
  if sp.length != obs.length then some ("shape", "number of results differs") else
  if qlen > docCap cap || qlen != mlen then some ("size", s!"holds {qlen} list / {mlen} map entries, capacity {docCap cap}") else
  let rec go (i : Nat) : List (Option (Option Nat)) → List ObsOut → Option (String × String)
    | [], [] => none
    | none :: sp, o :: os => if o.isGet then some ("shape", s!"op {i}: put answered like get") else go (i+1) sp os
    | some r :: sp, o :: os =>
      if !o.isGet then some ("shape", s!"op {i}: get answered like put")
      else if o.obj != r || o.ok != r.isSome then
        -- the finding F17 has its own tag: a lookup answering (nil, true)
        let tag := if o.obj.isNone && o.ok then "nil-hit" else "lookup"
        some (tag, s!"op {i}: lookup returned ({showObj o.obj},{b01 o.ok}) but an LRU map of capacity {docCap cap} returns ({showObj r},{b01 r.isSome})")
      else if fresh && o.wiped then some ("wiped-live", s!"op {i}: session {showObj o.obj} returned by a lookup has a wiped master secret")
      else go (i+1) sp os
    | _, _ => some ("shape", "number of results differs")
  go 0 sp obs

/-- extra clauses for connection histories: every (honest) handshake succeeded and the client
never stored one session object under two keys -/
def checkConn (ops : List LRU.Op) (hs : String) : Option (String × String) :=
  let rs := hs.splitOn ","
  match rs.findIdx? (· != "ok") with
  | some i =>
    if hs == "-" then none else
    some ("honest-handshake-failed", s!"connection {i} of a fault-free history failed ({rs.getD i "?"})")
  | none =>
    if !freshPuts [] ops then some ("aliased-put", "the client stored one session object under more than one key / more than once")
    else none

/-- concurrent phase (harness/cmd/c11/conc.go): every stored session is tagged with its key, so a
lookup of `k` answering a session stored under another key (or `(nil, true)`) is impossible in any
sequential order of the calls — `C11_linearizable` excludes it for the mutex-protected model. -/
def judgeConc (o : String) : Verdict :=
  let ot := tokens o
  let foreign := (kvNat ot "foreign").getD 1
  let lenok := (kvNat ot "lenok").getD 0
  let gets := (kv ot "gets").getD "?"
  let hits := (kv ot "hits").getD "?"
  let spec : Option (String × String) :=
    if foreign != 0 then some ("conc-foreign-value", s!"{foreign} concurrent lookups returned a session stored under another key: not equivalent to any sequential order")
    else if lenok != 1 then some ("size", "after concurrent use the cache holds more entries than its capacity or its list and map disagree")
    else none
  { model := s!"foreign=0 lenok=1 gets={gets} hits={hits}", spec := spec, trivial := hits == "0" }

def judge (c o : String) : Option Verdict := do
  let ct := tokens c
  if (kv ct "conc").isSome then return judgeConc o
  let ot0 := tokens o
  let stack ← kv ct "stack"
  let p ← params stack
  let cap ← (kv ct "cap").bind parseInt
  let isConn := (kv ct "hist").isSome
  let opsStr ← if isConn then kv ot0 "ops" else kv ct "ops"
  let ops ← parseOps opsStr
  let (s, outs) := runModel p.strict (LRU.init p.defaultCap cap) ops
  let wiped := sortNat (dedup s.zeroed)
  let wstr := if wiped.isEmpty then "-" else ".".intercalate (wiped.map toString)
  let ostr := if outs.isEmpty then "-" else ",".intercalate outs
  let hsStr := (kv ot0 "hs").getD "-"
  let model := if isConn then s!"ops={opsStr} outs={ostr} len={s.q.length}/{s.q.length} wiped={wstr} hs={hsStr}"
    else s!"outs={ostr} len={s.q.length}/{s.q.length} wiped={wstr}"
  -- spec on the observation
  let ot := tokens o
  let spec : Option (String × String) :=
    match kv ot "outs", kv ot "len" with
    | some os, some ln =>
      let obs := if os == "-" then some [] else (os.splitOn ",").mapM parseObs
      match obs, ln.splitOn "/" with
      | some obs, [a, b] =>
        match a.toNat?, b.toNat? with
        | some qa, some mb => checkSpec cap ops obs qa mb
        | _, _ => some ("shape", "unparseable len")
      | _, _ => some ("shape", "unparseable observation")
    | _, _ => some ("shape", "missing outs/len")
  let spec := if isConn then
      (match checkConn ops hsStr with
       | some f => some f
       | none => spec)
    else spec
  let hit := outs.any (fun t => t.startsWith "G." && !t.startsWith "G.nil")
  pure { model := model, spec := spec, trivial := !hit }

end Gotlcp.Oracle.C11

/-
Oracle for C11: re-computes the model's prediction and evaluates the spec on what the real
`lruSessionCache` answered.

case     : `stack=tlcp|dtlcp cap=<int> ops=<op>,<op>,...`
             op = `P.<key>.<objid|nil>` | `G.<key>` ; the empty key is written `_`
                | `N.<objid>.<buf>.<buf>…`   declares a session object and the backing array of each of
                                             its reference fields (declaration order; `n` = nil): equal
                                             names = shared storage. An object that is stored without a
                                             declaration owns storage of its own (named 100000+objid).
                | `H.<objid>.<buf>…`         the same for an object IN USE from here on (the state of an
                                             open connection; phase conn only)
observed : `outs=<o>,<o>,... len=<list len>/<map len> wiped=<id>.<id>...|- fields=<f>.<f>… harm=<e>;<e>…|-`
             o  = `U` | `G.<objid|nil>.<ok 0|1>.<wiped 0|1>`       (one per P / G)
             fields = the reference fields of SessionState as reflection sees them
             e  = `<op index>:<objid>.<field>:<n|z|x>`  after that operation the field of that object
                  differs from what it was when the object was introduced: set to nil / backing array
                  all zero / anything else

Phase `conn` (histories of real client handshakes through a recording cache):
case     : `stack=.. cap=<int> hist=<history>` (syntax: harness/internal/resume; every
             connection is fault-free, so every handshake is expected to succeed)
observed : `ops=<recorded trace, same op syntax> outs=.. len=.. wiped=.. hs=<ok|fail|panic>,... fields=.. harm=..`
             (`N` with the storage identities the driver observed by pointer; `H.<1000+i>` the peer
             certificates connection i reports through the public API)
For these cases the recorded trace is run through the model, and the spec ALSO requires that
every handshake succeeded and that the client stored independent objects (`freshPuts`).
-/
import Gotlcp.Oracle.Common
import Gotlcp.Model.LRU
import Gotlcp.Model.LRUHeap
import Gotlcp.Spec.LRUMap
import Gotlcp.Generated.Facts

namespace Gotlcp.Oracle.C11
open Gotlcp.Model
open Gotlcp.Model.LRUHeap (Ref Evict Status status)

def parseKey (s : String) : String := if s == "_" then "" else s
def showKey (s : String) : String := if s == "" then "_" else s

def parseObj (s : String) : Option (Option Nat) :=
  if s == "nil" then some none else s.toNat?.map some

def parseBuf (s : String) : Option (Option Nat) :=
  if s == "n" then some none else s.toNat?.map some

/-- one element of a trace: a cache operation or the declaration of an object -/
inductive TOp where
  | cache (op : LRU.Op)
  | decl (inUse : Bool) (obj : Nat) (bufs : List (Option Nat))

def parseTOp (s : String) : Option TOp :=
  match s.splitOn "." with
  | ["P", k, v] => (parseObj v).map fun v => .cache (.put (parseKey k) v)
  | ["G", k] => some (.cache (.get (parseKey k)))
  | "N" :: o :: bufs => do let o ← o.toNat?; let bs ← bufs.mapM parseBuf; pure (.decl false o bs)
  | "H" :: o :: bufs => do let o ← o.toNat?; let bs ← bufs.mapM parseBuf; pure (.decl true o bs)
  | _ => none

def parseTOps (s : String) : Option (List TOp) :=
  if s == "-" then some [] else (s.splitOn ",").mapM parseTOp

def cacheOps (ops : List TOp) : List LRU.Op :=
  ops.filterMap fun | .cache op => some op | _ => none

def parseInt (s : String) : Option Int :=
  if s.startsWith "-" then (s.drop 1).toNat?.map (fun n => -(n : Int)) else s.toNat?.map Int.ofNat

def showObj : Option Nat → String
  | none => "nil"
  | some o => toString o

def b01 (b : Bool) : String := if b then "1" else "0"

def sortNat (l : List Nat) : List Nat := (l.toArray.qsort (· < ·)).toList

def dedup (l : List Nat) : List Nat := l.foldl (fun acc x => if acc.contains x then acc else acc ++ [x]) []

/-! ### the heap a case describes -/

/-- private storage of an object the case does not declare -/
def implicitBuf : Nat := 100000

def refsOf (fields : List String) (obj : Nat) (bufs : List (Option Nat)) : List Ref :=
  (fields.zip bufs).filterMap fun (f, b) => b.map fun b => ⟨obj, f, b⟩

/-- the objects a trace introduces, with the index at which each becomes known: declared ones
at their declaration, the others at the first store that mentions them -/
def allocations (fields : List String) (ops : List TOp) : List (Nat × Nat × List Ref) :=
  let rec go (i : Nat) (seen : List Nat) : List TOp → List (Nat × Nat × List Ref)
    | [] => []
    | .decl _ o bufs :: rest =>
      if seen.contains o then go (i+1) seen rest
      else (i, o, refsOf fields o bufs) :: go (i+1) (o :: seen) rest
    | .cache (.put _ (some o)) :: rest =>
      if seen.contains o then go (i+1) seen rest
      else (i, o, refsOf fields o (fields.map fun _ => some (implicitBuf + o))) :: go (i+1) (o :: seen) rest
    | _ :: rest => go (i+1) seen rest
  go 0 [] ops

def allRefs (al : List (Nat × Nat × List Ref)) : List Ref := al.flatMap (·.2.2)

/-- the references of the objects known at operation `i`, ordered by object then field -/
def knownAt (al : List (Nat × Nat × List Ref)) (i : Nat) : List Ref :=
  let objs := (al.filter (·.1 ≤ i)).toArray.qsort (fun a b => a.2.1 < b.2.1)
  objs.toList.flatMap (·.2.2)

def holdersBefore (ops : List TOp) (i : Nat) : List Nat :=
  (ops.take (i+1)).filterMap fun | .decl true o _ => some o | _ => none

/-! ### the model's prediction -/

def showStatus : Status → String
  | .ok => "k"
  | .cleared => "z"
  | .dropped => "n"

/-- what the hook `VerifSessionWiped` reports for object `o`: its master secret is nil or all
zero — no master-secret reference at all, or one that is dropped / overwritten -/
def wipedObj (E : Evict) (alloc : List Ref) (zeroed : List Nat) (o : Nat) : Bool :=
  match alloc.find? (fun r => r.obj == o && r.field == "masterSecret") with
  | none => true
  | some r => status E alloc zeroed r != .ok

/-- run the model, producing per-op outputs with the wiped flag as the real driver observes it
(looked up in the heap *at the time of the call*) and the field changes of every operation:
`Model.LRUHeap.status` before / after, on the references the newly evicted object can affect
(`C11_change_frame`: no other reference changes). -/
def runModel (strict : Bool) (E : Evict) (al : List (Nat × Nat × List Ref)) (alloc : List Ref) :
    Nat → LRU.State → List TOp → LRU.State × List String × List String
  | _, s, [] => (s, [], [])
  | i, s, .decl .. :: ops => runModel strict E al alloc (i+1) s ops
  | i, s, .cache op :: ops =>
    let (s1, o) := LRU.step strict s op
    let str := match o with
      | .unit => "U"
      | .got v ok =>
        let w := match v with
          | some x => wipedObj E alloc s1.zeroed x
          | none => false
        s!"G.{showObj v}.{b01 ok}.{b01 w}"
    let evs : List String :=
      if s1.zeroed.length == s.zeroed.length then [] else
      match s1.zeroed.head? with
      | none => []
      | some e =>
        let eRefs := alloc.filter (·.obj == e)
        let cands := (knownAt al i).filter fun r =>
          r.obj == e || eRefs.any (fun r' => r'.field == r.field && r'.buf == r.buf)
        cands.filterMap fun r =>
          let a := status E alloc s1.zeroed r
          if status E alloc s.zeroed r == a then none
          else some s!"{i}:{r.obj}.{r.field}:{showStatus a}"
    let (s2, rest, evRest) := runModel strict E al alloc (i+1) s1 ops
    (s2, str :: rest, evs ++ evRest)

structure Params where
  strict : Bool
  defaultCap : Nat
  fields : List String
  evict : Evict

def params (stack : String) : Option Params :=
  if stack == "tlcp" then some ⟨Facts.tlcp.lruPutNilAbsentReturns, Facts.tlcp.lruDefaultCap,
    Facts.tlcp.lruSessionRefFields, ⟨Facts.tlcp.lruEvictInPlace, Facts.tlcp.lruEvictDropped⟩⟩
  else if stack == "dtlcp" then some ⟨Facts.dtlcp.lruPutNilAbsentReturns, Facts.dtlcp.lruDefaultCap,
    Facts.dtlcp.lruSessionRefFields, ⟨Facts.dtlcp.lruEvictInPlace, Facts.dtlcp.lruEvictDropped⟩⟩
  else none

/-! ### the specification on the observation -/

/-- the documented name of the only field an eviction may touch -/
def docSecret : String := "masterSecret"

/-- the master-secret storage of every object that has one -/
def secrets (alloc : List Ref) : List (Nat × Nat) :=
  alloc.filterMap fun r => if r.field == docSecret then some (r.obj, r.buf) else none

/-- two objects point at the same master-secret storage -/
def sharesSecret (sec : List (Nat × Nat)) (a b : Nat) : Bool :=
  match sec.lookup a, sec.lookup b with
  | some x, some y => x == y
  | _, _ => false

/-- `FreshPuts` of `Props.C11`, executable, together with `DeepUnshared [masterSecret]` among the
stored objects: every stored session is an object of its own with a master secret of its own
(`usedBufs` = the master-secret storage of the sessions stored so far) -/
def freshPuts (sec : List (Nat × Nat)) : List Nat → List Nat → List LRU.Op → Bool
  | _, _, [] => true
  | used, ub, .get _ :: ops => freshPuts sec used ub ops
  | used, ub, .put _ none :: ops => freshPuts sec used ub ops
  | used, ub, .put _ (some o) :: ops =>
    match sec.lookup o with
    | some b => !used.contains o && !ub.contains b && freshPuts sec (o :: used) (b :: ub) ops
    | none => !used.contains o && freshPuts sec (o :: used) ub ops

def specOp : LRU.Op → Spec.LRUMap.Op Nat
  | .put k v => .put k v
  | .get k => .get k

/-- the documented capacity rule: values < 1 select the default of 64 -/
def docCap (c : Int) : Nat := if c < 1 then 64 else c.toNat

structure ObsOut where
  isGet : Bool
  obj : Option Nat
  ok : Bool
  wiped : Bool

def parseObs (s : String) : Option ObsOut :=
  match s.splitOn "." with
  | ["U"] => some ⟨false, none, false, false⟩
  | ["G", v, ok, w] => (parseObj v).map fun o => ⟨true, o, ok == "1", w == "1"⟩
  | _ => none

def checkSpec (cap : Int) (fresh : Bool) (hasSecret : Nat → Bool) (ops : List LRU.Op) (obs : List ObsOut) (qlen mlen : Nat) : Option (String × String) :=
  let sp := (Spec.LRUMap.run ({ cap := docCap cap, items := [] } : Spec.LRUMap.Map Nat) (ops.map specOp)).2
  if sp.length != obs.length then some ("shape", "number of results differs") else
  if qlen > docCap cap || qlen != mlen then some ("size", s!"holds {qlen} list / {mlen} map entries, capacity {docCap cap}") else
  let rec go (i : Nat) : List (Option (Option Nat)) → List ObsOut → Option (String × String)
    | [], [] => none
    | none :: sp, o :: os => if o.isGet then some ("shape", s!"op {i}: put answered like get") else go (i+1) sp os
    | some r :: sp, o :: os =>
      if !o.isGet then some ("shape", s!"op {i}: get answered like put")
      else if o.obj != r || o.ok != r.isSome then
        -- the finding F17 has its own tag: a lookup answering (nil, true)
        let tag := if o.obj.isNone && o.ok then "nil-hit" else "lookup"
        some (tag, s!"op {i}: lookup returned ({showObj o.obj},{b01 o.ok}) but an LRU map of capacity {docCap cap} returns ({showObj r},{b01 r.isSome})")
      else if fresh && o.wiped && (o.obj.map hasSecret).getD false then some ("wiped-live", s!"op {i}: session {showObj o.obj} returned by a lookup has a wiped master secret")
      else go (i+1) sp os
    | _, _ => some ("shape", "number of results differs")
  go 0 sp obs

structure Harm where
  op : Nat
  obj : Nat
  field : String
  st : String

def parseHarm (s : String) : Option (List Harm) :=
  if s == "-" then some [] else
  (s.splitOn ";").mapM fun e =>
    match e.splitOn ":" with
    | [i, of, st] =>
      match of.splitOn "." with
      | [o, f] => do pure ⟨← i.toNat?, ← o.toNat?, f, st⟩
      | _ => none
    | _ => none

/-- the textbook map before and after every element of the trace, with the entries that
element pushes out -/
def specTimeline (cap : Nat) (ops : List TOp) : List (Spec.LRUMap.Map Nat × List Nat) :=
  let rec go (m : Spec.LRUMap.Map Nat) : List TOp → List (Spec.LRUMap.Map Nat × List Nat)
    | [] => []
    | .decl .. :: rest => (m, []) :: go m rest
    | .cache (.put k v) :: rest =>
      let m' := Spec.LRUMap.put m k v
      (m', (Spec.LRUMap.evictedByPut m k v).map (·.2)) :: go m' rest
    | .cache (.get k) :: rest =>
      let m' := (Spec.LRUMap.get m k).1
      (m', []) :: go m' rest
  go { cap := cap, items := [] } ops

/-- **No operation changes a session that is still reachable under a key or in use.** The one
documented effect of an eviction is that the master secret of the session held by the evicted
entry is overwritten (seen through every object that shares that storage). Any other change of
any field of an object that, after the operation, is reachable through the cache (by the
textbook map) or in use by an open connection fails the property — except on the session held by
the evicted entry itself (reachable only if the caller stored that very object twice); so does
the documented effect when it reaches a reachable session although every stored session had a
master secret of its own. -/
def checkHarm (cap : Int) (fresh : Bool) (sec : List (Nat × Nat)) (ops : List TOp) (harm : List Harm) : Option (String × String) :=
  let tl := specTimeline (docCap cap) ops
  harm.findSome? fun h =>
    match tl[h.op]? with
    | none => some ("shape", s!"change reported at operation {h.op} which does not exist")
    | some (after, evicted) =>
      let documented := h.field == docSecret && evicted.any (fun e => e == h.obj || sharesSecret sec e h.obj)
      let key := (after.items.find? (·.2 == h.obj)).map (·.1)
      let inUse := (holdersBefore ops h.op).contains h.obj
      if evicted.contains h.obj && !documented then
        -- the session held by the evicted entry itself: scrubbing more of it than documented harms
        -- nobody else; that the caller stored it under a second key as well is the caller's aliasing
        none
      else if documented then
        match key with
        | some k => if fresh && !evicted.contains h.obj then
            some ("wiped-live", s!"op {h.op}: the master secret of session {h.obj}, still reachable under key {showKey k}, was overwritten by the eviction of another session")
          else none
        | none => none
      else
        match key with
        | some k => some ("live-harmed", s!"op {h.op}: field {h.field} of session {h.obj}, still reachable under key {showKey k}, was changed ({h.st}); an eviction may only overwrite the master secret of the evicted session")
        | none =>
          if inUse then some ("live-harmed", s!"op {h.op}: field {h.field} of object {h.obj}, in use by an open connection, was changed ({h.st})")
          else none

/-- extra clauses for connection histories: every (honest) handshake succeeded and the client
never stored one session object under two keys -/
def checkConn (fresh : Bool) (hs : String) : Option (String × String) :=
  let rs := hs.splitOn ","
  match rs.findIdx? (· != "ok") with
  | some i =>
    if hs == "-" then none else
    some ("honest-handshake-failed", s!"connection {i} of a fault-free history failed ({rs.getD i "?"})")
  | none =>
    if !fresh then some ("aliased-put", "the client stored one session object under more than one key / more than once, or two sessions sharing master-secret storage")
    else none

/-- concurrent phase (harness/cmd/c11/conc.go): every stored session is tagged with its key, so a
lookup of `k` answering a session stored under another key (or `(nil, true)`) is impossible in any
sequential order of the calls — `C11_linearizable` excludes it for the mutex-protected model. -/
def judgeConc (o : String) : Verdict :=
  let ot := tokens o
  let foreign := (kvNat ot "foreign").getD 1
  let lenok := (kvNat ot "lenok").getD 0
  let gets := (kv ot "gets").getD "?"
  let hits := (kv ot "hits").getD "?"
  let spec : Option (String × String) :=
    if foreign != 0 then some ("conc-foreign-value", s!"{foreign} concurrent lookups returned a session stored under another key: not equivalent to any sequential order")
    else if lenok != 1 then some ("size", "after concurrent use the cache holds more entries than its capacity or its list and map disagree")
    else none
  { model := s!"foreign=0 lenok=1 gets={gets} hits={hits}", spec := spec, trivial := hits == "0" }

def orElse (a b : Option (String × String)) : Option (String × String) :=
  match a with
  | some x => some x
  | none => b

def judge (c o : String) : Option Verdict := do
  let ct := tokens c
  if (kv ct "conc").isSome then return judgeConc o
  let ot := tokens o
  let stack ← kv ct "stack"
  let p ← params stack
  let cap ← (kv ct "cap").bind parseInt
  let isConn := (kv ct "hist").isSome
  let opsStr ← if isConn then kv ot "ops" else kv ct "ops"
  let tops ← parseTOps opsStr
  let ops := cacheOps tops
  -- the model: heap by the extracted field names, eviction by the extracted facts
  let al := allocations p.fields tops
  let alloc := allRefs al
  let (s, outs, evs) := runModel p.strict p.evict al alloc 0 (LRU.init p.defaultCap cap) tops
  let sessions := al.filterMap fun (i, o, _) =>
    match tops[i]? with
    | some (.decl true _ _) => none
    | _ => some o
  let wiped := sortNat (sessions.filter (wipedObj p.evict alloc s.zeroed))
  let wstr := if wiped.isEmpty then "-" else ".".intercalate (wiped.map toString)
  let ostr := if outs.isEmpty then "-" else ",".intercalate outs
  let hstr := if evs.isEmpty then "-" else ";".intercalate evs
  let fstr := if p.fields.isEmpty then "-" else ".".intercalate p.fields
  let hsStr := (kv ot "hs").getD "-"
  let tail := s!"len={s.q.length}/{s.q.length} wiped={wstr}"
  let model := if isConn then s!"ops={opsStr} outs={ostr} {tail} hs={hsStr} fields={fstr} harm={hstr}"
    else s!"outs={ostr} {tail} fields={fstr} harm={hstr}"
  -- the spec on the observation: heap by the OBSERVED field names
  let ofields := match kv ot "fields" with
    | some f => if f == "-" then [] else f.splitOn "."
    | none => []
  let oalloc := allRefs (allocations ofields tops)
  let sec := secrets oalloc
  let fresh := freshPuts sec [] [] ops
  let specV : Option (String × String) :=
    match kv ot "outs", kv ot "len" with
    | some os, some ln =>
      let obs := if os == "-" then some [] else (os.splitOn ",").mapM parseObs
      match obs, ln.splitOn "/" with
      | some obs, [a, b] =>
        match a.toNat?, b.toNat? with
        | some qa, some mb => checkSpec cap fresh (fun x => (sec.lookup x).isSome) ops obs qa mb
        | _, _ => some ("shape", "unparseable len")
      | _, _ => some ("shape", "unparseable observation")
    | _, _ => some ("shape", "missing outs/len")
  let harmV : Option (String × String) :=
    match (kv ot "harm").bind parseHarm with
    | some harm => checkHarm cap fresh sec tops harm
    | none => some ("shape", "missing or unparseable harm")
  let spec := orElse harmV (if isConn then orElse (checkConn fresh hsStr) specV else specV)
  let hit := outs.any (fun t => t.startsWith "G." && !t.startsWith "G.nil")
  -- evidence detail: the case has objects that share storage
  let shared := al.any fun (_, o, rs) => rs.any fun r => alloc.any fun r' => r'.obj != o && r'.field == r.field && r'.buf == r.buf
  let note := if shared then "shared-storage" else ""
  pure { model := model, spec := spec, note := note, trivial := !hit }

end Gotlcp.Oracle.C11

/-
Oracle for C03.

case     : `stack=tlcp|dtlcp suite=<hex> auth=0|1 resume=0|1 base=<vers.suite.alpn.resumed>
            edit=none|flip|setlen|splice|drop|dup|swap|trunc|cut|inject
            [dir=c2s|s2c rec=<n> off=<n> mask=<hex> inj=<kind> | m=<n> op=<what> (splice) | mode=hard|soft|half (cut)]
            [hold=1]  (datagram stack, second fault: the answers of the edited record's reader are withheld
                       until its writer retransmits, so a genuine copy follows the altered one; observed `held=<n>`)
            [rtype= msg= field= orig=]`   (the last group names the edited bytes on the real record)
observed : `c=<completed|failed(class)|panic> s=<…> stall=0|1 panic=0|1 [cv=<view>] [sv=<view>] [lay=<layout>]`

Model prediction (strict part): which endpoints complete, no panic, and for `edit=none` the
record layout of both directions.  The model is `Gotlcp.Model.Transcript` run over the concrete
instance `symPrims`, with the two endpoints configured like the case and the attacker strategy
built from the edit.  Finer detail the model also predicts (error class of each side, stall) is
compared too and reported as `note=detail:exact|coarse` — it never fails a check.
Spec: `Gotlcp.Spec.Tamper.judgeObs` on the observation.
-/
import Gotlcp.Oracle.Common
import Gotlcp.Model.TranscriptFacts
import Gotlcp.Model.TranscriptSym
import Gotlcp.Spec.TamperSpec

namespace Gotlcp.Oracle.C03
open Gotlcp.Model.Transcript
open Gotlcp.Spec.Tamper

structure Cfg where
  dtls : Bool
  auth : Bool
  resume : Bool

/-- the honest parties of a case: contents are placeholders (type-specific, history-dependent
bodies), the decisions follow the configuration -/
def world (cf : Cfg) : World symPrims where
  say := fun r t log =>
    if t = tlcpCodes.tSHD then [] else [if r.isClient then 1 else 2, UInt8.ofNat t, UInt8.ofNat log.length]
  master := fun _ _ => if cf.resume then (9 : Nat) else (7 : Nat)
  choice := fun _ q _ =>
    match q with
    | .accept => true
    | .resume => cf.resume
    | .sendSKX => true
    | .sendCertReq => cf.auth
    | .sendCertVerify => cf.auth
    | .expectCertVerify => cf.auth
  -- only consulted when the source does not keep the received bytes (`decodedKeepRaw = false`,
  -- which already fails `C03_facts`): this world re-encodes to the same bytes
  reenc := fun _ m => m

structure Edit where
  kind : String
  toServer : Bool        -- direction c2s
  idx : Nat
  mask : Nat
  inj : String
  /-- cut: `hard` (both directions closed, writes fail), `soft` (both directions closed, writes
  vanish), `half` (only the edited direction is closed; its writer's writes fail) -/
  mode : String
  rtype : String
  field : String
  orig : Nat

def xorByte (b : UInt8) (m : Nat) : UInt8 := b ^^^ UInt8.ofNat m

def setNth (l : Bytes) (i : Nat) (g : UInt8 → UInt8) : Bytes :=
  l.mapIdx (fun j b => if j = i then g b else b)

/-- index in `[i/n]` of a field token such as `record.version[1/2]` (0 when absent) -/
def fieldIndex (f : String) : Nat :=
  match f.splitOn "[" with
  | [_, r] => ((r.splitOn "/").headD "0").toNat?.getD 0
  | _ => 0

def fieldBase (f : String) : String := (f.splitOn "[").headD f

def endsWithStr (s suf : String) : Bool := s.endsWith suf

/-- the model's image of a byte flip on the real record -/
def flipRecord (e : Edit) (r : Record) : Record :=
  let fb := fieldBase e.field
  let i := fieldIndex e.field
  if fb.startsWith "beyond" then r
  else if fb == "record.type" then { r with typ := Nat.xor r.typ e.mask }
  else if fb == "record.version" then
    let hi := r.vers / 256
    let lo := r.vers % 256
    if i = 0 then { r with vers := (Nat.xor hi e.mask) * 256 + lo } else { r with vers := hi * 256 + Nat.xor lo e.mask }
  else if fb == "record.length" then { r with typ := 255 }
  else if e.rtype == "enc" then { r with payload := setNth r.payload 0 (xorByte · e.mask) }
  else if e.rtype == "ccs" then { r with payload := setNth r.payload 0 (xorByte · e.mask) }
  else if e.rtype == "hs" then
    if endsWithStr fb ".type" && !(fb.splitOn ".").contains "ext" && (fb.splitOn ".").length == 2 then
      { r with payload := setNth r.payload 0 (xorByte · e.mask) }
    else if endsWithStr fb ".length" && (fb.splitOn ".").length == 2 then
      { r with payload := setNth r.payload (1 + i) (xorByte · e.mask) }
    else if r.payload.length > 4 then
      { r with payload := setNth r.payload (r.payload.length - 1) (xorByte · e.mask) }
    else { r with typ := 255 }
  else { r with typ := 255 }

/-- the model's image of a splice inside a handshake message (bytes inserted / removed /
reordered, every enclosing length fixed up): the message changes and is still well framed -/
def spliceRecord (e : Edit) (r : Record) : Record :=
  if (fieldBase e.field).startsWith "beyond" || e.rtype != "hs" then r
  else { r with payload := frame (mtype r.payload) (mbody r.payload ++ [0xEE]) }

def injected (k : Codes) (kind : String) : Record :=
  if kind == "alertw" then ⟨k.rtAlert, k.vers, [1, 90]⟩
  else if kind == "alertf" then ⟨k.rtAlert, k.vers, [2, 40]⟩
  else if kind == "hs0" then ⟨k.rtHS, k.vers, []⟩
  else if kind == "ccs" then ⟨k.rtCCS, k.vers, [1]⟩
  else if kind == "hsd" then ⟨k.rtHS, k.vers, frame k.tSHD []⟩
  else ⟨k.rtApp, k.vers, [104, 101, 108, 108, 111]⟩

/-- the records of one writer, in order -/
def recsOf (w : Role) (outs : List (Role × Record)) : List Record :=
  outs.filterMap (fun p => if p.1 = w then some p.2 else none)

/-- position in `outs` of the `n`-th record of writer `w` -/
def posOf (w : Role) (n : Nat) : List (Role × Record) → Nat → Option Nat
  | [], _ => none
  | p :: r, i => if p.1 = w then (if n = 0 then some i else posOf w (n - 1) r (i + 1)) else posOf w n r (i + 1)

/-- what the reader of direction `w → peer` is given, after the edit -/
def queueOf (k : Codes) (e : Edit) (w : Role) (outs : List (Role × Record)) : List Record :=
  let recs := recsOf w outs
  let edited : Bool := (w = Role.client) == e.toServer
  if e.kind == "cut" then
    -- the transport is closed right after record `idx - 1` of the edited direction was written
    let writer : Role := if e.toServer then .client else .server
    if edited then recs.take e.idx
    else if e.mode == "half" then recs
    else if e.idx = 0 then []
    else match posOf writer (e.idx - 1) outs 0 with
      | none => recs
      | some p => recsOf w (outs.take (p + 1))
  else if e.kind == "trunc" then
    let writer : Role := if e.toServer then .client else .server
    match posOf writer e.idx outs 0 with
    | none => recs
    | some cut =>
      if edited then recs.take e.idx
      else
        -- the other direction: only what was written before the cut
        recsOf w (outs.take cut)
  else if !edited then recs
  else if e.kind == "flip" || e.kind == "setlen" then recs.mapIdx (fun j r => if j = e.idx then flipRecord e r else r)
  else if e.kind == "splice" then recs.mapIdx (fun j r => if j = e.idx then spliceRecord e r else r)
  else if e.kind == "drop" then recs.take e.idx ++ recs.drop (e.idx + 1)
  else if e.kind == "dup" then
    match recs[e.idx]? with
    | some r => recs.take (e.idx + 1) ++ [r] ++ recs.drop (e.idx + 1)
    | none => recs
  else if e.kind == "swap" then
    match recs[e.idx]?, recs[e.idx + 1]? with
    | some a, some b => recs.take e.idx ++ [b, a] ++ recs.drop (e.idx + 2)
    | some _, none => recs.take e.idx
    | _, _ => recs
  else if e.kind == "inject" then
    if e.idx = 0 then injected k e.inj :: recs
    else if recs.length ≥ e.idx then recs.take e.idx ++ [injected k e.inj] ++ recs.drop e.idx
    else recs
  else recs

/-- the attacker strategy of an edit: deliver both (edited) streams in order -/
def strategy (k : Codes) (e : Edit) : Attacker where
  next := fun outs delivered =>
    let toS := queueOf k e .client outs
    let toC := queueOf k e .server outs
    let nS := (delivered.filter (fun p => p.1 = Role.server)).length
    let nC := (delivered.filter (fun p => p.1 = Role.client)).length
    match toS[nS]? with
    | some r => some (Role.server, r)
    | none =>
      match toC[nC]? with
      | some r => some (Role.client, r)
      | none => none
  cut := fun outs _ role =>
    let writer : Role := if e.toServer then .client else .server
    e.kind == "cut" && (e.idx == 0 || decide ((recsOf writer outs).length ≥ e.idx)) &&
      (e.mode == "hard" || (e.mode == "half" && decide (role = writer)))

def statusStr : Status → String
  | .running => "failed(eof)"
  | .done => "completed"
  | .failed cls => s!"failed({cls})"

def shortName (k : Codes) (t : Nat) : String :=
  if t = k.tCH then "CH" else if t = k.tSH then "SH" else if t = k.tHVR then "HVR" else if t = k.tCert then "CERT"
  else if t = k.tSKX then "SKX" else if t = k.tCR then "CR" else if t = k.tSHD then "SHD" else if t = k.tCV then "CV"
  else if t = k.tCKX then "CKX" else if t = k.tFin then "FIN" else "hs?"

def layoutOf (k : Codes) (recs : List Record) : String :=
  let rec go : List Record → Bool → List String
    | [], _ => []
    | r :: rest, prot =>
      if prot then (if r.typ = k.rtHS then "enc" else s!"enc{r.typ}") :: go rest prot
      else if r.typ = k.rtCCS then "ccs" :: go rest true
      else if r.typ = k.rtAlert then "alert" :: go rest prot
      else if r.typ = k.rtHS then shortName k (mtype r.payload) :: go rest prot
      else s!"rec{r.typ}" :: go rest prot
  let parts := go recs false
  if parts.isEmpty then "-" else ",".intercalate parts

def parseHexNat (s : String) : Option Nat :=
  s.toList.foldlM (fun acc c => (Hex.nib c).map (fun d => acc * 16 + d)) 0

def startsWithStr (s p : String) : Bool := s.startsWith p

/-- replace the status of one side by the model's: `completed` when the model completes,
otherwise the observed failure detail (the strict comparison is completed-vs-failed only) -/
def strictStatus (modelDone : Bool) (observed : String) : String :=
  if modelDone then "completed"
  else if observed == "completed" then "failed(?)" else observed

def judge (c o : String) : Option Verdict := do
  let ct := tokens c
  let ot := tokens o
  let stack ← kv ct "stack"
  let dtls := stack == "dtlcp"
  let k := if dtls then dtlcpCodes else tlcpCodes
  let fl := if dtls then dtlcpFlags else tlcpFlags
  let cf : Cfg := { dtls := dtls, auth := (kv ct "auth") == some "1", resume := (kv ct "resume") == some "1" }
  let kind ← kv ct "edit"
  let e : Edit := {
    kind := kind, toServer := (kv ct "dir") != some "s2c", idx := (kvNat ct "rec").getD 0,
    mask := if kind == "setlen" then 1 else ((kv ct "mask").bind parseHexNat).getD 0, inj := (kv ct "inj").getD "", mode := (kv ct "mode").getD "",
    rtype := (kv ct "rtype").getD "-", field := (kv ct "field").getD "-",
    orig := ((kv ct "orig").bind parseHexNat).getD 0 }
  let W := world cf
  let g := Global.run k fl W (strategy k e) 400 (Global.init k fl W)
  let cDone := g.c.status == Status.done
  let sDone := g.s.status == Status.done
  -- observation
  let oc := (kv ot "c").getD "?"
  let os := (kv ot "s").getD "?"
  let ostall := (kv ot "stall").getD "0"
  let opanic := (kv ot "panic").getD "0"
  let mc := statusStr g.c.status
  let ms := statusStr g.s.status
  let anyFailed := (match g.c.status with | .failed _ => true | _ => false) || (match g.s.status with | .failed _ => true | _ => false)
  let anyRunning := g.c.status == Status.running || g.s.status == Status.running
  let mstall := if anyRunning && !anyFailed then "1" else "0"
  -- strict model string: echo what the model does not constrain
  let extra := ot.filter (fun t => !(startsWithStr t "c=" || startsWithStr t "s=" || startsWithStr t "stall=" ||
    startsWithStr t "panic=" || startsWithStr t "lay=" || startsWithStr t "both="))
  let oboth := (kv ot "both").getD "0"
  -- the datagram stack adds the unauthenticated cookie prelude in front of the modelled handshake
  let (preC, preS) := if dtls then ("CH,", "HVR,") else ("", "")
  let lay := if kind == "none" then
      [s!"lay={preC}{layoutOf k (recsOf .client g.outs)}/{preS}{layoutOf k (recsOf .server g.outs)}"] else []
  -- datagram stack: retransmission and silent discards are not modelled; only the untampered run
  -- is predicted, the spec is evaluated on every case
  let predicts := !dtls || kind == "none"
  let mboth := if cDone && sDone then "1" else "0"
  -- the model's image of the consistency check of `handshakeContext` (false under `doneMarkedLast`)
  let mpanic := if g.c.panics || g.s.panics then "1" else "0"
  let model := if predicts then
      " ".intercalate ([s!"c={strictStatus cDone oc}", s!"s={strictStatus sDone os}", s!"both={mboth}", s!"stall={ostall}", s!"panic={mpanic}"]
        ++ extra ++ lay)
    else " ".intercalate ([s!"c={oc}", s!"s={os}", s!"both={oboth}", s!"stall={ostall}", "panic=0"] ++ extra)
  -- spec on the observation
  let cv := (kv ot "cv").bind parseView
  let sv := (kv ot "sv").bind parseView
  let base := (kv ct "base").bind parseNego
  -- an edit of authenticated bytes (anything but the record header; not the cookie prelude of the
  -- datagram stack) on a record that was never retransmitted
  let fieldTok0 := (kv ct "field").getD "-"
  let msgTok0 := (kv ct "msg").getD "-"
  let same := (kvNat ot "same").getD 0
  let altered : Option String :=
    if (kind == "flip" || kind == "setlen") && same == 1 && !startsWithStr fieldTok0 "record." &&
        !startsWithStr fieldTok0 "beyond" && fieldTok0 != "-" && msgTok0 != "HelloVerifyRequest" &&
        !(dtls && msgTok0 == "ClientHello") then
      some s!"{msgTok0}:{fieldBase fieldTok0} was altered"
    -- a splice inside a handshake message (insertion / deletion / reordering with every length
    -- fixed up) of a message that was never retransmitted; the cookie exchange of the datagram
    -- stack (HelloVerifyRequest, and the ClientHello without cookie that a HelloVerifyRequest
    -- answered) is not part of the handshake the Finished messages cover
    else if kind == "splice" && same == 1 && (kv ct "rtype") == some "hs" && !startsWithStr fieldTok0 "beyond" &&
        fieldTok0 != "-" && msgTok0 != "never" && msgTok0 != "HelloVerifyRequest" &&
        !(dtls && msgTok0 == "ClientHello" && (kv ct "cookie") == some "0" && (kvNat ot "hvr").getD 0 ≥ 1) then
      some s!"{msgTok0}:{fieldTok0} was altered"
    -- a handshake / ChangeCipherSpec record REMOVED in transit of which the sender never wrote
    -- another copy: the reader cannot have accepted it, so when both complete the items one side
    -- accepted are not the items the other sent (cookie prelude of the datagram stack excepted)
    else if kind == "drop" && same == 1 &&
        ((kv ct "rtype") == some "hs" || (kv ct "rtype") == some "ccs" ||
         ((kv ct "rtype") == some "enc" && msgTok0 == "Finished(protected)")) &&
        msgTok0 != "never" && msgTok0 != "HelloVerifyRequest" &&
        !(dtls && msgTok0 == "ClientHello" && (kv ct "cookie") == some "0" && (kvNat ot "hvr").getD 0 ≥ 1) then
      some s!"the {msgTok0} record was removed"
    else none
  -- stream stack: a ChangeCipherSpec record or a whole handshake message INJECTED at a point where
  -- the reader still has handshake records to read (not behind the sender's Finished, which is the
  -- last record the reader takes before its handshake returns).  The datagram stack may discard.
  let injTok := (kv ct "inj").getD ""
  let injectedTaken : Option String :=
    if kind == "inject" && !dtls && (injTok == "ccs" || injTok == "hsd") && msgTok0 != "never" &&
        msgTok0 != "after:Finished(protected)" then
      some (if injTok == "ccs" then "a ChangeCipherSpec record the peer never sent" else "a handshake message the peer never sent")
    else none
  let spec := judgeObs (opanic != "0" || oc == "panic" || os == "panic") cv sv (oc == "completed") (os == "completed") base altered injectedTaken
  let exact := mc == oc && ms == os && mstall == ostall
  let note := if !predicts then s!"dtlcp:unmodelled:both{oboth}"
    else if exact then "detail:exact" else s!"detail:coarse:model:{mc}/{ms}/stall{mstall}"
  -- an edit that found no target, or only touches bytes behind the last handshake record read,
  -- exercises nothing
  let fieldTok := (kv ct "field").getD "-"
  let msgTok := (kv ct "msg").getD "-"
  let triv := kind != "none" && (startsWithStr fieldTok "beyond" || msgTok == "never")
  pure { model := model, spec := spec, note := note, trivial := triv }

end Gotlcp.Oracle.C03

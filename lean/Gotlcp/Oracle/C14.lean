/-
Oracle for C14.

case     : `stack=tlcp|dtlcp kind=<kind> op=enc f=<fields>`   |   `… op=dec data=<hex>`  |  `… op=cap data=<hex>`
           (cap: a message captured from a real handshake; judged like dec and additionally required to
           be canonical and inside the constructors' shape `Model.Emitted`, tag `emitted`)
           `stack=… kind=clientHello op=emit sn=<hex> np=<n/hex…> curves=<nil|hex> tas=<n/ty.id…> cs=<nil|hex> nc=<n>
            rnd=<hex> t=<unix> ck=<none|hex>`: a client CONFIGURATION (ServerName, NextProtos, CurvePreferences,
           TrustedCAIndications, CipherSuites, number of certificates, what Rand and Time deliver; dtlcp: the
           cookie of a scripted HelloVerifyRequest); the real client ran alone and what it put on the wire was cut out
observed : emit: `mk=err` (nothing sent) | `mk=ok n=<hellos sent> data=<hex of the last one> <as dec>`
           enc: `enc=ok data=<hex> dec=ok g=<fields>` | `enc=ok data=<hex> dec=rej|panic` | `enc=err|panic`
           dec: `dec=ok g=<fields> raw=<0|1> re=<ok|diff|err|panic>` | `dec=rej` | `dec=panic`

`Verdict.model` is what the model of the Go code predicts.  `Verdict.spec` judges the property on
the observation:
  panic        any panic;
  roundtrip    fields inside the standard's ranges (`wf…`) whose encoding is refused, does not
               strictly decode (by the spec's decoder) to the same fields, or that the library
               does not decode back to the same fields;
  unframed     an accepted input whose header disagrees with the data (`Spec.framed`);
  inner        an accepted input, well framed, whose body is not exactly the standard's grammar;
  canonical    a strictly decodable (canonical) input that is refused, decoded to other fields,
               or whose decoded fields do not re-encode to the same bytes.
  emitted      op=cap: a message captured from a real handshake is not canonical / outside the
               constructors' shape;
  undecodable  op=emit: the client, run on the case's configuration, put a ClientHello on the wire that
               the library's own decoder refuses.
`note` is the branch class of the model (kind.op.outcome) for the evidence histogram.
-/
import Gotlcp.Oracle.Common
import Gotlcp.Model.CodecParams
import Gotlcp.Spec.CodecSpec

namespace Gotlcp.Oracle.C14
open Gotlcp Gotlcp.Wire Gotlcp.Wire.Msg
open Gotlcp.Model
open Gotlcp.Spec.Codec (Stack Kind)

/-! ### field syntax -/

def hexW (w : W16) : String := Hex.ofByte w.1 ++ Hex.ofByte w.2
def b01 (b : Bool) : String := if b then "1" else "0"
def hexW16s (l : List W16) : String := if l.isEmpty then "-" else String.join (l.map hexW)
def renderList (l : List Bytes) : String := toString l.length ++ String.join (l.map fun x => "/" ++ Hex.encode x)
def renderTAs (l : List TA) : String :=
  toString l.length ++ String.join (l.map fun t => "/" ++ Hex.ofByte t.ty ++ "." ++ Hex.encode t.id)

inductive AnyMsg where
  | blob (m : Blob)
  | unit
  | cert (m : Certificate)
  | creq (m : CertificateRequest)
  | hvr (m : HelloVerifyRequest)
  | sh (m : ServerHello)
  | ch (m : ClientHello)

def blobKey : Kind → String
  | .finished => "vd"
  | .certificateVerify => "sig"
  | .clientKeyExchange => "ct"
  | _ => "key"

def renderBody (st : Stack) (k : Kind) : AnyMsg → List String
  | .blob m => [blobKey k ++ ":" ++ Hex.encode m.data]
  | .unit => []
  | .cert m => ["certs:" ++ renderList m.certs]
  | .creq m => ["types:" ++ Hex.encode m.types, "cas:" ++ renderList m.cas]
  | .hvr m => ["vers:" ++ hexW m.vers, "ck:" ++ Hex.encode m.cookie]
  | .sh m => ["vers:" ++ hexW m.vers, "rnd:" ++ Hex.encode m.random, "sid:" ++ Hex.encode m.sessionId,
      "cs:" ++ hexW m.suite, "cm:" ++ Hex.ofByte m.compression, "ocsp:" ++ b01 m.ocsp,
      "resp:" ++ Hex.encode m.ocspResponse, "alpn:" ++ Hex.encode m.alpn, "ack:" ++ b01 m.sniAck]
  | .ch m => ["vers:" ++ hexW m.vers, "rnd:" ++ Hex.encode m.random, "sid:" ++ Hex.encode m.sessionId] ++
      (if st = .dtlcp then ["ck:" ++ Hex.encode m.cookie] else []) ++
      ["cs:" ++ hexW16s m.suites, "cm:" ++ Hex.encode m.compression, "sni:" ++ Hex.encode m.serverName,
       "tas:" ++ renderTAs m.tas, "ocsp:" ++ b01 m.ocsp, "curves:" ++ hexW16s m.curves,
       "sigs:" ++ hexW16s m.sigAlgs, "alpn:" ++ renderList m.alpn, "cid:" ++ Hex.encode m.clientId]

def render (st : Stack) (k : Kind) (h : DHdr) (m : AnyMsg) : String :=
  let p := renderBody st k m ++
    (if st = .dtlcp then ["seq:" ++ hexW h.seq, "fo:" ++ toString h.fragOff, "fl:" ++ toString h.fragLen] else [])
  if p.isEmpty then "-" else ",".intercalate p

abbrev Fields := List (String × String)

def parseFieldTok (s : String) : Fields :=
  if s == "-" then [] else
  (s.splitOn ",").filterMap fun kv =>
    match kv.splitOn ":" with
    | [k, v] => some (k, v)
    | _ => none

def fget (f : Fields) (k : String) : Option String := (f.find? (·.1 == k)).map (·.2)
def fhex (f : Fields) (k : String) : Option Bytes := (fget f k).bind Hex.decode
def fnat (f : Fields) (k : String) : Option Nat := (fget f k).bind String.toNat?
def fbool (f : Fields) (k : String) : Option Bool := (fget f k).map (· == "1")

def pairs : Bytes → Option (List W16)
  | [] => some []
  | [_] => none
  | a :: b :: r => (pairs r).map ((a, b) :: ·)

def fw16 (f : Fields) (k : String) : Option W16 :=
  match fhex f k with
  | some [a, b] => some (a, b)
  | _ => none
def fw16s (f : Fields) (k : String) : Option (List W16) := (fhex f k).bind pairs

def parseList (s : String) : Option (List Bytes) :=
  match s.splitOn "/" with
  | _ :: items => items.mapM Hex.decode
  | [] => none

def parseTAs (s : String) : Option (List TA) :=
  match s.splitOn "/" with
  | _ :: items => items.mapM fun it =>
      match it.splitOn "." with
      | [t, id] =>
        (match Hex.decode t, Hex.decode id with
         | some [ty], some i => some ⟨ty, i⟩
         | _, _ => none)
      | _ => none
  | [] => none

def parseBody (st : Stack) (k : Kind) (f : Fields) : Option AnyMsg :=
  match k with
  | .finished | .certificateVerify | .clientKeyExchange | .serverKeyExchange =>
    (fhex f (blobKey k)).map fun d => .blob ⟨d⟩
  | .serverHelloDone => some .unit
  | .certificate => ((fget f "certs").bind parseList).map fun l => .cert ⟨l⟩
  | .certificateRequest => do
    let t ← fhex f "types"
    let c ← (fget f "cas").bind parseList
    pure (.creq ⟨t, c⟩)
  | .helloVerifyRequest => do
    let v ← fw16 f "vers"
    let c ← fhex f "ck"
    pure (.hvr ⟨v, c⟩)
  | .serverHello => do
    let v ← fw16 f "vers"
    let r ← fhex f "rnd"
    let s ← fhex f "sid"
    let cs ← fw16 f "cs"
    let cm ← (match fhex f "cm" with | some [x] => some x | _ => none)
    let o ← fbool f "ocsp"
    let resp ← fhex f "resp"
    let a ← fhex f "alpn"
    let ack ← fbool f "ack"
    pure (.sh ⟨v, r, s, cs, cm, o, resp, a, ack⟩)
  | .clientHello => do
    let v ← fw16 f "vers"
    let r ← fhex f "rnd"
    let s ← fhex f "sid"
    let ck ← (if st = .dtlcp then fhex f "ck" else some [])
    let cs ← fw16s f "cs"
    let cm ← fhex f "cm"
    let sni ← fhex f "sni"
    let tas ← (fget f "tas").bind parseTAs
    let o ← fbool f "ocsp"
    let cu ← fw16s f "curves"
    let sg ← fw16s f "sigs"
    let al ← (fget f "alpn").bind parseList
    let cid ← fhex f "cid"
    pure (.ch ⟨v, r, s, ck, cs, cm, sni, tas, o, cu, sg, al, cid⟩)

def parseHdr (st : Stack) (f : Fields) : Option DHdr :=
  match st with
  | .tlcp => some ⟨(0, 0), 0, 0⟩
  | .dtlcp => do
    let s ← fw16 f "seq"
    let fo ← fnat f "fo"
    let fl ← fnat f "fl"
    pure ⟨s, fo, fl⟩

/-! ### dispatch onto the models -/

def zeroH : DHdr := ⟨(0, 0), 0, 0⟩

def liftT {α : Type} (f : α → AnyMsg) (o : Outcome α) : Outcome (DHdr × AnyMsg) :=
  match o with
  | .ok a => .ok (zeroH, f a)
  | .reject => .reject
  | .panic => .panic

def liftD {α : Type} (f : α → AnyMsg) (o : Outcome (DHdr × α)) : Outcome (DHdr × AnyMsg) :=
  match o with
  | .ok (h, a) => .ok (h, f a)
  | .reject => .reject
  | .panic => .panic

def modelEncode (st : Stack) (k : Kind) (h : DHdr) (m : AnyMsg) : Option Bytes :=
  match st, k, m with
  | .tlcp, .finished, .blob b => Codec.encFinished Codec.codesT b
  | .tlcp, .serverHelloDone, .unit => Codec.encServerHelloDone Codec.codesT
  | .tlcp, .certificateVerify, .blob b => Codec.encCertificateVerify Codec.codesT b
  | .tlcp, .clientKeyExchange, .blob b => Codec.encKeyMsg Codec.codesT.tClientKeyExchange b
  | .tlcp, .serverKeyExchange, .blob b => Codec.encKeyMsg Codec.codesT.tServerKeyExchange b
  | .tlcp, .certificate, .cert c => Codec.encCertificate Codec.codesT c
  | .tlcp, .certificateRequest, .creq c => Codec.encCertificateRequest Codec.codesT c
  | .tlcp, .serverHello, .sh s => Codec.encServerHello Codec.codesT s
  | .tlcp, .clientHello, .ch c => Codec.encClientHello Codec.codesT c
  | .dtlcp, .finished, .blob b => CodecDtlcp.encFinished Codec.codesD h b
  | .dtlcp, .serverHelloDone, .unit => CodecDtlcp.encServerHelloDone Codec.codesD h
  | .dtlcp, .certificateVerify, .blob b => CodecDtlcp.encCertificateVerify Codec.codesD h b
  | .dtlcp, .clientKeyExchange, .blob b => CodecDtlcp.encKeyMsg Codec.codesD.tClientKeyExchange h b
  | .dtlcp, .serverKeyExchange, .blob b => CodecDtlcp.encKeyMsg Codec.codesD.tServerKeyExchange h b
  | .dtlcp, .certificate, .cert c => CodecDtlcp.encCertificate Codec.codesD h c
  | .dtlcp, .certificateRequest, .creq c => CodecDtlcp.encCertificateRequest Codec.codesD h c
  | .dtlcp, .helloVerifyRequest, .hvr v => CodecDtlcp.encHelloVerifyRequest Codec.codesD h v
  | .dtlcp, .serverHello, .sh s => CodecDtlcp.encServerHello Codec.codesD h s
  | .dtlcp, .clientHello, .ch c => CodecDtlcp.encClientHello Codec.codesD h c
  | _, _, _ => none

def modelDecode (st : Stack) (k : Kind) (data : Bytes) : Outcome (DHdr × AnyMsg) :=
  match st, k with
  | .tlcp, .finished => liftT .blob (Codec.unmarshalFinished Codec.codesT data)
  | .tlcp, .serverHelloDone => liftT (fun _ => .unit) (Codec.unmarshalServerHelloDone Codec.codesT data)
  | .tlcp, .certificateVerify => liftT .blob (Codec.unmarshalCertificateVerify Codec.codesT data)
  | .tlcp, .clientKeyExchange => liftT .blob (Codec.unmarshalClientKeyExchange Codec.codesT data)
  | .tlcp, .serverKeyExchange => liftT .blob (Codec.unmarshalServerKeyExchange Codec.codesT data)
  | .tlcp, .certificate => liftT .cert (Codec.unmarshalCertificate Codec.codesT data)
  | .tlcp, .certificateRequest => liftT .creq (Codec.unmarshalCertificateRequest Codec.codesT data)
  | .tlcp, .serverHello => liftT .sh (Codec.unmarshalServerHello Codec.codesT data)
  | .tlcp, .clientHello => liftT .ch (Codec.unmarshalClientHello Codec.codesT data)
  | .tlcp, .helloVerifyRequest => .reject
  | .dtlcp, .finished => liftD .blob (CodecDtlcp.decFinished Codec.codesD data)
  | .dtlcp, .serverHelloDone => liftD (fun _ => .unit) (CodecDtlcp.decServerHelloDone Codec.codesD data)
  | .dtlcp, .certificateVerify => liftD .blob (CodecDtlcp.decCertificateVerify Codec.codesD data)
  | .dtlcp, .clientKeyExchange => liftD .blob (CodecDtlcp.decClientKeyExchange Codec.codesD data)
  | .dtlcp, .serverKeyExchange => liftD .blob (CodecDtlcp.decServerKeyExchange Codec.codesD data)
  | .dtlcp, .certificate => liftD .cert (CodecDtlcp.decCertificate Codec.codesD data)
  | .dtlcp, .certificateRequest => liftD .creq (CodecDtlcp.decCertificateRequest Codec.codesD data)
  | .dtlcp, .helloVerifyRequest => liftD .hvr (CodecDtlcp.decHelloVerifyRequest Codec.codesD data)
  | .dtlcp, .serverHello => liftD .sh (CodecDtlcp.decServerHello Codec.codesD data)
  | .dtlcp, .clientHello => liftD .ch (CodecDtlcp.decClientHello Codec.codesD data)

/-! ### dispatch onto the spec -/

def liftS {α : Type} (f : α → AnyMsg) (o : Option (DHdr × α)) : Option (DHdr × AnyMsg) :=
  o.map fun (h, a) => (h, f a)

def specStrict (st : Stack) (k : Kind) (data : Bytes) : Option (DHdr × AnyMsg) :=
  match k with
  | .finished | .certificateVerify | .clientKeyExchange | .serverKeyExchange =>
    liftS .blob (Spec.Codec.strictBlob st k data)
  | .serverHelloDone => liftS (fun _ => .unit) (Spec.Codec.strictServerHelloDone st data)
  | .certificate => liftS .cert (Spec.Codec.strictCertificate st data)
  | .certificateRequest => liftS .creq (Spec.Codec.strictCertificateRequest st data)
  | .helloVerifyRequest => if st = .dtlcp then liftS .hvr (Spec.Codec.strictHelloVerifyRequest data) else none
  | .serverHello => liftS .sh (Spec.Codec.strictServerHello st data)
  | .clientHello => liftS .ch (Spec.Codec.strictClientHello st data)

def specWF (st : Stack) (k : Kind) : AnyMsg → Bool
  | .blob m => Spec.Codec.wfBlob k m
  | .unit => true
  | .cert m => Spec.Codec.wfCertificate m
  | .creq m => Spec.Codec.wfCertificateRequest m
  | .hvr m => Spec.Codec.wfHelloVerifyRequest m
  | .sh m => Spec.Codec.wfServerHello m
  | .ch m => Spec.Codec.wfClientHello st m

/-- the constructors' shape (`Model.Emitted`) of the decoded fields of a captured message -/
def emittedAny (st : Stack) (k : Kind) (m : AnyMsg) : Bool :=
  let p := match st with | .tlcp => Emitted.paramsT | .dtlcp => Emitted.paramsD
  match k, m with
  | .finished, .blob b => Emitted.emittedFinished p b
  | .certificateVerify, .blob b => Emitted.emittedCertificateVerify b
  | .clientKeyExchange, .blob b => Emitted.emittedKeyExchange b
  | .serverKeyExchange, .blob b => Emitted.emittedKeyExchange b
  | .serverHelloDone, .unit => true
  | .certificate, .cert c => Emitted.emittedCertificate c
  | .certificateRequest, .creq c => Emitted.emittedCertificateRequest p c
  | .helloVerifyRequest, .hvr v => Emitted.emittedHelloVerifyRequest p v
  | .serverHello, .sh s => Emitted.emittedServerHello p s
  | .clientHello, .ch c => Emitted.emittedClientHello p (st == .dtlcp) c
  | _, _ => false

/-! ### judge -/

def parseStack (s : String) : Option Stack :=
  if s == "tlcp" then some .tlcp else if s == "dtlcp" then some .dtlcp else none

def parseKind (s : String) : Option Kind :=
  [("clientHello", Kind.clientHello), ("serverHello", .serverHello), ("helloVerifyRequest", .helloVerifyRequest),
   ("certificate", .certificate), ("serverKeyExchange", .serverKeyExchange), ("certificateRequest", .certificateRequest),
   ("serverHelloDone", .serverHelloDone), ("certificateVerify", .certificateVerify),
   ("clientKeyExchange", .clientKeyExchange), ("finished", .finished)].lookup s

/-- the header fields a successful decode of the library's own encoding must report -/
def normHdr (st : Stack) (h : DHdr) (data : Bytes) : DHdr :=
  match st with
  | .tlcp => h
  | .dtlcp => { h with fragLen := data.length - 12 }

def judgeEnc (st : Stack) (k : Kind) (ks : String) (ct ot : List String) : Option Verdict := do
  let f := parseFieldTok (← kv ct "f")
  let h ← parseHdr st f
  let m ← parseBody st k f
  -- model
  let menc := modelEncode st k h m
  let (model, cls) :=
    match menc with
    | none => ("enc=err", "err")
    | some data =>
      match modelDecode st k data with
      | .ok (h', m') => (s!"enc=ok data={Hex.encode data} dec=ok g={render st k h' m'}", "ok")
      | .reject => (s!"enc=ok data={Hex.encode data} dec=rej", "undecodable")
      | .panic => (s!"enc=ok data={Hex.encode data} dec=panic", "panic")
  -- spec: the fields describe a complete message within the standard's ranges
  let wf := specWF st k m &&
    (match st with
     | .tlcp => true
     | .dtlcp => h.fragOff == 0 &&
        (match menc with
         | some data => h.fragLen == 0 || h.fragLen == data.length - 12
         | none => h.fragLen == 0))
  let obsEnc := (kv ot "enc").getD ""
  let obsDec := (kv ot "dec").getD ""
  let spec : Option (String × String) :=
    if obsEnc == "panic" || obsDec == "panic" then some ("panic", "marshal or unmarshal panicked")
    else if !wf then none
    else if obsEnc != "ok" then some ("roundtrip", "fields within the standard's ranges are refused by marshal")
    else
      match kvHex ot "data" with
      | none => some ("shape", "no data token")
      | some data =>
        let dataLen := data.length - (match st with | .tlcp => 4 | .dtlcp => 12)
        -- DTLCP: fragment_length 0 or the body length describe the complete message
        if st == .dtlcp && !(h.fragLen == 0 || h.fragLen == dataLen) then none else
        let want := render st k (normHdr st h data) m
        match specStrict st k data with
        | none => some ("roundtrip", "the encoding of well-formed fields is not a canonical encoding by the standard's grammar")
        | some (hs, ms) =>
          if render st k hs ms != want then some ("roundtrip", "the encoding strictly decodes to other fields")
          else if obsDec != "ok" then some ("roundtrip", "the library refuses its own encoding of well-formed fields")
          else if (kv ot "g").getD "" != want then some ("roundtrip", s!"decode(encode(m)) differs from m: expected {want}")
          else none
  pure { model := model, spec := spec, note := s!"{ks}.enc.{cls}.{if wf then "wf" else "loose"}" }

/-- what the model predicts for the driver's `runDec` of `data`, and its branch class -/
def modelDecLine (st : Stack) (k : Kind) (data : Bytes) : String × String :=
  match modelDecode st k data with
  | .ok (h, m) =>
    let raw := match st, k with
      | .tlcp, .serverHelloDone => decide (Codec.encServerHelloDone Codec.codesT = some data)
      | _, _ => true
    let re := match modelEncode st k h m with
      | none => "err"
      | some b => if b == data then "ok" else "diff"
    (s!"dec=ok g={render st k h m} raw={b01 raw} re={re}", "ok." ++ re)
  | .reject => ("dec=rej", "rej")
  | .panic => ("dec=panic", "panic")

def judgeDec (captured : Bool) (st : Stack) (k : Kind) (ks : String) (ct ot : List String) : Option Verdict := do
  let data ← kvHex ct "data"
  let (model, cls) := modelDecLine st k data
  let obsDec := (kv ot "dec").getD ""
  let strict := specStrict st k data
  let spec : Option (String × String) :=
    if obsDec == "panic" then some ("panic", "unmarshal panicked") else
    match strict with
    | some (h, m) =>
      let want := render st k h m
      -- (the constructors' shape is instantiated from regenerated facts: when the extractor could not find them
      -- — `Facts.missing` — the shape is unknown and this clause is not judged; the broken `C14_facts*` theorems
      -- report that, as a proof obligation, not as a failing input)
      if captured && Facts.missing.isEmpty && !emittedAny st k m then
        some ("emitted", "a message captured from a real handshake is outside the constructors' shape (Model.Emitted)")
      else if obsDec != "ok" then some ("canonical", "a canonical encoding is refused")
      else if (kv ot "g").getD "" != want then some ("canonical", s!"a canonical encoding decodes to other fields: expected {want}")
      else if (kv ot "re").getD "" != "ok" then some ("canonical", "the decoded fields of a canonical encoding do not re-encode to it")
      else none
    | none =>
      if captured then some ("emitted", "a message captured from a real handshake is not a canonical encoding")
      else if obsDec == "ok" then
        match Spec.Codec.shapeFailure st k data with
        | some "unframed" => some ("unframed", "accepted although the header disagrees with the data (length / fragment fields / trailing bytes)")
        | some why => some (why, "accepted although an inner vector does not end where its container ends")
        | none => none
      else none
  let canon := if strict.isSome then ".canon" else ""
  let opn := if captured then "cap" else "dec"
  pure { model := model, spec := spec, note := s!"{ks}.{opn}.{cls}{canon}" }

/-! ### configuration-level cases: the real client's ClientHello against `Model.Make` -/

def optW16s (f : List String) (k : String) : Option (Option (List W16)) := do
  let v ← kv f k
  if v == "nil" then pure none else (Hex.decode v).bind pairs |>.map some

def parseCfg (st : Stack) (ct : List String) : Option (Make.ClientCfg × Option Bytes) := do
  let sn ← kvHex ct "sn"
  let np ← (kv ct "np").bind parseList
  let curves ← optW16s ct "curves"
  let tas ← (kv ct "tas").bind parseTAs
  let cs ← optW16s ct "cs"
  let nc ← (kv ct "nc").bind String.toNat?
  let rnd ← kvHex ct "rnd"
  let t ← (kv ct "t").bind String.toNat?
  let ck ← (match st with
    | .tlcp => some none
    | .dtlcp => do
      let v ← kv ct "ck"
      if v == "none" then pure none else (Hex.decode v).map some)
  pure (⟨sn, np, curves, tas, cs.map (·.map W16.toNat), nc, rnd, t, [], []⟩, ck)

/-- the ClientHello messages the model's client puts on the wire for a configuration, in order
(dtlcp: a second one, message_seq 1, carrying the cookie of the scripted HelloVerifyRequest) -/
def modelEmit (st : Stack) (cfg : Make.ClientCfg) (ck : Option Bytes) : List Bytes :=
  match st with
  | .tlcp =>
    match Make.makeClientHello Emitted.paramsT Make.makeT cfg with
    | none => []
    | some m => (Codec.encClientHello Codec.codesT m).toList
  | .dtlcp =>
    match Make.makeClientHello Emitted.paramsD Make.makeD cfg with
    | none => []
    | some m =>
      match CodecDtlcp.encClientHello Codec.codesD ⟨(0, 0), 0, 0⟩ m with
      | none => []
      | some b1 =>
        match ck with
        | none => [b1]
        | some c => b1 :: (CodecDtlcp.encClientHello Codec.codesD ⟨(0, 1), 0, 0⟩ { m with cookie := c }).toList

/-- the hypotheses of `C14_makeClientHello_decodes_*` on this configuration (reported in the note) -/
def cfgFits (st : Stack) (cfg : Make.ClientCfg) (ck : Option Bytes) : Bool :=
  let (p, q) := match st with
    | .tlcp => (Emitted.paramsT, Make.makeT)
    | .dtlcp => (Emitted.paramsD, Make.makeD)
  match Make.makeClientHello p q { cfg with cookie := ck.getD [] } with
  | none => false
  | some m => cfg.tas.all Spec.Codec.wfTA && decide (0 < m.suites.length) && decide ((ck.getD []).length < 256) &&
      decide (Spec.Codec.clientExtLen m < 65536)

def judgeEmit (st : Stack) (ks : String) (ct ot : List String) : Option Verdict := do
  let (cfg, ck) ← parseCfg st ct
  let hellos := modelEmit st cfg ck
  let (model, cls) :=
    match hellos.getLast? with
    | none => ("mk=err", "err")
    | some data =>
      let (line, c) := modelDecLine st .clientHello data
      (s!"mk=ok n={hellos.length} data={Hex.encode data} {line}", c)
  let fits := cfgFits st cfg ck
  let obsMk := (kv ot "mk").getD ""
  let obsDec := (kv ot "dec").getD ""
  -- the property: whatever the client put on the wire decodes with the same library
  let spec : Option (String × String) :=
    if obsMk == "err" then none
    else if obsMk != "ok" then some ("shape", "no mk token")
    else if obsDec == "panic" then some ("panic", "unmarshal panicked on a ClientHello the client emitted")
    else if obsDec != "ok" then
      some ("undecodable", "the client put a ClientHello on the wire that the library's own decoder refuses")
    else none
  pure { model := model, spec := spec, note := s!"{ks}.emit.{cls}.{if fits then "fit" else "loose"}" }

def judge (c o : String) : Option Verdict := do
  let ct := tokens c
  let ot := tokens o
  let st ← (kv ct "stack").bind parseStack
  let ks ← kv ct "kind"
  let k ← parseKind ks
  let op ← kv ct "op"
  if op == "enc" then judgeEnc st k ks ct ot
  else if op == "dec" then judgeDec false st k ks ct ot
  else if op == "cap" then judgeDec true st k ks ct ot
  else if op == "emit" then (if k == .clientHello then judgeEmit st ks ct ot else none)
  else none

end Gotlcp.Oracle.C14

/-
Oracle for C02: re-computes what the model of the client's authentication logic predicts
for one connection and evaluates the spec ("completed ⇒ Authenticated", "failed ⇒ nothing
reported, nothing delivered") on what the real client did.

case     : `stack=tlcp|dtlcp suite=ecc-gcm|ecc-cbc|ecdhe-gcm|ecdhe-cbc scen=<name> skip=0|1 [cb=<p><c>] peer=real|script
            certmsg=b ncerts=n parse=b c0=<kind>:<chainOK>:<id>|- c1=…|-
            skx=b wf=b sigvalid=b signer=<id> scr=this|old ssr=this|old sparams=<id>|carried|other|none intact=b
            creq=b clienc=b done=b ckx=b fin=b sess=none|<n>:<chainSigNow>:<chainEncNow> sresume=b sfin=b
            [sevict=none|window|afterload psecret=session|zeros|empty|other|none]`
           (`sevict`: when the client's cache evicted the session relative to `loadSession`;
            `psecret`: the master secret the peer computed its Finished with — scenario ground
            truth; `sfin`: the driver's own comparison of that secret with the session's.  Both
            optional: absent = no eviction, the peer's secret is the session's iff `sfin`.)
           (`cb`: the client's Config.VerifyPeerCertificate <p> and Config.VerifyConnection <c>, each
            `-` not installed, `a` installed and returning nil, `r` installed and returning an
            error; absent = `--`.  The callbacks are inputs of the MODEL only: the spec never looks
            at them — what user code answers is no evidence about the peer, so a callback can make
            the client refuse but can never excuse a completion.)
           (`enckey`: the peer holds the private key of the encryption certificate it presented —
            scenario ground truth, evidence for the SPEC only; absent = 1.)
           (`rand=<kind>` with `pmsseen=b rfirst=<k>|-`: the client's Config.Rand is a logging reader
            that delivers short reads; `pmsseen`: the driver opened a ClientKeyExchange of an ECC
            suite; `rfirst`: bytes the reader delivered on the first call that asked for the 46
            random bytes of the pre-master secret.)
observed : `client=completed|failed(<class>) resumed=b hs_complete=b read=<n> [pms=<n>|-]`
           (`pms`, with `rand=` only: how many leading bytes of the random part of the pre-master
            secret the client encrypted are a contiguous run of the reader's output.  The model
            predicts it from the shape of the source: all 46 with io.ReadFull whatever the reader's
            schedule — the prediction is made for the schedule "rfirst bytes, then one per call" —
            and only what one call delivered otherwise.)

The model is run over the *symbolic* description of the signature (who signed, over which
randoms and parameters) with the term-algebra `verify`; the spec is evaluated over the
verdicts the driver computed with the real libraries (`sigvalid`, chain verdicts, `fin`).  The
two must tell the same story: if the ideal-signature reading of the scenario and the real SM2
verification differ, the case is flagged `signature-content`.
-/
import Gotlcp.Oracle.Common
import Gotlcp.Model.ClientAuthn
import Gotlcp.Model.ClientAuthnFacts
import Gotlcp.Spec.ClientAuthnSpec

namespace Gotlcp.Oracle.C02
open Gotlcp.Model.ClientAuthn
open Gotlcp.Spec.ClientAuthn

/-- a signature as a term: who made it and over what -/
structure SymSig where
  signer : String
  cr : String
  sr : String
  params : String
  intact : Bool

/-- ideal verification: valid iff made by the private half of `k` over exactly `m`, unaltered -/
def symVerify (k : String) (m : Tbs String String) (s : SymSig) : Bool :=
  s.intact && s.signer == k && s.cr == m.clientRandom && s.sr == m.serverRandom && s.params == m.params

def b01 (b : Bool) : String := if b then "1" else "0"

def kvBool (t : List String) (k : String) : Option Bool :=
  match kv t k with
  | some "1" => some true
  | some "0" => some false
  | _ => none

def parseKind (s : String) : Option KeyKind :=
  if s == "ecdsa" then some .ecdsa else if s == "rsa" then some .rsa else if s == "other" then some .other else none

def parseCert (s : String) : Option (Option (CertView String String)) :=
  if s == "-" then some none else
  match s.splitOn ":" with
  | [k, c, id] => do
    let kind ← parseKind k
    let chain ← (if c == "1" then some true else if c == "0" then some false else none)
    pure (some { key := id, kind := kind, chainOK := chain, der := id })
  | _ => none

def parseCallback (c : Char) : Option (Option Bool) :=
  if c == '-' then some none else if c == 'a' then some (some true) else if c == 'r' then some (some false) else none

def parseCallbacks (s : String) : Option Callbacks :=
  match s.toList with
  | [p, c] => do
    let vpc ← parseCallback p
    let vc ← parseCallback c
    pure { vpc := vpc, vc := vc }
  | _ => none

def parseSess (s : String) : Option (Option (Nat × Bool × Bool)) :=
  if s == "none" then some none else
  match s.splitOn ":" with
  | [n, a, b] => do
    let n ← n.toNat?
    let a ← (if a == "1" then some true else if a == "0" then some false else none)
    let b ← (if b == "1" then some true else if b == "0" then some false else none)
    pure (some (n, a, b))
  | _ => none

/-- is the model's failure stage the one the implementation's error class names?  (finer than
the property: differences are reported as notes only) -/
def stageMatches (stage cls : String) : Bool :=
  let fin := ["finished", "finished-record", "remote-alert", "eof", "closed", "timeout"]
  let unexpected := ["certificate-missing", "skx-missing", "hello-done"]
  if stage == cls then true
  else if stage == "finished" then fin.contains cls
  else if unexpected.contains stage then cls == "unexpected-message"
  else if stage.startsWith "ckx" then cls == "panic" || cls.startsWith "other:" || cls == "skx-keytype"
  else false

structure Obs where
  completed : Bool
  cls : String
  resumed : Bool
  hsComplete : Bool
  read : Nat

def parseObs (o : String) : Option Obs := do
  let t := tokens o
  let c ← kv t "client"
  let resumed ← kvBool t "resumed"
  let hc ← kvBool t "hs_complete"
  let rd ← kvNat t "read"
  if c == "completed" then pure ⟨true, "-", resumed, hc, rd⟩
  else if c.startsWith "failed(" && c.endsWith ")" then
    pure ⟨false, String.ofList ((c.toList.drop 7).dropLast), resumed, hc, rd⟩
  else none

/-- bytes the driver's honest peer sends once both ends completed -/
def probeLen : Nat := 16

def judge (c o : String) : Option Verdict := do
  let t := tokens c
  let stackS ← kv t "stack"
  let st ← (if stackS == "tlcp" then some Stack.tlcp else if stackS == "dtlcp" then some Stack.dtlcp else none)
  let suite ← kv t "suite"
  let kex ← (if suite.startsWith "ecc-" then some Kex.ecc else if suite.startsWith "ecdhe-" then some Kex.ecdhe else none)
  let skip ← kvBool t "skip"
  let cbs ← parseCallbacks ((kv t "cb").getD "--")
  let certmsg ← kvBool t "certmsg"
  let ncerts ← kvNat t "ncerts"
  let parse ← kvBool t "parse"
  let c0 ← (kv t "c0").bind parseCert
  let c1 ← (kv t "c1").bind parseCert
  let skxP ← kvBool t "skx"
  let wf ← kvBool t "wf"
  let sigvalid ← kvBool t "sigvalid"
  let signer ← kv t "signer"
  let scr ← kv t "scr"
  let ssr ← kv t "ssr"
  let sparams ← kv t "sparams"
  let intact ← kvBool t "intact"
  let creq ← kvBool t "creq"
  let clienc ← kvBool t "clienc"
  let done ← kvBool t "done"
  let ckx ← kvBool t "ckx"
  let fin ← kvBool t "fin"
  let sess ← (kv t "sess").bind parseSess
  let sresume ← kvBool t "sresume"
  let sfin ← kvBool t "sfin"
  let sevict := (kv t "sevict").getD "none"
  let psecretS := (kv t "psecret").getD (if sfin then "session" else "none")
  let psecret : Option Secret ← (match psecretS with
    | "session" => some (some Secret.session)
    | "zeros" => some (some Secret.zeros)
    | "empty" => some (some Secret.empty)
    | "other" => some (some Secret.other)
    | "none" => some none
    | _ => none)
  if sevict != "none" && sevict != "window" && sevict != "afterload" then none
  let ob ← parseObs o
  let enckey := (kvBool t "enckey").getD true
  let randKind := kv t "rand"
  let pmsseen := (kvBool t "pmsseen").getD false
  let rfirst : Nat := ((kv t "rfirst").bind String.toNat?).getD 0
  -- the view of the model
  let extra : CertView String String := { key := "extra", kind := .ecdsa, chainOK := true, der := "extra" }
  let firstTwo := (match c0 with | some x => [x] | none => []) ++ (match c1 with | some x => [x] | none => [])
  let certs := firstTwo ++ List.replicate (ncerts - firstTwo.length) extra
  let sig : SymSig := { signer := signer, cr := scr, sr := ssr, params := sparams, intact := intact }
  let full : FullView String String String SymSig :=
    { kex := kex, clientRandom := "this", serverRandom := "this", certMsg := certmsg, certs := certs,
      parseOK := parse,
      skx := if skxP then some { wellFormed := wf, ecdhParams := "carried", sig := sig } else none,
      certReq := creq, clientEncCert := clienc, helloDone := done, ckxOK := ckx, finishedOK := fin, cb := cbs }
  let sv : Option SessView := sess.map fun (n, a, b) =>
    { nCerts := n, chainSig := a, chainEnc := b, serverResumes := sresume, versOK := true, suiteOK := true,
      evictedInWindow := sevict == "window", evictedAfterLoad := sevict == "afterload", peerFin := psecret, cb := cbs }
  let res := connect (paramsOf st) symVerify skip { session := sv, full := full }
  let mDidResume := didResume (paramsOf st) skip ({ session := sv, full := full } : ConnView String String String SymSig)
  let mCompleted := res.result.outcome.isCompleted
  let mStage := match res.result.outcome with
    | .completed => "-"
    | .failed s _ => s
  -- prediction in the observation syntax; the error class is finer than the property
  let clsShown := if !mCompleted && !ob.completed then ob.cls else mStage
  let model :=
    s!"client={if mCompleted then "completed" else s!"failed({clsShown})"} resumed={b01 mDidResume} hs_complete={b01 (res.result.handshakeStatus == 1)} read={if mCompleted then probeLen else 0}"
  -- the entropy source: which bytes of the pre-master secret come from the reader
  let pp := pmsParamsOf st
  let pmsModel : String :=
    if !pmsseen then "-" else
    match pmsDrawn pp { stream := List.replicate (pp.len + 1) 0, sched := rfirst :: List.replicate pp.len 1 } with
    | some n => toString n
    | none => "error"
  let model := if randKind.isSome then s!"{model} pms={pmsModel}" else model
  let note :=
    if !mCompleted && !ob.completed && !stageMatches mStage ob.cls then s!"stage:model={mStage},impl={ob.cls}"
    else if mCompleted && ob.completed && !res.resumed &&
        (match c0, c1 with | some a, some b => a.key.endsWith "enc" && b.key.endsWith "sig" | _, _ => false)
      then "key-usage-of-certificates-not-enforced"
    else ""
  -- the spec on the implementation's observation, over the driver's real-library verdicts
  let chainOf (x : Option (CertView String String)) : Bool := match x with | some y => y.chainOK | none => false
  let ev : Evidence :=
    { certCount := ncerts, sigChainOK := chainOf c0, encChainOK := chainOf c1, skxPresent := skxP,
      sigValidOverThis := sigvalid && wf, finishedCorrect := fin, kexKeyHeld := enckey }
  let sev : Option SessionEvidence := sess.map fun (n, a, b) =>
    { certCount := n, sigChainNow := a, encChainNow := b, finishedCorrect := sfin }
  let observation : Observation :=
    { completed := ob.completed, resumed := ob.resumed, reportsComplete := ob.hsComplete, delivered := ob.read }
  -- ideal-signature reading of the scenario vs real SM2 verification
  let symValid : Bool := match skxP, certs with
    | true, a :: b :: _ => wf && a.kind == .ecdsa && symVerify a.key (clientTbs full { wellFormed := wf, ecdhParams := "carried", sig := sig } b.der) sig
    | _, _ => false
  let lawBroken := skxP && ncerts ≥ 2 && parse && (symValid != (sigvalid && wf))
  -- symbolic reading of the peer's secret vs the driver's byte comparison with the session's
  let secretLawBroken := sess.isSome && sresume && (sfin != (psecret == some Secret.session))
  let spec :=
    if secretLawBroken then
      some ("finished-content", s!"by construction of the scenario the peer computes its Finished with psecret={psecretS}, but comparing the secret it really used with the cached session's says sfin={b01 sfin} (the scenario is wrong)")
    else if lawBroken then
      some ("signature-content", s!"by construction of the scenario the signature is {if symValid then "valid" else "invalid"} over this handshake's randoms and parameters, but an independent SM2 verification over exactly those bytes says sigvalid={b01 sigvalid}: the peer signs other bytes than the standard's (or the scenario is wrong)")
    else Spec.ClientAuthn.judge (!skip) ev sev observation
  pure { model := model, spec := spec, note := note }

end Gotlcp.Oracle.C02

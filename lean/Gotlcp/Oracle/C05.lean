/-
Oracle for C05.  Three kinds of case lines (first token):

`pad pad=<hex>`  =>  `rm=<toRemove> good=<byte>`
    extractPadding on arbitrary bytes (real code through the hook).

`dec suite=cbc|gcm gen=0|1 seq=<n> rec=<hex> …crypto inputs…`  =>  `res=ok.<typ>.<hex>|alert.<n> seq=<after>`
    halfConn.decrypt on a genuine (`gen=1`) or mutated record.  The primitives' answers are
    inputs computed by the driver with the library's SM4/SM3 directly:
      cbc: `dec=<hex>`   CBC decryption of the body after the explicit IV
           `macs=<n>:<hex>,…` HMAC over seq‖type‖version‖n‖dec[:n] for the candidate lengths n
      gcm: `nonce=<hex> ad=<hex>` explicit nonce and additional data as the standard builds them,
           `opens=<hex>|fail` GCM-Open for exactly these; the model insists on building the same two.

`e2e suite=… dir=… recs=… buf=<n> seg=all|rec exact=0|1 edit=… cls=… glens=… wire=… tail=…`
    =>  `reads=<r>;<r>;… alert=<level>.<description>|-`
    a real connection pair after a real handshake; the sender protected `recs`, a man in the
    middle applied `edit`; `wire`/`tail` describe the resulting stream as the receiver frames it
    (`g<i>` = the sender's i-th record untouched, `g<i>.<typ>.<vers>` = its body under an edited
    header, `f<typ>.<vers>.<len>` = anything else; only up to the first record that is not
    genuine-in-order).  r = `ok.<hex>` | `okerr.<hex>.<err>` | `err.<err>`,
    err = eof | ueof | local.<n> | remote.<n> | hdr | toomany | other.

The spec half: `Spec.RecordRx.holds` (prefix / whole records / sticky) on the observed reads, and the
bad_record_mac clause for ciphertext damage (`cls=ct`), from the observation alone.
-/
import Gotlcp.Oracle.Common
import Gotlcp.Model.RecordRx
import Gotlcp.Spec.RecordRxSpec

namespace Gotlcp.Oracle.C05
open Gotlcp.Model.RecordRx

def P : Params := tlcpParams

/-! ### pad -/

def judgePad (ct ot : List String) : Option Verdict := do
  let bs ← kvHex ct "pad"
  let (rm, good) := extractPadding bs
  let model := s!"rm={rm} good={good.toNat}"
  -- spec: RFC 5246 6.2.3.2 — valid iff the last pl+1 bytes all equal pl
  let valid : Bool := match bs.getLast? with
    | none => false
    | some l => decide (l.toNat + 1 ≤ bs.length) && (bs.reverse.take (l.toNat + 1)).all (· == l)
  let spec : Option (String × String) :=
    match kvNat ot "rm", kvNat ot "good" with
    | some orm, some og =>
      if (kv ot "panic").isSome then some ("panic", "extractPadding panicked")
      else if valid then
        if og == 255 && orm == (bs.getLast?.getD 0).toNat + 1 then none
        else some ("padding", s!"valid padding reported as rm={orm} good={og}")
      else if og == 0 then none
      else some ("padding", s!"invalid padding accepted (good={og})")
    | _, _ => some ("shape", "unparseable observation")
  pure { model := model, spec := spec, trivial := bs.isEmpty }

/-! ### dec -/

def parseMacs (s : String) : Option (List (Nat × Bytes)) :=
  if s == "-" then some [] else
  (s.splitOn ",").mapM fun e =>
    match e.splitOn ":" with
    | [n, h] => do pure ((← n.toNat?), (← Hex.decode h))
    | _ => none

def judgeDec (ct ot : List String) : Option Verdict := do
  let suite ← kv ct "suite"
  let seq ← kvNat ct "seq"
  let rec_ ← kvHex ct "rec"
  let gen := kv ct "gen" == some "1"
  let cipher : Cipher ←
    if suite == "cbc" then do
      let dec ← kvHex ct "dec"
      let macs ← (kv ct "macs").bind parseMacs
      pure (Cipher.cbc
        { blockSize := 16, macSize := 32, dec := fun _ _ => dec,
          mac := fun _ hdr _ =>
            -- the candidate is identified by the length field of the pseudo-header
            let n := (hdr.getD 3 0).toNat * 256 + (hdr.getD 4 0).toNat
            match macs.find? (·.1 == n) with
            | some (_, m) => m
            | none => [] })
    else if suite == "gcm" then do
      let nonce ← kvHex ct "nonce"
      let ad ← kvHex ct "ad"
      let opens ← kv ct "opens"
      let res : Option Bytes := if opens == "fail" then none else Hex.decode opens
      pure (Cipher.aead
        { explicitNonceLen := Facts.tlcp.aeadNonceLength - Facts.tlcp.noncePrefixLength, overhead := 16,
          aopen := fun n a _ => if n == nonce && a == ad then res else none })
    else none
  let r := decrypt P cipher seq rec_
  let model := match r with
    | .ok pt => s!"res=ok.{(rec_.headD 0).toNat}.{Hex.encode pt} seq={seq + 1}"
    | .fail a _ => s!"res=alert.{a} seq={seq}"
  let note := match r with
    | .fail _ why => s!"{repr why}"
    | .ok _ => "opened"
  let ores := (kv ot "res").getD ""
  let spec : Option (String × String) :=
    if (kv ot "panic").isSome then some ("panic", "decrypt panicked")
    else if gen then
      if ores.startsWith "ok." then none else some ("genuine-refused", s!"an untouched record was refused: {ores}")
    else if ores.startsWith "ok." then some ("forgery-accepted", "a record that is not the sender's opened")
    else if ores == s!"alert.{Spec.RecordRx.badRecordMAC}" then none
    else some ("alert-oracle", s!"damage answered with {ores} instead of bad_record_mac")
  pure { model := model, spec := spec, note := note }

/-! ### e2e -/

/-- the driver's payload pattern for record i -/
def pattern (i len : Nat) : Bytes := (List.range len).map fun j => UInt8.ofNat ((i * 37 + j * 11 + 1) % 256)

def parseRec (i : Nat) (s : String) : Option Sent :=
  match s.toList with
  | 'a' :: r => (String.ofList r).toNat?.map fun n => ⟨P.tApp, pattern i n⟩
  | 'h' :: r => (String.ofList r).toNat?.map fun n => ⟨P.tHandshake, pattern i n⟩
  | ['w'] => some ⟨P.tAlert, [UInt8.ofNat P.lvlWarning, 100]⟩
  | ['c'] => some ⟨P.tAlert, [UInt8.ofNat P.lvlWarning, UInt8.ofNat P.aCloseNotify]⟩
  | 'F' :: r => (String.ofList r).toNat?.map fun n => ⟨P.tAlert, [UInt8.ofNat P.lvlError, UInt8.ofNat n]⟩
  | 'x' :: r => (String.ofList r).toNat?.map fun n => ⟨P.tCCS, pattern i n⟩
  | _ => none

def parseRecs (s : String) : Option (List Sent) :=
  if s == "-" then some [] else
  let toks := s.splitOn ","
  (toks.zipIdx).mapM fun (t, i) => parseRec i t

def parseWire (s : String) : Option (Wire SymBody) :=
  match s.toList with
  | 'g' :: r =>
    match (String.ofList r).splitOn "." with
    | [i] => i.toNat?.map fun i => ⟨0, 0, .genuine i⟩   -- header filled in by the caller
    | [i, t, v] => do pure ⟨← t.toNat?, ← v.toNat?, .genuine (← i.toNat?)⟩
    | _ => none
  | 'f' :: r =>
    match (String.ofList r).splitOn "." with
    | [t, v, l] => do pure ⟨← t.toNat?, ← v.toNat?, .junk 0 (← l.toNat?) []⟩
    | _ => none
  | _ => none

def parseWires (sent : List Sent) (s : String) : Option (List (Wire SymBody)) :=
  if s == "-" then some [] else
  (s.splitOn ",").mapM fun t => do
    let w ← parseWire t
    match w.body with
    | .genuine i => if (t.splitOn ".").length == 1 then pure (honest P sent SymBody.genuine i) else pure w
    | _ => pure w

def parseTail (s : String) : Option Tail :=
  match s.splitOn "." with
  | ["eof"] => some { part := none, closed := true }
  | ["hdr", t, k] => do pure { part := some (.hdr (← t.toNat?) (← k.toNat?)), closed := true }
  | ["body", t, v, n] => do pure { part := some (.body (← t.toNat?) (← v.toNat?) (← n.toNat?)), closed := true }
  | _ => none

def showErr : RxErr → String
  | .eof => "eof"
  | .unexpectedEOF => "ueof"
  | .localAlert a => s!"local.{a}"
  | .remoteAlert a => s!"remote.{a}"
  | .header => "hdr"
  | .tooManyIgnored => "toomany"
  | .internalPending => "other"

/-- canonical rendering; `exact = false` splits (n > 0, err) into two entries -/
def showRes (exact : Bool) : ReadRes → List String
  | .ok d => [s!"ok.{Hex.encode d}"]
  | .okErr d e => if exact then [s!"okerr.{Hex.encode d}.{showErr e}"] else [s!"ok.{Hex.encode d}", s!"err.{showErr e}"]
  | .err e => [s!"err.{showErr e}"]
  | .blocked d => [s!"blocked.{Hex.encode d}"]

/-- the driver's read policy: `Read(buf)` until a call returns an error, then `extra` more calls -/
def runReads (D : Dec SymBody) (t : Tail) (buf : Nat) (peek : Bool) :
    Nat → Option Nat → RxState → List (Wire SymBody) → List ReadRes → RxState × List ReadRes
  | 0, _, s, _, acc => (s, acc.reverse)
  | _, some 0, s, _, acc => (s, acc.reverse)
  | fuel + 1, extra, s, ws, acc =>
    let ((s', ws'), r) := readCall P D Ctx.established t s ws buf peek
    let stop := match r with | .blocked _ => true | _ => false
    if stop then (s', (r :: acc).reverse) else
    let extra' := match extra with
      | some k => some (k - 1)
      | none => if r.error.isSome then some 2 else none
    runReads D t buf peek fuel extra' s' ws' (r :: acc)

structure ObsRead where
  data : Bytes
  failed : Bool

def parseObsRead (s : String) : Option ObsRead :=
  match s.splitOn "." with
  | ["ok", h] => (Hex.decode h).map fun d => ⟨d, false⟩
  | "okerr" :: h :: _ => (Hex.decode h).map fun d => ⟨d, true⟩
  | "err" :: _ => some ⟨[], true⟩
  | _ => none

def judgeE2E (ct ot : List String) : Option Verdict := do
  let sent ← (kv ct "recs").bind parseRecs
  let glens ← (kv ct "glens").map fun s => if s == "-" then [] else (s.splitOn ",").filterMap String.toNat?
  let attack ← (kv ct "wire").bind (parseWires sent)
  let tail ← (kv ct "tail").bind parseTail
  let buf ← kvNat ct "buf"
  let seg ← kv ct "seg"
  let exact := kv ct "exact" == some "1"
  let suite ← kv ct "suite"
  let cls := (kv ct "cls").getD "none"
  let D := symDec P sent (fun i => glens.getD i 0)
  let total := (sent.map (·.payload.length)).sum
  let fuel := total + attack.length + 8
  let (s, rs) := runReads D tail buf (seg == "all") fuel none {} attack []
  let strs := (rs.map (showRes exact)).flatten
  let alertStr := match s.alerts.head? with
    | some a =>
      -- `sendAlertLocked`: warning level for the alerts of the regenerated table, error level otherwise
      let lvl := if Facts.tlcp.rxWarningLevelAlerts.contains a then P.lvlWarning else P.lvlError
      s!"{lvl}.{a}"
    | none => "-"
  let model := s!"reads={";".intercalate strs} alert={alertStr}"
  -- spec on the observation
  let n := goodPrefix P sent SymBody.genuine 0 attack
  let payloads := appPayloads P sent
  -- the damaged record is reached when everything before it is plain non-empty application data
  -- (a close_notify or fatal alert of the sender ends the stream first, legitimately)
  let reached := (sent.take n).all fun r => r.typ == 23 && r.payload.length > 0 && r.payload.length ≤ 16384
  -- observed `alert=<level>.<description>`
  let oalert : Option Nat := match ((kv ot "alert").getD "-").splitOn "." with
    | [_, d] => d.toNat?
    | _ => none
  let oreads := (kv ot "reads").getD ""
  let obs := if oreads == "-" || oreads == "" then some [] else (oreads.splitOn ";").mapM parseObsRead
  let spec : Option (String × String) :=
    match obs with
    | none => some ("shape", "unparseable reads")
    | some obs =>
      let os : List Spec.RecordRx.Obs := obs.map fun o => ⟨o.data, o.failed⟩
      if (kv ot "panic").isSome then some ("panic", "the receiver panicked")
      else if !Spec.RecordRx.prefixOK payloads n os then
        some ("prefix", s!"delivered bytes are not a prefix of the {n} records before the first damaged one")
      else if !Spec.RecordRx.wholeOnError payloads n os then
        some ("whole", "an error was returned after part of a record only")
      else if !Spec.RecordRx.sticky os then
        some ("sticky", "a read after the first failed read succeeded or delivered bytes")
      else if cls == "ct" && suite == "cbc" && reached && !Spec.RecordRx.uniformAlertOK oalert then
        some ("alert-oracle", s!"ciphertext damage on a CBC suite answered with alert {(kv ot "alert").getD "?"}, not bad_record_mac")
      else none
  let note := if cls == "ct" && suite == "gcm" && reached && oalert != some Spec.RecordRx.badRecordMAC
    then "gcm-damage-alert-differs" else s!"first-damage-at-{n}-of-{attack.length}"
  pure { model := model, spec := spec, note := note, trivial := (kv ct "edit") == some "none" && false }

def judge (c o : String) : Option Verdict :=
  let ct := tokens c
  let ot := tokens o
  match ct.head? with
  | some "pad" => judgePad ct ot
  | some "dec" => judgeDec ct ot
  | some "e2e" => judgeE2E ct ot
  | _ => none

end Gotlcp.Oracle.C05

/-
Oracle for C16.

level `win` — `replayWindow` through the hook:
  case     : `lvl=win size=<int> seqs=<n>,<n>,...|-`      (`size` = argument of newReplayWindow)
  observed : `acc=<0|1 per delivery>|- right=<n> bitmap=<16 hex digits> size=<n>`
level `cfg` — the window a fresh `Server`/`Client` connection carries for `Config.ReplayWindow`:
  case     : `lvl=cfg role=server|client cfg=<int> seqs=...`
  observed : as above
level `rx`  — the post-handshake receive paths of a real connection pair:
  case     : `lvl=rx path=readfrom|read|mix suite=gcm|cbc role=server|client cfg=<int> sent=<k> [repoch=<n>]
              [skip=<j>.<n>,...] [plen=<L>] [pcw=<base>] script=<item>,...`
             `pcw=<base>` (role=server): the listener's Config has ReplayWindow <base> and a
             GetConfigForClient that returns a Config with ReplayWindow `cfg`; `cfg` is always the
             value of the Config that governs the receiving connection — the size the spec uses.
             items (see harness/cmd/c16/rx.go): `g<i>` record i as sent, `q` the close_notify record,
             `f<i>` `c<i>` bit flips, `s<i>.<n>` / `e<i>.<n>` / `v<i>` rewritten sequence number /
             epoch / version, `t<i>` truncated, `o<i>` oversize length, `z` short junk,
             `a<i>` record i from another address; a delivery is followed by one call of the path's
             API with a large buffer unless it is written `+<item>` or the path is `mix`;
             `R<n>` / `F<n>` = a call of Read / ReadFrom with an n-byte buffer.
             `skip`: the sender moved its sequence number to n before record j; `plen`: payload i
             has L + i%7 bytes.
  observed : `init=<epoch>:<right>:<bitmap>:<size> hdrs=1.<a>-<b>,... steps=<out>:<epoch>:<right>:<bitmap>:<pending>|... inerr=none|eof|fatal`
             one step per call; out = `d<i>` (all of payload i) | `x<hex>` (other bytes) | `T` | `EOF` | `ERR`,
             bytes and an error together as `<bytes>!T|EOF|ERR`
  Here the assumption "only what the peer protected authenticates" is used to *predict*: the
  oracle gives every modified record the verdict `auth = false`; the real `decrypt` is what
  is observed.

The model's prediction uses the regenerated facts; the spec verdict uses only
`Gotlcp.Spec.ReplaySpec` and the documented constants.
-/
import Gotlcp.Oracle.Common
import Gotlcp.Model.Replay
import Gotlcp.Model.DtlcpRx
import Gotlcp.Model.DtlcpRxMix
import Gotlcp.Spec.ReplaySpec
import Gotlcp.Generated.Facts

namespace Gotlcp.Oracle.C16
open Gotlcp.Model
open Gotlcp.Spec

/-- the parameters of the tree under test -/
def P : Replay.Params :=
  Model.Replay.treeParams Facts.dtlcp.defaultReplayWindowSize

def parseInt (s : String) : Option Int :=
  if s.startsWith "-" then (s.drop 1).toNat?.map (fun n => -(n : Int)) else s.toNat?.map Int.ofNat

def parseNats (s : String) : Option (List Nat) :=
  if s == "-" then some [] else (s.splitOn ",").mapM String.toNat?

def bitsStr (bs : List Bool) : String :=
  if bs.isEmpty then "-" else String.ofList (bs.map fun b => if b then '1' else '0')

def parseBits (s : String) : Option (List Bool) :=
  if s == "-" then some [] else s.toList.mapM fun c => if c == '1' then some true else if c == '0' then some false else none

def hex16 (n : Nat) : String :=
  String.ofList ((List.range 16).reverse.map fun i => Hex.digit ((n >>> (4 * i)) % 16))

def showWindow (w : Replay.Window) (acc : List Bool) : String :=
  s!"acc={bitsStr acc} right={w.right} bitmap={hex16 w.bitmap.toNat} size={w.size}"

def hasDup : List Nat → Bool
  | [] => false
  | x :: xs => xs.contains x || hasDup xs

/-- window / config level -/
def judgeWin (w0 : Replay.Window) (wmin : Nat) (seqs : List Nat) (o : String) : Verdict :=
  let (w, acc) := Replay.run P w0 seqs
  let ot := tokens o
  let spec : Option (String × String) :=
    match (kv ot "acc").bind parseBits with
    | none => some ("shape", "no acc= in the observation")
    | some obs =>
      if obs.length != seqs.length then some ("shape", "number of answers differs from the number of deliveries")
      else
        match kvNat ot "size" with
        | none => some ("shape", "no size= in the observation")
        | some _ => ReplaySpec.judge wmin (seqs.zip obs)
  { model := showWindow w acc, spec := spec, trivial := !hasDup seqs && seqs.length < 3 }

/-! ### level rx -/

/-- the receive-path parameters of the tree under test -/
def Q : DtlcpRx.RxParams :=
  { dropForged := Facts.dtlcp.replayRxRecordDecryptFail == "discard-after-handshake" ||
                  Facts.dtlcp.replayRxRecordDecryptFail == "discard",
    dropMalformed := Facts.dtlcp.replayRxRecordMalformedDrops == Facts.dtlcp.replayRxRecordHeaderChecks }

def splitDot (s : String) : String × Option Nat :=
  match s.splitOn "." with
  | [a, b] => (a, b.toNat?)
  | _ => (s, none)

/-- `skip=<j>.<n>,...` -/
def parseSkips (s : String) : Option (List (Nat × Nat)) :=
  if s == "-" then some [] else
  (s.splitOn ",").mapM fun part =>
    match splitDot part with
    | (a, some n) => a.toNat?.map fun j => (j, n)
    | _ => none

/-- the sequence number record `i` carries: `i`, or `n + (i - j)` for the last skip point `j ≤ i` -/
def seqOf (skips : List (Nat × Nat)) (i : Nat) : Nat :=
  let best := skips.foldl (fun (acc : Nat × Nat) (jn : Nat × Nat) => if jn.1 ≤ i && jn.1 ≥ acc.1 then jn else acc) (1, 1)
  best.2 + (i - best.1)

/-- the bytes of payload `i` for base length `L` (as harness/cmd/c16/rx.go `payloadOf`) -/
def payloadBytes (L i : Nat) : List Nat :=
  (List.range (L + i % 7)).map fun j =>
    if j == 0 then i % 256 else 201 + (i * 7 + j * 13) % 55

def hexBytes (bs : List Nat) : String :=
  String.ofList (bs.flatMap fun b => [Hex.digit (b / 16), Hex.digit (b % 16)])

def hexVal (c : Char) : Option Nat :=
  if '0' ≤ c && c ≤ '9' then some (c.toNat - '0'.toNat)
  else if 'a' ≤ c && c ≤ 'f' then some (c.toNat - 'a'.toNat + 10) else none

def parseHexBytes : List Char → Option (List Nat)
  | [] => some []
  | a :: b :: rest => do
    let x ← hexVal a
    let y ← hexVal b
    let r ← parseHexBytes rest
    pure ((x * 16 + y) :: r)
  | _ => none

/-- runs of consecutive sequence numbers of records `1 … k+1`, as the driver prints them -/
def hdrRuns (skips : List (Nat × Nat)) (k : Nat) : String :=
  let seqs := (List.range (k + 1)).map fun i => seqOf skips (i + 1)
  let runs : List (Nat × Nat) := seqs.foldl (fun acc s =>
    match acc with
    | (a, b) :: rest => if s == b + 1 then (a, s) :: rest else (s, s) :: (a, b) :: rest
    | [] => [(s, s)]) []
  ",".intercalate (runs.reverse.map fun (a, b) => s!"1.{a}-{b}")

/-- what a script item puts into the socket: (as the receive path sees it, as the peer / network did it) -/
def parseItem (skips : List (Nat × Nat)) (L k : Nat) (it : String) : Option (DtlcpRx.MD × ReplaySpec.RxItem) :=
  let forgedRec (i e s : Nat) : DtlcpRx.MD :=
    { d := .record { epoch := e, seq := s, auth := false, kind := .appData, payload := 0 }, alertHdr := i == k + 1 }
  let closeRec : DtlcpRx.MD × ReplaySpec.RxItem :=
    ({ d := .record { epoch := 1, seq := seqOf skips (k + 1), auth := true, kind := .closeNotify, payload := k + 1 }, alertHdr := true },
     .close (seqOf skips (k + 1)))
  if it == "z" then some ({ d := .short, alertHdr := false }, .forged)
  else if it == "q" then some closeRec
  else
    match it.toList with
    | [] => none
    | c :: rest =>
      let (a, arg) := splitDot (String.ofList rest)
      match a.toNat? with
      | none => none
      | some i =>
        if i < 1 || i > k + 1 then none else
        let other (d : DtlcpRx.Dgram) : DtlcpRx.MD × ReplaySpec.RxItem := ({ d := d, alertHdr := i == k + 1 }, .forged)
        -- rewriting a header field to the value it has leaves the record as the peer sent it
        let asSent := c == 'g' || (c == 's' && arg == some (seqOf skips i)) || (c == 'e' && arg == some 1)
        if asSent then
          if i == k + 1 then some closeRec
          else some ({ d := .record { epoch := 1, seq := seqOf skips i, auth := true, kind := .appData, payload := i }, alertHdr := false },
                     .genuine (seqOf skips i) (payloadBytes L i))
        else if c == 'f' || c == 'c' then some (forgedRec i 1 (seqOf skips i), .forged)
        else if c == 's' then arg.map fun n => (forgedRec i 1 n, .forged)
        else if c == 'e' then arg.map fun n => (forgedRec i n (seqOf skips i), .forged)
        else if c == 'v' then some (other .badVersion)
        else if c == 't' then some (other .truncated)
        else if c == 'o' then some (other .oversize)
        else if c == 'a' then some (other .otherAddr)
        else none

/-- one script element -/
inductive Elem where
  | deliver (m : DtlcpRx.MD) (it : ReplaySpec.RxItem)
  | call (stream : Bool) (n : Nat)

def parseElems (path : String) (skips : List (Nat × Nat)) (L k : Nat) (it : String) : Option (List Elem) :=
  let callOf (c : Char) (rest : String) : Option (List Elem) :=
    rest.toNat?.bind fun n => if c == 'R' && n == 0 then none else some [Elem.call (c == 'R') n]
  match it.toList with
  | 'R' :: rest => callOf 'R' (String.ofList rest)
  | 'F' :: rest => callOf 'F' (String.ofList rest)
  | '+' :: rest => (parseItem skips L k (String.ofList rest)).map fun (m, x) => [Elem.deliver m x]
  | _ =>
    (parseItem skips L k it).map fun (m, x) =>
      if path == "mix" then [Elem.deliver m x] else [Elem.deliver m x, Elem.call (path == "read") 65536]

def showSt (st : DtlcpRx.State) : String := s!"{st.readEpoch}:{st.win.right}:{hex16 st.win.bitmap.toNat}"

def showTail : DtlcpRx.Tail → String
  | .none => ""
  | .timeout => "!T"
  | .eof => "!EOF"
  | .error => "!ERR"

def showOut (L : Nat) (plen : Nat → Nat) : DtlcpRx.MOut → String
  | .chunk r off cnt t =>
    (if off == 0 && cnt == plen r.payload then s!"d{r.payload}"
     else if cnt == 0 then "x-"
     else "x" ++ hexBytes (((payloadBytes L r.payload).drop off).take cnt)) ++ showTail t
  | .timeout => "T"
  | .eof => "EOF"
  | .error => "ERR"
  | .queued => ""

def pendingOf (plen : Nat → Nat) (m : DtlcpRx.Mix) : Nat :=
  match m.buf with
  | some (r, off) => plen r.payload - off
  | none => 0

/-- the model on the script: one string per call -/
def runMix (L : Nat) (plen : Nat → Nat) (m : DtlcpRx.Mix) : List Elem → DtlcpRx.Mix × List String
  | [] => (m, [])
  | .deliver d _ :: es =>
    runMix L plen (DtlcpRx.mixStep P Q plen m (.deliver d)).1 es
  | .call stream n :: es =>
    let (m1, o) := DtlcpRx.mixStep P Q plen m (if stream then .read n else .readFrom n)
    let (m2, rest) := runMix L plen m1 es
    (m2, s!"{showOut L plen o}:{showSt m1.st}:{pendingOf plen m1}" :: rest)

/-- an observed `out` ↦ (bytes handed over, how the call ended) -/
def parseOut (L : Nat) (s : String) : Option (Option (List Nat) × ReplaySpec.Fin) :=
  let fin (t : String) : Option ReplaySpec.Fin :=
    if t == "T" then some .nothing else if t == "EOF" then some .eof else if t == "ERR" then some .error else none
  let bytes (b : String) : Option (List Nat) :=
    if b == "x-" then some []
    else if b.startsWith "x" then parseHexBytes (b.toList.drop 1)
    else if b.startsWith "d" then (b.drop 1).toNat?.map (payloadBytes L)
    else none
  match s.splitOn "!" with
  | [a] => match fin a with
    | some f => some (none, f)
    | none => (bytes a).map fun b => (some b, .ok)
  | [a, t] => do
    let b ← bytes a
    let f ← fin t
    pure (some b, f)
  | _ => none

/-- observed steps ↦ (out, replay-state string) -/
def parseSteps (L : Nat) (s : String) : Option (List ((Option (List Nat) × ReplaySpec.Fin) × String)) :=
  if s == "-" then some [] else
  (s.splitOn "|").mapM fun st =>
    match st.splitOn ":" with
    | o :: rest => (parseOut L o).map fun out => (out, ":".intercalate (rest.take 3))
    | _ => none

/-- the history as the spec sees it: arrivals from the script, calls with what was observed -/
def mkEvs (prev : String) : List Elem → List ((Option (List Nat) × ReplaySpec.Fin) × String) → List ReplaySpec.Ev
  | .deliver _ it :: es, obs => .arrive it :: mkEvs prev es obs
  | .call stream _ :: es, ((b, f), st) :: obs => .call stream b f (st != prev) :: mkEvs st es obs
  | .call _ _ :: _, [] => []
  | [], _ => []

def judgeRx (ct : List String) (o : String) : Option Verdict := do
  let pathS ← kv ct "path"
  let cfg ← (kv ct "cfg").bind parseInt
  let k ← kvNat ct "sent"
  let script ← kv ct "script"
  let L := (kvNat ct "plen").getD 5
  if L < 1 || k > 200 then none
  let skips ← parseSkips ((kv ct "skip").getD "-")
  let plen : Nat → Nat := fun i => L + i % 7
  let elems ← if script == "-" then some [] else
    ((script.splitOn ",").mapM (parseElems pathS skips L k)).map List.flatten
  -- `repoch=<n>`: a hook moved the receiver's read epoch to n before the script (exercises the
  -- two epoch branches with authentic records); the property is only judged without it
  let repoch := (kvNat ct "repoch").getD 1
  -- `pcw=<base>`: the receiving server was created with a listener Config whose ReplayWindow is
  -- <base>; its GetConfigForClient installed the Config with ReplayWindow `cfg` during the handshake
  let pcw : Option Int := (kv ct "pcw").bind parseInt
  if (kv ct "pcw").isSome && (pcw.isNone || kv ct "role" != some "server") then none
  let hs0 := match pcw with
    | some base => DtlcpRx.afterHandshakeGov P base (some cfg)
    | none => DtlcpRx.afterHandshakeGov P cfg none
  let st0 := { hs0 with readEpoch := repoch }
  let (m, steps) := runMix L plen (DtlcpRx.Mix.start st0) elems
  let inerr := match m.st.err with
    | none => "none"
    | some .eof => "eof"
    | some .fatal => "fatal"
  let stepsStr := if steps.isEmpty then "-" else "|".intercalate steps
  let model := s!"init={showSt st0}:{st0.win.size} hdrs={hdrRuns skips k} steps={stepsStr} inerr={inerr}"
  -- spec on the observation
  let ot := tokens o
  let nCalls := (elems.filter fun e => match e with | .call _ _ => true | _ => false).length
  let spec : Option (String × String) :=
    if repoch != 1 then none else
    match kv ot "init", (kv ot "steps").bind (parseSteps L) with
    | some ini, some obs =>
      if obs.length != nCalls then some ("shape", "number of results differs from the number of calls")
      else
        -- the replay state before the first call, without the size
        let prev := ":".intercalate ((ini.splitOn ":").take 3)
        ReplaySpec.judgeRx (ReplaySpec.docWindow cfg) (mkEvs prev elems obs)
    | _, _ => some ("shape", "unparseable observation")
  let forgedN := (elems.filter fun e => match e with | .deliver _ .forged => true | _ => false).length
  let note :=
    if repoch != 1 then "rx-epoch-hook"
    else if pcw.isSome then "rx-per-client-config"
    else if pathS == "mix" then "rx-mixed-calls"
    else if !skips.isEmpty then "rx-seq-skip"
    else if forgedN == 0 then "rx-no-forgery" else ""
  pure { model := model, spec := spec, trivial := nCalls < 2, note := note }

def judge (c o : String) : Option Verdict := do
  let ct := tokens c
  let lvl ← kv ct "lvl"
  if lvl == "win" then
    let size ← (kv ct "size").bind parseInt
    let seqs ← (kv ct "seqs").bind parseNats
    pure (judgeWin (Replay.newWindow P size) (ReplaySpec.clamp size) seqs o)
  else if lvl == "cfg" then
    let cfg ← (kv ct "cfg").bind parseInt
    let seqs ← (kv ct "seqs").bind parseNats
    pure (judgeWin (Replay.newFromConfig P cfg) (ReplaySpec.docWindow cfg) seqs o)
  else if lvl == "rx" then
    judgeRx ct o
  else none

end Gotlcp.Oracle.C16

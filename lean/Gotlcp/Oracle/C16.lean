/-
Oracle for C16.

level `win` — `replayWindow` through the hook:
  case     : `lvl=win size=<int> seqs=<n>,<n>,...|-`      (`size` = argument of newReplayWindow)
  observed : `acc=<0|1 per delivery>|- right=<n> bitmap=<16 hex digits> size=<n>`
level `cfg` — the window a fresh `Server`/`Client` connection carries for `Config.ReplayWindow`:
  case     : `lvl=cfg role=server|client cfg=<int> seqs=...`
  observed : as above
level `rx`  — the post-handshake receive paths of a real connection pair:
  case     : `lvl=rx path=readfrom|read suite=gcm|cbc role=server|client cfg=<int> sent=<k> [repoch=<n>] script=<item>,...`
             items (see harness/cmd/c16/rx.go): `g<i>` record i as sent, `q` the close_notify record,
             `f<i>` `c<i>` bit flips, `s<i>.<n>` / `e<i>.<n>` / `v<i>` rewritten sequence number /
             epoch / version, `t<i>` truncated, `o<i>` oversize length, `z` short junk,
             `a<i>` record i from another address
  observed : `init=<epoch>:<right>:<bitmap>:<size> hdrs=1.1-<k+1> steps=<out>:<epoch>:<right>:<bitmap>|... inerr=none|eof|fatal`
             out = `d<i>` | `T` | `EOF` | `ERR`
  Here the assumption "only what the peer protected authenticates" is used to *predict*: the
  oracle gives every modified record the verdict `auth = false`; the real `decrypt` is what
  is observed.

The model's prediction uses the regenerated facts; the spec verdict uses only
`Gotlcp.Spec.ReplaySpec` and the documented constants.
-/
import Gotlcp.Oracle.Common
import Gotlcp.Model.Replay
import Gotlcp.Model.DtlcpRx
import Gotlcp.Spec.ReplaySpec
import Gotlcp.Generated.Facts

namespace Gotlcp.Oracle.C16
open Gotlcp.Model
open Gotlcp.Spec

/-- the parameters of the tree under test -/
def P : Replay.Params :=
  { floor := Facts.dtlcp.replayFloor, newCeil := Facts.dtlcp.replayNewCeil,
    spanCeil := Facts.dtlcp.replaySpanCeil, default := Facts.dtlcp.defaultReplayWindowSize }

def parseInt (s : String) : Option Int :=
  if s.startsWith "-" then (s.drop 1).toNat?.map (fun n => -(n : Int)) else s.toNat?.map Int.ofNat

def parseNats (s : String) : Option (List Nat) :=
  if s == "-" then some [] else (s.splitOn ",").mapM String.toNat?

def bitsStr (bs : List Bool) : String :=
  if bs.isEmpty then "-" else String.ofList (bs.map fun b => if b then '1' else '0')

def parseBits (s : String) : Option (List Bool) :=
  if s == "-" then some [] else s.toList.mapM fun c => if c == '1' then some true else if c == '0' then some false else none

def hex16 (n : Nat) : String :=
  String.ofList ((List.range 16).reverse.map fun i => Hex.digit ((n >>> (4 * i)) % 16))

def showWindow (w : Replay.Window) (acc : List Bool) : String :=
  s!"acc={bitsStr acc} right={w.right} bitmap={hex16 w.bitmap.toNat} size={w.size}"

def hasDup : List Nat → Bool
  | [] => false
  | x :: xs => xs.contains x || hasDup xs

/-- window / config level -/
def judgeWin (w0 : Replay.Window) (wmin : Nat) (seqs : List Nat) (o : String) : Verdict :=
  let (w, acc) := Replay.run P w0 seqs
  let ot := tokens o
  let spec : Option (String × String) :=
    match (kv ot "acc").bind parseBits with
    | none => some ("shape", "no acc= in the observation")
    | some obs =>
      if obs.length != seqs.length then some ("shape", "number of answers differs from the number of deliveries")
      else
        match kvNat ot "size" with
        | none => some ("shape", "no size= in the observation")
        | some _ => ReplaySpec.judge wmin (seqs.zip obs)
  { model := showWindow w acc, spec := spec, trivial := !hasDup seqs && seqs.length < 3 }

/-! ### level rx -/

/-- the receive-path parameters of the tree under test -/
def Q : DtlcpRx.RxParams :=
  { dropForged := Facts.dtlcp.replayRxRecordDecryptFail == "discard-after-handshake" ||
                  Facts.dtlcp.replayRxRecordDecryptFail == "discard",
    dropMalformed := Facts.dtlcp.replayRxRecordMalformedDrops == Facts.dtlcp.replayRxRecordHeaderChecks }

def splitDot (s : String) : String × Option Nat :=
  match s.splitOn "." with
  | [a, b] => (a, b.toNat?)
  | _ => (s, none)

/-- script item ↦ (what the receive path sees, what the peer did) -/
def parseItem (k : Nat) (it : String) : Option (DtlcpRx.Dgram × ReplaySpec.RxItem) :=
  let forgedRec (e s : Nat) : DtlcpRx.Dgram := .record { epoch := e, seq := s, auth := false, kind := .appData, payload := 0 }
  if it == "z" then some (.short, .forged)
  else if it == "q" then
    some (.record { epoch := 1, seq := k + 1, auth := true, kind := .closeNotify, payload := k + 1 }, .close (k + 1))
  else
    match it.toList with
    | [] => none
    | c :: rest =>
      let (a, arg) := splitDot (String.ofList rest)
      match a.toNat? with
      | none => none
      | some i =>
        if i < 1 || i > k + 1 then none else
        if c == 'g' then
          if i == k + 1 then some (.record { epoch := 1, seq := i, auth := true, kind := .closeNotify, payload := i }, .close i)
          else some (.record { epoch := 1, seq := i, auth := true, kind := .appData, payload := i }, .genuine i)
        else if c == 'f' || c == 'c' then some (forgedRec 1 i, .forged)
        else if c == 's' then arg.map fun n => (forgedRec 1 n, .forged)
        else if c == 'e' then arg.map fun n => (forgedRec n i, .forged)
        else if c == 'v' then some (.badVersion, .forged)
        else if c == 't' then some (.truncated, .forged)
        else if c == 'o' then some (.oversize, .forged)
        else if c == 'a' then some (.otherAddr, .forged)
        else none

def showOut : DtlcpRx.Out → String
  | .data i => s!"d{i}"
  | .timeout => "T"
  | .eof => "EOF"
  | .error => "ERR"

def showSt (st : DtlcpRx.State) : String := s!"{st.readEpoch}:{st.win.right}:{hex16 st.win.bitmap.toNat}"

def runRx (path : DtlcpRx.Path) (st : DtlcpRx.State) : List DtlcpRx.Dgram → DtlcpRx.State × List String
  | [] => (st, [])
  | d :: ds =>
    let (st1, o) := DtlcpRx.step P Q path st d
    let (st2, rest) := runRx path st1 ds
    (st2, s!"{showOut o}:{showSt st1}" :: rest)

def parseOut (s : String) : Option ReplaySpec.RxOut :=
  if s == "T" then some .nothing else if s == "EOF" then some .eof else if s == "ERR" then some .error
  else if s.startsWith "d" then (s.drop 1).toNat?.map .data else none

/-- observed steps ↦ (out, state string) -/
def parseSteps (s : String) : Option (List (ReplaySpec.RxOut × String)) :=
  if s == "-" then some [] else
  (s.splitOn "|").mapM fun st =>
    match st.splitOn ":" with
    | o :: rest => (parseOut o).map fun out => (out, ":".intercalate rest)
    | _ => none

def mkObs (prev : String) : List ReplaySpec.RxItem → List (ReplaySpec.RxOut × String) → List ReplaySpec.RxObs
  | it :: its, (o, st) :: rest => { item := it, out := o, stateChanged := st != prev } :: mkObs st its rest
  | _, _ => []

def judgeRx (ct : List String) (o : String) : Option Verdict := do
  let pathS ← kv ct "path"
  let path : DtlcpRx.Path := if pathS == "read" then .read else .readFrom
  let cfg ← (kv ct "cfg").bind parseInt
  let k ← kvNat ct "sent"
  let script ← kv ct "script"
  let items ← if script == "-" then some [] else (script.splitOn ",").mapM (parseItem k)
  -- `repoch=<n>`: a hook moved the receiver's read epoch to n before the script (exercises the
  -- two epoch branches with authentic records); the property is only judged without it
  let repoch := (kvNat ct "repoch").getD 1
  let st0 := { DtlcpRx.afterHandshake P cfg with readEpoch := repoch }
  let (st, steps) := runRx path st0 (items.map (·.1))
  let inerr := match st.err with
    | none => "none"
    | some .eof => "eof"
    | some .fatal => "fatal"
  let stepsStr := if steps.isEmpty then "-" else "|".intercalate steps
  let model := s!"init={showSt st0}:{st0.win.size} hdrs=1.1-{k + 1} steps={stepsStr} inerr={inerr}"
  -- spec on the observation
  let ot := tokens o
  let spec : Option (String × String) :=
    if repoch != 1 then none else
    match kv ot "init", (kv ot "steps").bind parseSteps with
    | some ini, some obs =>
      if obs.length != items.length then some ("shape", "number of results differs from the number of deliveries")
      else
        -- the replay state before the first delivery, without the size
        let prev := ":".intercalate ((ini.splitOn ":").take 3)
        ReplaySpec.judgeRx (ReplaySpec.docWindow cfg) (pathS == "read") (mkObs prev (items.map (·.2)) obs)
    | _, _ => some ("shape", "unparseable observation")
  let forgedN := (items.filter fun x => x.2 == .forged).length
  pure { model := model, spec := spec, trivial := items.length < 2,
         note := if repoch != 1 then "rx-epoch-hook" else if forgedN == 0 then "rx-no-forgery" else "" }

def judge (c o : String) : Option Verdict := do
  let ct := tokens c
  let lvl ← kv ct "lvl"
  if lvl == "win" then
    let size ← (kv ct "size").bind parseInt
    let seqs ← (kv ct "seqs").bind parseNats
    pure (judgeWin (Replay.newWindow P size) (ReplaySpec.clamp size) seqs o)
  else if lvl == "cfg" then
    let cfg ← (kv ct "cfg").bind parseInt
    let seqs ← (kv ct "seqs").bind parseNats
    pure (judgeWin (Replay.newFromConfig P cfg) (ReplaySpec.docWindow cfg) seqs o)
  else if lvl == "rx" then
    judgeRx ct o
  else none

end Gotlcp.Oracle.C16

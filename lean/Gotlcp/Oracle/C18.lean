/-
Oracle for C18: re-computes the model's prediction and evaluates the spec on what the real
cookie helpers / the real DTLCP server did.

hello syntax `H` = `<vers hex4>.<random hex>.<session id hex|->.<suites hex|->.<compression hex|->`

kind=cookie  : `secret= addr= h=H  tsecret= taddr= th=H  mut=-|x<pos>.<xor hex>|t<n>|a<hex>`
   observed  : `dec=<0|1> tdec=<0|1> params=<hex> tparams=<hex> macin=<hex|unknown> tmacin=<hex|unknown>
                clen=<n> hvr=<n> accept=<0|1>`
               (cookie := generateCookie(secret, addr, marshalForCookie(decode(encode h))), altered by
                mut, presented to verifyCookie(tsecret, taddr, marshalForCookie(th)); macin = the byte
                string x for which HMAC-SM3(secret, x) equals the issued cookie, found by the driver
                among candidate framings with an independent HMAC-SM3)
kind=decode  : `msg=<hex of a handshake message: 12-byte header ‖ body>`
   observed  : `ok=<0|1> f=H|- ck=<hex|->`
kind=secret  : `cfg=<hex|-> n=<conns> calls=<calls per conn>` [`rand=<chunk>/<stream hex>;<stream hex>…`]
               (rand: no secret configured; connection i has its own Config whose Rand produces
                stream i and returns at most `chunk` bytes per Read)
   observed  : `lens=<l>.<l>… stable=<0|1> distinct=<0|1> iscfg=<0|1>` [`sec=<hex>;<hex>… drawn=<n>.<n>…`]
               (with rand: the secrets, and how many bytes each connection took from its source)
kind=server  : `cfg=<hex|-> peers=<addr hex>;<addr hex> hellos=H;H;… steps=<step>,<step>,…`
               step = `<a|b>:<hello idx>:<cookie ref>:<p|o>:<fragments>[:<n>|<n>r]`  (n hellos in the one datagram: packed into one record | one record each)
               or `<a|b>:w:<ms>` (the peer stays silent for that long)
               or `<a|b>:<hello idx>:<cookie ref>:<p|o|q>:F<off>+<len>.<off>+<len>…` (the hello body as that
               series of fragments, any order / repeats / overlaps / fragments after completion, all
               under the hello's message_seq, one datagram each; observed after EVERY datagram:
               `r|r|…`, ending with `acc` if the server accepts)
               optional case token `rto=<ms>` = InitialRetransmitTimeout (max = 2x), default: never
               source `p` = the connection's peer, `o` = an unrelated address, `q` = the peer's host
               with another port
               cookie ref = `-` | `k<i>` (cookie of the i-th HelloVerifyRequest seen) | `x<i>.<pos>` | `r`
                          | `g<n>` (rand only, n < 16: forged for this address and hello under the
                            secret made of the first n bytes of the connection's random stream and zeros)
                          | `e` (forged for this address and hello under the empty HMAC key)
               optional case tokens:
               `cfgempty=1` (with cfg=-, also kind=secret) Config.CookieSecret is a non-nil slice of
                            length 0 instead of nil: no secret is configured either way
               `pk=<k><k>` what the two peers are: `s` an opaque net.Addr printing the given text
                            (default), `u` a *net.UDPAddr made from the text host:port, `m` the same
                            with the IPv4 address held in its 16-byte IPv4-mapped form; for u/m the
                            text must be the canonical print of (host, port)
               `cache=<session id hex>/<suite hex4>;…` sessions in Config.SessionCache beforehand
               `rand=<chunk>/<stream a>;<stream b>` no configured secret; connection a/b has its own
                            Config whose Rand produces that stream, at most `chunk` bytes per Read
   observed  : `steps=<r>,<r>,… flight=<types>/<keyops>|- cb=<GetConfigForClient calls before the accepted hello>`
               [`ra=<hex>;<hex>` with pk: RemoteAddr().String() of the two server connections]
               r = `<datagrams>/<hs types|->/<sizes|->/<alerts>/<request bytes>/<keyops>` or `acc`
-/
import Gotlcp.Oracle.Common
import Gotlcp.Model.Cookie
import Gotlcp.Spec.CookieSpec
import Gotlcp.Generated.Facts

namespace Gotlcp.Oracle.C18
open Gotlcp.Model.Cookie

def b01 (b : Bool) : String := if b then "1" else "0"

def hexOpt (s : String) : Option Bytes := Hex.decode s

def parseHello (s : String) : Option Hello :=
  match s.splitOn "." with
  | [v, r, sid, su, c] => do
    let vb ← hexOpt v
    let rb ← hexOpt r
    let sb ← hexOpt sid
    let sub ← hexOpt su
    let cb ← hexOpt c
    if vb.length != 2 || sub.length % 2 != 0 then none else
    pure { vers := beNat vb, random := rb, sessionId := sb, suites := pairs sub, compression := cb }
  | _ => none

def showHello (h : Hello) : String :=
  s!"{Hex.encode (u16 h.vers)}.{Hex.encode h.random}.{Hex.encode h.sessionId}.{Hex.encode (h.suites.flatMap u16)}.{Hex.encode h.compression}"

def toSpec (h : Hello) : Spec.Cookie.Params := ⟨h.vers, h.random, h.sessionId, h.suites, h.compression⟩

/-- `marshalForCookie` / the HMAC input of `generateCookie` of the tree under test: the literal
model definitions, tied to the functions translated from the Go source on every run by
`Gotlcp.Tie.Cookie` (not interpreted from text-matching facts: a rename-only edit of the Go
functions changes nothing here, a semantic edit breaks the tie proofs and disagrees with this
prediction) -/
def marshal (h : Hello) : Bytes := marshalForCookie h
def cookieInput (a p : Bytes) : Bytes := cookieInputFramed a p

def macLen : Nat := 32
def rh : Nat := Facts.dtlcp.recordHeaderLen
def hh : Nat := Facts.dtlcp.dtlcpHeaderLen

/-- is the cookie altered by the mutation (cookie length = macLen)? -/
def parseMut (s : String) : Option Bool :=
  if s == "-" then some false
  else match s.toList with
  | 'x' :: rest =>
    match (String.ofList rest).splitOn "." with
    | [p, x] => do
      let pos ← p.toNat?
      let xb ← hexOpt x
      pure (pos < macLen && xb != [0] && xb.length == 1)
    | _ => none
  | 't' :: rest => (String.ofList rest).toNat?.map (· < macLen)
  | 'a' :: rest => (hexOpt (String.ofList rest)).map (!·.isEmpty)
  | _ => none

def judgeCookie (ct ot : List String) : Option Verdict := do
  let secret ← kvHex ct "secret"
  let addr ← kvHex ct "addr"
  let h ← (kv ct "h").bind parseHello
  let tsecret ← kvHex ct "tsecret"
  let taddr ← kvHex ct "taddr"
  let th ← (kv ct "th").bind parseHello
  let altered ← (kv ct "mut").bind parseMut
  if !(h.wf && th.wf) then none else
  let params := marshal h
  let tparams := marshal th
  let macin := cookieInput addr params
  let tmacin := cookieInput taddr tparams
  let acc := acceptsIdeal secret macin tsecret tmacin altered
  let model := s!"dec=1 tdec=1 params={Hex.encode params} tparams={Hex.encode tparams} macin={Hex.encode macin} tmacin={Hex.encode tmacin} clen={macLen} hvr={hh + hvrBodyLen macLen} accept={b01 acc}"
  let spec : Option (String × String) :=
    match kv ot "accept", kvNat ot "hvr" with
    | some a, some hv =>
      let v := Spec.Cookie.judgeAccept ⟨secret, addr, toSpec h⟩ ⟨tsecret, taddr, toSpec th⟩ altered (a == "1")
      match v with
      | some x => some x
      | none =>
        -- the reply may not be larger than the smallest ClientHello datagram (64 bytes)
        if 13 + hv > 64 then some ("amplification", s!"HelloVerifyRequest datagram of {13 + hv} bytes exceeds the smallest ClientHello datagram (64)")
        else none
    | _, _ => some ("shape", "missing accept/hvr")
  let same := secret == tsecret && addr == taddr && h == th
  let note := if !altered && !same && sameKey secret tsecret && addr == taddr && h == th then "hmac-key-zero-padding" else ""
  pure { model := model, spec := spec, note := note, trivial := false }

/-- `clientHelloMsg.unmarshal` as far as the core layout goes: header, type, fragment length.
`strict` (regenerated fact): the message must be one complete unfragmented message
(fragment_offset 0, fragment_length = length = number of body bytes present). -/
def decodeMsg (strict : Bool) (msg : Bytes) : Option Decoded :=
  if msg.length < 12 then none else
  let hd := msg.take 12
  let s := msg.drop 12
  if hd.headD 0 != 1 then none else
  let bodyLen := beNat ((hd.drop 1).take 3)
  let fragOff := beNat ((hd.drop 6).take 3)
  let fragLen := beNat (hd.drop 9)
  if strict && !(fragOff == 0 && fragLen == bodyLen && s.length == bodyLen) then none else
  let body? := if fragLen > 0 then (if fragLen > s.length then none else some (s.take fragLen)) else some s
  body?.bind decodeCore

def judgeDecode (ct ot : List String) : Option Verdict := do
  let msg ← kvHex ct "msg"
  let okObs := (kv ot "ok") == some "1"
  let d := decodeMsg Facts.dtlcp.cookieHelloUnmarshalCompleteOnly msg
  -- extensions are not modelled: with trailing bytes the model cannot predict success, only
  -- that success implies the core layout decodes to the same fields
  let modelOk := match d with
    | none => false
    | some x => if x.rest.isEmpty then true else okObs
  let model := match d, modelOk with
    | some x, true => s!"ok=1 f={showHello x.hello} ck={Hex.encode x.cookie}"
    | _, _ => "ok=0 f=- ck=-"
  let spec : Option (String × String) :=
    if okObs && d.isNone then some ("decode-size", "a ClientHello shorter than the core layout decoded")
    else if okObs && msg.length < 12 + 39 then some ("decode-size", "a ClientHello body shorter than 39 bytes decoded")
    else none
  pure { model := model, spec := spec, trivial := d.isNone && !okObs }

def secretLen : Nat := Facts.dtlcp.cookieSecretLen

/-- `rand=<chunk>/<stream>;<stream>…` -/
def parseRand (s : String) : Option (Nat × List Bytes) :=
  match s.splitOn "/" with
  | [c, ss] => do
    let chunk ← c.toNat?
    let streams ← (ss.splitOn ";").mapM hexOpt
    if chunk == 0 || streams.any (·.length < secretLen) then none else pure (chunk, streams)
  | _ => none

/-- the secret a connection without a configured one ends up with: `io.ReadFull` of `secretLen`
bytes from a source that returns at most `chunk` bytes per Read -/
def drawModel (chunk : Nat) (stream : Bytes) : Bytes :=
  drawSecret secretLen stream (List.replicate secretLen chunk)

def pairwiseDistinct : List Bytes → Bool
  | [] => true
  | x :: xs => !xs.contains x && pairwiseDistinct xs

def judgeSecretRand (ot : List String) (n : Nat) (rs : String) : Option Verdict := do
  let (chunk, streams) ← parseRand rs
  if streams.length != n then none else
  let secs := streams.map (drawModel chunk)
  let dots (l : List Nat) := ".".intercalate (l.map toString)
  let model := s!"lens={dots (secs.map List.length)} stable=1 distinct={b01 (n > 1 && pairwiseDistinct secs)} iscfg=0 sec={";".intercalate (secs.map Hex.encode)} drawn={dots (List.replicate n secretLen)}"
  let spec : Option (String × String) :=
    match kv ot "stable", kv ot "iscfg", (kv ot "lens").bind parseNatList', (kv ot "drawn").bind parseNatList',
        ((kv ot "sec").map (·.splitOn ";")).bind (·.mapM hexOpt) with
    | some st, some ic, some lens, some drawn, some osec =>
      if ic == "1" then some ("shape", "no secret configured but iscfg=1")
      else if st != "1" then some ("secret-unstable", "the cookie secret changed within one connection")
      else if lens.length != n || drawn.length != n || osec.length != n then some ("shape", "one entry per connection expected")
      else Spec.Cookie.judgeRandomSecret lens drawn streams (fun i j => osec.getD i [] == osec.getD j [])
    | _, _, _, _, _ => some ("shape", "missing tokens")
  pure { model := model, spec := spec, trivial := n == 0 }
where
  parseNatList' (s : String) : Option (List Nat) := if s == "-" then some [] else (s.splitOn ".").mapM String.toNat?

def judgeSecret (ct ot : List String) : Option Verdict := do
  let cfg ← kvHex ct "cfg"
  let n ← kvNat ct "n"
  let configured := !cfg.isEmpty
  match kv ct "rand" with
  | some rs => if configured then none else judgeSecretRand ot n rs
  | none =>
  let l := if configured then cfg.length else Facts.dtlcp.cookieSecretLen
  let lens := ".".intercalate ((List.replicate n l).map toString)
  -- model: configured → every connection uses cfg (not distinct); otherwise own 32-byte draws
  let model := s!"lens={lens} stable=1 distinct={b01 (!configured && n > 1)} iscfg={b01 configured}"
  let spec : Option (String × String) :=
    match kv ot "stable", kv ot "distinct", kv ot "iscfg" with
    | some st, some di, some ic =>
      if configured then
        (if ic != "1" then some ("secret-ignored", "the configured cookie secret is not the one used") else none)
      else if ic == "1" then some ("shape", "no secret configured but iscfg=1")
      else if st != "1" then some ("secret-unstable", "the cookie secret changed within one connection")
      else if n > 1 && di != "1" then some ("secret-shared", "two connections without a configured secret use the same cookie secret")
      else none
    | _, _, _ => some ("shape", "missing tokens")
  pure { model := model, spec := spec, trivial := n == 0 }

/-! ### server level -/

structure Step where
  conn : Nat           -- 0 = a, 1 = b
  hello : Nat
  ref : String
  own : Bool
  frags : Nat
  pack : Nat := 1      -- complete ClientHello messages in the one datagram (frags = 1)
  oneRecord : Bool := true   -- … packed into one record / one record each
  wait : Nat := 0      -- > 0: no datagram, the peer stays silent for this many milliseconds
  fragList : List (Nat × Nat) := []   -- non-empty: the hello as these (offset, length) fragments, one datagram each

def parseFragList (s : String) : Option (List (Nat × Nat)) :=
  (s.splitOn ".").mapM fun f =>
    match f.splitOn "+" with
    | [o, l] => do pure ((← o.toNat?), (← l.toNat?))
    | _ => none

def parseStep (s : String) : Option Step :=
  match s.splitOn ":" with
  | [c, "w", ms] => do
    let conn ← if c == "a" then some 0 else if c == "b" then some 1 else none
    let w ← ms.toNat?
    if w == 0 then none else
    pure { conn := conn, hello := 0, ref := "-", own := true, frags := 1, wait := w }
  | [c, h, r, f, k] => do
    let conn ← if c == "a" then some 0 else if c == "b" then some 1 else none
    let hi ← h.toNat?
    if k.startsWith "F" then
      let fl ← parseFragList (String.ofList (k.toList.drop 1))
      if fl.isEmpty then none else
      pure { conn := conn, hello := hi, ref := r, own := f == "p", frags := 1, fragList := fl }
    else
    let kk ← k.toNat?
    if kk == 0 then none else
    pure ⟨conn, hi, r, f == "p", kk, 1, true, 0, []⟩
  | [c, h, r, f, k, pk] => do
    let conn ← if c == "a" then some 0 else if c == "b" then some 1 else none
    let hi ← h.toNat?
    let kk ← k.toNat?
    let perRec := pk.endsWith "r"
    let pp ← (if perRec then String.ofList (pk.toList.take (pk.length - 1)) else pk).toNat?
    if kk != 1 || pp == 0 then none else
    pure ⟨conn, hi, r, f == "p", 1, pp, !perRec, 0, []⟩
  | _ => none

/-- an issued cookie: (secret symbol, MAC input, spec binding) -/
structure Issued where
  key : Bytes
  input : Bytes
  binding : Spec.Cookie.Binding

/-- resolve a cookie reference: (non-empty?, issued cookie it derives from, altered?,
forged under a guess that knows this many bytes of the connection's random stream) -/
def resolveRef (issued : List Issued) (r : String) : Option (Bool × Option Issued × Bool × Option Nat) :=
  if r == "-" then some (false, none, false, none)
  else if r == "r" then some (true, none, true, none)
  else if r == "e" then some (true, none, false, none)
  else match r.toList with
  | 'k' :: rest => (String.ofList rest).toNat?.map fun i => (true, issued[i]?, false, none)
  | 'x' :: rest =>
    match (String.ofList rest).splitOn "." with
    | [i, _] => i.toNat?.map fun i => (true, issued[i]?, true, none)
    | _ => none
  | 'g' :: rest => (String.ofList rest).toNat?.bind fun n =>
      if n < Spec.Cookie.minRandomSecret then some (true, none, false, some n) else none
  | _ => none

/-- `cache=<session id>/<suite>;…` -/
def parseCache (s : String) : Option (List (Bytes × Nat)) :=
  (s.splitOn ";").mapM fun e =>
    match e.splitOn "/" with
    | [sid, su] => do
      let sb ← hexOpt sid
      let ub ← hexOpt su
      if ub.length != 2 || sb.isEmpty then none else pure (sb, beNat ub)
    | _ => none

/-- peer kinds: `s` opaque text, `u` / `m` a UDP address whose text must be the canonical
host:port print (the model's `hostPort`) -/
def peerOk (kind : Char) (text : Bytes) : Bool :=
  if kind == 's' then true
  else if kind == 'u' || kind == 'm' then (endpointOf text).isSome
  else false

def sumNat (l : List Nat) : Nat := l.foldl (· + ·) 0

def parseNatList (s : String) : Option (List Nat) :=
  if s == "-" then some [] else (s.splitOn ".").mapM String.toNat?

def parseReaction (s : String) : Option Spec.Cookie.Reaction :=
  match s.splitOn "/" with
  | [n, ty, sz, al, rq, ky] => do
    let _ ← n.toNat?
    let types ← parseNatList ty
    let sizes ← parseNatList sz
    let alerts ← al.toNat?
    let req ← rq.toNat?
    let key ← ky.toNat?
    pure ⟨req, 1, sizes, types, alerts, key⟩
  | _ => none

/-- model of a fragment step: the reaction to each datagram (`delivered` = `rxFragments`: does the
datagram make `readHandshake` deliver the hello; `action` = what the cookie loop does with this
hello), the number of HelloVerifyRequests, and whether the loop was left. `?` = not predicted. -/
def fragModel (action : Action) (frs : List (Nat × Nat)) (delivered : List Bool) : List String × Nat × Bool :=
  go frs delivered [] 0
where
  go : List (Nat × Nat) → List Bool → List String → Nat → List String × Nat × Bool
  | [], _, acc, k => (acc.reverse, k, false)
  | _ :: _, [], acc, k => (("?" :: acc).reverse, k, false)
  | (_, len) :: rest, d :: ds, acc, k =>
    let dl := rh + hh + len
    if !d then go rest ds (s!"0/-/-/0/{dl}/0" :: acc) k
    else match action with
      | .proceed => (("acc" :: acc).reverse, k, true)
      | .hvr n => go rest ds (s!"1/{Facts.dtlcp.typeHelloVerifyRequest}/{datagramLen rh hh (hvrBodyLen n)}/0/{dl}/0" :: acc) (k + 1)

/-- the property's verdict on a fragment step: the reactions before an acceptance are judged
datagram by datagram (`Spec.Cookie.judgeFragmented`); an acceptance needs a complete hello with
a cookie that must be accepted; a complete hello with such a cookie must be accepted -/
def judgeFragStep (total : Nat) (frs : List (Nat × Nat)) (obs : List String) (must : Bool) (breach : String) :
    Option (String × String) :=
  let pre := obs.takeWhile (· != "acc")
  let accepted := pre.length < obs.length
  match pre.mapM parseReaction with
  | none => some ("shape", "unparseable reaction")
  | some rs =>
    if rs.length > frs.length || (!accepted && rs.length != frs.length) then some ("shape", "one reaction per fragment datagram expected") else
    let ds := (frs.zip rs).map fun (f, r) => (⟨f.1, f.2, r⟩ : Spec.Cookie.FragDatagram)
    match Spec.Cookie.judgeFragmented total ds with
    | some x => some x
    | none =>
      if accepted then
        if Spec.Cookie.timesCovered total (frs.take (pre.length + 1)) == 0 then
          some ("binding", "a handshake was started by datagrams that make up no complete ClientHello")
        else if must then none else some ("binding", "cookie accepted for " ++ breach)
      else if must && Spec.Cookie.timesCovered total frs > 0 then
        some ("rejects-valid", "the issued cookie was refused for its own address, parameters and secret")
      else none

def judgeServer (ct ot : List String) : Option Verdict := do
  let cfg ← kvHex ct "cfg"
  let peers ← ((kv ct "peers").map (·.splitOn ";")).bind (·.mapM hexOpt)
  let hellos ← ((kv ct "hellos").map (·.splitOn ";")).bind (·.mapM parseHello)
  let steps ← ((kv ct "steps").map (·.splitOn ",")).bind (·.mapM parseStep)
  if peers.length != 2 || !hellos.all Hello.wf then none else
  let kinds := ((kv ct "pk").getD "ss").toList
  if kinds.length != 2 || !((kinds.zip peers).all fun (k, t) => peerOk k t) then none else
  let cache ← match kv ct "cache" with
    | some cs => parseCache cs
    | none => some []
  let rnd ← match kv ct "rand" with
    | some rs => (parseRand rs).map some
    | none => some none
  if rnd.isSome && (!cfg.isEmpty || (rnd.map (·.2.length)) != some 2) then none else
  -- the secret of connection c: the configured one; else what it reads from its random source
  -- (when that is a given stream); else a symbol of its own
  let keyOf (c : Nat) : Bytes :=
    if !cfg.isEmpty then cfg
    else match rnd with
      | some (chunk, streams) => drawModel chunk (streams.getD c [])
      | none => [0xff, 0xfe, UInt8.ofNat c] ++ List.replicate 70 0xee
  let obsSteps := ((kv ot "steps").getD "").splitOn ","
  -- walk the steps
  -- started / dead: connections that have read their first hello / whose handshake has failed
  let rec go (steps : List Step) (obs : List String) (issued : List Issued) (done : Bool)
      (started dead : List Nat)
      (outs : List String) (fail : Option (String × String)) : Option (List String × Option (String × String) × Bool) :=
    match steps with
    | [] => some (outs.reverse, fail, done)
    | st :: rest => do
      -- generator contract: a step a correct server accepts is the last one; if the model of a
      -- changed tree accepts earlier, what follows is not predicted
      if done then go rest obs.tail issued true started dead ("?" :: outs) fail else
      if st.wait > 0 then
        -- silence: `readNextClientHello` only lengthens its timeout on a read timeout (no call on
        -- that branch — regenerated fact), so nothing is sent however long the peer stays silent
        let m := if Facts.dtlcp.cookieWaitTimeoutCalls.isEmpty then "0/-/-/0/0/0" else "?"
        let f := match fail, parseReaction (obs.headD "") with
          | some x, _ => some x
          | none, some r => Spec.Cookie.judgeSilence r
          | none, none => some ("shape", "unparseable reaction")
        go rest obs.tail issued false started dead (m :: outs) f
      else
      let h ← hellos[st.hello]?
      let peer ← peers[st.conn]?
      let body := encodeBody h []
      let (nonEmpty, src, altered, forged) ← resolveRef issued st.ref
      if forged.isSome && rnd.isNone then none else
      -- request bytes: the cookie adds its own length to the body
      let cookieLen := if nonEmpty then macLen else 0
      -- `pack` complete hellos share one record header
      let req := if st.pack > 1 then packedLen rh hh (body.length + cookieLen) st.pack st.oneRecord
                 else fragmentedLen rh hh (body.length + cookieLen) st.frags
      let o := obs.headD ""
      let r? := (parseReaction o).map fun r => { r with hellos := st.pack }
      let binding : Spec.Cookie.Binding := ⟨keyOf st.conn, peer, toSpec h⟩
      -- fragment scripts are modelled for the connection's own, live, right-version hellos; in any other state the
      -- step is not judged (the observation is echoed): the whole-message steps cover those states
      if !st.fragList.isEmpty && (!st.own || dead.contains st.conn || !versionOk Facts.dtlcp.VersionTLCP h.vers) then
        go rest obs.tail issued false started dead (o :: outs) fail else
      if st.own && !dead.contains st.conn && !started.contains st.conn
          && !versionOk Facts.dtlcp.VersionTLCP h.vers then
        -- first hello of the connection, version selection fails: protocol_version alert, connection over
        let m := s!"1/-/{rh + 2}/1/{req}/0"
        let f := match fail, r? with
          | some x, _ => some x
          | none, some r => if Spec.Cookie.versionAcceptable h.vers then Spec.Cookie.judgePreCookie r else Spec.Cookie.judgeRefusal r
          | none, none => some ("shape", "unparseable reaction")
        go rest obs.tail issued false started (st.conn :: dead) (m :: outs) f
      else if !st.own || dead.contains st.conn then
        let m := s!"0/-/-/0/{req}/0"
        let f := match fail, r? with
          | some x, _ => some x
          | none, some r => Spec.Cookie.judgeIgnored r
          | none, none => some ("shape", "unparseable reaction")
        go rest obs.tail issued false started dead (m :: outs) f
      else
        let input := cookieInput peer (marshal h)
        let valid := match src, forged, rnd with
          | some i, _, _ => acceptsIdeal i.key i.input (keyOf st.conn) input altered
          | none, some n, some (_, streams) =>
            -- forged for exactly this input under a guessed secret: valid iff the guess is the key
            sameKey ((streams.getD st.conn []).take n ++ List.replicate (secretLen - n) 0) (keyOf st.conn)
          -- forged under the empty key: valid iff the connection's key is the empty one (RFC 2104:
          -- or all zeros) — never for a drawn or a configured secret
          | none, _, _ => st.ref == "e" && sameKey [] (keyOf st.conn)
        let neverIssued := if st.ref == "e" then "a cookie that was never issued (forged under the empty HMAC key)" else match forged with
          | some n => s!"a cookie that was never issued (forged under a secret guessed from {n} byte(s) of the connection's random source)"
          | none => "a cookie that was never issued"
        -- the property's verdict on an acceptance / refusal
        let must := match src with
          | some i => Spec.Cookie.mustAccept i.binding binding altered
          | none => false
        if !st.fragList.isEmpty then
          -- the hello as a series of fragment datagrams, each observed on its own; leftover buffers
          -- of earlier steps are filed under other message_seq values and play no part
          let total := body.length + cookieLen
          if st.fragList.any (fun f => f.1 + f.2 > total) then go rest obs.tail issued false started dead (o :: outs) fail else
          let delivered := if Facts.dtlcp.cookieRxDeliveredBufferDropped
            then rxFragments Facts.dtlcp.rxTotalMismatchFatal total [] st.fragList else []
          let (ms, answers, proceeded) := fragModel (loopStep (!nonEmpty) valid macLen) st.fragList delivered
          let breach := match src with
            | some i => Spec.Cookie.bindingBreach i.binding binding altered
            | none => if nonEmpty then neverIssued else "an empty cookie"
          let f := match fail with
            | some x => some x
            | none => judgeFragStep total st.fragList (o.splitOn "|") must breach
          go rest obs.tail (issued ++ List.replicate answers ⟨keyOf st.conn, input, binding⟩) proceeded
            (st.conn :: started) dead ("|".intercalate ms :: outs) f
        else
        match loopStep (!nonEmpty) valid macLen with
        | .proceed =>
          let f := match fail with
            | some x => some x
            | none =>
              if o == "acc" then (if must then none else
                some ("binding", "cookie accepted for " ++ (match src with
                  | some i => Spec.Cookie.bindingBreach i.binding binding altered
                  | none => neverIssued)))
              else if must then some ("rejects-valid", "the issued cookie was refused for its own address, parameters and secret")
              else match r? with
                | some r => Spec.Cookie.judgePreCookie r
                | none => some ("shape", "unparseable reaction")
          go rest obs.tail issued true (st.conn :: started) dead ("acc" :: outs) f
        | .hvr n =>
          -- the loop runs once per buffered hello: `pack` HelloVerifyRequests, one datagram each
          let answers := answersPerDatagram Facts.dtlcp.cookieLoopDropsLeftover st.pack
          let reps := List.replicate answers
          let m := s!"{answers}/{".".intercalate (reps (toString Facts.dtlcp.typeHelloVerifyRequest))}/{".".intercalate (reps (toString (datagramLen rh hh (hvrBodyLen n))))}/0/{req}/0"
          let f := match fail with
            | some x => some x
            | none =>
              if o == "acc" then
                some ("binding", "cookie accepted for " ++ (match src with
                  | some i => Spec.Cookie.bindingBreach i.binding binding altered
                  | none => if nonEmpty then neverIssued else "an empty cookie"))
              else if must then some ("rejects-valid", "the issued cookie was refused for its own address, parameters and secret")
              else match r? with
                | some r => Spec.Cookie.judgePreCookie r
                | none => some ("shape", "unparseable reaction")
          go rest obs.tail (issued ++ List.replicate (answersPerDatagram Facts.dtlcp.cookieLoopDropsLeftover st.pack) ⟨keyOf st.conn, input, binding⟩) false (st.conn :: started) dead (m :: outs) f
  let (outs, fail, done) ← go steps obsSteps [] false [] [] [] none
  -- the flight after acceptance is not predicted; it must show that the instrumentation sees
  -- certificates and private-key operations when they do happen
  let flight := (kv ot "flight").getD "-"
  -- the accepted hello names a session the server has cached: an abbreviated handshake (no
  -- certificate, no private-key operation) is what the protocol prescribes then
  let resumable := (do
    let i ← outs.findIdx? (fun (x : String) => x.endsWith "acc")
    let st ← steps[i]?
    let h ← hellos[st.hello]?
    pure (cache.any fun e => e.1 == h.sessionId)).getD false
  let fail2 := match fail with
    | some x => some x
    | none =>
      if done && ((obsSteps.getLast?.map (fun (x : String) => x.endsWith "acc")).getD false) && !resumable then
        match flight.splitOn "/" with
        | [ty, ky] =>
          match parseNatList ty, ky.toNat? with
          | some types, some k =>
            -- (a cookie-verified hello that then fails negotiation — e.g. no null compression — is answered
            -- with an alert and no ServerHello: there is no flight to look into)
            if !types.contains 2 then none
            else if types.contains 11 && k ≥ 1 then none
            else some ("instrumentation", "after a valid cookie no certificate / private-key operation was observed")
          | _, _ => some ("shape", "unparseable flight")
        | _ => some ("shape", "missing flight")
      else none
  -- application callbacks (Config.GetConfigForClient, counted by the driver) before the accepted
  -- hello: none when the callback is not reachable before the loop exits (regenerated fact)
  let cbModel := if Facts.dtlcp.cookiePreReachable.contains "GetConfigForClient" then "?" else "0"
  let fail3 := match fail2 with
    | some x => some x
    | none => match kvNat ot "cb" with
      | some 0 => none
      | some n => some ("callback-before-cookie", s!"{n} application callback(s) (GetConfigForClient) ran before a valid cookie")
      | none => some ("shape", "missing cb")
  -- the address each connection binds its cookies to is the text given (for u/m peers: the
  -- model's `hostPort host port`, checked by `peerOk`)
  let ra := if (kv ct "pk").isSome then s!" ra={";".intercalate (peers.map Hex.encode)}" else ""
  let model := s!"steps={",".intercalate outs} flight={flight} cb={cbModel}{ra}"
  pure { model := model, spec := fail3, trivial := steps.isEmpty }

def judge (c o : String) : Option Verdict := do
  let ct := tokens c
  let ot := tokens o
  match kv ct "kind" with
  | some "cookie" => judgeCookie ct ot
  | some "decode" => judgeDecode ct ot
  | some "secret" => judgeSecret ct ot
  | some "server" => judgeServer ct ot
  | _ => none

end Gotlcp.Oracle.C18

/-
Helper lemmas for C15 (model `Gotlcp.Model.DtlcpTx`).
-/
import Gotlcp.Model.DtlcpTx
import Gotlcp.Spec.DtlcpTxSpec

set_option linter.unusedSimpArgs false
set_option linter.unusedVariables false

namespace Gotlcp.Lemmas.DtlcpTx
open Gotlcp.Model.DtlcpTx
open Gotlcp.Model

/-- the two clamps: the result is the raw budget cut to `[1, maxPlaintext]` -/
theorem maxPayload_eq (k : Consts) (pmtu : Int) (c : Cipher) :
    (maxPayloadSizeForWrite k pmtu c : Int) =
      if rawBudget k pmtu c > k.maxPlaintext then (if (k.maxPlaintext : Int) < 1 then 1 else (k.maxPlaintext : Int))
      else if rawBudget k pmtu c < 1 then 1 else rawBudget k pmtu c := by
  unfold maxPayloadSizeForWrite
  simp only []
  split <;> split <;> omega

theorem maxPayload_pos (k : Consts) (pmtu : Int) (c : Cipher) : 1 ≤ maxPayloadSizeForWrite k pmtu c := by
  have := maxPayload_eq k pmtu c
  split at this
  · split at this <;> omega
  · split at this <;> omega

theorem maxPayload_le (k : Consts) (pmtu : Int) (c : Cipher) (h : 1 ≤ k.maxPlaintext) :
    maxPayloadSizeForWrite k pmtu c ≤ k.maxPlaintext := by
  have := maxPayload_eq k pmtu c
  split at this
  · split at this <;> omega
  · split at this <;> omega

/-- when the raw budget is at least one byte, the announced maximum never exceeds it -/
theorem maxPayload_le_raw (k : Consts) (pmtu : Int) (c : Cipher) (h : 1 ≤ rawBudget k pmtu c) :
    (maxPayloadSizeForWrite k pmtu c : Int) ≤ rawBudget k pmtu c := by
  have := maxPayload_eq k pmtu c
  split at this
  · split at this <;> omega
  · split at this <;> omega

/-! ### the splitting loop -/

theorem splitLoop_flatten (mp : Nat) (hmp : 1 ≤ mp) (fuel : Nat) (data : Bytes) (h : data.length ≤ fuel) :
    (splitLoop mp fuel data).flatten = data := by
  induction fuel generalizing data with
  | zero =>
    have : data = [] := List.eq_nil_of_length_eq_zero (by omega)
    subst this; simp [splitLoop]
  | succ f ih =>
    unfold splitLoop
    split
    · rename_i hpos
      simp only [List.flatten_cons]
      rw [ih (data.drop _) (by simp only [List.length_drop]; split <;> omega)]
      exact List.take_append_drop _ _
    · have : data = [] := List.eq_nil_of_length_eq_zero (by omega)
      subst this; simp

theorem splitLoop_pieces (mp : Nat) (hmp : 1 ≤ mp) (fuel : Nat) (data : Bytes) :
    ∀ p ∈ splitLoop mp fuel data, 1 ≤ p.length ∧ p.length ≤ mp := by
  induction fuel generalizing data with
  | zero => intro p hp; simp [splitLoop] at hp
  | succ f ih =>
    intro p hp
    unfold splitLoop at hp
    split at hp
    · rename_i hpos
      rcases List.mem_cons.mp hp with h | h
      · subst h
        simp only [List.length_take]
        split <;> omega
      · exact ih _ p h
    · simp at hp

theorem splitLoop_single (mp : Nat) (data : Bytes) (h0 : 0 < data.length) (h : data.length ≤ mp) :
    splitLoop mp data.length data = [data] := by
  cases hl : data.length with
  | zero => omega
  | succ f =>
    unfold splitLoop
    have h1 : data.length > 0 := h0
    have h2 : ¬ data.length > mp := by omega
    simp only [h1, h2, if_true, if_false]
    rw [List.take_length, List.drop_length]
    cases f <;> simp [splitLoop]

theorem splitLoop_empty (mp fuel : Nat) : splitLoop mp fuel [] = [] := by
  cases fuel <;> simp [splitLoop]

/-- number of pieces: strictly more than one when the data exceeds `mp` -/
theorem splitLoop_two (mp : Nat) (hmp : 1 ≤ mp) (data : Bytes) (h : mp < data.length) :
    2 ≤ (splitLoop mp data.length data).length := by
  cases hl : data.length with
  | zero => omega
  | succ f =>
    unfold splitLoop
    have h1 : data.length > 0 := by omega
    have h2 : data.length > mp := h
    simp only [h1, h2, if_true]
    cases f with
    | zero => omega
    | succ g =>
      unfold splitLoop
      have h3 : (List.drop mp data).length > 0 := by simp only [List.length_drop]; omega
      simp only [h3, if_true, List.length_cons]
      omega

/-! ### CBC: payload + MAC + padding inside the rounded budget -/

/-- `pl < q*bs` implies the padded length `pl + (bs - pl % bs)` is at most `q*bs` -/
theorem padded_le (pl q bs : Nat) (hbs : 0 < bs) (h : pl < q * bs) :
    pl + (bs - pl % bs) ≤ q * bs := by
  have hdm := Nat.div_add_mod pl bs
  have hm := Nat.mod_lt pl hbs
  have hq : pl / bs < q := (Nat.div_lt_iff_lt_mul hbs).mpr h
  have : (pl / bs + 1) * bs ≤ q * bs := Nat.mul_le_mul_right bs hq
  have e : (pl / bs + 1) * bs = bs * (pl / bs) + bs := by rw [Nat.add_mul, Nat.one_mul, Nat.mul_comm]
  omega

/-! ### header bytes and the receive step -/

theorem beBytes_length (k x : Nat) : (beBytes k x).length = k := by
  induction k with
  | zero => rfl
  | succ k ih => simp [beBytes, ih]

theorem beNat_aux (k x acc : Nat) :
    (beBytes k x).foldl (fun a (b : UInt8) => a * 256 + b.toNat) acc = acc * 256 ^ k + x % 256 ^ k := by
  induction k generalizing acc with
  | zero => simp [beBytes, Nat.mod_one]
  | succ k ih =>
    simp only [beBytes, List.foldl_cons]
    rw [ih]
    have h1 : (UInt8.ofNat (x / 256 ^ k)).toNat = x / 256 ^ k % 256 := by
      rw [UInt8.toNat_ofNat']
    rw [h1, Nat.mod_pow_succ, Nat.pow_succ]
    generalize x / 256 ^ k % 256 = q
    generalize x % 256 ^ k = r
    generalize 256 ^ k = m
    rw [Nat.add_mul, Nat.mul_assoc, Nat.mul_comm 256 m, Nat.mul_comm q m]
    omega

theorem beNat_beBytes (k x : Nat) (h : x < 256 ^ k) : beNat (beBytes k x) = x := by
  unfold beNat
  rw [beNat_aux, Nat.mod_eq_of_lt h]; omega

/-- the law record protection has to satisfy (hypothesis of the identity theorems) -/
structure Laws (P : Protect) : Prop where
  /-- `decrypt (encrypt p) = p` under the same record identity (C04's round trip) -/
  roundtrip : ∀ id p, P.unprotect id (P.protect id p) = some p
  /-- a protected record of at most 16384 plaintext bytes has a 16-bit length -/
  short : ∀ id (p : Bytes), p.length ≤ 16384 → (P.protect id p).length < 65536

/-- header fields read back from a datagram -/
theorem parse_datagram (P : Protect) (id : RecId) (payload : Bytes)
    (ht : id.typ < 256) (hv : id.vers < 65536) (he : id.epoch < 65536) (hs : id.seq < 2 ^ 48)
    (hl : (P.protect id payload).length < 65536) :
    let d := datagram P id payload
    d.length = 13 + (P.protect id payload).length ∧
    (d.getD 0 0).toNat = id.typ ∧ beNat ((d.drop 1).take 2) = id.vers ∧ beNat ((d.drop 3).take 2) = id.epoch ∧
    beNat ((d.drop 5).take 6) = id.seq ∧ beNat ((d.drop 11).take 2) = (P.protect id payload).length ∧
    (d.drop 13) = P.protect id payload := by
  have e2 : ∀ x, beBytes 2 x = [UInt8.ofNat (x / 256 ^ 1), UInt8.ofNat (x / 256 ^ 0)] := fun x => rfl
  have e6 : ∀ x, beBytes 6 x = [UInt8.ofNat (x / 256 ^ 5), UInt8.ofNat (x / 256 ^ 4), UInt8.ofNat (x / 256 ^ 3),
      UInt8.ofNat (x / 256 ^ 2), UInt8.ofNat (x / 256 ^ 1), UInt8.ofNat (x / 256 ^ 0)] := fun x => rfl
  simp only []
  unfold datagram recordHeader
  refine ⟨?_, ?_, ?_, ?_, ?_, ?_, ?_⟩
  · simp [beBytes_length]; omega
  · simp [UInt8.toNat_ofNat']; omega
  · have : ((UInt8.ofNat id.typ :: (beBytes 2 id.vers ++ beBytes 2 id.epoch ++ beBytes 6 id.seq ++
        beBytes 2 (P.protect id payload).length) ++ P.protect id payload).drop 1).take 2 = beBytes 2 id.vers := by
      simp [e2, e6]
    rw [this]; exact beNat_beBytes 2 _ (by omega)
  · have : ((UInt8.ofNat id.typ :: (beBytes 2 id.vers ++ beBytes 2 id.epoch ++ beBytes 6 id.seq ++
        beBytes 2 (P.protect id payload).length) ++ P.protect id payload).drop 3).take 2 = beBytes 2 id.epoch := by
      simp [e2, e6]
    rw [this]; exact beNat_beBytes 2 _ (by omega)
  · have : ((UInt8.ofNat id.typ :: (beBytes 2 id.vers ++ beBytes 2 id.epoch ++ beBytes 6 id.seq ++
        beBytes 2 (P.protect id payload).length) ++ P.protect id payload).drop 5).take 6 = beBytes 6 id.seq := by
      simp [e2, e6]
    rw [this]; exact beNat_beBytes 6 _ (by omega)
  · have : ((UInt8.ofNat id.typ :: (beBytes 2 id.vers ++ beBytes 2 id.epoch ++ beBytes 6 id.seq ++
        beBytes 2 (P.protect id payload).length) ++ P.protect id payload).drop 11).take 2
          = beBytes 2 (P.protect id payload).length := by
      simp [e2, e6]
    rw [this]; exact beNat_beBytes 2 _ (by omega)
  · simp [e2, e6]

/-- the receive step on a genuine application-data datagram whose sequence number is ahead
of the window: the payload is handed up, the window's right edge becomes that number -/
theorem rxStep_genuine (P : Protect) (L : Laws P) (rp : Replay.Params) (cfgWin : Int) (path : RxPath)
    (st : RxState) (vers epoch seq : Nat) (payload : Bytes)
    (hv : vers < 65536) (he : epoch < 65536) (hs : seq < 2 ^ 48)
    (hp1 : 0 < payload.length) (hp2 : payload.length ≤ 16384)
    (hep : st.readEpoch = epoch) (hw : st.win.right < seq) :
    ∃ st', rxStep P 13 rp cfgWin path st (datagram P ⟨23, vers, epoch, seq⟩ payload) = (st', .data payload) ∧
      st'.readEpoch = epoch ∧ st'.win.right = seq := by
  have hl := L.short ⟨23, vers, epoch, seq⟩ payload hp2
  obtain ⟨h0, h1, h2, h3, h4, h5, h6⟩ := parse_datagram P ⟨23, vers, epoch, seq⟩ payload (show (23 : Nat) < 256 by omega) hv he hs hl
  simp only [] at h0 h1 h2 h3 h4 h5 h6
  unfold rxStep
  have a1 : ¬ (datagram P ⟨23, vers, epoch, seq⟩ payload).length < 13 := by omega
  simp only [a1, if_false, h1, h2, h3, h4, h5, h6]
  have a2 : ¬ 13 + (P.protect ⟨23, vers, epoch, seq⟩ payload).length > (datagram P ⟨23, vers, epoch, seq⟩ payload).length := by omega
  simp only [a2, if_false, List.take_length, L.roundtrip]
  have a3 : ¬ epoch < st.readEpoch := by omega
  have a4 : ¬ epoch > st.readEpoch := by omega
  simp only [a3, a4, if_false]
  have hc : Replay.check rp st.win seq =
      ({ st.win with bitmap := (if seq - st.win.right ≥ Replay.span rp st.win then 0#64 else st.win.bitmap <<< (seq - st.win.right)) ||| 1#64,
                     right := seq }, true) := by
    unfold Replay.check
    have : seq > st.win.right := hw
    simp only [this, if_true]
  rw [hc]
  have hne : payload.isEmpty = false := by
    cases payload with
    | nil => simp at hp1
    | cons a t => rfl
  simp only [Bool.not_true, Bool.false_eq_true, if_false, beq_self_eq_true, if_true, hne, Bool.and_false]
  exact ⟨_, rfl, hep, rfl⟩

theorem rxRun_pieces (P : Protect) (L : Laws P) (rp : Replay.Params) (cfgWin : Int) (path : RxPath)
    (vers epoch : Nat) (hv : vers < 65536) (he : epoch < 65536) (pieces : List Bytes)
    (hp : ∀ p ∈ pieces, 0 < p.length ∧ p.length ≤ 16384) :
    ∀ (seq : Nat) (st : RxState), seq + pieces.length ≤ 2 ^ 48 → st.readEpoch = epoch → st.win.right < seq →
      (rxRun P 13 rp cfgWin path st (txDatagrams P 23 vers epoch seq pieces)).2 = pieces.map RxOut.data := by
  induction pieces with
  | nil => intro seq st _ _ _; rfl
  | cons p ps ih =>
    intro seq st hseq hep hw
    simp only [txDatagrams, rxRun, List.map_cons]
    have hpp := hp p List.mem_cons_self
    obtain ⟨st', hstep, hep', hw'⟩ := rxStep_genuine P L rp cfgWin path st vers epoch seq p hv he
      (by simp only [List.length_cons] at hseq; omega) hpp.1 hpp.2 hep hw
    rw [hstep]
    simp only []
    rw [ih (fun q hq => hp q (List.mem_cons_of_mem _ hq)) (seq + 1) st'
      (by simp only [List.length_cons] at hseq; omega) hep' (by omega)]

theorem received_data (pieces : List Bytes) : received (pieces.map RxOut.data) = pieces.flatten := by
  induction pieces with
  | nil => rfl
  | cons p ps ih => simp [received, ih]

end Gotlcp.Lemmas.DtlcpTx

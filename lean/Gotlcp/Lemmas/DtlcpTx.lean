/-
Helper lemmas for C15 (model `Gotlcp.Model.DtlcpTx`).
-/
import Gotlcp.Model.DtlcpTx
import Gotlcp.Spec.DtlcpTxSpec

set_option linter.unusedSimpArgs false
set_option linter.unusedVariables false

namespace Gotlcp.Lemmas.DtlcpTx
open Gotlcp.Model.DtlcpTx

/-- the two clamps: the result is the raw budget cut to `[1, maxPlaintext]` -/
theorem maxPayload_eq (k : Consts) (pmtu : Int) (c : Cipher) :
    (maxPayloadSizeForWrite k pmtu c : Int) =
      if rawBudget k pmtu c > k.maxPlaintext then (if (k.maxPlaintext : Int) < 1 then 1 else (k.maxPlaintext : Int))
      else if rawBudget k pmtu c < 1 then 1 else rawBudget k pmtu c := by
  unfold maxPayloadSizeForWrite
  simp only []
  split <;> split <;> omega

theorem maxPayload_pos (k : Consts) (pmtu : Int) (c : Cipher) : 1 ≤ maxPayloadSizeForWrite k pmtu c := by
  have := maxPayload_eq k pmtu c
  split at this
  · split at this <;> omega
  · split at this <;> omega

theorem maxPayload_le (k : Consts) (pmtu : Int) (c : Cipher) (h : 1 ≤ k.maxPlaintext) :
    maxPayloadSizeForWrite k pmtu c ≤ k.maxPlaintext := by
  have := maxPayload_eq k pmtu c
  split at this
  · split at this <;> omega
  · split at this <;> omega

/-- when the raw budget is at least one byte, the announced maximum never exceeds it -/
theorem maxPayload_le_raw (k : Consts) (pmtu : Int) (c : Cipher) (h : 1 ≤ rawBudget k pmtu c) :
    (maxPayloadSizeForWrite k pmtu c : Int) ≤ rawBudget k pmtu c := by
  have := maxPayload_eq k pmtu c
  split at this
  · split at this <;> omega
  · split at this <;> omega

/-! ### the splitting loop -/

theorem splitLoop_flatten (mp : Nat) (hmp : 1 ≤ mp) (fuel : Nat) (data : Bytes) (h : data.length ≤ fuel) :
    (splitLoop mp fuel data).flatten = data := by
  induction fuel generalizing data with
  | zero =>
    have : data = [] := List.eq_nil_of_length_eq_zero (by omega)
    subst this; simp [splitLoop]
  | succ f ih =>
    unfold splitLoop
    split
    · rename_i hpos
      simp only [List.flatten_cons]
      rw [ih (data.drop _) (by simp only [List.length_drop]; split <;> omega)]
      exact List.take_append_drop _ _
    · have : data = [] := List.eq_nil_of_length_eq_zero (by omega)
      subst this; simp

theorem splitLoop_pieces (mp : Nat) (hmp : 1 ≤ mp) (fuel : Nat) (data : Bytes) :
    ∀ p ∈ splitLoop mp fuel data, 1 ≤ p.length ∧ p.length ≤ mp := by
  induction fuel generalizing data with
  | zero => intro p hp; simp [splitLoop] at hp
  | succ f ih =>
    intro p hp
    unfold splitLoop at hp
    split at hp
    · rename_i hpos
      rcases List.mem_cons.mp hp with h | h
      · subst h
        simp only [List.length_take]
        split <;> omega
      · exact ih _ p h
    · simp at hp

theorem splitLoop_single (mp : Nat) (data : Bytes) (h0 : 0 < data.length) (h : data.length ≤ mp) :
    splitLoop mp data.length data = [data] := by
  cases hl : data.length with
  | zero => omega
  | succ f =>
    unfold splitLoop
    have h1 : data.length > 0 := h0
    have h2 : ¬ data.length > mp := by omega
    simp only [h1, h2, if_true, if_false]
    rw [List.take_length, List.drop_length]
    cases f <;> simp [splitLoop]

theorem splitLoop_empty (mp fuel : Nat) : splitLoop mp fuel [] = [] := by
  cases fuel <;> simp [splitLoop]

/-- number of pieces: strictly more than one when the data exceeds `mp` -/
theorem splitLoop_two (mp : Nat) (hmp : 1 ≤ mp) (data : Bytes) (h : mp < data.length) :
    2 ≤ (splitLoop mp data.length data).length := by
  cases hl : data.length with
  | zero => omega
  | succ f =>
    unfold splitLoop
    have h1 : data.length > 0 := by omega
    have h2 : data.length > mp := h
    simp only [h1, h2, if_true]
    cases f with
    | zero => omega
    | succ g =>
      unfold splitLoop
      have h3 : (List.drop mp data).length > 0 := by simp only [List.length_drop]; omega
      simp only [h3, if_true, List.length_cons]
      omega

/-! ### CBC: payload + MAC + padding inside the rounded budget -/

/-- `pl < q*bs` implies the padded length `pl + (bs - pl % bs)` is at most `q*bs` -/
theorem padded_le (pl q bs : Nat) (hbs : 0 < bs) (h : pl < q * bs) :
    pl + (bs - pl % bs) ≤ q * bs := by
  have hdm := Nat.div_add_mod pl bs
  have hm := Nat.mod_lt pl hbs
  have hq : pl / bs < q := (Nat.div_lt_iff_lt_mul hbs).mpr h
  have : (pl / bs + 1) * bs ≤ q * bs := Nat.mul_le_mul_right bs hq
  have e : (pl / bs + 1) * bs = bs * (pl / bs) + bs := by rw [Nat.add_mul, Nat.one_mul, Nat.mul_comm]
  omega

end Gotlcp.Lemmas.DtlcpTx

/-
Helper lemmas for the part of C16 about `Read` and `ReadFrom` used together with caller
buffers of any size (`Gotlcp.Model.DtlcpRxMix`): the invariant that ties what has been handed
to the application, byte range by byte range, to the records that passed the replay window.
-/
import Gotlcp.Lemmas.DtlcpRx
import Gotlcp.Model.DtlcpRxMix

set_option linter.unusedSimpArgs false
set_option linter.unusedVariables false

namespace Gotlcp.Lemmas.DtlcpRxMix
open Gotlcp.Model.Replay
open Gotlcp.Model.DtlcpRx
open Gotlcp.Lemmas.Replay
open Gotlcp.Lemmas.DtlcpRx

/-- number of bytes of the record with key `k` handed over by the calls in `outs` -/
def total (k : Nat × Nat) : List MOut → Nat
  | [] => 0
  | .chunk r _ cnt _ :: os => (if key r = k then cnt else 0) + total k os
  | .timeout :: os => total k os
  | .eof :: os => total k os
  | .error :: os => total k os
  | .queued :: os => total k os

/-- the records (parts of) which were handed over by the calls in `outs` -/
def recsOf : List MOut → List Rec
  | [] => []
  | .chunk r _ _ _ :: os => r :: recsOf os
  | .timeout :: os => recsOf os
  | .eof :: os => recsOf os
  | .error :: os => recsOf os
  | .queued :: os => recsOf os

/-- What the property demands of one call, given everything handed over `before` it: the
bytes are a range of the payload of an authentic application record the network delivered
(`pool`), the range starts exactly where the bytes of that record handed over before end, it
lies inside the payload, and every earlier range under the same (epoch, sequence number)
belongs to the same record. -/
def okAfter (plen : Nat → Nat) (pool : List Dgram) (before : List MOut) : MOut → Prop
  | .chunk r off cnt _ =>
    r.auth = true ∧ r.kind = .appData ∧ Dgram.record r ∈ pool ∧
    off = total (key r) before ∧ off + cnt ≤ plen r.payload ∧
    ∀ r' ∈ recsOf before, key r' = key r → r' = r
  | _ => True

/-- every call of a history is `okAfter` the calls before it (`before`: newest first) -/
def InOrder (plen : Nat → Nat) (pool : List Dgram) : List MOut → List MOut → Prop
  | _, [] => True
  | before, o :: rest => okAfter plen pool before o ∧ InOrder plen pool (o :: before) rest

theorem total_zero (acc : List (Nat × Nat)) (k : Nat × Nat) :
    ∀ l : List MOut, (∀ r ∈ recsOf l, key r ∈ acc) → k ∉ acc →
      total k l = 0 ∧ ∀ r ∈ recsOf l, key r ≠ k
  | [], _, _ => ⟨rfl, fun r hr => by cases hr⟩
  | o :: os, h, hk => by
    cases o with
    | chunk r off cnt t =>
      have hr : key r ∈ acc := h r (by simp [recsOf])
      have hne : key r ≠ k := fun he => hk (he ▸ hr)
      obtain ⟨i1, i2⟩ := total_zero acc k os (fun r' hr' => h r' (by simp [recsOf, hr'])) hk
      refine ⟨by simp [total, hne, i1], ?_⟩
      intro r' hr'
      simp only [recsOf, List.mem_cons] at hr'
      rcases hr' with rfl | hr'
      · exact hne
      · exact i2 r' hr'
    | timeout | eof | error | queued =>
      simpa [total, recsOf] using total_zero acc k os (by simpa [recsOf] using h) hk

/-! ### the record loops -/

theorem gotOf_none (d : Dgram) (o : Out) (h : gotOf d o = none) : o = .timeout := by
  cases o with
  | timeout => rfl
  | eof | error => simp [gotOf] at h
  | data pl => cases d <;> simp [gotOf] at h

theorem gotOf_record (d : Dgram) (o : Out) (r : Rec) (h : gotOf d o = some (.record r)) :
    d = .record r ∧ ∃ pl, o = .data pl := by
  cases o with
  | timeout | eof | error => simp [gotOf] at h
  | data pl =>
    cases d with
    | record r' =>
      simp only [gotOf, Option.some.injEq, Got.record.injEq] at h
      exact ⟨by rw [h], pl, rfl⟩
    | otherAddr | short | badVersion | oversize | truncated => simp [gotOf] at h

/-- what both loops guarantee -/
structure LoopOK (p : Params) (acc : List (Nat × Nat)) (ms : List MD)
    (st' : State) (g : Got) (rest : List MD) : Prop where
  ex : ∃ acc', RxInv p acc' st' ∧ (∀ k ∈ acc, k ∈ acc') ∧
    ∀ r, g = .record r → r.auth = true ∧ r.kind = .appData ∧ key r ∉ acc ∧ key r ∈ acc' ∧
      ∃ m ∈ ms, m.d = .record r
  sub : ∀ x ∈ rest, x ∈ ms

theorem recLoop_ok (p : Params) (q : RxParams) :
    ∀ (ms : List MD) (acc : List (Nat × Nat)) (st : State), RxInv p acc st →
      LoopOK p acc ms (recLoop p q st ms).1 (recLoop p q st ms).2.1 (recLoop p q st ms).2.2
  | [], acc, st, h => ⟨⟨acc, h, fun _ hk => hk, fun r hr => by cases hr⟩, fun x hx => by cases hx⟩
  | m :: ms, acc, st, h => by
    obtain ⟨acc1, hi1, hsub1, hdel1⟩ := step_inv p q .read acc st m.d h
    simp only [step] at hi1 hdel1
    rcases hrd : read p q st m.d with ⟨st1, o⟩
    rw [hrd] at hi1 hdel1
    simp only at hi1 hdel1
    cases hg : gotOf m.d o with
    | none =>
      have ih := recLoop_ok p q ms acc1 st1 hi1
      have heq : recLoop p q st (m :: ms) = recLoop p q st1 ms := by
        simp [recLoop, hrd, hg]
      rw [heq]
      obtain ⟨⟨acc', hi, hsub, hrec⟩, hrest⟩ := ih
      refine ⟨⟨acc', hi, fun k hk => hsub k (hsub1 k hk), ?_⟩, fun x hx => List.mem_cons_of_mem _ (hrest x hx)⟩
      intro r hr
      obtain ⟨a, b, c, d, m', hm', hd'⟩ := hrec r hr
      exact ⟨a, b, fun hk => c (hsub1 _ hk), d, m', List.mem_cons_of_mem _ hm', hd'⟩
    | some g =>
      have heq : recLoop p q st (m :: ms) = (st1, g, ms) := by
        simp [recLoop, hrd, hg]
      rw [heq]
      refine ⟨⟨acc1, hi1, hsub1, ?_⟩, fun x hx => List.mem_cons_of_mem _ hx⟩
      intro r hr
      simp only at hr
      subst hr
      obtain ⟨hd, pl, ho⟩ := gotOf_record m.d o r hg
      obtain ⟨a, b, _, c, d⟩ := hdel1 r pl hd ho
      exact ⟨a, b, c, d, m, List.mem_cons_self, hd⟩

theorem fromLoop_ok (p : Params) (q : RxParams) :
    ∀ (ms : List MD) (acc : List (Nat × Nat)) (st : State) (raw : Option MD), RxInv p acc st →
      LoopOK p acc ms (fromLoop p st raw ms).1 (fromLoop p st raw ms).2.1 (fromLoop p st raw ms).2.2.2
  | [], acc, st, raw, h => ⟨⟨acc, h, fun _ hk => hk, fun r hr => by cases hr⟩, fun x hx => by cases hx⟩
  | m :: ms, acc, st, raw, h => by
    obtain ⟨acc1, hi1, hsub1, hdel1⟩ := step_inv p q .readFrom acc st m.d h
    simp only [step] at hi1 hdel1
    rcases hrd : readFrom p st m.d with ⟨st1, o⟩
    rw [hrd] at hi1 hdel1
    simp only at hi1 hdel1
    cases hg : gotOf m.d o with
    | none =>
      have ih := fromLoop_ok p q ms acc1 st1 (staleOf raw m) hi1
      have heq : fromLoop p st raw (m :: ms) = fromLoop p st1 (staleOf raw m) ms := by
        simp [fromLoop, hrd, hg]
      rw [heq]
      obtain ⟨⟨acc', hi, hsub, hrec⟩, hrest⟩ := ih
      refine ⟨⟨acc', hi, fun k hk => hsub k (hsub1 k hk), ?_⟩, fun x hx => List.mem_cons_of_mem _ (hrest x hx)⟩
      intro r hr
      obtain ⟨a, b, c, d, m', hm', hd'⟩ := hrec r hr
      exact ⟨a, b, fun hk => c (hsub1 _ hk), d, m', List.mem_cons_of_mem _ hm', hd'⟩
    | some g =>
      have heq : fromLoop p st raw (m :: ms) = (st1, g, staleOf raw m, ms) := by
        simp [fromLoop, hrd, hg]
      rw [heq]
      refine ⟨⟨acc1, hi1, hsub1, ?_⟩, fun x hx => List.mem_cons_of_mem _ hx⟩
      intro r hr
      simp only at hr
      subst hr
      obtain ⟨hd, pl, ho⟩ := gotOf_record m.d o r hg
      obtain ⟨a, b, _, c, d⟩ := hdel1 r pl hd ho
      exact ⟨a, b, c, d, m, List.mem_cons_self, hd⟩

/-- what `ReadFrom` leaves in `c.rawInputBuf` never authenticates -/
theorem fromLoop_raw (p : Params) :
    ∀ (ms : List MD) (st : State) (raw : Option MD), (∀ x, raw = some x → x.d.authentic = false) →
      ∀ x, (fromLoop p st raw ms).2.2.1 = some x → x.d.authentic = false
  | [], st, raw, h => by simpa [fromLoop] using h
  | m :: ms, st, raw, h => by
    have hs : ∀ x, staleOf raw m = some x → x.d.authentic = false := by
      intro x hx
      unfold staleOf at hx
      cases hd : m.d with
      | otherAddr => rw [hd] at hx; exact h x hx
      | short => rw [hd] at hx; cases hx
      | record r =>
        rw [hd] at hx
        simp only [Option.some.injEq] at hx
        subst hx; rfl
      | badVersion | oversize | truncated =>
        rw [hd] at hx
        simp only [Option.some.injEq] at hx
        subst hx; rw [hd]; rfl
    rcases hrd : readFrom p st m.d with ⟨st1, o⟩
    cases hg : gotOf m.d o with
    | none =>
      have heq : fromLoop p st raw (m :: ms) = fromLoop p st1 (staleOf raw m) ms := by
        simp [fromLoop, hrd, hg]
      rw [heq]
      exact fromLoop_raw p ms st1 _ hs
    | some g =>
      have heq : fromLoop p st raw (m :: ms) = (st1, g, staleOf raw m, ms) := by
        simp [fromLoop, hrd, hg]
      rw [heq]
      exact hs

/-! ### the invariant of the mixed machine -/

/-- the part of the invariant that does not mention `c.readBuf` -/
structure Core (p : Params) (pool : List Dgram) (acc : List (Nat × Nat)) (m : Mix) (before : List MOut) : Prop where
  rx : RxInv p acc m.st
  handedAcc : ∀ r ∈ recsOf before, key r ∈ acc
  queuePool : ∀ x ∈ m.queue, x.d.authentic = true → x.d ∈ pool
  rawForged : ∀ x, m.raw = some x → x.d.authentic = false

/-- `c.readBuf` holds the rest of record `r`, `off` bytes of which are gone -/
def BufOK (plen : Nat → Nat) (pool : List Dgram) (acc : List (Nat × Nat)) (before : List MOut) (r : Rec) (off : Nat) : Prop :=
  r.auth = true ∧ r.kind = .appData ∧ Dgram.record r ∈ pool ∧ key r ∈ acc ∧
  off = total (key r) before ∧ off ≤ plen r.payload ∧ ∀ r' ∈ recsOf before, key r' = key r → r' = r

structure MixInv (p : Params) (plen : Nat → Nat) (pool : List Dgram) (acc : List (Nat × Nat)) (m : Mix)
    (before : List MOut) : Prop where
  core : Core p pool acc m before
  buf : ∀ r off, m.buf = some (r, off) → BufOK plen pool acc before r off

theorem core_buf (p : Params) (pool : List Dgram) (acc : List (Nat × Nat)) (m : Mix) (before : List MOut)
    (b : Option (Rec × Nat)) (h : Core p pool acc m before) : Core p pool acc { m with buf := b } before :=
  ⟨h.rx, h.handedAcc, h.queuePool, h.rawForged⟩

/-- a call's result that carries no bytes does not disturb the invariant -/
theorem core_nochunk (p : Params) (pool : List Dgram) (acc : List (Nat × Nat)) (m : Mix) (before : List MOut) (o : MOut)
    (ho : recsOf (o :: before) = recsOf before) (h : Core p pool acc m before) : Core p pool acc m (o :: before) :=
  ⟨h.rx, by rw [ho]; exact h.handedAcc, h.queuePool, h.rawForged⟩

/-- `readRecord()` from `Read` -/
theorem recCall_ok (p : Params) (q : RxParams) (pool : List Dgram) (acc : List (Nat × Nat)) (m : Mix)
    (before : List MOut) (h : Core p pool acc m before) :
    ∃ acc', Core p pool acc' (recCall p q m).1 before ∧ (∀ k ∈ acc, k ∈ acc') ∧
      (recCall p q m).1.buf = m.buf ∧
      ∀ r, (recCall p q m).2 = .record r →
        r.auth = true ∧ r.kind = .appData ∧ Dgram.record r ∈ pool ∧ key r ∉ acc ∧ key r ∈ acc' := by
  unfold recCall
  cases herr : m.st.err with
  | some l =>
    cases l
    all_goals
      refine ⟨acc, ?_, fun _ hk => hk, ?_, ?_⟩
      · simpa using h
      · simp
      · intro r hr; simp at hr
  | none =>
    simp only
    obtain ⟨⟨acc', hi, hsub, hrec⟩, hrest⟩ := recLoop_ok p q (m.raw.toList ++ m.queue) acc m.st h.rx
    refine ⟨acc', ⟨hi, fun r hr => hsub _ (h.handedAcc r hr), ?_, fun x hx => by cases hx⟩, hsub, trivial, ?_⟩
    · intro x hx hax
      rcases List.mem_append.mp (hrest x hx) with hraw | hq
      · cases hr : m.raw with
        | none => rw [hr] at hraw; cases hraw
        | some y =>
          rw [hr] at hraw
          simp only [Option.toList, List.mem_singleton] at hraw
          subst hraw
          have := h.rawForged x hr
          rw [hax] at this; cases this
      · exact h.queuePool x hq hax
    · intro r hr
      obtain ⟨a, b, c, d, m', hm', hd'⟩ := hrec r hr
      have hau : m'.d.authentic = true := by rw [hd']; exact a
      refine ⟨a, b, ?_, c, d⟩
      rw [← hd']
      rcases List.mem_append.mp hm' with hraw | hq
      · cases hrw : m.raw with
        | none => rw [hrw] at hraw; cases hraw
        | some y =>
          rw [hrw] at hraw
          simp only [Option.toList, List.mem_singleton] at hraw
          subst hraw
          have := h.rawForged m' hrw
          rw [hau] at this; cases this
      · exact h.queuePool m' hq hau

theorem recsOf_chunk (r : Rec) (off cnt : Nat) (t : Tail) (before : List MOut) :
    recsOf (.chunk r off cnt t :: before) = r :: recsOf before := rfl

theorem total_chunk (k : Nat × Nat) (r : Rec) (off cnt : Nat) (t : Tail) (before : List MOut) :
    total k (.chunk r off cnt t :: before) = (if key r = k then cnt else 0) + total k before := rfl

/-- `BufOK` survives a larger `acc` and a new chunk of another record whose key is not in the
old `acc` -/
theorem bufOK_other (plen : Nat → Nat) (pool : List Dgram) (acc acc' : List (Nat × Nat)) (before : List MOut)
    (r0 : Rec) (off0 : Nat) (r : Rec) (off cnt : Nat) (t : Tail)
    (hsub : ∀ k ∈ acc, k ∈ acc') (hnew : key r ∉ acc) (h : BufOK plen pool acc before r0 off0) :
    BufOK plen pool acc' (.chunk r off cnt t :: before) r0 off0 := by
  obtain ⟨a, b, c, d, e, f, g⟩ := h
  have hne : key r ≠ key r0 := fun he => hnew (he ▸ d)
  refine ⟨a, b, c, hsub _ d, ?_, f, ?_⟩
  · rw [total_chunk]; simp [hne, e]
  · intro r' hr' hk
    rw [recsOf_chunk] at hr'
    rcases List.mem_cons.mp hr' with rfl | hr'
    · exact absurd hk hne
    · exact g r' hr' hk

theorem bufOK_nochunk (plen : Nat → Nat) (pool : List Dgram) (acc acc' : List (Nat × Nat)) (before : List MOut)
    (r0 : Rec) (off0 : Nat) (o : MOut) (ht : ∀ k, total k (o :: before) = total k before)
    (hr : recsOf (o :: before) = recsOf before)
    (hsub : ∀ k ∈ acc, k ∈ acc') (h : BufOK plen pool acc before r0 off0) :
    BufOK plen pool acc' (o :: before) r0 off0 := by
  obtain ⟨a, b, c, d, e, f, g⟩ := h
  exact ⟨a, b, c, hsub _ d, by rw [ht]; exact e, f, by rw [hr]; exact g⟩

/-- a freshly accepted record has no bytes handed over yet -/
theorem bufOK_fresh (plen : Nat → Nat) (pool : List Dgram) (acc acc' : List (Nat × Nat)) (before : List MOut) (r : Rec)
    (hh : ∀ r' ∈ recsOf before, key r' ∈ acc) (ha : r.auth = true) (hk : r.kind = .appData)
    (hp : Dgram.record r ∈ pool) (hnew : key r ∉ acc) (hin : key r ∈ acc') :
    BufOK plen pool acc' before r 0 := by
  obtain ⟨t0, tn⟩ := total_zero acc (key r) before hh hnew
  exact ⟨ha, hk, hp, hin, t0.symm, Nat.zero_le _, fun r' hr' he => absurd he (tn r' hr')⟩

/-- `copy(b, c.readBuf)` and the look-ahead: the bytes handed over are the next bytes of `r`,
and the invariant is kept -/
theorem handOver_ok (p : Params) (q : RxParams) (plen : Nat → Nat) (pool : List Dgram) (acc : List (Nat × Nat))
    (m : Mix) (before : List MOut) (r : Rec) (off n : Nat)
    (hc : Core p pool acc m before) (hb : BufOK plen pool acc before r off) :
    okAfter plen pool before (handOver p q plen m r off n).2 ∧
    ∃ acc', MixInv p plen pool acc' (handOver p q plen m r off n).1 ((handOver p q plen m r off n).2 :: before) ∧
      ∀ k ∈ acc, k ∈ acc' := by
  obtain ⟨ha, hk, hp, hin, hoff, hle, hsame⟩ := hb
  have hcnt : off + min n (plen r.payload - off) ≤ plen r.payload := by omega
  have hok : ∀ t, okAfter plen pool before (.chunk r off (min n (plen r.payload - off)) t) :=
    fun t => ⟨ha, hk, hp, hoff, hcnt, hsame⟩
  -- the invariant right after the bytes were handed over, whatever `c.readBuf` becomes
  have hcore : ∀ t (m' : Mix), Core p pool acc m' before →
      Core p pool acc m' (.chunk r off (min n (plen r.payload - off)) t :: before) := by
    intro t m' h
    refine ⟨h.rx, ?_, h.queuePool, h.rawForged⟩
    intro r' hr'
    rw [recsOf_chunk] at hr'
    rcases List.mem_cons.mp hr' with rfl | hr'
    · exact hin
    · exact h.handedAcc r' hr'
  unfold handOver
  simp only
  by_cases hrest : off + min n (plen r.payload - off) < plen r.payload
  · rw [if_pos hrest]
    refine ⟨hok _, acc, ⟨hcore _ _ (core_buf p pool acc m before _ hc), ?_⟩, fun _ hk => hk⟩
    intro r1 off1 hb1
    simp only [Option.some.injEq, Prod.mk.injEq] at hb1
    rw [← hb1.1, ← hb1.2]
    refine ⟨ha, hk, hp, hin, ?_, Nat.le_of_lt hrest, ?_⟩
    · rw [total_chunk]; simp; omega
    · intro r' hr' he
      rw [recsOf_chunk] at hr'
      rcases List.mem_cons.mp hr' with rfl | hr'
      · rfl
      · exact hsame r' hr' he
  · rw [if_neg hrest]
    have hc0 : Core p pool acc { m with buf := none } before := core_buf p pool acc m before none hc
    split
    · -- the look-ahead ran `readRecord()`
      obtain ⟨acc', hc1, hsub, hbuf, hrec⟩ := recCall_ok p q pool acc { m with buf := none } before hc0
      have hcore1 : ∀ t, Core p pool acc' (recCall p q { m with buf := none }).1
          (.chunk r off (min n (plen r.payload - off)) t :: before) := by
        intro t
        refine ⟨hc1.rx, ?_, hc1.queuePool, hc1.rawForged⟩
        intro r' hr'
        rw [recsOf_chunk] at hr'
        rcases List.mem_cons.mp hr' with rfl | hr'
        · exact hsub _ hin
        · exact hc1.handedAcc r' hr'
      have hnone : (recCall p q { m with buf := none }).1.buf = none := hbuf
      cases hg : (recCall p q { m with buf := none }).2 with
      | record r' =>
        simp only [hg]
        obtain ⟨a', b', c', d', e'⟩ := hrec r' hg
        refine ⟨hok _, acc', ⟨core_buf p pool acc' _ _ _ (hcore1 _), ?_⟩, hsub⟩
        intro r1 off1 hb1
        simp only [Option.some.injEq, Prod.mk.injEq] at hb1
        rw [← hb1.1, ← hb1.2]
        have hh : ∀ x ∈ recsOf (MOut.chunk r off (min n (plen r.payload - off)) Tail.none :: before), key x ∈ acc := by
          intro x hx
          rw [recsOf_chunk] at hx
          rcases List.mem_cons.mp hx with rfl | hx
          · exact hin
          · exact hc.handedAcc x hx
        exact bufOK_fresh plen pool acc acc' _ r' hh a' b' c' d' e'
      | timeout | eof | error =>
        simp only [hg]
        refine ⟨hok _, acc', ⟨hcore1 _, ?_⟩, hsub⟩
        intro r1 off1 hb1
        rw [hnone] at hb1; cases hb1
    · refine ⟨hok _, acc, ⟨hcore _ _ hc0, ?_⟩, fun _ hk => hk⟩
      intro r1 off1 hb1
      cases hb1

/-- one action of the mixed machine -/
theorem mixStep_ok (p : Params) (q : RxParams) (plen : Nat → Nat) (pool : List Dgram) (acc : List (Nat × Nat))
    (m : Mix) (before : List MOut) (a : Act) (h : MixInv p plen pool acc m before)
    (hd : ∀ md, a = .deliver md → md.d ∈ pool) :
    okAfter plen pool before (mixStep p q plen m a).2 ∧
    ∃ acc', MixInv p plen pool acc' (mixStep p q plen m a).1 ((mixStep p q plen m a).2 :: before) ∧
      ∀ k ∈ acc, k ∈ acc' := by
  cases a with
  | deliver md =>
    refine ⟨trivial, acc, ⟨⟨h.core.rx, h.core.handedAcc, ?_, h.core.rawForged⟩, ?_⟩, fun _ hk => hk⟩
    · intro x hx _
      simp only [mixStep] at hx
      rcases List.mem_append.mp hx with hx | hx
      · exact h.core.queuePool x hx ‹_›
      · simp only [List.mem_singleton] at hx; subst hx; exact hd _ rfl
    · intro r off hb
      exact bufOK_nochunk plen pool acc acc before r off .queued (fun _ => rfl) rfl (fun _ hk => hk) (h.buf r off hb)
  | read n =>
    simp only [mixStep, mixRead]
    cases hb : m.buf with
    | some ro =>
      obtain ⟨r, off⟩ := ro
      exact handOver_ok p q plen pool acc m before r off n h.core (h.buf r off hb)
    | none =>
      simp only
      obtain ⟨acc', hc1, hsub, hbuf, hrec⟩ := recCall_ok p q pool acc m before h.core
      have hnone : (recCall p q m).1.buf = none := by rw [hbuf, hb]
      cases hg : (recCall p q m).2 with
      | record r =>
        simp only [hg]
        obtain ⟨a', b', c', d', e'⟩ := hrec r hg
        have hbo : BufOK plen pool acc' before r 0 :=
          bufOK_fresh plen pool acc acc' before r h.core.handedAcc a' b' c' d' e'
        obtain ⟨h1, acc'', h2, h3⟩ := handOver_ok p q plen pool acc' (recCall p q m).1 before r 0 n hc1 hbo
        exact ⟨h1, acc'', h2, fun k hk => h3 k (hsub k hk)⟩
      | timeout | eof | error =>
        simp only [hg]
        refine ⟨trivial, acc', ⟨core_nochunk p pool acc' _ before _ rfl hc1, ?_⟩, hsub⟩
        intro r off hb1
        rw [hnone] at hb1; cases hb1
  | readFrom n =>
    simp only [mixStep, mixReadFrom]
    obtain ⟨⟨acc', hi, hsub, hrec⟩, hrest⟩ := fromLoop_ok p q m.queue acc m.st m.raw h.core.rx
    have hraw := fromLoop_raw p m.queue m.st m.raw h.core.rawForged
    rcases hfl : fromLoop p m.st m.raw m.queue with ⟨st1, g, raw1, rest⟩
    rw [hfl] at hi hrec hrest hraw
    simp only at hi hrec hrest hraw
    have hq : ∀ x ∈ rest, x.d.authentic = true → x.d ∈ pool :=
      fun x hx hax => h.core.queuePool x (hrest x hx) hax
    cases g with
    | record r =>
      simp only
      obtain ⟨a', b', c', d', m', hm', hd'⟩ := hrec r rfl
      have hp : Dgram.record r ∈ pool := by
        rw [← hd']; exact h.core.queuePool m' hm' (by rw [hd']; exact a')
      obtain ⟨t0, tn⟩ := total_zero acc (key r) before h.core.handedAcc c'
      refine ⟨⟨a', b', hp, t0.symm, by omega, fun r' hr' he => absurd he (tn r' hr')⟩, acc', ⟨⟨hi, ?_, hq, hraw⟩, ?_⟩, hsub⟩
      · intro r' hr'
        rw [recsOf_chunk] at hr'
        rcases List.mem_cons.mp hr' with rfl | hr'
        · exact d'
        · exact hsub _ (h.core.handedAcc r' hr')
      · intro r0 off0 hb0
        exact bufOK_other plen pool acc acc' before r0 off0 r _ _ _ hsub c' (h.buf r0 off0 hb0)
    | timeout | eof | error =>
      simp only
      refine ⟨trivial, acc', ⟨⟨hi, fun r hr => hsub _ (h.core.handedAcc r (by simpa [recsOf] using hr)), hq, hraw⟩, ?_⟩, hsub⟩
      intro r0 off0 hb0
      exact bufOK_nochunk plen pool acc acc' before r0 off0 _ (fun _ => rfl) rfl hsub (h.buf r0 off0 hb0)

/-- all histories of deliveries and calls -/
theorem mixRun_ok (p : Params) (q : RxParams) (plen : Nat → Nat) (pool : List Dgram) :
    ∀ (acts : List Act) (acc : List (Nat × Nat)) (m : Mix) (before : List MOut),
      MixInv p plen pool acc m before → (∀ md, Act.deliver md ∈ acts → md.d ∈ pool) →
      InOrder plen pool before (mixRun p q plen m acts).2 ∧
      ∃ acc', RxInv p acc' (mixRun p q plen m acts).1.st
  | [], acc, m, before, h, _ => ⟨trivial, acc, h.core.rx⟩
  | a :: as, acc, m, before, h, hd => by
    obtain ⟨h1, acc', h2, _⟩ := mixStep_ok p q plen pool acc m before a h
      (fun md he => hd md (he ▸ List.mem_cons_self))
    obtain ⟨i1, i2⟩ := mixRun_ok p q plen pool as acc' (mixStep p q plen m a).1 _ h2
      (fun md hm => hd md (List.mem_cons_of_mem _ hm))
    exact ⟨⟨h1, i1⟩, i2⟩

/-- the machine right after the handshake satisfies the invariant -/
theorem mixInv_start (p : Params) (plen : Nat → Nat) (pool : List Dgram) (acc : List (Nat × Nat)) (st : State)
    (h : RxInv p acc st) : MixInv p plen pool acc (Mix.start st) [] :=
  ⟨⟨h, fun r hr => (by cases hr), fun x hx => (by cases hx), fun x hx => (by cases hx)⟩, fun r off hb => (by cases hb)⟩

/-! ### datagrams that do not authenticate are skipped without effect, inside every call -/

theorem read_forged (p : Params) (q : RxParams) (st : State) (d : Dgram) (herr : st.err = none)
    (ha : d.authentic = false) (hq : drops q .read = true) : read p q st d = (st, .timeout) := by
  simp only [drops, Bool.and_eq_true] at hq
  cases d with
  | record r =>
    have har : r.auth = false := ha
    simp [Model.DtlcpRx.read, herr, har, hq.1]
  | otherAddr | short | badVersion | oversize | truncated =>
    simp [Model.DtlcpRx.read, herr, hq.2]

/-- a call of `readRecordOrCCS` goes on to the next datagram only with no error latched -/
theorem read_goes_on (p : Params) (q : RxParams) (st : State) (d : Dgram) (herr : st.err = none)
    (ho : (read p q st d).2 = .timeout) : (read p q st d).1.err = none := by
  have inval : ∀ b : Bool, (if b then (st, Out.timeout) else (({ st with err := some .fatal } : State), Out.error)).2 = .timeout →
      (if b then (st, Out.timeout) else (({ st with err := some .fatal } : State), Out.error)).1.err = none := by
    intro b hb
    cases b with
    | true => exact herr
    | false => cases hb
  cases d with
  | record r =>
    simp only [Model.DtlcpRx.read, herr] at ho ⊢
    by_cases ha : r.auth = true
    · simp only [ha, Bool.not_true, Bool.false_eq_true, if_false] at ho ⊢
      have hpres : (admitRec p st r).1.err = st.err := by
        unfold admitRec
        by_cases hlt : r.epoch < st.readEpoch
        · simp [hlt]
        · by_cases hgt : r.epoch > st.readEpoch <;> simp [hlt, hgt]
      cases hok : (admitRec p st r).2 with
      | false => simp only [hok, Bool.not_false, if_true] at ho ⊢; rw [hpres]; exact herr
      | true =>
        simp only [hok, Bool.not_true, Bool.false_eq_true, if_false] at ho ⊢
        cases hk : r.kind <;> rw [hk] at ho <;> cases ho
    · have ha' : r.auth = false := by cases hr : r.auth <;> simp_all
      simp only [ha', Bool.not_false, if_true] at ho ⊢
      exact inval _ ho
  | otherAddr => simp only [Model.DtlcpRx.read, herr]
  | short | badVersion | oversize | truncated =>
    simp only [Model.DtlcpRx.read, herr] at ho ⊢
    exact inval _ ho

theorem recLoop_filter (p : Params) (q : RxParams) (hq : drops q .read = true) :
    ∀ (ms : List MD) (st : State), st.err = none →
      (recLoop p q st ms).1 = (recLoop p q st (ms.filter fun m => m.d.authentic)).1 ∧
      (recLoop p q st ms).2.1 = (recLoop p q st (ms.filter fun m => m.d.authentic)).2.1
  | [], st, _ => ⟨rfl, rfl⟩
  | m :: ms, st, herr => by
    cases ha : m.d.authentic with
    | false =>
      have hrd := read_forged p q st m.d herr ha hq
      have heq : recLoop p q st (m :: ms) = recLoop p q st ms := by simp [recLoop, hrd, gotOf]
      have hf : (m :: ms).filter (fun m => m.d.authentic) = ms.filter (fun m => m.d.authentic) := by
        simp [List.filter, ha]
      rw [heq, hf]
      exact recLoop_filter p q hq ms st herr
    | true =>
      have hf : (m :: ms).filter (fun m => m.d.authentic) = m :: ms.filter (fun m => m.d.authentic) := by
        simp [List.filter, ha]
      rw [hf]
      rcases hrd : read p q st m.d with ⟨st1, o⟩
      cases hg : gotOf m.d o with
      | none =>
        have e1 : recLoop p q st (m :: ms) = recLoop p q st1 ms := by simp [recLoop, hrd, hg]
        have e2 : recLoop p q st (m :: ms.filter fun m => m.d.authentic) =
            recLoop p q st1 (ms.filter fun m => m.d.authentic) := by simp [recLoop, hrd, hg]
        rw [e1, e2]
        have ho : o = .timeout := gotOf_none _ _ hg
        have h1 : st1.err = none := by
          have := read_goes_on p q st m.d herr (by rw [hrd]; exact ho)
          rw [hrd] at this; exact this
        exact recLoop_filter p q hq ms st1 h1
      | some g =>
        have e1 : recLoop p q st (m :: ms) = (st1, g, ms) := by simp [recLoop, hrd, hg]
        have e2 : recLoop p q st (m :: ms.filter fun m => m.d.authentic) =
            (st1, g, ms.filter fun m => m.d.authentic) := by simp [recLoop, hrd, hg]
        rw [e1, e2]
        exact ⟨rfl, rfl⟩

theorem fromLoop_filter (p : Params) :
    ∀ (ms : List MD) (st : State) (raw raw' : Option MD),
      (fromLoop p st raw ms).1 = (fromLoop p st raw' (ms.filter fun m => m.d.authentic)).1 ∧
      (fromLoop p st raw ms).2.1 = (fromLoop p st raw' (ms.filter fun m => m.d.authentic)).2.1
  | [], st, _, _ => ⟨rfl, rfl⟩
  | m :: ms, st, raw, raw' => by
    cases ha : m.d.authentic with
    | false =>
      have hrd : readFrom p st m.d = (st, .timeout) := by
        cases hd : m.d with
        | record r =>
          rw [hd] at ha
          have har : r.auth = false := ha
          simp [readFrom, har]
        | otherAddr | short | badVersion | oversize | truncated => simp [readFrom]
      have heq : fromLoop p st raw (m :: ms) = fromLoop p st (staleOf raw m) ms := by
        simp [fromLoop, hrd, gotOf]
      have hf : (m :: ms).filter (fun m => m.d.authentic) = ms.filter (fun m => m.d.authentic) := by
        simp [List.filter, ha]
      rw [heq, hf]
      exact fromLoop_filter p ms st _ raw'
    | true =>
      have hf : (m :: ms).filter (fun m => m.d.authentic) = m :: ms.filter (fun m => m.d.authentic) := by
        simp [List.filter, ha]
      rw [hf]
      rcases hrd : readFrom p st m.d with ⟨st1, o⟩
      cases hg : gotOf m.d o with
      | none =>
        have e1 : fromLoop p st raw (m :: ms) = fromLoop p st1 (staleOf raw m) ms := by simp [fromLoop, hrd, hg]
        have e2 : fromLoop p st raw' (m :: ms.filter fun m => m.d.authentic) =
            fromLoop p st1 (staleOf raw' m) (ms.filter fun m => m.d.authentic) := by simp [fromLoop, hrd, hg]
        rw [e1, e2]
        exact fromLoop_filter p ms st1 _ _
      | some g =>
        have e1 : fromLoop p st raw (m :: ms) = (st1, g, staleOf raw m, ms) := by simp [fromLoop, hrd, hg]
        have e2 : fromLoop p st raw' (m :: ms.filter fun m => m.d.authentic) =
            (st1, g, staleOf raw' m, ms.filter fun m => m.d.authentic) := by simp [fromLoop, hrd, hg]
        rw [e1, e2]
        exact ⟨rfl, rfl⟩

end Gotlcp.Lemmas.DtlcpRxMix

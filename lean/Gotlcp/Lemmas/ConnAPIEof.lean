/-
Lemmas for the end-of-stream theorems of C12: one record of an honest peer through `rx`,
`pump` over the leading records of the transport queue, one `Read`.
-/
import Gotlcp.Lemmas.ConnAPI

set_option linter.unusedSimpArgs false
set_option linter.unusedVariables false

namespace Gotlcp.Lemmas.ConnAPIEof
open Gotlcp.Model.RecordRx
open Gotlcp.Model.ConnAPI
open Gotlcp.Lemmas.RecordRx
open Gotlcp.Lemmas.ConnAPI

theorem P_wf : WF P := ⟨by decide, by decide⟩

/-- `dispatch` reports end-of-stream only for a close_notify alert -/
theorem dispatch_eof (s : RxState) (typ : Nat) (data : Bytes)
    (h : (dispatch P Ctx.established s typ data).2 = .err .eof) :
    typ = P.tAlert ∧ ∃ l d, data = [l, d] ∧ d.toNat = P.aCloseNotify := by
  obtain ⟨e1, e2, e3, _, _⟩ := resetRetry_fields P s typ data
  generalize hr : dispatch P Ctx.established s typ data = r at h
  simp [dispatch, Ctx.established, failAlert, fail, failWith, retry] at hr
  generalize resetRetry P s typ data = s1 at *
  repeat' split at hr
  all_goals (subst hr; simp_all)
  all_goals (rename_i l d _ _; exact ⟨l, d, ⟨rfl, rfl⟩, by assumption⟩)

/-- … and for every close_notify alert -/
theorem dispatch_cn (s : RxState) (l d : UInt8) (hd : d.toNat = P.aCloseNotify) :
    (dispatch P Ctx.established s P.tAlert [l, d]).2 = .err .eof := by
  have h1 : ¬ (P.maxPlaintext < 2) := by decide
  have hA : (P.tAlert == P.tApp) = false := by decide
  simp [dispatch, Ctx.established, h1, hA, hd, fail]

theorem isCN_iff (w : Wire Bytes) :
    isCN w = true ↔ w.typ = P.tAlert ∧ ∃ l d, w.body = [l, d] ∧ d.toNat = P.aCloseNotify := by
  unfold isCN
  constructor
  · intro h
    simp only [Bool.and_eq_true, beq_iff_eq] at h
    refine ⟨h.1, ?_⟩
    have h2 := h.2
    split at h2
    · rename_i a d hb; exact ⟨a, d, hb, by simpa using h2⟩
    · cases h2
  · rintro ⟨h1, l, d, hb, hd⟩
    simp [h1, hb, hd]

/-- what one record of an honest peer does on an established connection -/
theorem rx_plain (s : RxState) (w : Wire Bytes) :
    (rx P plainDec Ctx.established s w).1.input = s.input ∧
    ((∃ e, (rx P plainDec Ctx.established s w).2 = .err e ∧ (rx P plainDec Ctx.established s w).1.err = some e ∧
        (e = .eof → isCN w = true)) ∨
     ((rx P plainDec Ctx.established s w).2 = .data w.body ∧ (rx P plainDec Ctx.established s w).1.err = s.err ∧
        isCN w = false ∧ contrib w = w.body ∧ w.body ≠ []) ∨
     (((rx P plainDec Ctx.established s w).2 = .cont ∨ (rx P plainDec Ctx.established s w).2 = .hand) ∧
        (rx P plainDec Ctx.established s w).1.err = s.err ∧ isCN w = false ∧ contrib w = [])) := by
  refine ⟨(rx_shape P plainDec Ctx.established s w).1, ?_⟩
  unfold rx
  cases hh : hdrCheck P Ctx.established w.typ w.vers (plainDec.len w.body) with
  | some r =>
    left
    obtain ⟨a, e⟩ := r
    have he : e = .header := by
      simp only [hdrCheck] at hh
      repeat' split at hh
      all_goals simp_all
    subst he
    cases a <;> simp [failHdr, fail, failWith]
  | none =>
    simp only [Ctx.established, if_true, plainDec]
    by_cases hf : w.typ ≥ forgedMark
    · left; simp [hf, failAlert]
    · simp only [hf, if_false]
      have hpost := dispatch_est P P_wf { s with seq := s.seq + 1 } w.typ w.body
      have heof := dispatch_eof { s with seq := s.seq + 1 } w.typ w.body
      -- a close_notify cannot come out as anything but end-of-stream
      have hcn : isCN w = true → (dispatch P Ctx.established { s with seq := s.seq + 1 } w.typ w.body).2 = .err .eof := by
        intro h
        obtain ⟨h1, l, d, hb, hd⟩ := (isCN_iff w).mp h
        rw [h1, hb]; exact dispatch_cn _ l d hd
      simp only [Ctx.established] at hpost heof hcn
      generalize dispatch P { hsComplete := true, expectCCS := false, haveVers := true, keyed := true }
        { s with seq := s.seq + 1 } w.typ w.body = r at hpost heof hcn
      have hncn : (∀ e, r.2 ≠ .err e) → isCN w = false := by
        intro h
        cases hc : isCN w with
        | false => rfl
        | true => exact absurd (hcn hc) (h _)
      rcases hpost with ⟨e, h1, h2, _⟩ | ⟨h1, _, _, h4⟩
      · left
        refine ⟨e, h1, h2, ?_⟩
        intro he; subst he
        exact (isCN_iff w).mpr (heof h1)
      · simp only at h1
        rcases h4 with ⟨ho, ht, hne⟩ | ⟨ho, hnot⟩
        · right; left
          refine ⟨ho, h1, hncn (by rw [ho]; intro e h; cases h), ?_, hne⟩
          simp [contrib, ht]
        · right; right
          refine ⟨ho, h1, hncn (by rcases ho with ho | ho <;> (rw [ho]; intro e h; cases h)), ?_⟩
          unfold contrib
          by_cases ht : w.typ = P.tApp
          · have : w.body = [] := by
              cases hb : w.body with
              | nil => rfl
              | cons _ _ => exact absurd ⟨ht, by simp [hb]⟩ hnot
            simp [ht, this]
          · simp [ht]

/-! ### the queue -/

/-- records as queue items -/
def recs (ws : List (Wire Bytes)) : List InItem := ws.map InItem.record

theorem appOf_rec_cons (w : Wire Bytes) (q : List InItem) :
    appOf (.record w :: q) = if isCN w then [] else contrib w ++ appOf q := rfl

theorem closedQ_cons (it : InItem) (q : List InItem) : closedQ (it :: q) = (terminal it || closedQ q) := by
  simp [closedQ]

theorem hdrCheck_header (p : Params) (c : Ctx) (typ vers n : Nat) (a : Option Nat) (e : RxErr)
    (h : hdrCheck p c typ vers n = some (a, e)) : e = .header := by
  simp only [hdrCheck] at h
  repeat' split at h
  all_goals simp_all

theorem atTail_eof (s : RxState) (t : Tail) (h : (atTail P Ctx.established s t).2 = .err .eof) :
    t.part = none ∧ t.closed = true := by
  unfold atTail at h
  split at h
  · rename_i hp
    split at h
    · rename_i hc; exact ⟨hp, hc⟩
    · cases h
  · split at h <;> cases h
  · split at h
    · rename_i r hr
      obtain ⟨a, e⟩ := r
      have := hdrCheck_header _ _ _ _ _ _ _ hr
      subst this
      simp at h
    · split at h <;> cases h

theorem pump_suffix {β : Type} (p : Params) (D : Dec β) (c : Ctx) (t : Tail) (stop : Bool) :
    ∀ (ws : List (Wire β)) (s : RxState), ∃ pre, ws = pre ++ (pump p D c t stop s ws).2.1 := by
  intro ws
  induction ws with
  | nil =>
    intro s
    refine ⟨[], ?_⟩
    cases he : s.err <;> simp [pump, he]
  | cons w ws ih =>
    intro s
    cases he : s.err with
    | some e => exact ⟨[], by simp [pump, he]⟩
    | none =>
      by_cases hi : s.input = []
      · generalize hr : rx p D c s w = r
        obtain ⟨s', o⟩ := r
        cases o with
        | err e => exact ⟨[w], by simp [pump, he, hi, hr]⟩
        | data d => exact ⟨[w], by simp [pump, he, hi, hr]⟩
        | cont =>
          obtain ⟨pre, hp⟩ := ih s'
          refine ⟨w :: pre, ?_⟩
          have : pump p D c t stop s (w :: ws) = pump p D c t stop s' ws := by simp [pump, he, hi, hr]
          rw [this]; simp only [List.cons_append]; rw [← hp]
        | hand =>
          cases stop with
          | true => exact ⟨[w], by simp [pump, he, hi, hr]⟩
          | false =>
            obtain ⟨pre, hp⟩ := ih s'
            refine ⟨w :: pre, ?_⟩
            have : pump p D c t false s (w :: ws) = pump p D c t false s' ws := by simp [pump, he, hi, hr]
            rw [this]; simp only [List.cons_append]; rw [← hp]
        | ccs =>
          cases stop with
          | true => exact ⟨[w], by simp [pump, he, hi, hr]⟩
          | false =>
            obtain ⟨pre, hp⟩ := ih s'
            refine ⟨w :: pre, ?_⟩
            have : pump p D c t false s (w :: ws) = pump p D c t false s' ws := by simp [pump, he, hi, hr]
            rw [this]; simp only [List.cons_append]; rw [← hp]
      · exact ⟨[], by simp [pump, he, hi]⟩

/-- `readRecord` calls over the records of an honest peer, from a clean state (`stop = false`: the
loop `for c.input.Len() == 0 { readRecord }`; `stop = true`: the single `readRecord` of the
look-ahead): how the bytes owed by the queue are accounted for in each outcome -/
theorem pump_plain (t : Tail) (stop : Bool) :
    ∀ (ws : List (Wire Bytes)) (s : RxState), s.err = none → s.input = [] →
      ((pump P plainDec Ctx.established t stop s ws).2.2 = .filled →
        (pump P plainDec Ctx.established t stop s ws).1.err = none ∧
        ∀ tl, appOf (recs ws ++ tl) =
                (pump P plainDec Ctx.established t stop s ws).1.input ++
                  appOf (recs (pump P plainDec Ctx.established t stop s ws).2.1 ++ tl) ∧
              closedQ (recs ws ++ tl) = closedQ (recs (pump P plainDec Ctx.established t stop s ws).2.1 ++ tl)) ∧
      ((pump P plainDec Ctx.established t stop s ws).2.2 = .blocked →
        (pump P plainDec Ctx.established t stop s ws).1.err = none ∧
        (pump P plainDec Ctx.established t stop s ws).1.input = [] ∧
        (pump P plainDec Ctx.established t stop s ws).2.1 = [] ∧
        ∀ tl, appOf (recs ws ++ tl) = appOf tl ∧ closedQ (recs ws ++ tl) = closedQ tl) ∧
      ((pump P plainDec Ctx.established t stop s ws).2.2 = .err .eof →
        ((∃ w ∈ ws, isCN w = true) ∧ ∀ tl, appOf (recs ws ++ tl) = []) ∨
        (t.part = none ∧ t.closed = true ∧ ∀ tl, appOf (recs ws ++ tl) = appOf tl)) ∧
      ((pump P plainDec Ctx.established t stop s ws).2.2 = .nil →
        stop = true ∧
        (pump P plainDec Ctx.established t stop s ws).1.err = none ∧
        (pump P plainDec Ctx.established t stop s ws).1.input = [] ∧
        ∀ tl, appOf (recs ws ++ tl) = appOf (recs (pump P plainDec Ctx.established t stop s ws).2.1 ++ tl) ∧
              closedQ (recs ws ++ tl) = closedQ (recs (pump P plainDec Ctx.established t stop s ws).2.1 ++ tl)) := by
  intro ws
  induction ws with
  | nil =>
    intro s he hi
    have hp' : pump P plainDec Ctx.established t stop s [] =
        ((atTail P Ctx.established s t).1, [], (atTail P Ctx.established s t).2) := by simp [pump, he]
    rw [hp']
    obtain ⟨h0, h1⟩ := atTail_shape P Ctx.established s t
    refine ⟨?_, ?_, ?_, ?_⟩
    · intro h
      rcases h1 with ⟨hb, _⟩ | ⟨e, h2, _⟩
      · simp only at h; rw [hb] at h; cases h
      · simp only at h; rw [h2] at h; cases h
    · intro _
      rcases h1 with ⟨hb, hs⟩ | ⟨e, h2, h3⟩
      · simp only; rw [hs]; exact ⟨he, hi, by simp, fun tl => by simp [recs]⟩
      · rename_i hbl; simp only at hbl; rw [h2] at hbl; cases hbl
    · intro h
      right
      obtain ⟨a, b⟩ := atTail_eof s t h
      exact ⟨a, b, fun tl => by simp [recs]⟩
    · intro h
      rcases h1 with ⟨hb, _⟩ | ⟨e, h2, _⟩
      · simp only at h; rw [hb] at h; cases h
      · simp only at h; rw [h2] at h; cases h
  | cons w ws ih =>
    intro s he hi
    obtain ⟨hin, hcase⟩ := rx_plain s w
    generalize hr : rx P plainDec Ctx.established s w = r at hin hcase
    obtain ⟨s', o⟩ := r
    simp only at hin hcase
    have hi' : s'.input = [] := by rw [hin, hi]
    rcases hcase with ⟨e, ho, hs', hcn⟩ | ⟨ho, hs', hncn, hcontrib, hne⟩ | ⟨ho, hs', hncn, hcontrib⟩
    · subst ho
      have : pump P plainDec Ctx.established t stop s (w :: ws) = (s', ws, .err e) := by simp [pump, he, hi, hr]
      rw [this]
      refine ⟨(by intro h; cases h), (by intro h; cases h), ?_, (by intro h; cases h)⟩
      intro h
      have : e = .eof := by simpa using h
      left
      refine ⟨⟨w, by simp, hcn this⟩, fun tl => ?_⟩
      simp [recs, appOf_rec_cons, hcn this]
    · subst ho
      have : pump P plainDec Ctx.established t stop s (w :: ws) = ({ s' with input := w.body }, ws, .filled) := by
        simp [pump, he, hi, hr]
      rw [this]
      refine ⟨?_, (by intro h; cases h), (by intro h; cases h), (by intro h; cases h)⟩
      intro _
      refine ⟨by simp only; rw [hs', he], fun tl => ?_⟩
      simp [recs, appOf_rec_cons, hncn, hcontrib, closedQ_cons, terminal]
    · have hs'' : s'.err = none := by rw [hs', he]
      have hpre : ∀ tl, appOf (recs (w :: ws) ++ tl) = appOf (recs ws ++ tl) ∧
          closedQ (recs (w :: ws) ++ tl) = closedQ (recs ws ++ tl) := by
        intro tl
        simp [recs, appOf_rec_cons, hncn, hcontrib, closedQ_cons, terminal]
      -- the record is skipped and the same call goes on with the next one, or (handshake bytes) the
      -- single `readRecord` of the look-ahead returns nil
      have hsplit : pump P plainDec Ctx.established t stop s (w :: ws) = pump P plainDec Ctx.established t stop s' ws ∨
          (stop = true ∧ pump P plainDec Ctx.established t stop s (w :: ws) = (s', ws, .nil)) := by
        rcases ho with ho | ho
        · subst ho; left; simp [pump, he, hi, hr]
        · subst ho
          cases stop with
          | false => left; simp [pump, he, hi, hr]
          | true => right; exact ⟨rfl, by simp [pump, he, hi, hr]⟩
      rcases hsplit with heq | ⟨hst, heq⟩
      · rw [heq]
        obtain ⟨a, b, c', d⟩ := ih s' hs'' hi'
        refine ⟨?_, ?_, ?_, ?_⟩
        · intro h
          obtain ⟨a1, a2⟩ := a h
          exact ⟨a1, fun tl => by rw [(hpre tl).1, (hpre tl).2]; exact a2 tl⟩
        · intro h
          obtain ⟨b1, b2, b3, b4⟩ := b h
          exact ⟨b1, b2, b3, fun tl => by rw [(hpre tl).1, (hpre tl).2]; exact b4 tl⟩
        · intro h
          rcases c' h with ⟨⟨w', hw', hcn'⟩, h2⟩ | ⟨h1, h2, h3⟩
          · left
            exact ⟨⟨w', List.mem_cons_of_mem _ hw', hcn'⟩, fun tl => by rw [(hpre tl).1]; exact h2 tl⟩
          · right
            exact ⟨h1, h2, fun tl => by rw [(hpre tl).1]; exact h3 tl⟩
        · intro h
          obtain ⟨d1, d2, d3, d4⟩ := d h
          exact ⟨d1, d2, d3, fun tl => by rw [(hpre tl).1, (hpre tl).2]; exact d4 tl⟩
      · rw [heq]
        exact ⟨(by intro h; cases h), (by intro h; cases h), (by intro h; cases h),
          fun _ => ⟨hst, hs'', hi', hpre⟩⟩

/-- one `Conn.Read` of the record layer (no look-ahead) over the records of an honest peer -/
theorem readCall_plain (t : Tail) (s : RxState) (ws : List (Wire Bytes)) (n : Nat) (hn : n ≠ 0)
    (hne : s.err ≠ some .eof) :
    (∃ pre, ws = pre ++ (readCall P plainDec Ctx.established t s ws n false).1.2) ∧
    ((∃ d, (readCall P plainDec Ctx.established t s ws n false).2 = .ok d ∧
        (readCall P plainDec Ctx.established t s ws n false).1.1.err = s.err ∧
        ∀ tl, s.input ++ appOf (recs ws ++ tl) =
                d ++ (readCall P plainDec Ctx.established t s ws n false).1.1.input ++
                  appOf (recs (readCall P plainDec Ctx.established t s ws n false).1.2 ++ tl) ∧
              closedQ (recs ws ++ tl) = closedQ (recs (readCall P plainDec Ctx.established t s ws n false).1.2 ++ tl)) ∨
     ((readCall P plainDec Ctx.established t s ws n false).2 = .blocked [] ∧ s.err = none ∧ s.input = [] ∧
        (readCall P plainDec Ctx.established t s ws n false).1.1.err = none ∧
        (readCall P plainDec Ctx.established t s ws n false).1.1.input = [] ∧
        (readCall P plainDec Ctx.established t s ws n false).1.2 = [] ∧
        ∀ tl, appOf (recs ws ++ tl) = appOf tl ∧ closedQ (recs ws ++ tl) = closedQ tl) ∨
     (∃ e, (readCall P plainDec Ctx.established t s ws n false).2 = .err e ∧
        (readCall P plainDec Ctx.established t s ws n false).1.1.err = some e ∧
        (e = .eof → s.err = none ∧ s.input = [] ∧
          (((∃ w ∈ ws, isCN w = true) ∧ ∀ tl, appOf (recs ws ++ tl) = []) ∨
           (t.part = none ∧ t.closed = true ∧ ∀ tl, appOf (recs ws ++ tl) = appOf tl))))) := by
  unfold readCall
  simp only [hn, if_false, Bool.and_false, Bool.false_and, Bool.false_eq_true]
  by_cases hi : s.input = []
  · simp only [hi, ne_eq, not_true_eq_false, if_false]
    obtain ⟨l1, l2, l3⟩ := pump_latch P plainDec Ctx.established t false ws s hi
    have hsuf := pump_suffix P plainDec Ctx.established t false ws s
    cases he : s.err with
    | some e =>
      rw [l3 e he]
      refine ⟨⟨[], rfl⟩, Or.inr (Or.inr ⟨e, rfl, he, ?_⟩)⟩
      intro h; subst h; exact absurd he hne
    | none =>
      obtain ⟨p1, p2, p3, p4⟩ := pump_plain t false ws s he hi
      generalize pump P plainDec Ctx.established t false s ws = r at l1 l2 l3 hsuf p1 p2 p3 p4
      obtain ⟨s1, ws1, st⟩ := r
      simp only at l1 l2 l3 hsuf p1 p2 p3 p4
      cases st with
      | nil => exact absurd (p4 rfl).1 (by simp)
      | filled =>
        obtain ⟨a1, a2⟩ := p1 rfl
        refine ⟨hsuf, Or.inl ⟨s1.input.take n, by simp, a1, fun tl => ?_⟩⟩
        obtain ⟨b1, b2⟩ := a2 tl
        simp only [List.nil_append]
        refine ⟨?_, b2⟩
        rw [b1, List.take_append_drop]
      | blocked =>
        obtain ⟨a1, a2, a3, a4⟩ := p2 rfl
        refine ⟨hsuf, Or.inr (Or.inl ⟨by simp, by simp, by simp, a1, a2, a3, a4⟩)⟩
      | err e =>
        obtain ⟨a1, _⟩ := l1 e rfl
        refine ⟨hsuf, Or.inr (Or.inr ⟨e, by simp, a1, ?_⟩)⟩
        intro h; subst h
        exact ⟨by simp, by simp, p3 rfl⟩
  · simp only [ne_eq, hi, not_false_eq_true, if_true]
    refine ⟨⟨[], by simp⟩, Or.inl ⟨s.input.take n, by simp, by simp, fun tl => ⟨?_, by simp⟩⟩⟩
    rw [List.take_append_drop]

/-- the close-notify look-ahead over the records of an honest peer: it hands back the bytes `out`
already taken, and whatever its single `readRecord` consumed is accounted for -/
theorem lookAhead_plain (t : Tail) (pk : Bool) (s : RxState) (ws : List (Wire Bytes)) (out : Bytes)
    (hne : s.err ≠ some .eof) :
    (∃ pre, ws = pre ++ (lookAhead t pk s ws out).1.2) ∧
    (((lookAhead t pk s ws out).2 = .ok out ∧ (lookAhead t pk s ws out).1.1.err = s.err ∧
        ∀ tl, s.input ++ appOf (recs ws ++ tl) =
                (lookAhead t pk s ws out).1.1.input ++ appOf (recs (lookAhead t pk s ws out).1.2 ++ tl) ∧
              closedQ (recs ws ++ tl) = closedQ (recs (lookAhead t pk s ws out).1.2 ++ tl)) ∨
     ((lookAhead t pk s ws out).2 = .blocked out ∧ s.err = none ∧
        (lookAhead t pk s ws out).1.1.err = none ∧ (lookAhead t pk s ws out).1.1.input = [] ∧
        (lookAhead t pk s ws out).1.2 = [] ∧
        ∀ tl, s.input ++ appOf (recs ws ++ tl) = appOf tl ∧ closedQ (recs ws ++ tl) = closedQ tl) ∨
     (∃ e, (lookAhead t pk s ws out).2 = .okErr out e ∧ (lookAhead t pk s ws out).1.1.err = some e ∧
        (e = .eof → s.err = none ∧
          (((∃ w ∈ ws, isCN w = true) ∧ ∀ tl, s.input ++ appOf (recs ws ++ tl) = []) ∨
           (t.part = none ∧ t.closed = true ∧ ∀ tl, s.input ++ appOf (recs ws ++ tl) = appOf tl))))) := by
  unfold lookAhead
  by_cases hc : (decide (out ≠ []) && s.input == [] && pk) = true
  · simp only [hc, if_true]
    have hi : s.input = [] := by
      simp only [Bool.and_eq_true, beq_iff_eq] at hc; exact hc.1.2
    obtain ⟨l1, l2, l3⟩ := pump_latch P plainDec Ctx.established t true ws s hi
    have hsuf := pump_suffix P plainDec Ctx.established t true ws s
    cases he : s.err with
    | some e =>
      rw [l3 e he]
      refine ⟨⟨[], rfl⟩, Or.inr (Or.inr ⟨e, rfl, he, ?_⟩)⟩
      intro h; subst h; exact absurd he hne
    | none =>
      obtain ⟨p1, p2, p3, p4⟩ := pump_plain t true ws s he hi
      generalize pump P plainDec Ctx.established t true s ws = r at l1 l2 l3 hsuf p1 p2 p3 p4
      obtain ⟨s1, ws1, st⟩ := r
      simp only at l1 l2 l3 hsuf p1 p2 p3 p4
      cases st with
      | nil =>
        obtain ⟨_, a1, a2, a3⟩ := p4 rfl
        refine ⟨hsuf, Or.inl ⟨rfl, a1, fun tl => ?_⟩⟩
        simp only [hi, a2, List.nil_append]; exact a3 tl
      | filled =>
        obtain ⟨a1, a2⟩ := p1 rfl
        refine ⟨hsuf, Or.inl ⟨rfl, a1, fun tl => ?_⟩⟩
        simp only [hi, List.nil_append]; exact a2 tl
      | blocked =>
        obtain ⟨a1, a2, a3, a4⟩ := p2 rfl
        refine ⟨hsuf, Or.inr (Or.inl ⟨rfl, rfl, a1, a2, a3, fun tl => ?_⟩)⟩
        simp only [hi, List.nil_append]; exact a4 tl
      | err e =>
        obtain ⟨a1, _⟩ := l1 e rfl
        refine ⟨hsuf, Or.inr (Or.inr ⟨e, rfl, a1, ?_⟩)⟩
        intro h; subst h
        refine ⟨rfl, ?_⟩
        simp only [hi, List.nil_append]; exact p3 rfl
  · simp only [hc, Bool.false_eq_true, if_false]
    refine ⟨⟨[], rfl⟩, Or.inl ?_⟩
    simp

/-- the record-layer part of one `Conn.Read` (fill, drain, look-ahead) over the records of an
honest peer, whatever `c.rawInput` holds and however the transport segments the stream -/
theorem readRec_plain (t : Tail) (seg : Seg) (raw : Nat) (tb : Bool) (s : RxState) (ws : List (Wire Bytes))
    (n : Nat) (hn : n ≠ 0) (hne : s.err ≠ some .eof) :
    (∃ pre, ws = pre ++ (readRec t seg raw tb s ws n).1.1.2) ∧
    ((∃ d, (readRec t seg raw tb s ws n).1.2 = .ok d ∧
        (readRec t seg raw tb s ws n).1.1.1.err = s.err ∧
        ∀ tl, s.input ++ appOf (recs ws ++ tl) =
                d ++ (readRec t seg raw tb s ws n).1.1.1.input ++
                  appOf (recs (readRec t seg raw tb s ws n).1.1.2 ++ tl) ∧
              closedQ (recs ws ++ tl) = closedQ (recs (readRec t seg raw tb s ws n).1.1.2 ++ tl)) ∨
     (∃ d, (readRec t seg raw tb s ws n).1.2 = .blocked d ∧ s.err = none ∧
        (readRec t seg raw tb s ws n).1.1.1.err = none ∧
        (readRec t seg raw tb s ws n).1.1.1.input = [] ∧
        (readRec t seg raw tb s ws n).1.1.2 = [] ∧
        ∀ tl, s.input ++ appOf (recs ws ++ tl) = d ++ appOf tl ∧ closedQ (recs ws ++ tl) = closedQ tl) ∨
     (∃ d e, (((readRec t seg raw tb s ws n).1.2 = .err e ∧ d = []) ∨
              (readRec t seg raw tb s ws n).1.2 = .okErr d e) ∧
        (readRec t seg raw tb s ws n).1.1.1.err = some e ∧
        (e = .eof → s.err = none ∧
          (((∃ w ∈ ws, isCN w = true) ∧ ∀ tl, s.input ++ appOf (recs ws ++ tl) = d) ∨
           (t.part = none ∧ t.closed = true ∧ ∀ tl, s.input ++ appOf (recs ws ++ tl) = d ++ appOf tl))))) := by
  obtain ⟨⟨pre, hpre⟩, hcases⟩ := readCall_plain t s ws n hn hne
  unfold readRec
  generalize readCall P plainDec Ctx.established t s ws n false = r1 at hpre hcases
  obtain ⟨⟨s1, ws1⟩, res1⟩ := r1
  simp only at hpre hcases ⊢
  rcases hcases with ⟨d, hr, herr, hacc⟩ | ⟨hr, hse, hsi, herr, hinp, hws', hacc⟩ | ⟨e, hr, herr, heof⟩
  · subst hr
    simp only
    generalize (decide (rawAfter seg raw (ws.length - ws1.length) ws1.length tb > 0) &&
      nextWire ws1 t == some P.tAlert) = pk
    have hne1 : s1.err ≠ some .eof := by rw [herr]; exact hne
    obtain ⟨⟨pre2, hpre2⟩, hla⟩ := lookAhead_plain t pk s1 ws1 d hne1
    generalize lookAhead t pk s1 ws1 d = la at hpre2 hla
    obtain ⟨⟨s3, ws3⟩, res3⟩ := la
    simp only at hpre2 hla ⊢
    refine ⟨⟨pre ++ pre2, by rw [hpre, hpre2, List.append_assoc]⟩, ?_⟩
    rcases hla with ⟨h1, h2, h3⟩ | ⟨h1, h2, h3, h4, h5, h6⟩ | ⟨e, h1, h2, h3⟩
    · left
      refine ⟨d, h1, by rw [h2, herr], fun tl => ?_⟩
      obtain ⟨a1, a2⟩ := hacc tl
      obtain ⟨b1, b2⟩ := h3 tl
      refine ⟨?_, by rw [a2, b2]⟩
      rw [a1, List.append_assoc, b1, List.append_assoc]
    · right; left
      refine ⟨d, h1, by rw [← herr]; exact h2, h3, h4, h5, fun tl => ?_⟩
      obtain ⟨a1, a2⟩ := hacc tl
      obtain ⟨b1, b2⟩ := h6 tl
      exact ⟨by rw [a1, List.append_assoc, b1], by rw [a2, b2]⟩
    · right; right
      refine ⟨d, e, Or.inr h1, h2, fun he => ?_⟩
      obtain ⟨g1, g2⟩ := h3 he
      refine ⟨by rw [← herr]; exact g1, ?_⟩
      rcases g2 with ⟨⟨w, hw, hcn⟩, g⟩ | ⟨t1, t2, g⟩
      · left
        refine ⟨⟨w, by rw [hpre]; exact List.mem_append_right _ hw, hcn⟩, fun tl => ?_⟩
        rw [(hacc tl).1, List.append_assoc, g tl, List.append_nil]
      · right
        refine ⟨t1, t2, fun tl => ?_⟩
        rw [(hacc tl).1, List.append_assoc, g tl]
  · subst hr
    simp only
    refine ⟨⟨pre, hpre⟩, Or.inr (Or.inl ⟨[], rfl, hse, herr, hinp, hws', fun tl => ?_⟩)⟩
    rw [hsi]; simpa using hacc tl
  · subst hr
    simp only
    refine ⟨⟨pre, hpre⟩, Or.inr (Or.inr ⟨[], e, Or.inl ⟨rfl, rfl⟩, herr, fun he => ?_⟩)⟩
    obtain ⟨g1, g2, g3⟩ := heof he
    refine ⟨g1, ?_⟩
    rcases g3 with ⟨hw, g⟩ | ⟨t1, t2, g⟩
    · left; exact ⟨hw, fun tl => by rw [g2, g tl]; rfl⟩
    · right; exact ⟨t1, t2, fun tl => by rw [g2]; simpa using g tl⟩

/-! ### the queue of the connection -/

theorem splitQueue_requeue : ∀ (q : List InItem),
    requeue (splitQueue q).1 (splitQueue q).2.1 (splitQueue q).2.2 = q := by
  intro q
  induction q with
  | nil => simp [splitQueue, requeue]
  | cons it q ih =>
    cases it with
    | record w =>
      simp only [splitQueue]
      simp only [requeue, List.map_cons, List.cons_append] at ih ⊢
      rw [ih]
    | tempErr => simp [splitQueue, requeue]
    | permErr => simp [splitQueue, requeue]
    | eof p => simp [splitQueue, requeue]

theorem requeue_eq (ws : List (Wire Bytes)) (it : Option InItem) (rest : List InItem) :
    requeue ws it rest = recs ws ++ (it.toList ++ rest) := by
  cases it <;> simp [requeue, recs]

theorem tailOf_closed (it : Option InItem) (h1 : (tailOf it).part = none) (h2 : (tailOf it).closed = true) :
    it = some (.eof none) := by
  cases it with
  | none => simp [tailOf] at h2
  | some i =>
    cases i with
    | eof p => simp only [tailOf] at h1; subst h1; rfl
    | record w => simp [tailOf] at h2
    | tempErr => simp [tailOf] at h2
    | permErr => simp [tailOf] at h2

theorem ofRx_eof (e : RxErr) : ofRx e = .eof ↔ e = .eof := by
  cases e <;> simp [ofRx]

theorem isEOF_err (e : ApiErr) : (Res.err e).isEOF = false ↔ e ≠ .eof := by
  cases e <;> simp [Res.isEOF]

/-- nothing is latched on the read side -/
def Live (c : Conn) : Prop := c.rx.err = none ∧ c.inErrX = none

theorem handshake_eofframe (c : Conn) (cb : Bool) :
    (handshake c cb).1.rx = c.rx ∧ (handshake c cb).1.inErrX = c.inErrX ∧ (handshake c cb).1.queue = c.queue ∧
    (c.hsErr ≠ some .eof → (handshake c cb).1.hsErr ≠ some .eof ∧ (handshake c cb).2 ≠ some .eof) := by
  unfold handshake
  cases hd : c.hsDone <;> cases he : c.hsErr <;> cases cb <;> cases hl : c.localClosed <;>
    cases hs : c.hsScript <;> simp [hd, he, hl, hs]

theorem mem_requeue_suffix (pre ws' : List (Wire Bytes)) (it : Option InItem) (rest : List InItem) (x : InItem)
    (h : x ∈ requeue ws' it rest) : x ∈ requeue (pre ++ ws') it rest := by
  rw [requeue_eq] at h ⊢
  simp only [recs, List.map_append, List.mem_append] at h ⊢
  rcases h with h | h
  · exact Or.inl (Or.inr h)
  · exact Or.inr h

theorem isEOF_okErr (d : Bytes) (e : ApiErr) : (Res.okErr d e).isEOF = false ↔ e ≠ .eof := by
  cases e <;> simp [Res.isEOF]

/-- the result of a call that did not get to the end: nothing, or the bytes already taken -/
theorem blk_bytes (d : Bytes) (r0 : Res) (e : ApiErr) (h : r0.bytes = []) :
    (if d = [] then r0 else Res.okErr d e).bytes = d := by
  split
  · rename_i hd; rw [h, hd]
  · rfl

theorem blk_isEOF (d : Bytes) (r0 : Res) (e : ApiErr) (h0 : r0.isEOF = false) (he : e ≠ .eof) :
    (if d = [] then r0 else Res.okErr d e).isEOF = false := by
  split
  · exact h0
  · exact (isEOF_okErr d e).mpr he

/-- One `Read`, from a state in which no end-of-stream is latched: either it does not report
end-of-stream, none gets latched, nothing appears in the queue, and (if the read side is still
clean) every owed byte is accounted for; or it reports end-of-stream — alone, or together with the
last bytes when the close-notify look-ahead found the peer's close_notify already buffered — and
then the bytes it hands over are exactly what was pending plus everything the queue still owed,
and a legitimate reason is present in the queue. -/
theorem read_eofcases (c : Conn) (n : Nat) (h0 : NoEof c) :
    ((read c n).2.isEOF = false ∧ NoEof (read c n).1 ∧ (∀ x ∈ (read c n).1.queue, x ∈ c.queue) ∧
      (Live (read c n).1 → Live c ∧
        (read c n).2.bytes ++ (read c n).1.rx.input ++ appOf (read c n).1.queue = c.rx.input ++ appOf c.queue ∧
        closedQ (read c n).1.queue = closedQ c.queue)) ∨
    ((read c n).2.isEOF = true ∧ Live c ∧ (read c n).2.bytes = c.rx.input ++ appOf c.queue ∧ CauseIn c.queue) := by
  obtain ⟨n1, n2, n3⟩ := h0
  obtain ⟨f1, f2, f3, f4⟩ := handshake_eofframe c false
  obtain ⟨f4a, f4b⟩ := f4 n3
  unfold Model.ConnAPI.read
  by_cases hrc : (c.rcc && c.closedBit) = true
  · simp only [hrc, if_true]
    left
    exact ⟨by simp [Res.isEOF], ⟨n1, n2, n3⟩, fun x h => h, fun h => ⟨h, by simp [Res.bytes], by simp⟩⟩
  simp only [hrc, Bool.false_eq_true, if_false]
  generalize hh : handshake c false = hr at f1 f2 f3 f4a f4b
  obtain ⟨c1, e1⟩ := hr
  simp only at f1 f2 f3 f4a f4b
  have hno1 : NoEof c1 := ⟨by rw [f1]; exact n1, by rw [f2]; exact n2, f4a⟩
  have hlive1 : Live c1 → Live c := by intro h; exact ⟨by rw [← f1]; exact h.1, by rw [← f2]; exact h.2⟩
  cases e1 with
  | some e =>
    simp only
    left
    refine ⟨(isEOF_err e).mpr (fun h => f4b (by rw [h])), hno1, fun x h => by rw [← f3]; exact h, fun h => ?_⟩
    exact ⟨hlive1 h, by simp [Res.bytes, f1, f3], by rw [f3]⟩
  | none =>
    simp only
    by_cases hn : n = 0
    · simp only [hn, if_true]
      left
      refine ⟨rfl, hno1, fun x h => by rw [← f3]; exact h, fun h => ?_⟩
      exact ⟨hlive1 h, by simp [Res.bytes, f1, f3], by rw [f3]⟩
    simp only [hn, if_false]
    cases hx : c1.inErrX with
    | some ex =>
      simp only
      have hexne : ex ≠ .eof := by
        intro h; subst h; exact hno1.2.1 hx
      by_cases hi : c1.rx.input = []
      · simp only [hi, if_true]
        left
        refine ⟨(isEOF_err ex).mpr hexne, hno1, fun x h => by rw [← f3]; exact h, fun h => ?_⟩
        exact absurd h.2 (by simp [hx])
      · simp only [hi, if_false]
        left
        refine ⟨rfl, ⟨hno1.1, by simp [hx]; exact hexne, hno1.2.2⟩, fun x h => by rw [← f3]; exact h, fun h => ?_⟩
        exact absurd h.2 (by simp [hx])
    | none =>
      simp only
      by_cases hlc : c1.rx.err = none ∧ c1.rx.input = [] ∧ c1.localClosed = true
      · simp only [hlc, and_self, if_true]
        left
        refine ⟨rfl, ⟨hno1.1, by simp, hno1.2.2⟩, fun x h => by rw [← f3]; exact h, fun h => ?_⟩
        exact absurd h.2 (by simp)
      · simp only [hlc, if_false]
        have hq := splitQueue_requeue c1.queue
        generalize splitQueue c1.queue = sq at hq
        obtain ⟨ws, it, rest⟩ := sq
        simp only at hq ⊢
        have htc := tailOf_closed it
        generalize tailOf it = tl at htc
        generalize tailBytes it = tb
        obtain ⟨⟨pre, hpre⟩, hcases⟩ := readRec_plain tl c1.seg c1.raw tb c1.rx ws n hn hno1.1
        generalize hrcall : readRec tl c1.seg c1.raw tb c1.rx ws n = rc at hpre hcases
        obtain ⟨⟨⟨rx', ws'⟩, r⟩, raw'⟩ := rc
        simp only at hpre hcases ⊢
        have hqc : c.queue = recs ws ++ (it.toList ++ rest) := by rw [← f3, ← hq, requeue_eq]
        have hmem : ∀ x ∈ requeue ws' it rest, x ∈ c.queue := by
          intro x hx'
          rw [← f3, ← hq, hpre]
          exact mem_requeue_suffix pre ws' it rest x hx'
        rcases hcases with ⟨d, hr, herr, hacc⟩ | ⟨d, hr, hse, herr, hinp, hws', hacc⟩ | ⟨d, e, hr, herr, heof⟩
        · -- bytes handed out
          subst hr
          left
          refine ⟨rfl, ⟨by simp only; rw [herr]; exact hno1.1, by simp [hx], hno1.2.2⟩, hmem, fun h => ?_⟩
          obtain ⟨a1, a2⟩ := hacc (it.toList ++ rest)
          refine ⟨hlive1 ⟨by rw [← herr]; exact h.1, hx⟩, ?_, ?_⟩
          · simp only [Res.bytes, requeue_eq]
            rw [← f1, hqc, a1]
          · simp only [requeue_eq]; rw [hqc, a2]
        · -- the transport has nothing more right now (possibly after bytes were taken out of `c.input`)
          subst hr
          obtain ⟨b1, b2⟩ := hacc (it.toList ++ rest)
          have hacct : ∀ (r0 : Res) (e0 : ApiErr), r0.bytes = [] →
              (if d = [] then r0 else Res.okErr d e0).bytes ++ rx'.input ++ appOf (requeue ws' it rest) =
                c.rx.input ++ appOf c.queue := by
            intro r0 e0 h0
            rw [blk_bytes d r0 e0 h0]
            simp only [requeue_eq, hinp, hws']
            rw [← f1, hqc, b1]; simp [recs]
          have hclq : closedQ (requeue ws' it rest) = closedQ c.queue := by
            simp only [requeue_eq, hws']; rw [hqc, b2]; simp [recs]
          cases it with
          | none =>
            left
            refine ⟨blk_isEOF d _ _ rfl (by simp), ⟨by simp [herr], by simp [hx], hno1.2.2⟩, hmem, fun h => ?_⟩
            exact ⟨hlive1 ⟨hse, hx⟩, hacct _ _ rfl, hclq⟩
          | some i =>
            cases i with
            | tempErr =>
              left
              refine ⟨blk_isEOF d _ _ rfl (by simp), ⟨by simp [herr], by simp [hx], hno1.2.2⟩, ?_, fun h => ?_⟩
              · intro x hx'
                apply hmem
                simp only [requeue_eq, List.mem_append, Option.toList] at hx' ⊢
                rcases hx' with h | h | h
                · exact Or.inl h
                · simp at h
                · exact Or.inr (Or.inr h)
              · refine ⟨hlive1 ⟨hse, hx⟩, ?_, ?_⟩
                · rw [blk_bytes d _ _ rfl]
                  simp only [requeue_eq, hinp, hws']
                  rw [← f1, hqc, b1]; simp [recs, appOf]
                · simp only [requeue_eq, hws']; rw [hqc, b2]; simp [recs, closedQ, terminal]
            | permErr =>
              left
              refine ⟨blk_isEOF d _ _ rfl (by simp), ⟨by simp [herr], by simp, hno1.2.2⟩, hmem, fun h => ?_⟩
              exact absurd h.2 (by simp)
            | record w =>
              left
              refine ⟨blk_isEOF d _ _ rfl (by simp), ⟨by simp [herr], by simp [hx], hno1.2.2⟩, hmem, fun h => ?_⟩
              exact ⟨hlive1 ⟨hse, hx⟩, hacct _ _ rfl, hclq⟩
            | eof pt =>
              left
              refine ⟨blk_isEOF d _ _ rfl (by simp), ⟨by simp [herr], by simp [hx], hno1.2.2⟩, hmem, fun h => ?_⟩
              exact ⟨hlive1 ⟨hse, hx⟩, hacct _ _ rfl, hclq⟩
        · -- an error, alone or with the last bytes
          by_cases he : e = .eof
          · subst he
            right
            obtain ⟨g1, g3⟩ := heof rfl
            have hb : c1.rx.input ++ appOf (recs ws ++ (it.toList ++ rest)) = d := by
              rcases g3 with ⟨_, h2⟩ | ⟨t1, t2, h3⟩
              · exact h2 _
              · have := htc t1 t2; subst this
                rw [h3]; simp [appOf]
            have hcause : CauseIn c.queue := by
              rw [hqc]
              rcases g3 with ⟨⟨w, hw, hcn⟩, _⟩ | ⟨t1, t2, _⟩
              · left; exact ⟨w, by simp [recs, hw], hcn⟩
              · right; have := htc t1 t2; subst this; simp
            rcases hr with ⟨hr, hd⟩ | hr
            · subst hr; subst hd
              refine ⟨by simp [Res.isEOF, ofRx], hlive1 ⟨g1, hx⟩, ?_, hcause⟩
              simp only [Res.bytes]; rw [← f1, hqc, hb]
            · subst hr
              refine ⟨by simp [Res.isEOF, ofRx], hlive1 ⟨g1, hx⟩, ?_, hcause⟩
              simp only [Res.bytes]; rw [← f1, hqc, hb]
          · left
            rcases hr with ⟨hr, hd⟩ | hr
            · subst hr
              refine ⟨(isEOF_err _).mpr (fun h => he ((ofRx_eof e).mp h)),
                ⟨by simp only; rw [herr]; simpa using he, by simp [hx], hno1.2.2⟩, hmem, fun h => ?_⟩
              have := h.1
              simp only at this
              rw [herr] at this; cases this
            · subst hr
              refine ⟨(isEOF_okErr _ _).mpr (fun h => he ((ofRx_eof e).mp h)),
                ⟨by simp only; rw [herr]; simpa using he, by simp [hx], hno1.2.2⟩, hmem, fun h => ?_⟩
              have := h.1
              simp only at this
              rw [herr] at this; cases this

/-! ### the other calls and the transport events -/

theorem appOf_append (q r : List InItem) :
    appOf (q ++ r) = if closedQ q then appOf q else appOf q ++ appOf r := by
  induction q with
  | nil => simp [appOf, closedQ]
  | cons it q ih =>
    cases it with
    | record w =>
      simp only [List.cons_append, appOf_rec_cons, closedQ_cons, terminal]
      cases hc : isCN w
      · simp only [Bool.false_eq_true, if_false, Bool.false_or]; rw [ih]; split <;> simp
      · simp
    | eof p => simp [appOf, closedQ_cons, terminal]
    | tempErr => simp only [List.cons_append, appOf, closedQ_cons, terminal, Bool.false_or]; exact ih
    | permErr => simp only [List.cons_append, appOf, closedQ_cons, terminal, Bool.false_or]; exact ih

theorem closedQ_append (q r : List InItem) : closedQ (q ++ r) = (closedQ q || closedQ r) := by
  simp [closedQ, List.any_append]

/-- an arriving item: the owed bytes and the closedness of the queue change as if it had been
appended (a pending timeout only changes places with it) -/
theorem arrive_queue (c : Conn) (it : InItem) :
    (step c (.arrive it)).1.rx = c.rx ∧ (step c (.arrive it)).1.inErrX = c.inErrX ∧
    (step c (.arrive it)).1.hsErr = c.hsErr ∧
    appOf (step c (.arrive it)).1.queue = appOf (c.queue ++ [it]) ∧
    closedQ (step c (.arrive it)).1.queue = closedQ (c.queue ++ [it]) ∧
    (∀ x ∈ (step c (.arrive it)).1.queue, x ∈ c.queue ∨ x = it) := by
  simp only [step]
  split
  · rename_i w hl
    -- the queue ends in a pending timeout
    have hq : c.queue = c.queue.dropLast ++ [.tempErr] := by
      have hne : c.queue ≠ [] := by intro h; rw [h] at hl; simp at hl
      have h1 := List.dropLast_concat_getLast hne
      have h2 : c.queue.getLast hne = .tempErr := by
        have := List.getLast?_eq_some_getLast hne
        rw [this] at hl; exact Option.some.inj hl
      rw [h2] at h1; exact h1.symm
    refine ⟨rfl, rfl, rfl, ?_, ?_, ?_⟩
    · simp only
      conv => rhs; rw [hq]
      rw [List.append_assoc, appOf_append, appOf_append (c.queue.dropLast)]
      simp [appOf]
    · simp only
      conv => rhs; rw [hq]
      simp [closedQ_append, closedQ, terminal, Bool.or_comm]
    · intro x hx
      simp only [List.mem_append, List.mem_cons, List.mem_nil_iff, or_false] at hx
      rcases hx with h | h | h
      · exact Or.inl (List.dropLast_subset _ h)
      · exact Or.inr h
      · left; rw [hq]; simp [h]
  · refine ⟨rfl, rfl, rfl, rfl, rfl, ?_⟩
    intro x hx
    simp only [List.mem_append, List.mem_cons, List.mem_nil_iff, or_false] at hx
    exact hx

theorem closeNotify_q (c : Conn) :
    (closeNotify c).1.rx = c.rx ∧ (closeNotify c).1.inErrX = c.inErrX ∧ (closeNotify c).1.queue = c.queue ∧
    (closeNotify c).1.hsErr = c.hsErr := by
  unfold closeNotify; split <;> simp

theorem closeSend_q (c : Conn) :
    (closeSend c).1.rx = c.rx ∧ (closeSend c).1.inErrX = c.inErrX ∧ (closeSend c).1.queue = c.queue ∧
    (closeSend c).1.hsErr = c.hsErr := by
  unfold closeSend
  split
  · exact closeNotify_q c
  · simp

/-- calls other than `Read` and events other than arrivals leave the read side and the queue alone -/
theorem step_other (c : Conn) (k : Call) (h1 : ∀ n, k ≠ .read n) (h2 : ∀ it, k ≠ .arrive it) :
    (step c k).1.rx = c.rx ∧ (step c k).1.inErrX = c.inErrX ∧ (step c k).1.queue = c.queue ∧
    (c.hsErr ≠ some .eof → (step c k).1.hsErr ≠ some .eof) := by
  cases k with
  | read n => exact absurd rfl (h1 n)
  | arrive it => exact absurd rfl (h2 it)
  | setWFail w => simp [step]
  | handshake cb =>
    obtain ⟨a, b, c', d⟩ := handshake_eofframe c cb
    simp only [step]
    generalize handshake c cb = r at a b c' d
    obtain ⟨c1, e1⟩ := r
    cases e1 <;> exact ⟨a, b, c', fun h => (d h).1⟩
  | close =>
    have hcs := closeSend_q { c with closedBit := true }
    simp only [step, Model.ConnAPI.close]
    by_cases hcb : c.closedBit = true
    · simp [hcb]
    · simp only [hcb, Bool.false_eq_true, if_false]
      by_cases hfl : c.inflight.isSome = true
      · simp [hfl]
      simp only [hfl, Bool.false_eq_true, if_false]
      generalize closeSend { c with closedBit := true } = r at hcs
      obtain ⟨c2, e2⟩ := r
      simp only at hcs ⊢
      exact ⟨hcs.1, hcs.2.1, hcs.2.2.1, fun h => by rw [hcs.2.2.2]; exact h⟩
  | closeWrite =>
    have hcn := closeNotify_q c
    simp only [step, Model.ConnAPI.closeWrite]
    by_cases hd : c.hsDone = true
    · simp only [hd, Bool.not_true, Bool.false_eq_true, if_false]
      by_cases hfl : (c.inflight.isSome && !c.cnSent) = true
      · simp only [hfl, if_true]; simp
      simp only [hfl, Bool.false_eq_true, if_false]
      generalize closeNotify c = r at hcn
      obtain ⟨c2, e2⟩ := r
      cases e2 <;> exact ⟨hcn.1, hcn.2.1, hcn.2.2.1, fun h => by rw [hcn.2.2.2]; exact h⟩
    · simp [hd]
  | writeStart d =>
    obtain ⟨a, b, c', d'⟩ := handshake_eofframe c false
    simp only [step, Model.ConnAPI.writeStart]
    generalize handshake c false = r at a b c' d'
    obtain ⟨c1, e1⟩ := r
    simp only at a b c' d'
    repeat' split
    all_goals first
      | exact ⟨rfl, rfl, rfl, fun h => h⟩
      | (simp_all; try (intro h; exact (d' h).1))
  | writeEnd =>
    simp only [step, Model.ConnAPI.writeEnd]
    repeat' split
    all_goals exact ⟨rfl, rfl, rfl, fun h => h⟩
  | write d =>
    obtain ⟨a, b, c', d'⟩ := handshake_eofframe c false
    simp only [step, Model.ConnAPI.write]
    generalize handshake c false = r at a b c' d'
    obtain ⟨c1, e1⟩ := r
    simp only at a b c' d'
    repeat' split
    all_goals first
      | exact ⟨rfl, rfl, rfl, fun h => h⟩
      | (simp_all; try (intro h; exact (d' h).1))

/-! ### the guard "attempted to read record with pending application data" never fires -/

theorem rx_ne_pending {β : Type} (p : Params) (D : Dec β) (c : Ctx) (s : RxState) (w : Wire β) :
    (rx p D c s w).2 ≠ .err .internalPending := by
  unfold rx
  split
  · rename_i r hr
    obtain ⟨a, e⟩ := r
    have := hdrCheck_header _ _ _ _ _ _ _ hr
    subst this
    cases a <;> simp [failHdr, fail, failWith]
  · split
    · simp [failAlert]
    · rename_i data _
      generalize hr : dispatch p c { s with seq := s.seq + 1 } w.typ data = r
      simp [dispatch, failAlert, fail, failWith, retry] at hr
      repeat' split at hr
      all_goals (subst hr; simp)

theorem atTail_ne_pending (p : Params) (c : Ctx) (s : RxState) (t : Tail) :
    (atTail p c s t).2 ≠ .err .internalPending := by
  unfold atTail
  split
  · split <;> simp
  · split <;> simp
  · split
    · rename_i r hr
      obtain ⟨a, e⟩ := r
      have := hdrCheck_header _ _ _ _ _ _ _ hr
      subst this
      simp
    · split <;> simp

/-- `readRecord` entered with `c.input` drained never reports the pending-data guard -/
theorem pump_ne_pending {β : Type} (p : Params) (D : Dec β) (c : Ctx) (t : Tail) (stop : Bool) :
    ∀ (ws : List (Wire β)) (s : RxState), s.input = [] → s.err ≠ some .internalPending →
      (pump p D c t stop s ws).2.2 ≠ .err .internalPending := by
  intro ws
  induction ws with
  | nil =>
    intro s hi hne
    cases he : s.err with
    | some e =>
      have : pump p D c t stop s [] = (s, [], .err e) := by simp [pump, he]
      rw [this]; intro h; cases h; exact hne he
    | none =>
      have hp' : pump p D c t stop s [] = ((atTail p c s t).1, [], (atTail p c s t).2) := by simp [pump, he]
      rw [hp']; exact atTail_ne_pending p c s t
  | cons w ws ih =>
    intro s hi hne
    cases he : s.err with
    | some e =>
      have : pump p D c t stop s (w :: ws) = (s, w :: ws, .err e) := by simp [pump, he]
      rw [this]; intro h; cases h; exact hne he
    | none =>
      obtain ⟨hin, hsh⟩ := rx_shape p D c s w
      have hnp := rx_ne_pending p D c s w
      generalize hr : rx p D c s w = r at hin hsh hnp
      obtain ⟨s', o⟩ := r
      simp only at hin hsh hnp
      have hi' : s'.input = [] := by rw [hin, hi]
      have hne' : (∀ e, o ≠ .err e) → s'.err ≠ some .internalPending := by
        intro h
        rcases hsh with ⟨e, ho, _⟩ | ⟨_, hs'⟩
        · exact absurd ho (h e)
        · rw [hs', he]; simp
      cases o with
      | err e =>
        have : pump p D c t stop s (w :: ws) = (s', ws, .err e) := by simp [pump, he, hi, hr]
        rw [this]; intro h; cases h; exact hnp rfl
      | data d =>
        have : pump p D c t stop s (w :: ws) = ({ s' with input := d }, ws, .filled) := by simp [pump, he, hi, hr]
        rw [this]; simp
      | cont =>
        have : pump p D c t stop s (w :: ws) = pump p D c t stop s' ws := by simp [pump, he, hi, hr]
        rw [this]; exact ih s' hi' (hne' (by simp))
      | hand =>
        cases stop with
        | true =>
          have : pump p D c t true s (w :: ws) = (s', ws, .nil) := by simp [pump, he, hi, hr]
          rw [this]; simp
        | false =>
          have : pump p D c t false s (w :: ws) = pump p D c t false s' ws := by simp [pump, he, hi, hr]
          rw [this]; exact ih s' hi' (hne' (by simp))
      | ccs =>
        cases stop with
        | true =>
          have : pump p D c t true s (w :: ws) = (s', ws, .nil) := by simp [pump, he, hi, hr]
          rw [this]; simp
        | false =>
          have : pump p D c t false s (w :: ws) = pump p D c t false s' ws := by simp [pump, he, hi, hr]
          rw [this]; exact ih s' hi' (hne' (by simp))

/-- … so it never latches it either -/
theorem pump_err_ne_pending {β : Type} (p : Params) (D : Dec β) (c : Ctx) (t : Tail) (stop : Bool)
    (ws : List (Wire β)) (s : RxState) (hi : s.input = []) (hne : s.err ≠ some .internalPending) :
    (pump p D c t stop s ws).1.err ≠ some .internalPending := by
  obtain ⟨h1, h2, h3⟩ := pump_latch p D c t stop ws s hi
  have hr := pump_ne_pending p D c t stop ws s hi hne
  intro hlat
  cases hres : (pump p D c t stop s ws).2.2 with
  | err e =>
    have := (h1 e hres).1
    rw [this] at hlat
    cases hlat
    exact hr hres
  | filled => have := (h2 (by rw [hres]; simp)).2; rw [this] at hlat; cases hlat
  | nil => have := (h2 (by rw [hres]; simp)).2; rw [this] at hlat; cases hlat
  | blocked => have := (h2 (by rw [hres]; simp)).2; rw [this] at hlat; cases hlat

/-- the latch after the fill-and-drain part of `Read`: untouched when `c.input` still had bytes
(no `readRecord` runs), otherwise what the loop left -/
theorem readCall_err {β : Type} (p : Params) (D : Dec β) (c : Ctx) (t : Tail)
    (s : RxState) (ws : List (Wire β)) (n : Nat) :
    (readCall p D c t s ws n false).1.1.err =
      (if n = 0 ∨ s.input ≠ [] then s.err else (pump p D c t false s ws).1.err) := by
  unfold readCall
  by_cases hn : n = 0
  · simp [hn]
  simp only [hn, if_false, Bool.and_false, Bool.false_and, Bool.false_eq_true, false_or]
  by_cases hi : s.input = []
  · simp only [hi, ne_eq, not_true_eq_false, if_false]
    generalize pump p D c t false s ws = r
    obtain ⟨s1, ws1, st⟩ := r
    cases st <;> simp
  · simp [hi]

theorem lookAhead_err (t : Tail) (pk : Bool) (s : RxState) (ws : List (Wire Bytes)) (out : Bytes) :
    (lookAhead t pk s ws out).1.1.err = s.err ∨
    (s.input = [] ∧ (lookAhead t pk s ws out).1.1.err = (pump P plainDec Ctx.established t true s ws).1.err) := by
  unfold lookAhead
  by_cases hc : (decide (out ≠ []) && s.input == [] && pk) = true
  · right
    have hi : s.input = [] := by
      simp only [Bool.and_eq_true, beq_iff_eq] at hc; exact hc.1.2
    simp only [hc, if_true]
    refine ⟨hi, ?_⟩
    generalize pump P plainDec Ctx.established t true s ws = r
    obtain ⟨s1, ws1, st⟩ := r
    cases st <;> simp
  · left; simp only [hc, Bool.false_eq_true, if_false]

/-- one `Read` of the record layer — fill, drain, look-ahead, in every segmentation of the
transport and whatever `c.rawInput` holds — never latches the pending-data guard: `readRecord` is
only ever entered with `c.input` drained -/
theorem readRec_no_pending (t : Tail) (seg : Seg) (raw : Nat) (tb : Bool) (s : RxState) (ws : List (Wire Bytes))
    (n : Nat) (hne : s.err ≠ some .internalPending) :
    (readRec t seg raw tb s ws n).1.1.1.err ≠ some .internalPending := by
  have h1 := readCall_err P plainDec Ctx.established t s ws n
  have hp1 : (readCall P plainDec Ctx.established t s ws n false).1.1.err ≠ some .internalPending := by
    rw [h1]
    split
    · exact hne
    · rename_i hc
      have hi : s.input = [] := by
        by_cases hi : s.input = []
        · exact hi
        · exact absurd (Or.inr hi) hc
      exact pump_err_ne_pending P plainDec Ctx.established t false ws s hi hne
  unfold readRec
  generalize readCall P plainDec Ctx.established t s ws n false = r1 at hp1
  obtain ⟨⟨s1, ws1⟩, res1⟩ := r1
  simp only at hp1 ⊢
  cases res1 with
  | ok out =>
    simp only
    generalize (decide (rawAfter seg raw (ws.length - ws1.length) ws1.length tb > 0) &&
      nextWire ws1 t == some P.tAlert) = pk
    rcases lookAhead_err t pk s1 ws1 out with h | ⟨hi, h⟩
    · rw [h]; exact hp1
    · rw [h]; exact pump_err_ne_pending P plainDec Ctx.established t true ws1 s1 hi hp1
  | okErr d e => exact hp1
  | err e => exact hp1
  | blocked d => exact hp1

end Gotlcp.Lemmas.ConnAPIEof

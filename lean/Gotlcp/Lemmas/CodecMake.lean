/-
Lemmas for C14 about the ClientHello emission path (`Model.Make`): the server name that
hostnameInSNI returns never ends in a dot, for every input string and whatever the IP test
answers; the NextProtos validation leaves only names of 1..255 bytes; hence what makeClientHello
returns lies inside the constructors' shape `Model.Emitted.emittedClientHello`.
-/
import Gotlcp.Model.CodecMake
import Gotlcp.Spec.CodecSpec

set_option linter.unusedSimpArgs false
set_option linter.unusedVariables false

namespace Gotlcp.Lemmas.CodecMake
open Gotlcp Gotlcp.Wire Gotlcp.Wire.Msg Gotlcp.Model.Emitted Gotlcp.Model.Make

theorem noTrailingDot_nil : Spec.Codec.noTrailingDot [] = true := rfl

theorem trimDotsLoop_noTrailingDot (n : Nat) : ∀ s : Bytes, s.length ≤ n →
    Spec.Codec.noTrailingDot (trimDotsLoop n s) = true := by
  induction n with
  | zero =>
    intro s hs
    have : s = [] := List.length_eq_zero_iff.mp (by omega)
    subst this
    rfl
  | succ n ih =>
    intro s hs
    unfold trimDotsLoop
    by_cases h : (decide (s.length > 0) && s.getLast? == some 46) = true
    · rw [if_pos h]
      apply ih
      simp only [List.length_dropLast]
      omega
    · rw [if_neg h]
      simp only [Bool.and_eq_true, decide_eq_true_eq, beq_iff_eq, not_and] at h
      unfold Spec.Codec.noTrailingDot
      cases hg : s.getLast? with
      | none => rfl
      | some b =>
        have hpos : s.length > 0 := by
          cases s with
          | nil => simp at hg
          | cons a r => simp
        have hb := h hpos
        rw [hg] at hb
        simp only [Option.some.injEq] at hb
        simp [hb]

theorem trimDots_noTrailingDot (s : Bytes) : Spec.Codec.noTrailingDot (trimDots s) = true :=
  trimDotsLoop_noTrailingDot s.length s (Nat.le_refl _)

/-- for every ServerName string and every answer of the IP test -/
theorem hostnameInSNI_noTrailingDot (ip : Bytes → Bool) (name : Bytes) :
    Spec.Codec.noTrailingDot (hostnameInSNI ip name) = true := by
  unfold hostnameInSNI
  split
  · rfl
  · exact trimDots_noTrailingDot name

/-- the result is a prefix of the input: only trailing bytes are ever removed -/
theorem trimDotsLoop_prefix (n : Nat) : ∀ s : Bytes, trimDotsLoop n s <+: s := by
  induction n with
  | zero => intro s; exact List.prefix_refl _
  | succ n ih =>
    intro s
    unfold trimDotsLoop
    split
    · exact List.IsPrefix.trans (ih _) (List.dropLast_prefix s)
    · exact List.prefix_refl _

theorem alpnOK_all (l : List Bytes) (h : alpnOK l = true) :
    l.all (fun a => decide (0 < a.length ∧ a.length < 256)) = true := by
  simp only [alpnOK, Bool.and_eq_true, List.all_eq_true] at h
  simp only [List.all_eq_true, decide_eq_true_eq]
  intro a ha
  have := h.1 a ha
  simp only [Bool.not_eq_true', Bool.or_eq_false_iff, beq_eq_false_iff_ne, ne_eq,
    decide_eq_false_iff_not, Nat.not_lt] at this
  omega

theorem tlcpRand_length (p : EmitParams) (rnd : Bytes) (t : Nat) (r : Bytes) (h4 : 4 ≤ p.randLen)
    (h : tlcpRand p rnd t = some r) : r.length = p.randLen := by
  unfold tlcpRand at h
  split at h
  · cases h
  · rename_i hl
    injection h with h
    rw [← h]
    simp only [List.length_append, List.length_cons, List.length_nil, List.length_drop, List.length_take]
    omega

theorem sig_shape (c : Bool) (x : W16) :
    ((if c = true then [x] else ([] : List W16)).length == 0 || (if c = true then [x] else []) == [x]) = true := by
  cases c <;> simp

/-- what makeClientHello returns, for a configuration whose echoed / variable-size inputs fit
(session id, cookie, well-formed trusted-CA entries, at least one usable suite, extension block
below 2^16), lies inside the constructors' shape -/
theorem make_emitted (p : EmitParams) (q : MakeParams) (dtlcp : Bool) (cfg : ClientCfg) (m : ClientHello)
    (hv : (W16.ofNat p.vers).toNat = p.vers) (hr : 4 ≤ p.randLen)
    (hs : ∀ s ∈ p.suites, (W16.ofNat s).toNat = s)
    (h : makeClientHello p q cfg = some m)
    (hsid : cfg.sid.length ≤ p.sidLen)
    (hck : if dtlcp then cfg.cookie.length < 256 else cfg.cookie.length = 0)
    (htas : cfg.tas.all Spec.Codec.wfTA = true)
    (hne : 0 < m.suites.length)
    (hlen : Spec.Codec.clientExtLen m < 65536) :
    emittedClientHello p dtlcp m = true := by
  unfold makeClientHello at h
  simp only at h
  split at h
  · cases h
  split at h
  · cases h
  · rename_i htaok halpn
    split at h
    · cases h
    · rename_i random hrand
      injection h with h
      have hrl := tlcpRand_length p _ _ _ hr hrand
      subst h
      simp only at hne hlen
      simp only [emittedClientHello, Bool.and_eq_true]
      refine ⟨⟨⟨⟨⟨⟨⟨⟨⟨⟨⟨⟨⟨?_, ?_⟩, ?_⟩, ?_⟩, ?_⟩, ?_⟩, ?_⟩, ?_⟩, ?_⟩, ?_⟩, ?_⟩, ?_⟩, ?_⟩, ?_⟩
      · simpa using hv
      · simpa using hrl
      · simpa using hsid
      · cases dtlcp
        · simpa using hck
        · simpa using hck
      · simp only [decide_eq_true_eq]
        refine ⟨hne, ?_⟩
        simp only [List.length_map]
        exact List.length_filter_le _ _
      · simp only [List.all_eq_true, List.mem_map, List.mem_filter]
        rintro w ⟨s, ⟨hsm, _⟩, rfl⟩
        rw [hs s hsm]
        simpa using hsm
      · simp
      · exact hostnameInSNI_noTrailingDot _ _
      · exact htas
      · simp
      · exact sig_shape _ _
      · by_cases hl : cfg.nextProtos.length > 0
        · have : alpnOK cfg.nextProtos = true := by
            simp only [hl, decide_true, Bool.true_and, Bool.not_eq_true'] at halpn
            simpa using halpn
          exact alpnOK_all _ this
        · have : cfg.nextProtos = [] := List.length_eq_zero_iff.mp (by omega)
          rw [this]; rfl
      · simp
      · simpa using hlen

/-- with the F60 validation in place, every key/cert-hash entry of an emitted hello has `taHashLen` bytes -/
theorem make_tas_hash (p : EmitParams) (q : MakeParams) (cfg : ClientCfg) (m : ClientHello)
    (hq : q.taHashLen ≠ 0) (h : makeClientHello p q cfg = some m) :
    ∀ t ∈ m.tas, q.taHashTypes.contains t.ty.toNat = true → t.id.length = q.taHashLen := by
  unfold makeClientHello at h
  simp only at h
  split at h
  · cases h
  rename_i hta
  split at h
  · cases h
  split at h
  · cases h
  injection h with h
  subst h
  simp only
  intro t ht hc
  have hq' : (q.taHashLen != 0) = true := by simpa using hq
  simp only [hq', Bool.true_and, Bool.not_eq_true', Bool.not_eq_false'] at hta
  have hall : tasOK q cfg.tas = true := by
    cases hh : tasOK q cfg.tas
    · exact absurd hh hta
    · rfl
  simp only [tasOK, List.all_eq_true] at hall
  have := hall t ht
  simp only [hc, Bool.true_and, Bool.not_eq_true', bne_eq_false_iff_eq] at this
  exact this

end Gotlcp.Lemmas.CodecMake

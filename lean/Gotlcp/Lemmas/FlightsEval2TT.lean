/- C19: kernel evaluation of every 2-fault pattern, slice resumed=true tie(client first)=true (see FlightsEval.lean) -/
import Gotlcp.Lemmas.FlightsEval

namespace Gotlcp.Lemmas.FlightsEval
open Gotlcp.Model.Flights

theorem pairs_TT : sliceOk (repairedAt 1 4) true true pats2 = true := by decide +kernel

end Gotlcp.Lemmas.FlightsEval

/-
Helper lemmas for the receive-path part of C16 (`Gotlcp.Model.DtlcpRx`): the invariant that
ties the connection's replay state to the list of (epoch, sequence number) pairs accepted so
far, across epoch changes.
-/
import Gotlcp.Lemmas.Replay
import Gotlcp.Model.DtlcpRx

set_option linter.unusedSimpArgs false

namespace Gotlcp.Lemmas.DtlcpRx
open Gotlcp.Model.Replay
open Gotlcp.Model.DtlcpRx
open Gotlcp.Lemmas.Replay
open Gotlcp.Spec

theorem nodup_of_map {α β : Type} (f : α → β) : ∀ l : List α, (l.map f).Nodup → l.Nodup
  | [], _ => List.nodup_nil
  | a :: l, h => by
    simp only [List.map_cons, List.nodup_cons] at h ⊢
    exact ⟨fun hm => h.1 (List.mem_map.mpr ⟨a, hm, rfl⟩), nodup_of_map f l h.2⟩

/-- what identifies a record on a connection: epoch and sequence number -/
def key (r : Rec) : Nat × Nat := (r.epoch, r.seq)

/-- the sequence numbers accepted in epoch `e` -/
def seenOf (e : Nat) (acc : List (Nat × Nat)) : List Nat :=
  (acc.filter (fun k => k.1 == e)).map (·.2)

theorem mem_seenOf (e s : Nat) (acc : List (Nat × Nat)) : s ∈ seenOf e acc ↔ (e, s) ∈ acc := by
  unfold seenOf
  simp only [List.mem_map, List.mem_filter, beq_iff_eq]
  constructor
  · rintro ⟨⟨a, b⟩, ⟨hm, he⟩, hs⟩
    simp only at he hs
    subst he; subst hs; exact hm
  · intro h
    exact ⟨(e, s), ⟨h, rfl⟩, rfl⟩

theorem seenOf_cons_same (e s : Nat) (acc : List (Nat × Nat)) :
    seenOf e ((e, s) :: acc) = s :: seenOf e acc := by
  simp [seenOf]

theorem seenOf_empty_of_lt (e : Nat) (acc : List (Nat × Nat)) (h : ∀ a b, (a, b) ∈ acc → a < e) :
    seenOf e acc = [] := by
  cases hs : seenOf e acc with
  | nil => rfl
  | cons x xs =>
    have : x ∈ seenOf e acc := by rw [hs]; exact List.mem_cons_self
    have := h e x ((mem_seenOf e x acc).mp this)
    omega

/-- `acc` = the (epoch, sequence number) pairs that passed the window so far -/
structure RxInv (p : Params) (acc : List (Nat × Nat)) (st : State) : Prop where
  sizeOK : span p st.win ≤ 64
  cfgOK : span p (newFromConfig p st.cfg) ≤ 64
  epochLe : ∀ e s, (e, s) ∈ acc → e ≤ st.readEpoch
  win : Inv (span p st.win) (seenOf st.readEpoch acc) st.win

theorem span_cfg_le (p : Params) (hp : goodParams p = true) (cfg : Int) : span p (newFromConfig p cfg) ≤ 64 := by
  unfold newFromConfig
  rw [span_new p hp]
  unfold ReplaySpec.clamp
  (repeat' split) <;> omega

theorem step_fst (W : Nat) (seen : List Nat) (s : Nat) :
    (ReplaySpec.step W seen s).1 = if ReplaySpec.accept W seen s then s :: seen else seen := by
  unfold ReplaySpec.step; split <;> rfl

/-- the state right after the handshake satisfies the invariant with the peer's Finished
(epoch 1, sequence number 0) as the only accepted record -/
theorem inv_afterHandshake (p : Params) (hp : goodParams p = true) (cfg : Int) :
    RxInv p [(1, 0)] (afterHandshake p cfg) := by
  have hW := span_cfg_le p hp cfg
  have h0 := check_step p (newFromConfig p cfg) [] 0 hW (inv_new p _ _)
  have hsp := check_span p (newFromConfig p cfg) 0
  have hpos : 0 < span p (newFromConfig p cfg) := by
    unfold newFromConfig; rw [span_new p hp]; unfold ReplaySpec.clamp; (repeat' split) <;> omega
  have hacc : ReplaySpec.accept (span p (newFromConfig p cfg)) [] 0 = true := by
    unfold ReplaySpec.accept; simp [ReplaySpec.newest, hpos]
  refine ⟨?_, hW, ?_, ?_⟩
  · show span p (check p (newFromConfig p cfg) 0).1 ≤ 64
    rw [hsp]; exact hW
  · intro e s hm
    simp only [List.mem_singleton, Prod.mk.injEq] at hm
    show e ≤ 1
    omega
  · show Inv (span p (check p (newFromConfig p cfg) 0).1) (seenOf 1 [(1, 0)]) (check p (newFromConfig p cfg) 0).1
    rw [hsp]
    have := h0.2
    rw [step_fst, hacc] at this
    simpa [seenOf] using this

/-- `admitRec`: the invariant is carried to the extended list, and what is admitted is new -/
theorem admitRec_inv (p : Params) (acc : List (Nat × Nat)) (st : State) (r : Rec) (h : RxInv p acc st) :
    RxInv p (if (admitRec p st r).2 then key r :: acc else acc) (admitRec p st r).1 ∧
    ((admitRec p st r).2 = true → key r ∉ acc) ∧
    (admitRec p st r).1.cfg = st.cfg ∧ (admitRec p st r).1.err = st.err := by
  unfold admitRec
  by_cases hlt : r.epoch < st.readEpoch
  · rw [if_pos hlt]
    exact ⟨by simpa using h, by simp, rfl, rfl⟩
  · simp only [hlt, if_false]
    -- the state the window check runs in
    generalize hst1 : (if r.epoch > st.readEpoch then
        ({ st with readEpoch := r.epoch, win := newFromConfig p st.cfg } : State) else st) = st1
    have h1 : RxInv p acc st1 ∧ st1.readEpoch = r.epoch ∧ st1.cfg = st.cfg ∧ st1.err = st.err := by
      by_cases hgt : r.epoch > st.readEpoch
      · simp only [hgt, if_true] at hst1
        subst hst1
        refine ⟨⟨h.cfgOK, h.cfgOK, ?_, ?_⟩, rfl, rfl, rfl⟩
        · intro e s hm; have := h.epochLe e s hm; show e ≤ r.epoch; omega
        · show Inv _ (seenOf r.epoch acc) (newFromConfig p st.cfg)
          rw [seenOf_empty_of_lt r.epoch acc (fun a b hm => by have := h.epochLe a b hm; omega)]
          exact inv_new p _ _
      · simp only [hgt, if_false] at hst1
        subst hst1
        exact ⟨h, by omega, rfl, rfl⟩
    obtain ⟨hi, hep, hcfg, herr⟩ := h1
    have hc := check_step p st1.win (seenOf st1.readEpoch acc) r.seq hi.sizeOK hi.win
    have hsp := check_span p st1.win r.seq
    show RxInv p (if (check p st1.win r.seq).2 then key r :: acc else acc)
        { st1 with win := (check p st1.win r.seq).1 } ∧ _
    refine ⟨⟨?_, hi.cfgOK, ?_, ?_⟩, ?_, hcfg, herr⟩
    · show span p (check p st1.win r.seq).1 ≤ 64
      rw [hsp]; exact hi.sizeOK
    · intro e s hm
      show e ≤ st1.readEpoch
      split at hm
      · rcases List.mem_cons.mp hm with heq | hm
        · simp only [key, Prod.mk.injEq] at heq; omega
        · exact hi.epochLe e s hm
      · exact hi.epochLe e s hm
    · show Inv (span p (check p st1.win r.seq).1) _ (check p st1.win r.seq).1
      rw [hsp]
      have h2 := hc.2
      rw [step_fst, ← hc.1] at h2
      cases hb : (check p st1.win r.seq).2 with
      | true =>
        rw [hb] at h2
        simp only [if_true] at h2 ⊢
        have : key r = (st1.readEpoch, r.seq) := by simp [key, hep]
        rw [this, seenOf_cons_same]
        exact h2
      | false =>
        rw [hb] at h2
        simpa using h2
    · intro hok hm
      have hacc : ReplaySpec.accept (span p st1.win) (seenOf st1.readEpoch acc) r.seq = true := by
        rw [← hc.1]; exact hok
      unfold ReplaySpec.accept at hacc
      simp only [Bool.and_eq_true, Bool.not_eq_true'] at hacc
      have hin : r.seq ∈ seenOf st1.readEpoch acc := by
        rw [mem_seenOf, hep]; exact hm
      have : (seenOf st1.readEpoch acc).contains r.seq = true := by simpa using hin
      rw [this] at hacc
      exact Bool.noConfusion hacc.1

/-- one call of either path: the invariant is kept; a record handed over is authentic, is
application data, and its (epoch, sequence number) was not accepted before -/
theorem step_inv (p : Params) (q : RxParams) (path : Path) (acc : List (Nat × Nat)) (st : State) (d : Dgram)
    (h : RxInv p acc st) :
    ∃ acc', RxInv p acc' (step p q path st d).1 ∧ (∀ k ∈ acc, k ∈ acc') ∧
      ∀ r pl, d = .record r → (step p q path st d).2 = .data pl →
        r.auth = true ∧ r.kind = .appData ∧ pl = r.payload ∧ key r ∉ acc ∧ key r ∈ acc' := by
  have keep : ∃ acc', RxInv p acc' st ∧ (∀ k ∈ acc, k ∈ acc') := ⟨acc, h, fun _ hk => hk⟩
  -- the part both paths share after `decrypt` succeeded
  have admitted : ∀ r : Rec, ∀ (f : State → State), (∀ s, (f s).win = s.win ∧ (f s).readEpoch = s.readEpoch ∧ (f s).cfg = s.cfg) →
      ∃ acc', RxInv p acc' (f (admitRec p st r).1) ∧ (∀ k ∈ acc, k ∈ acc') ∧
        ((admitRec p st r).2 = true → key r ∉ acc ∧ key r ∈ acc') := by
    intro r f hf
    obtain ⟨hi, hnew, _, _⟩ := admitRec_inv p acc st r h
    obtain ⟨hw, he, hc⟩ := hf (admitRec p st r).1
    refine ⟨(if (admitRec p st r).2 then key r :: acc else acc), ⟨?_, ?_, ?_, ?_⟩, ?_, ?_⟩
    · rw [hw]; exact hi.sizeOK
    · rw [hc]; exact hi.cfgOK
    · rw [he]; exact hi.epochLe
    · rw [hw, he]; exact hi.win
    · intro k hk; split
      · exact List.mem_cons_of_mem _ hk
      · exact hk
    · intro hok; rw [hok]; exact ⟨hnew hok, List.mem_cons_self⟩
  cases path with
  | readFrom =>
    cases d with
    | record r =>
      simp only [step, readFrom]
      by_cases ha : r.auth = true
      · simp only [ha, Bool.not_true, Bool.false_eq_true, if_false]
        obtain ⟨acc', hi, hsub, hnew⟩ := admitted r id (fun s => ⟨rfl, rfl, rfl⟩)
        cases hok : (admitRec p st r).2 with
        | false =>
          simp only [Bool.not_false, if_true]
          exact ⟨acc', hi, hsub, fun r' pl _ ho => by cases ho⟩
        | true =>
          simp only [Bool.not_true, Bool.false_eq_true, if_false]
          refine ⟨acc', ?_, hsub, ?_⟩
          · cases r.kind <;> exact hi
          · intro r' pl hd ho
            cases hd
            cases hk : r.kind with
            | appData =>
              rw [hk] at ho
              simp only [Out.data.injEq] at ho
              exact ⟨ha, rfl, ho.symm, (hnew hok).1, (hnew hok).2⟩
            | closeNotify => rw [hk] at ho; cases ho
      · have ha' : r.auth = false := by cases hr : r.auth <;> simp_all
        simp only [ha', Bool.not_false, if_true]
        obtain ⟨acc', hi, hsub⟩ := keep
        exact ⟨acc', hi, hsub, fun r' pl _ ho => by cases ho⟩
    | otherAddr | short | badVersion | oversize | truncated =>
      obtain ⟨acc', hi, hsub⟩ := keep
      exact ⟨acc', hi, hsub, fun r' pl hd _ => by cases hd⟩
  | read =>
    simp only [step, Model.DtlcpRx.read]
    cases herr : st.err with
    | some l =>
      obtain ⟨acc', hi, hsub⟩ := keep
      cases l <;> exact ⟨acc', hi, hsub, fun r' pl _ ho => by cases ho⟩
    | none =>
      have errInv : ∀ l, RxInv p acc ({ st with err := l } : State) := fun l =>
        ⟨h.sizeOK, h.cfgOK, h.epochLe, h.win⟩
      have invalid : ∀ b : Bool, ∃ acc', RxInv p acc'
          (if b then (st, Out.timeout) else (({ st with err := some .fatal } : State), Out.error)).1 ∧
          (∀ k ∈ acc, k ∈ acc') ∧
          ∀ pl, (if b then (st, Out.timeout) else (({ st with err := some .fatal } : State), Out.error)).2 ≠ .data pl := by
        intro b
        cases b with
        | true => exact ⟨acc, h, fun _ hk => hk, fun pl ho => by cases ho⟩
        | false => exact ⟨acc, errInv _, fun _ hk => hk, fun pl ho => by cases ho⟩
      cases d with
      | record r =>
        simp only
        by_cases ha : r.auth = true
        · simp only [ha, Bool.not_true, Bool.false_eq_true, if_false]
          cases hok : (admitRec p st r).2 with
          | false =>
            simp only [Bool.not_false, if_true]
            obtain ⟨acc', hi, hsub, _⟩ := admitted r id (fun s => ⟨rfl, rfl, rfl⟩)
            exact ⟨acc', hi, hsub, fun r' pl _ ho => by cases ho⟩
          | true =>
            simp only [Bool.not_true, Bool.false_eq_true, if_false]
            cases hk : r.kind with
            | appData =>
              obtain ⟨acc', hi, hsub, hnew⟩ := admitted r id (fun s => ⟨rfl, rfl, rfl⟩)
              refine ⟨acc', hi, hsub, ?_⟩
              intro r' pl hd ho
              cases hd
              simp only [Out.data.injEq] at ho
              exact ⟨ha, hk, ho.symm, (hnew hok).1, (hnew hok).2⟩
            | closeNotify =>
              obtain ⟨acc', hi, hsub, _⟩ := admitted r (fun s => { s with err := some .eof }) (fun s => ⟨rfl, rfl, rfl⟩)
              exact ⟨acc', hi, hsub, fun r' pl _ ho => by cases ho⟩
        · have ha' : r.auth = false := by cases hr : r.auth <;> simp_all
          simp only [ha', Bool.not_false, if_true]
          obtain ⟨acc', hi, hsub, hno⟩ := invalid q.dropForged
          exact ⟨acc', hi, hsub, fun r' pl _ ho => absurd ho (hno pl)⟩
      | otherAddr =>
        obtain ⟨acc', hi, hsub⟩ := keep
        exact ⟨acc', hi, hsub, fun r' pl hd _ => by cases hd⟩
      | short | badVersion | oversize | truncated =>
        simp only
        obtain ⟨acc', hi, hsub, _⟩ := invalid q.dropMalformed
        exact ⟨acc', hi, hsub, fun r' pl hd _ => by cases hd⟩

/-- all histories: every record handed to the application is an authentic application-data
record that occurs in the history, and no (epoch, sequence number) is handed over twice -/
theorem delivered_sound (p : Params) (q : RxParams) (path : Path) (ds : List Dgram) :
    ∀ (acc : List (Nat × Nat)) (st : State), RxInv p acc st →
      ((delivered p q path st ds).map key).Nodup ∧
      ∀ r ∈ delivered p q path st ds,
        key r ∉ acc ∧ r.auth = true ∧ r.kind = .appData ∧ Dgram.record r ∈ ds := by
  induction ds with
  | nil => intro acc st _; exact ⟨List.nodup_nil, fun r hr => by cases hr⟩
  | cons d ds ih =>
    intro acc st h
    obtain ⟨acc', hi, hsub, hdel⟩ := step_inv p q path acc st d h
    obtain ⟨ihn, ihm⟩ := ih acc' (step p q path st d).1 hi
    have rest : ∀ r ∈ delivered p q path (step p q path st d).1 ds,
        key r ∉ acc ∧ r.auth = true ∧ r.kind = .appData ∧ Dgram.record r ∈ d :: ds := by
      intro r hr
      obtain ⟨h1, h2, h3, h4⟩ := ihm r hr
      exact ⟨fun hk => h1 (hsub _ hk), h2, h3, List.mem_cons_of_mem _ h4⟩
    simp only [delivered]
    cases d with
    | record r =>
      cases ho : (step p q path st (.record r)).2 with
      | data pl =>
        simp only [ho]
        obtain ⟨ha, hk, _, hnew, hin⟩ := hdel r pl rfl ho
        refine ⟨?_, ?_⟩
        · simp only [List.map_cons, List.nodup_cons]
          refine ⟨?_, ihn⟩
          intro hm
          obtain ⟨r', hr', hkey⟩ := List.mem_map.mp hm
          exact (ihm r' hr').1 (hkey ▸ hin)
        · intro r' hr'
          rcases List.mem_cons.mp hr' with heq | hr'
          · subst heq; exact ⟨hnew, ha, hk, List.mem_cons_self⟩
          · exact rest r' hr'
      | timeout | eof | error => exact ⟨ihn, rest⟩
    | otherAddr | short | badVersion | oversize | truncated => exact ⟨ihn, rest⟩

/-! ### a datagram that does not authenticate has no effect -/

/-- the paths on which an invalid datagram is dropped: `ReadFrom` always; `Read` when
`readRecordOrCCS` drops forged and malformed records -/
def drops (q : RxParams) : Path → Bool
  | .readFrom => true
  | .read => q.dropForged && q.dropMalformed

theorem step_forged (p : Params) (q : RxParams) (path : Path) (st : State) (d : Dgram)
    (hd : d.authentic = false) (hq : drops q path = true) :
    (step p q path st d).1 = st ∧ ∀ pl, (step p q path st d).2 ≠ .data pl := by
  cases path with
  | readFrom =>
    cases d with
    | record r =>
      have ha : r.auth = false := hd
      simp [step, readFrom, ha]
    | otherAddr | short | badVersion | oversize | truncated => simp [step, readFrom]
  | read =>
    simp only [drops, Bool.and_eq_true] at hq
    obtain ⟨h1, h2⟩ := hq
    simp only [step, Model.DtlcpRx.read, h1, h2, if_true]
    cases st.err with
    | some l => cases l <;> simp
    | none =>
      cases d with
      | record r =>
        have ha : r.auth = false := hd
        simp [ha]
      | otherAddr | short | badVersion | oversize | truncated => simp

/-- all histories: removing every datagram that does not authenticate changes neither the
final state nor what is handed to the application -/
theorem run_filter (p : Params) (q : RxParams) (path : Path) (hq : drops q path = true) (ds : List Dgram) :
    ∀ st : State,
      (run p q path st ds).1 = (run p q path st (ds.filter Dgram.authentic)).1 ∧
      delivered p q path st ds = delivered p q path st (ds.filter Dgram.authentic) := by
  induction ds with
  | nil => intro st; exact ⟨rfl, rfl⟩
  | cons d ds ih =>
    intro st
    cases hd : d.authentic with
    | false =>
      obtain ⟨h1, h2⟩ := step_forged p q path st d hd hq
      have hf : (d :: ds).filter Dgram.authentic = ds.filter Dgram.authentic := by simp [List.filter, hd]
      rw [hf]
      obtain ⟨i1, i2⟩ := ih st
      constructor
      · simp only [Model.DtlcpRx.run]; rw [h1]; exact i1
      · simp only [delivered]; rw [h1]
        cases d with
        | record r =>
          cases ho : (step p q path st (.record r)).2 with
          | data pl => exact absurd ho (h2 pl)
          | timeout | eof | error => simpa [ho] using i2
        | otherAddr | short | badVersion | oversize | truncated => simpa using i2
    | true =>
      have hf : (d :: ds).filter Dgram.authentic = d :: ds.filter Dgram.authentic := by simp [List.filter, hd]
      rw [hf]
      obtain ⟨i1, i2⟩ := ih (step p q path st d).1
      constructor
      · simp only [Model.DtlcpRx.run]; exact i1
      · simp only [delivered]; rw [i2]

/-! ### a fresh genuine record inside the window is handed over -/

theorem fresh_delivered (p : Params) (q : RxParams) (path : Path) (acc : List (Nat × Nat)) (st : State) (r : Rec)
    (h : RxInv p acc st) (ha : r.auth = true) (hk : r.kind = .appData) (he : r.epoch = st.readEpoch)
    (herr : path = .read → st.err = none)
    (hfresh : ReplaySpec.accept (span p st.win) (seenOf st.readEpoch acc) r.seq = true) :
    (step p q path st (.record r)).2 = .data r.payload := by
  have hc := (check_step p st.win (seenOf st.readEpoch acc) r.seq h.sizeOK h.win).1
  have hadm : (admitRec p st r).2 = true := by
    unfold admitRec
    have h1 : ¬ r.epoch < st.readEpoch := by omega
    have h2 : ¬ r.epoch > st.readEpoch := by omega
    simp only [h1, h2, if_false]
    show (check p st.win r.seq).2 = true
    rw [hc]; exact hfresh
  cases path with
  | readFrom => simp [step, readFrom, ha, hadm, hk]
  | read =>
    have := herr rfl
    simp [step, Model.DtlcpRx.read, this, ha, hadm, hk]

end Gotlcp.Lemmas.DtlcpRx

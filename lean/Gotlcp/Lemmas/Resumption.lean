/-
Helper lemmas for C10 (model `Gotlcp.Model.Resumption` over the cache model `Gotlcp.Model.LRU`).
-/
import Gotlcp.Model.Resumption
import Gotlcp.Lemmas.LRU

set_option linter.unusedSimpArgs false
set_option linter.unusedVariables false

namespace Gotlcp.Lemmas.Resumption
open Gotlcp.Model
open Gotlcp.Model.LRU
open Gotlcp.Lemmas.LRU

/-! ### what `put` / `get` do to the set of entries -/

theorem mem_remove {q : List Entry} {k : Key} {e : Entry} (h : e ∈ remove q k) : e ∈ q ∧ e.key ≠ k := by
  unfold remove at h
  have := List.mem_filter.mp h
  exact ⟨this.1, by simpa using this.2⟩

/-- every entry after a `Put` is the new entry or an old one -/
theorem mem_put {b : Bool} {s : State} {k : Key} {v : Option ObjId} {e : Entry}
    (h : e ∈ (put b s k v).q) : e = ⟨k, v⟩ ∨ e ∈ s.q := by
  unfold put at h
  split at h
  · cases v with
    | none => exact Or.inr (mem_remove h).1
    | some o =>
      rcases List.mem_cons.mp h with rfl | h
      · exact Or.inl rfl
      · exact Or.inr (mem_remove h).1
  · split at h
    · exact Or.inr h
    · split at h
      · rcases List.mem_cons.mp h with rfl | h
        · exact Or.inl rfl
        · exact Or.inr h
      · split at h
        · simp at h; exact Or.inl h
        · rcases List.mem_cons.mp h with rfl | h
          · exact Or.inl rfl
          · exact Or.inr (mem_dropLast_of h)

/-- after `Put(k, v)` every entry under key `k` carries `v` -/
theorem put_key_val {b : Bool} {s : State} {k : Key} {v : Option ObjId} {e : Entry}
    (h : e ∈ (put b s k v).q) (hk : e.key = k) : e.val = v ∨ (v = none ∧ False) := by
  left
  unfold put at h
  split at h
  · cases v with
    | none => exact absurd hk (mem_remove h).2
    | some o =>
      rcases List.mem_cons.mp h with rfl | h
      · rfl
      · exact absurd hk (mem_remove h).2
  · rename_i hnk
    have hnk' : hasKey s.q k = false := by simpa using hnk
    have notin : ∀ e' ∈ s.q, e'.key ≠ k := by
      intro e' he' hek
      have : hasKey s.q k = true := by
        rw [hasKey_iff]; exact List.mem_map.mpr ⟨e', he', hek⟩
      simp [hnk'] at this
    split at h
    · exact absurd hk (notin e h)
    · split at h
      · rcases List.mem_cons.mp h with rfl | h
        · rfl
        · exact absurd hk (notin e h)
      · split at h
        · simp at h; subst h; rfl
        · rcases List.mem_cons.mp h with rfl | h
          · rfl
          · exact absurd hk (notin e (mem_dropLast_of h))

theorem put_none_key {b : Bool} {s : State} {k : Key} {e : Entry}
    (h : e ∈ (put b s k none).q) (hk : e.key = k) : e.val = none := by
  rcases put_key_val h hk with h1 | ⟨_, hf⟩
  · exact h1
  · exact hf.elim

/-- objects wiped by a `Put` were held by an entry -/
theorem mem_zeroed_put {b : Bool} {s : State} {k : Key} {v : Option ObjId} {o : ObjId}
    (h : o ∈ (put b s k v).zeroed) : o ∈ s.zeroed ∨ ∃ e ∈ s.q, e.val = some o := by
  unfold put at h
  split at h
  · split at h <;> exact Or.inl h
  · split at h
    · exact Or.inl h
    · split at h
      · exact Or.inl h
      · split at h
        · exact Or.inl h
        · rename_i back hb
          cases hv : back.val with
          | none => simp only [hv] at h; exact Or.inl h
          | some ob =>
            simp only [hv, List.mem_cons] at h
            rcases h with rfl | h
            · exact Or.inr ⟨back, List.mem_of_getLast? hb, hv⟩
            · exact Or.inl h

theorem put_cap (b : Bool) (s : State) (k : Key) (v : Option ObjId) : (put b s k v).cap = s.cap := by
  unfold put
  split
  · split <;> rfl
  · split
    · rfl
    · split
      · rfl
      · split <;> rfl

theorem find?_key {q : List Entry} {k : Key} {e : Entry} (h : q.find? (·.key == k) = some e) :
    e ∈ q ∧ e.key = k :=
  ⟨List.mem_of_find?_eq_some h, by simpa using List.find?_some h⟩

/-- `Get` only re-orders: same entries afterwards -/
theorem mem_get {s : State} {k : Key} {e : Entry} (h : e ∈ (LRU.get s k).1.q) : e ∈ s.q := by
  unfold LRU.get at h
  split at h
  · split at h <;> exact h
  · split at h
    · rename_i v hf
      unfold findVal at hf
      obtain ⟨e0, he0, rfl⟩ := Option.map_eq_some_iff.mp hf
      obtain ⟨hm, hk⟩ := find?_key he0
      rcases List.mem_cons.mp h with rfl | h
      · have : (⟨k, e0.val⟩ : Entry) = e0 := by cases e0; simp at hk; simp [hk]
        rw [this]; exact hm
      · exact (mem_remove h).1
    · exact h

theorem get_zeroed (s : State) (k : Key) : (LRU.get s k).1.zeroed = s.zeroed := by
  unfold LRU.get
  split
  · split <;> rfl
  · split <;> rfl

theorem get_cap (s : State) (k : Key) : (LRU.get s k).1.cap = s.cap := by
  unfold LRU.get
  split
  · split <;> rfl
  · split <;> rfl

/-- a hit under a non-empty key returns the value of an entry with that key, which is still
present (in front) afterwards -/
theorem get_hit {s : State} {k : Key} {o : ObjId} {ok : Bool} (hk : k ≠ "")
    (h : (LRU.get s k).2 = .got (some o) ok) :
    (⟨k, some o⟩ : Entry) ∈ s.q ∧ (⟨k, some o⟩ : Entry) ∈ (LRU.get s k).1.q := by
  unfold LRU.get at h ⊢
  have hk' : (k == "") = false := by simpa using hk
  simp only [hk', Bool.false_eq_true, if_false] at h ⊢
  split at h
  · rename_i v hf
    simp only [Out.got.injEq] at h
    obtain ⟨rfl, _⟩ := h
    simp only [hf]
    unfold findVal at hf
    obtain ⟨e0, he0, hv⟩ := Option.map_eq_some_iff.mp hf
    obtain ⟨hm, hke⟩ := find?_key he0
    have : (⟨k, some o⟩ : Entry) = e0 := by cases e0; simp at hke hv; simp [hke, hv]
    exact ⟨this ▸ hm, List.mem_cons_self⟩
  · simp at h

/-! ### cache keys -/

theorem ofList_inj {a b : List Char} (h : String.ofList a = String.ofList b) : a = b := by
  have := congrArg String.toList h
  simpa using this

theorem dstKey_ne_idKey (a b : Nat) : Resumption.dstKey a ≠ Resumption.idKey b := by
  intro h
  have := ofList_inj h
  simp at this

theorem dstKey_ne_junkKey (a b : Nat) : Resumption.dstKey a ≠ Resumption.junkKey b := by
  intro h
  have := ofList_inj h
  simp at this

theorem dstKey_ne_empty (a : Nat) : Resumption.dstKey a ≠ "" := by
  intro h
  have := congrArg String.toList h
  simp [Resumption.dstKey] at this

theorem idKey_ne_empty (a : Nat) : Resumption.idKey a ≠ "" := by
  intro h
  have := congrArg String.toList h
  simp [Resumption.idKey] at this

theorem idKey_inj {a b : Nat} (h : Resumption.idKey a = Resumption.idKey b) : a = b := by
  have := ofList_inj h
  simp only [List.cons.injEq, true_and] at this
  have := congrArg List.length this
  simpa using this

theorem dstKey_inj {a b : Nat} (h : Resumption.dstKey a = Resumption.dstKey b) : a = b := by
  have := ofList_inj h
  simp only [List.cons.injEq, true_and] at this
  have := congrArg List.length this
  simpa using this

/-! ### `withPeer` only fills in the server's view of its peer -/

section withPeer
open Gotlcp.Model.Resumption
variable (p : Params) (a : Nat) (k : Bool) (x : Option Nat) (o : Obs)
@[simp] theorem withPeer_cOk : (withPeer p a k x o).cOk = o.cOk := rfl
@[simp] theorem withPeer_sOk : (withPeer p a k x o).sOk = o.sOk := rfl
@[simp] theorem withPeer_cRes : (withPeer p a k x o).cRes = o.cRes := rfl
@[simp] theorem withPeer_sRes : (withPeer p a k x o).sRes = o.sRes := rfl
@[simp] theorem withPeer_offered : (withPeer p a k x o).offered = o.offered := rfl
@[simp] theorem withPeer_returned : (withPeer p a k x o).returned = o.returned := rfl
@[simp] theorem withPeer_suite : (withPeer p a k x o).suite = o.suite := rfl
@[simp] theorem withPeer_peer : (withPeer p a k x o).peer = o.peer := rfl
@[simp] theorem withPeer_ms : (withPeer p a k x o).ms = o.ms := rfl
@[simp] theorem withPeer_rnd : (withPeer p a k x o).rnd = o.rnd := rfl
@[simp] theorem withPeer_full : (withPeer p a k x o).full = o.full := rfl
@[simp] theorem withPeer_speer : (withPeer p a k x o).speer = x := rfl
@[simp] theorem withPeer_vc : (withPeer p a k x o).vc = some x := rfl
theorem withPeer_vpc : (withPeer p a k x o).vpc = if k then some x else none := rfl
theorem withPeer_sver : (withPeer p a k x o).sver = (verifiesCert p a && x.isSome) := rfl
end withPeer

end Gotlcp.Lemmas.Resumption

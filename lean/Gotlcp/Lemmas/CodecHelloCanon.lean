/-
Lemmas for C14: whatever the spec's strict ServerHello decoder accepts is exactly what the
model encoder produces from the decoded fields (re-encoding clause, ServerHello).
-/
import Gotlcp.Lemmas.CodecHelloStrict

set_option linter.unusedSimpArgs false
set_option linter.unusedVariables false

namespace Gotlcp.Lemmas.CodecHelloCanon
open Gotlcp Gotlcp.Wire Gotlcp.Wire.Msg
open Gotlcp.Model.Codec
open Gotlcp.Lemmas.Codec Gotlcp.Lemmas.CodecHello
open Gotlcp.Spec.Codec (Stack Kind)

/-- what `optExt` found: nothing (the block is untouched) or one extension of that type -/
theorem optExt_eq {code : Nat} {e e1 : Bytes} {o : Option Bytes} (hcode : code < 65536)
    (h : Spec.Codec.optExt code e = some (o, e1)) :
    (o = none ∧ e1 = e) ∨ (∃ d, o = some d ∧ e = be16 code ++ (be16 d.length ++ d) ++ e1 ∧ d.length < 65536) := by
  unfold Spec.Codec.optExt at h
  cases h1 : readU16 e with
  | none =>
    rw [h1] at h
    simp only [Option.some.injEq, Prod.mk.injEq] at h
    exact Or.inl ⟨h.1.symm, h.2.symm⟩
  | some p =>
    obtain ⟨ty, s1⟩ := p
    rw [h1] at h
    simp only at h
    split at h
    · rename_i hty
      cases h2 : readVec16 s1 with
      | none => rw [h2] at h; cases h
      | some q =>
        obtain ⟨d, s2⟩ := q
        rw [h2] at h
        simp only [Option.some.injEq, Prod.mk.injEq] at h
        obtain ⟨ho, he⟩ := h
        subst he
        right
        obtain ⟨he1, _⟩ := readU16_eq_some h1
        obtain ⟨he2, hl⟩ := readVec16_eq_some h2
        exact ⟨d, ho.symm, by rw [he1, he2, hty]; simp, hl⟩
    · simp only [Option.some.injEq, Prod.mk.injEq] at h
      exact Or.inl ⟨h.1.symm, h.2.symm⟩

theorem strictExtBlock_eq {s e : Bytes} (h : Spec.Codec.strictExtBlock s = some e) :
    (s = [] ∧ e = []) ∨ (e ≠ [] ∧ s = be16 e.length ++ e ∧ e.length < 65536) := by
  unfold Spec.Codec.strictExtBlock at h
  cases s with
  | nil => simp only [Option.some.injEq] at h; exact Or.inl ⟨rfl, h.symm⟩
  | cons a t =>
    simp only at h
    cases h1 : readVec16 (a :: t) with
    | none => rw [h1] at h; cases h
    | some p =>
      obtain ⟨e', r⟩ := p
      rw [h1] at h
      cases r with
      | cons _ _ => simp at h
      | nil =>
        simp only at h
        split at h
        · cases h
        · rename_i hne
          simp only [Option.some.injEq] at h
          subst h
          obtain ⟨hs, hl⟩ := readVec16_eq_some h1
          rw [List.append_nil] at hs
          right
          refine ⟨?_, hs, hl⟩
          intro hnil; rw [hnil] at hne; simp [Spec.Codec.isNil] at hne

theorem sOcspOf_eq (c : Codes) (hc : HelloCodes c) {o : Option Bytes} {e e1 : Bytes} {oc : Bool} {rs : Bytes}
    (h1 : Spec.Codec.optExt 5 e = some (o, e1)) (hx : Spec.Codec.sOcspOf o = some (oc, rs)) (m : ServerHello)
    (hm1 : m.ocsp = oc) (hm2 : m.ocspResponse = rs) :
    e = shE1 c m ++ e1 ∧ m.ocsp = decide (0 < m.ocspResponse.length) ∧ 1 + 3 + m.ocspResponse.length < 65536 := by
  unfold Spec.Codec.sOcspOf at hx
  rcases optExt_eq (by decide) h1 with ⟨ho, he⟩ | ⟨d, ho, he, hl⟩
  · subst ho
    simp only [Option.some.injEq, Prod.mk.injEq] at hx
    obtain ⟨x1, x2⟩ := hx
    have ho' : m.ocsp = false := by rw [hm1, ← x1]
    have hr' : m.ocspResponse = [] := by rw [hm2, ← x2]
    simp [shE1, ho', hr', he]
  · subst ho
    simp only at hx
    cases d with
    | nil => simp at hx
    | cons d0 r =>
      by_cases hd0 : d0 = 1
      · subst hd0
        simp only at hx
        cases hv : readVec24 r with
        | none => rw [hv] at hx; simp at hx
        | some q =>
          obtain ⟨rp, rr⟩ := q
          rw [hv] at hx
          cases rr with
          | cons _ _ => simp at hx
          | nil =>
            simp only at hx
            split at hx
            · cases hx
            · rename_i hne
              simp only [Option.some.injEq, Prod.mk.injEq] at hx
              obtain ⟨x1, x2⟩ := hx
              obtain ⟨hr, hrl⟩ := readVec24_eq_some hv
              rw [List.append_nil] at hr
              have hpos : 0 < rp.length := by
                cases rp with
                | nil => simp [Spec.Codec.isNil] at hne
                | cons _ _ => simp
              have hdl : (1 :: r).length = 1 + 3 + rp.length := by rw [hr]; simp [be24]; omega
              have ho' : m.ocsp = true := by rw [hm1, ← x1]
              have hr' : m.ocspResponse = rp := by rw [hm2, ← x2]
              refine ⟨?_, by simp [ho', hr', hpos], by rw [hr']; omega⟩
              rw [he, hr]
              simp [shE1, ho', hr', hpos, hc.status]
      · exfalso
        have : ∀ (x : Option (Bool × Bytes)), (match (d0 :: r) with
            | 1 :: r' => x
            | _ => none) = (none : Option (Bool × Bytes)) := by
          intro x
          split
          · rename_i heq; simp only [List.cons.injEq] at heq; exact absurd heq.1 hd0
          · rfl
        simp_all

theorem sAlpnOf_eq (c : Codes) (hc : HelloCodes c) {o : Option Bytes} {e1 e2 : Bytes} {al : Bytes}
    (h2 : Spec.Codec.optExt 16 e1 = some (o, e2)) (hy : Spec.Codec.sAlpnOf o = some al) (m : ServerHello)
    (hm3 : m.alpn = al) : e1 = shE2 c m ++ e2 ∧ m.alpn.length < 256 := by
  unfold Spec.Codec.sAlpnOf at hy
  rcases optExt_eq (by decide) h2 with ⟨ho, he⟩ | ⟨d, ho, he, hl⟩
  · subst ho
    simp only [Option.some.injEq] at hy
    have ha' : m.alpn = [] := by rw [hm3, ← hy]
    simp [shE2, ha', he]
  · subst ho
    simp only at hy
    cases hv : readVec16 d with
    | none => rw [hv] at hy; simp at hy
    | some q =>
      obtain ⟨lst, rr⟩ := q
      rw [hv] at hy
      cases rr with
      | cons _ _ => simp at hy
      | nil =>
        simp only at hy
        cases hn : Spec.Codec.nonEmptyVec8 lst with
        | none => rw [hn] at hy; simp at hy
        | some q2 =>
          obtain ⟨pr, r2⟩ := q2
          rw [hn] at hy
          cases r2 with
          | cons _ _ => simp at hy
          | nil =>
            simp only [Option.some.injEq] at hy
            obtain ⟨hl1, hp0, hp1⟩ := nonEmptyVec8_eq_some hn
            obtain ⟨hd, _⟩ := readVec16_eq_some hv
            rw [List.append_nil] at hd hl1
            have ha' : m.alpn = pr := by rw [hm3, ← hy]
            refine ⟨?_, by rw [ha']; exact hp1⟩
            rw [he, hd, hl1]
            simp [shE2, ha', hp0, hc.alpn]

theorem sAckOf_eq (c : Codes) (hc : HelloCodes c) {o : Option Bytes} {e2 : Bytes} {ak : Bool}
    (h3 : Spec.Codec.optExt 0 e2 = some (o, [])) (hz : Spec.Codec.sAckOf o = some ak) (m : ServerHello)
    (hm4 : m.sniAck = ak) : e2 = shE3 c m := by
  unfold Spec.Codec.sAckOf at hz
  rcases optExt_eq (by decide) h3 with ⟨ho, he⟩ | ⟨d, ho, he, hl⟩
  · subst ho
    simp only [Option.some.injEq] at hz
    have hk' : m.sniAck = false := by rw [hm4, ← hz]
    rw [← he]
    simp [shE3, hk']
  · subst ho
    cases d with
    | cons _ _ => simp at hz
    | nil =>
      simp only [Option.some.injEq] at hz
      have hk' : m.sniAck = true := by rw [hm4, ← hz]
      rw [he]
      simp [shE3, hk', hc.sni, be16]
      rfl

/-- the strict server extension block is the encoder's block for the decoded fields -/
theorem strictServerExts_eq (c : Codes) (hc : HelloCodes c) {e : Bytes} {ocsp ack : Bool} {resp alpn : Bytes}
    (m : ServerHello) (hm : m.ocsp = ocsp ∧ m.ocspResponse = resp ∧ m.alpn = alpn ∧ m.sniAck = ack)
    (h : Spec.Codec.strictServerExts e = some (ocsp, resp, alpn, ack)) :
    e = shE1 c m ++ shE2 c m ++ shE3 c m ∧ m.ocsp = decide (0 < m.ocspResponse.length) ∧
      1 + 3 + m.ocspResponse.length < 65536 ∧ m.alpn.length < 256 := by
  obtain ⟨hm1, hm2, hm3, hm4⟩ := hm
  unfold Spec.Codec.strictServerExts at h
  cases h1 : Spec.Codec.optExt 5 e with
  | none => rw [h1] at h; cases h
  | some p1 =>
    obtain ⟨o1, e1⟩ := p1
    rw [h1] at h; simp only at h
    cases hx : Spec.Codec.sOcspOf o1 with
    | none => rw [hx] at h; cases h
    | some px =>
      obtain ⟨oc, rs⟩ := px
      rw [hx] at h; simp only at h
      cases h2 : Spec.Codec.optExt 16 e1 with
      | none => rw [h2] at h; cases h
      | some p2 =>
        obtain ⟨o2, e2⟩ := p2
        rw [h2] at h; simp only at h
        cases hy : Spec.Codec.sAlpnOf o2 with
        | none => rw [hy] at h; cases h
        | some al =>
          rw [hy] at h; simp only at h
          cases h3 : Spec.Codec.optExt 0 e2 with
          | none => rw [h3] at h; cases h
          | some p3 =>
            obtain ⟨o3, e3⟩ := p3
            rw [h3] at h; simp only at h
            cases hz : Spec.Codec.sAckOf o3 with
            | none => rw [hz] at h; cases h
            | some ak =>
              rw [hz] at h; simp only at h
              split at h
              · rename_i he3
                simp only [Option.some.injEq, Prod.mk.injEq] at h
                obtain ⟨a1, a2, a3, a4⟩ := h
                subst a1; subst a2; subst a3; subst a4
                have he3' : e3 = [] := (isNil_iff e3).mp he3
                subst he3'
                obtain ⟨q1a, q1b, q1c⟩ := sOcspOf_eq c hc h1 hx m hm1 hm2
                obtain ⟨q2a, q2b⟩ := sAlpnOf_eq c hc h2 hy m hm3
                have q3 := sAckOf_eq c hc h3 hz m hm4
                refine ⟨?_, q1b, q1c, q2b⟩
                rw [q1a, q2a, q3, List.append_assoc]
              · cases h

theorem shE_length' (c : Codes) (m : ServerHello) (ho : m.ocsp = decide (0 < m.ocspResponse.length)) :
    (shE1 c m ++ shE2 c m ++ shE3 c m).length = Spec.Codec.serverExtLen m := by
  unfold shE1 shE2 shE3 Spec.Codec.serverExtLen
  cases hoc : m.ocsp <;> cases hak : m.sniAck <;> (rw [hoc] at ho) <;>
    (by_cases ha : m.alpn.length > 0) <;> simp_all [be16, be24] <;> omega

/-- the fields a strict ServerHello body parse yields, and the body it came from -/
theorem strictServerBody (c : Codes) (hc : HelloCodes c) {body : Bytes} {vers suite : W16} {rnd sid s1 s2 s3 s4 s5 e : Bytes}
    {cm : UInt8} {ocsp ack : Bool} {resp alpn : Bytes}
    (h1 : readW16 body = some (vers, s1)) (h2 : readBytes 32 s1 = some (rnd, s2)) (h3 : readVec8 s2 = some (sid, s3))
    (h4 : readW16 s3 = some (suite, s4)) (h5 : readU8 s4 = some (cm, s5))
    (h6 : Spec.Codec.strictExtBlock s5 = some e) (h7 : Spec.Codec.strictServerExts e = some (ocsp, resp, alpn, ack))
    (h8 : sid.length ≤ 32) :
    SHwf ⟨vers, rnd, sid, suite, cm, ocsp, resp, alpn, ack⟩ ∧
    encServerHelloBody c ⟨vers, rnd, sid, suite, cm, ocsp, resp, alpn, ack⟩ = some body := by
  obtain ⟨he, ho, hr, ha⟩ := strictServerExts_eq c hc ⟨vers, rnd, sid, suite, cm, ocsp, resp, alpn, ack⟩
    ⟨rfl, rfl, rfl, rfl⟩ h7
  obtain ⟨hs1, hrl⟩ := readBytes_eq_some h2
  have hlen := shE_length' c ⟨vers, rnd, sid, suite, cm, ocsp, resp, alpn, ack⟩ ho
  have hsid : sid.length < 256 := by omega
  have hex : extBlock e = some s5 ∧ e.length < 65536 := by
    rcases strictExtBlock_eq h6 with ⟨a, b⟩ | ⟨a, b, cc⟩
    · subst a; subst b; exact ⟨by simp [extBlock], by simp⟩
    · have hp : e.length > 0 := List.length_pos_iff.mpr a
      exact ⟨by simp only [extBlock, hp, ↓reduceIte, vec16_of_lt cc, b], cc⟩
  have hw : SHwf ⟨vers, rnd, sid, suite, cm, ocsp, resp, alpn, ack⟩ :=
    ⟨hrl, h8, ho, hr, ha, by rw [← hlen, ← he]; exact hex.2⟩
  refine ⟨hw, ?_⟩
  have hbody : body = vers.bytes ++ rnd ++ (u8 sid.length :: sid) ++ suite.bytes ++ [cm] ++ s5 := by
    rw [readW16_eq_some h1, hs1, (readVec8_eq_some h3).1, readW16_eq_some h4, readU8_eq_some h5]
    simp
  have hrl' : rnd.length = c.randomLen := by rw [hc.rnd]; exact hrl
  rw [hbody]
  simp only [encServerHelloBody, encServerExtensions_eq c _ hw, ← he, exactly, hrl', ↓reduceIte, vec8_of_lt hsid, hex.1]

/-- stack-independent part: header, then a body that is the encoder's body for well-formed fields -/
theorem strictServerHello_parts (c : Codes) (hc : HelloCodes c) {st : Stack} {b : Bytes} {h : DHdr} {m : ServerHello}
    (hs : Spec.Codec.strictServerHello st b = some (h, m)) :
    ∃ body, Spec.Codec.strictHeader st .serverHello b = some (h, body) ∧ SHwf m ∧ encServerHelloBody c m = some body := by
  unfold Spec.Codec.strictServerHello at hs
  cases hsh : Spec.Codec.strictHeader st .serverHello b with
  | none => rw [hsh] at hs; cases hs
  | some p =>
    obtain ⟨hd, body⟩ := p
    rw [hsh] at hs; simp only at hs
    cases h1 : readW16 body with
    | none => rw [h1] at hs; cases hs
    | some p1 =>
      obtain ⟨vers, s1⟩ := p1
      rw [h1] at hs; simp only at hs
      cases h2 : readBytes 32 s1 with
      | none => rw [h2] at hs; cases hs
      | some p2 =>
        obtain ⟨rnd, s2⟩ := p2
        rw [h2] at hs; simp only at hs
        cases h3 : readVec8 s2 with
        | none => rw [h3] at hs; cases hs
        | some p3 =>
          obtain ⟨sid, s3⟩ := p3
          rw [h3] at hs; simp only at hs
          cases h4 : readW16 s3 with
          | none => rw [h4] at hs; cases hs
          | some p4 =>
            obtain ⟨suite, s4⟩ := p4
            rw [h4] at hs; simp only at hs
            cases h5 : readU8 s4 with
            | none => rw [h5] at hs; cases hs
            | some p5 =>
              obtain ⟨cm, s5⟩ := p5
              rw [h5] at hs; simp only at hs
              cases h6 : Spec.Codec.strictExtBlock s5 with
              | none => rw [h6] at hs; cases hs
              | some e =>
                rw [h6] at hs; simp only at hs
                cases h7 : Spec.Codec.strictServerExts e with
                | none => rw [h7] at hs; cases hs
                | some q =>
                  obtain ⟨ocsp, resp, alpn, ack⟩ := q
                  rw [h7] at hs; simp only at hs
                  split at hs
                  · rename_i h8
                    simp only [Option.some.injEq, Prod.mk.injEq] at hs
                    obtain ⟨hh, hm⟩ := hs
                    subst hm; subst hh
                    obtain ⟨hw, henc⟩ := strictServerBody c hc h1 h2 h3 h4 h5 h6 h7 h8
                    exact ⟨body, rfl, hw, henc⟩
                  · cases hs

theorem wfServerHello_of {m : ServerHello} (hw : SHwf m) : Spec.Codec.wfServerHello m = true := by
  have := hw.ocsp
  simp [Spec.Codec.wfServerHello, hw.rnd, hw.sid, hw.resp, hw.alpn, hw.total, ← this]

theorem canon_serverHello_tlcp (c : Codes) (hc : HelloCodes c) (ht : c.tServerHello = 2) {b : Bytes} {h : DHdr}
    {m : ServerHello} (hs : Spec.Codec.strictServerHello .tlcp b = some (h, m)) :
    encServerHello c m = some b ∧ unmarshalServerHello c b = .ok m ∧ Spec.Codec.wfServerHello m = true := by
  obtain ⟨body, hsh, hw, henc⟩ := strictServerHello_parts c hc hs
  obtain ⟨hb, hl, _⟩ := strictHeader_tlcp_eq hsh
  have hk : Kind.serverHello.code = c.tServerHello := by rw [ht]; rfl
  rw [hk] at hb
  obtain ⟨body', e1, e2, e3⟩ := rt_serverHelloBody c hc _ hw
  rw [henc] at e1
  simp only [Option.some.injEq] at e1
  subst e1
  refine ⟨by simp only [encServerHello, henc, vec24_of_lt hl, hb], ?_, wfServerHello_of hw⟩
  rw [hb, unmarshalServerHello, guardT_pass _ _ hl, decServerHello, skip4]
  simp only [e2]; rfl

theorem canon_serverHello_dtlcp (c : Codes) (hc : HelloCodes c) (r : Lemmas.CodecDtlcp.Ready c c.tServerHello)
    (ht : c.tServerHello = 2) {b : Bytes} {h : DHdr} {m : ServerHello}
    (hs : Spec.Codec.strictServerHello .dtlcp b = some (h, m)) :
    Model.CodecDtlcp.encServerHello c h m = some b ∧ Model.CodecDtlcp.decServerHello c b = .ok (h, m) ∧
      Spec.Codec.wfServerHello m = true := by
  obtain ⟨body, hsh, hw, henc⟩ := strictServerHello_parts c hc hs
  obtain ⟨hb, hl, hh⟩ := Lemmas.CodecDtlcp.strictHeader_dtlcp_eq hsh
  have hk : Kind.serverHello.code = c.tServerHello := by rw [ht]; rfl
  rw [hk] at hb
  obtain ⟨body', e1, e2, e3⟩ := rt_serverHelloBody c hc _ hw
  rw [henc] at e1
  simp only [Option.some.injEq] at e1
  subst e1
  have hwd := Lemmas.CodecDtlcp.wfDHdr_of_strict hh hl
  refine ⟨?_, ?_, wfServerHello_of hw⟩
  · simp only [Model.CodecDtlcp.encServerHello, henc, Lemmas.CodecDtlcp.header_complete _ _ _ hwd, hb]
  · rw [hb]
    unfold Model.CodecDtlcp.decServerHello
    rw [Lemmas.CodecDtlcp.guard_pass c r.hl _ _ hl, Lemmas.CodecDtlcp.unmarshalHeader_complete _ _ hl]
    simp only [e2]
    simp
    exact hh.symm

/-! ### ClientHello -/

theorem inVec16_eq {d c : Bytes} (h : Spec.Codec.inVec16 d = some c) :
    d = be16 c.length ++ c ∧ 0 < c.length ∧ c.length < 65536 := by
  unfold Spec.Codec.inVec16 at h
  cases hv : readVec16 d with
  | none => rw [hv] at h; simp at h
  | some p =>
    obtain ⟨c', r⟩ := p
    rw [hv] at h
    cases r with
    | cons _ _ => simp at h
    | nil =>
      simp only at h
      split at h
      · cases h
      · rename_i hne
        simp only [Option.some.injEq] at h
        subst h
        obtain ⟨hd, hl⟩ := readVec16_eq_some hv
        rw [List.append_nil] at hd
        refine ⟨hd, ?_, hl⟩
        cases c' with
        | nil => simp [Spec.Codec.isNil] at hne
        | cons _ _ => simp

theorem withExt_eq {α : Type} {o : Option Bytes} {dflt v : α} {f : Bytes → Option α}
    (h : Spec.Codec.withExt o dflt f = some v) : (o = none ∧ v = dflt) ∨ (∃ d, o = some d ∧ f d = some v) := by
  cases o with
  | none => simp only [Spec.Codec.withExt, Option.some.injEq] at h; exact Or.inl ⟨rfl, h.symm⟩
  | some d => exact Or.inr ⟨d, rfl, h⟩

theorem strictTA_eq {s r : Bytes} {t : TA} (h : Spec.Codec.strictTA s = some (t, r)) :
    s = taEnc t ++ r ∧ Spec.Codec.wfTA t = true := by
  unfold Spec.Codec.strictTA at h
  cases h1 : readU8 s with
  | none => rw [h1] at h; cases h
  | some p =>
    obtain ⟨ty, r1⟩ := p
    rw [h1] at h; simp only at h
    have hs := readU8_eq_some h1
    split at h
    · rename_i h0
      simp only [Option.some.injEq, Prod.mk.injEq] at h
      obtain ⟨ht, hr⟩ := h
      subst ht; subst hr
      have : ty = 0 := by simpa using h0
      subst this
      exact ⟨by rw [hs]; simp [taEnc], by simp [Spec.Codec.wfTA]⟩
    · rename_i h0
      split at h
      · rename_i h45
        cases h2 : readBytes 32 r1 with
        | none => rw [h2] at h; cases h
        | some q =>
          obtain ⟨id, r2⟩ := q
          rw [h2] at h
          simp only [Option.some.injEq, Prod.mk.injEq] at h
          obtain ⟨ht, hr⟩ := h
          subst ht; subst hr
          obtain ⟨hr1, hl⟩ := readBytes_eq_some h2
          have hne2 : (ty == 2) = false := by
            simp only [Bool.or_eq_true, beq_iff_eq] at h45
            rcases h45 with h | h <;> simp [h]
          have b0 : (ty == 0) = false := by simpa using h0
          refine ⟨by rw [hs, hr1]; simp [taEnc, hne2], ?_⟩
          simp [Spec.Codec.wfTA, b0, h45, hl]
      · rename_i h45
        split at h
        · rename_i h2
          cases h3 : Spec.Codec.nonEmptyVec16 r1 with
          | none => rw [h3] at h; cases h
          | some q =>
            obtain ⟨id, r2⟩ := q
            rw [h3] at h
            simp only [Option.some.injEq, Prod.mk.injEq] at h
            obtain ⟨ht, hr⟩ := h
            subst ht; subst hr
            obtain ⟨hr1, hp, hl⟩ := nonEmptyVec16_eq_some h3
            have b0 : (ty == 0) = false := by simpa using h0
            have b45 : (ty == 4 || ty == 5) = false := by simpa using h45
            refine ⟨by rw [hs, hr1]; simp [taEnc, h2, caItem], ?_⟩
            simp [Spec.Codec.wfTA, b0, b45, h2, hp, hl]
        · cases h

/-- the present-or-absent piece of extension `x` in the encoder's block -/
def piece (c : Codes) (m : ClientHello) (x : CExt) : Bytes := if cOn m x = true then cEnc c m x else []

theorem piece_sni (c : Codes) (hc : HelloCodes c) {o : Option Bytes} {e e1 : Bytes} {v : Bytes}
    (h1 : Spec.Codec.optExt 0 e = some (o, e1)) (hx : Spec.Codec.withExt o [] Spec.Codec.cSniOf = some v)
    (m : ClientHello) (hm : m.serverName = v) :
    e = piece c m .sni ++ e1 ∧ Spec.Codec.noTrailingDot m.serverName = true := by
  rcases withExt_eq hx with ⟨ho, hv⟩ | ⟨d, ho, hf⟩
  · subst ho
    have hn : m.serverName = [] := by rw [hm, hv]
    rcases optExt_eq (by decide) h1 with ⟨_, he⟩ | ⟨d, ho, _, _⟩
    · exact ⟨by simp [piece, cOn, hn, he], by simp [hn, Spec.Codec.noTrailingDot]⟩
    · cases ho
  · subst ho
    rcases optExt_eq (by decide) h1 with ⟨ho, _⟩ | ⟨d', ho, he, hl⟩
    · cases ho
    · simp only [Option.some.injEq] at ho
      subst ho
      unfold Spec.Codec.cSniOf at hf
      cases hi : Spec.Codec.inVec16 d with
      | none => rw [hi] at hf; simp at hf
      | some lst =>
        rw [hi] at hf
        simp only [Option.bind_some] at hf
        obtain ⟨hd, hp, hll⟩ := inVec16_eq hi
        cases lst with
        | nil => simp at hf
        | cons a r =>
          by_cases ha : a = 0
          · subst ha
            simp only at hf
            cases hn : Spec.Codec.nonEmptyVec16 r with
            | none => rw [hn] at hf; simp at hf
            | some q =>
              obtain ⟨name, rr⟩ := q
              rw [hn] at hf
              cases rr with
              | cons _ _ => simp at hf
              | nil =>
                simp only at hf
                split at hf
                · rename_i hdot
                  simp only [Option.some.injEq] at hf
                  obtain ⟨hr, hp0, hp1⟩ := nonEmptyVec16_eq_some hn
                  rw [List.append_nil] at hr
                  have hnm : m.serverName = name := by rw [hm, ← hf]
                  refine ⟨?_, by rw [hnm]; exact hdot⟩
                  rw [he, hd, hr]
                  simp [piece, cOn, cEnc, hnm, hp0, wrap2, sniInner, caItem, hc.sni]
                · cases hf
          · exfalso
            have : ∀ (x : Option Bytes), (match (a :: r) with
                | 0 :: r' => x
                | _ => none) = (none : Option Bytes) := by
              intro x
              split
              · rename_i heq; simp only [List.cons.injEq] at heq; exact absurd heq.1 ha
              · rfl
            simp_all

theorem many_nonempty {α : Type} {p : Parser α} {f : Nat} {s : Bytes} {xs : List α}
    (h : many p f s = some xs) (hs : 0 < s.length) : 0 < xs.length := by
  cases s with
  | nil => simp at hs
  | cons a t =>
    cases f with
    | zero => simp [many] at h
    | succ f' =>
      simp only [many] at h
      cases hp : p (a :: t) with
      | none => rw [hp] at h; cases h
      | some q =>
        obtain ⟨x, r⟩ := q
        rw [hp] at h
        simp only at h
        cases hm : many p f' r with
        | none => rw [hm] at h; cases h
        | some ys =>
          rw [hm] at h
          simp only [Option.some.injEq] at h
          subst h
          simp

theorem piece_tas (c : Codes) (hc : HelloCodes c) {o : Option Bytes} {e e1 : Bytes} {v : List TA}
    (h1 : Spec.Codec.optExt 3 e = some (o, e1)) (hx : Spec.Codec.withExt o [] Spec.Codec.cTasOf = some v)
    (m : ClientHello) (hm : m.tas = v) :
    e = piece c m .tas ++ e1 ∧ (∀ t ∈ m.tas, Spec.Codec.wfTA t = true) := by
  rcases withExt_eq hx with ⟨ho, hv⟩ | ⟨d, ho, hf⟩
  · subst ho
    have hn : m.tas = [] := by rw [hm, hv]
    rcases optExt_eq (by decide) h1 with ⟨_, he⟩ | ⟨d, ho, _, _⟩
    · exact ⟨by simp [piece, cOn, hn, he], by simp [hn]⟩
    · cases ho
  · subst ho
    rcases optExt_eq (by decide) h1 with ⟨ho, _⟩ | ⟨d', ho, he, hl⟩
    · cases ho
    · simp only [Option.some.injEq] at ho
      subst ho
      unfold Spec.Codec.cTasOf at hf
      cases hi : Spec.Codec.inVec16 d with
      | none => rw [hi] at hf; simp at hf
      | some lst =>
        rw [hi] at hf
        simp only [Option.bind_some] at hf
        obtain ⟨hd, hp, hll⟩ := inVec16_eq hi
        have hlst := many_eq_some Spec.Codec.strictTA taEnc (fun s x r hh => (strictTA_eq hh).1) _ _ _ hf
        have hall := many_all Spec.Codec.strictTA (fun t => Spec.Codec.wfTA t = true) (fun s x r hh => (strictTA_eq hh).2) _ _ _ hf
        have hpos := many_nonempty hf hp
        have hnm : m.tas = v := hm
        refine ⟨?_, by rw [hnm]; exact hall⟩
        rw [he, hd, hlst]
        simp [piece, cOn, cEnc, hnm, hpos, wrap2, hc.tca]

theorem piece_status (c : Codes) (hc : HelloCodes c) {o : Option Bytes} {e e1 : Bytes} {v : Bool}
    (h1 : Spec.Codec.optExt 5 e = some (o, e1)) (hx : Spec.Codec.withExt o false Spec.Codec.cStatusOf = some v)
    (m : ClientHello) (hm : m.ocsp = v) : e = piece c m .status ++ e1 := by
  rcases withExt_eq hx with ⟨ho, hv⟩ | ⟨d, ho, hf⟩
  · subst ho
    have hn : m.ocsp = false := by rw [hm, hv]
    rcases optExt_eq (by decide) h1 with ⟨_, he⟩ | ⟨d, ho, _, _⟩
    · simp [piece, cOn, hn, he]
    · cases ho
  · subst ho
    rcases optExt_eq (by decide) h1 with ⟨ho, _⟩ | ⟨d', ho, he, hl⟩
    · cases ho
    · simp only [Option.some.injEq] at ho
      subst ho
      unfold Spec.Codec.cStatusOf at hf
      split at hf
      · rename_i hd
        simp only [Option.some.injEq] at hf
        have hn : m.ocsp = true := by rw [hm, ← hf]
        rw [he, hd]
        simp [piece, cOn, cEnc, hn, statusExt, hc.status]
      · cases hf

theorem readW16_eq' (s : Bytes) (x : W16) (r : Bytes) (h : readW16 s = some (x, r)) : s = W16.bytes x ++ r :=
  readW16_eq_some h

theorem piece_w16s (c : Codes) (code : Nat) (hcode : code < 65536) (x : CExt) (get : ClientHello → List W16)
    (hx1 : ∀ m, cOn m x = decide ((get m).length > 0))
    (hx2 : ∀ m, cEnc c m x = wrap2 code (w16s (get m)))
    {o : Option Bytes} {e e1 : Bytes} {v : List W16}
    (h1 : Spec.Codec.optExt code e = some (o, e1)) (hx : Spec.Codec.withExt o [] Spec.Codec.cW16sOf = some v)
    (m : ClientHello) (hm : get m = v) : e = piece c m x ++ e1 := by
  rcases withExt_eq hx with ⟨ho, hv⟩ | ⟨d, ho, hf⟩
  · subst ho
    have hn : get m = [] := by rw [hm, hv]
    rcases optExt_eq hcode h1 with ⟨_, he⟩ | ⟨d, ho, _, _⟩
    · simp [piece, hx1, hn, he]
    · cases ho
  · subst ho
    rcases optExt_eq hcode h1 with ⟨ho, _⟩ | ⟨d', ho, he, hl⟩
    · cases ho
    · simp only [Option.some.injEq] at ho
      subst ho
      unfold Spec.Codec.cW16sOf at hf
      cases hi : Spec.Codec.inVec16 d with
      | none => rw [hi] at hf; simp at hf
      | some lst =>
        rw [hi] at hf
        simp only [Option.bind_some] at hf
        obtain ⟨hd, hp, hll⟩ := inVec16_eq hi
        have hlst := many_eq_some readW16 W16.bytes readW16_eq' _ _ _ hf
        have hpos := many_nonempty hf hp
        rw [he, hd, hlst]
        simp only [piece, hx1, hx2, hm, hpos, decide_true, ↓reduceIte, wrap2, w16s, List.append_assoc]

theorem piece_alpn (c : Codes) (hc : HelloCodes c) {o : Option Bytes} {e e1 : Bytes} {v : List Bytes}
    (h1 : Spec.Codec.optExt 16 e = some (o, e1)) (hx : Spec.Codec.withExt o [] Spec.Codec.cAlpnOf = some v)
    (m : ClientHello) (hm : m.alpn = v) : e = piece c m .alpn ++ e1 ∧ (∀ p ∈ m.alpn, AlpnOk p) := by
  rcases withExt_eq hx with ⟨ho, hv⟩ | ⟨d, ho, hf⟩
  · subst ho
    have hn : m.alpn = [] := by rw [hm, hv]
    rcases optExt_eq (by decide) h1 with ⟨_, he⟩ | ⟨d, ho, _, _⟩
    · exact ⟨by simp [piece, cOn, hn, he], by simp [hn]⟩
    · cases ho
  · subst ho
    rcases optExt_eq (by decide) h1 with ⟨ho, _⟩ | ⟨d', ho, he, hl⟩
    · cases ho
    · simp only [Option.some.injEq] at ho
      subst ho
      unfold Spec.Codec.cAlpnOf at hf
      cases hi : Spec.Codec.inVec16 d with
      | none => rw [hi] at hf; simp at hf
      | some lst =>
        rw [hi] at hf
        simp only [Option.bind_some] at hf
        obtain ⟨hd, hp, hll⟩ := inVec16_eq hi
        have hlst := many_eq_some Spec.Codec.nonEmptyVec8 alpnEnc
          (fun s x r hh => by rw [(nonEmptyVec8_eq_some hh).1]; simp [alpnEnc]) _ _ _ hf
        have hall := many_all Spec.Codec.nonEmptyVec8 AlpnOk (fun s x r hh => (nonEmptyVec8_eq_some hh).2) _ _ _ hf
        have hpos := many_nonempty hf hp
        refine ⟨?_, by rw [hm]; exact hall⟩
        rw [he, hd, hlst]
        simp [piece, cOn, cEnc, hm, hpos, wrap2, hc.alpn]

theorem piece_cid (c : Codes) (hc : HelloCodes c) {o : Option Bytes} {e e1 : Bytes} {v : Bytes}
    (h1 : Spec.Codec.optExt 66 e = some (o, e1)) (hx : Spec.Codec.withExt o [] Spec.Codec.inVec16 = some v)
    (m : ClientHello) (hm : m.clientId = v) : e = piece c m .cid ++ e1 := by
  rcases withExt_eq hx with ⟨ho, hv⟩ | ⟨d, ho, hf⟩
  · subst ho
    have hn : m.clientId = [] := by rw [hm, hv]
    rcases optExt_eq (by decide) h1 with ⟨_, he⟩ | ⟨d, ho, _, _⟩
    · simp [piece, cOn, hn, he]
    · cases ho
  · subst ho
    rcases optExt_eq (by decide) h1 with ⟨ho, _⟩ | ⟨d', ho, he, hl⟩
    · cases ho
    · simp only [Option.some.injEq] at ho
      subst ho
      obtain ⟨hd, hp, hll⟩ := inVec16_eq hf
      rw [he, hd]
      simp [piece, cOn, cEnc, hm, hp, wrap2, hc.cid]

theorem pieces_concat (c : Codes) (m : ClientHello) :
    concatMap (cEnc c m) (cAll.filter (cOn m)) =
      piece c m .sni ++ (piece c m .tas ++ (piece c m .status ++ (piece c m .curves ++ (piece c m .sigs ++
        (piece c m .alpn ++ piece c m .cid))))) := by
  rw [concatMap_filter]
  simp [cAll, concatMap, piece]

/-- the strict client extension block is the encoder's block for the decoded fields -/
theorem strictClientExts_eq (c : Codes) (hc : HelloCodes c) {e : Bytes} {x : Spec.Codec.ClientExts} (m : ClientHello)
    (hm : m.serverName = x.serverName ∧ m.tas = x.tas ∧ m.ocsp = x.ocsp ∧ m.curves = x.curves ∧
      m.sigAlgs = x.sigAlgs ∧ m.alpn = x.alpn ∧ m.clientId = x.clientId)
    (h : Spec.Codec.strictClientExts e = some x) :
    e = concatMap (cEnc c m) (cAll.filter (cOn m)) ∧ Spec.Codec.noTrailingDot m.serverName = true ∧
      (∀ t ∈ m.tas, Spec.Codec.wfTA t = true) ∧ (∀ p ∈ m.alpn, AlpnOk p) := by
  obtain ⟨m1, m2, m3, m4, m5, m6, m7⟩ := hm
  unfold Spec.Codec.strictClientExts at h
  cases a1 : Spec.Codec.optExt 0 e with
  | none => rw [a1] at h; cases h
  | some p1 =>
    obtain ⟨o1, e1⟩ := p1
    rw [a1] at h; simp only at h
    cases b1 : Spec.Codec.withExt o1 [] Spec.Codec.cSniOf with
    | none => rw [b1] at h; cases h
    | some v1 =>
    rw [b1] at h; simp only at h
    cases a2 : Spec.Codec.optExt 3 e1 with
    | none => rw [a2] at h; cases h
    | some p2 =>
    obtain ⟨o2, e2⟩ := p2
    rw [a2] at h; simp only at h
    cases b2 : Spec.Codec.withExt o2 [] Spec.Codec.cTasOf with
    | none => rw [b2] at h; cases h
    | some v2 =>
    rw [b2] at h; simp only at h
    cases a3 : Spec.Codec.optExt 5 e2 with
    | none => rw [a3] at h; cases h
    | some p3 =>
    obtain ⟨o3, e3⟩ := p3
    rw [a3] at h; simp only at h
    cases b3 : Spec.Codec.withExt o3 false Spec.Codec.cStatusOf with
    | none => rw [b3] at h; cases h
    | some v3 =>
    rw [b3] at h; simp only at h
    cases a4 : Spec.Codec.optExt 10 e3 with
    | none => rw [a4] at h; cases h
    | some p4 =>
    obtain ⟨o4, e4⟩ := p4
    rw [a4] at h; simp only at h
    cases b4 : Spec.Codec.withExt o4 [] Spec.Codec.cW16sOf with
    | none => rw [b4] at h; cases h
    | some v4 =>
    rw [b4] at h; simp only at h
    cases a5 : Spec.Codec.optExt 13 e4 with
    | none => rw [a5] at h; cases h
    | some p5 =>
    obtain ⟨o5, e5⟩ := p5
    rw [a5] at h; simp only at h
    cases b5 : Spec.Codec.withExt o5 [] Spec.Codec.cW16sOf with
    | none => rw [b5] at h; cases h
    | some v5 =>
    rw [b5] at h; simp only at h
    cases a6 : Spec.Codec.optExt 16 e5 with
    | none => rw [a6] at h; cases h
    | some p6 =>
    obtain ⟨o6, e6⟩ := p6
    rw [a6] at h; simp only at h
    cases b6 : Spec.Codec.withExt o6 [] Spec.Codec.cAlpnOf with
    | none => rw [b6] at h; cases h
    | some v6 =>
    rw [b6] at h; simp only at h
    cases a7 : Spec.Codec.optExt 66 e6 with
    | none => rw [a7] at h; cases h
    | some p7 =>
    obtain ⟨o7, e7⟩ := p7
    rw [a7] at h; simp only at h
    cases b7 : Spec.Codec.withExt o7 [] Spec.Codec.inVec16 with
    | none => rw [b7] at h; cases h
    | some v7 =>
    rw [b7] at h; simp only at h
    split at h
    · rename_i he7
      simp only [Option.some.injEq] at h
      subst h
      simp only at m1 m2 m3 m4 m5 m6 m7
      have he7' : e7 = [] := (isNil_iff e7).mp he7
      subst he7'
      obtain ⟨q1, d1⟩ := piece_sni c hc a1 b1 m m1
      obtain ⟨q2, d2⟩ := piece_tas c hc a2 b2 m m2
      have q3 := piece_status c hc a3 b3 m m3
      have q4 := piece_w16s c 10 (by decide) .curves (fun m => m.curves) (fun _ => rfl)
        (fun m => by simp [cEnc, hc.curves]) a4 b4 m m4
      have q5 := piece_w16s c 13 (by decide) .sigs (fun m => m.sigAlgs) (fun _ => rfl)
        (fun m => by simp [cEnc, hc.sigs]) a5 b5 m m5
      obtain ⟨q6, d6⟩ := piece_alpn c hc a6 b6 m m6
      have q7 := piece_cid c hc a7 b7 m m7
      refine ⟨?_, d1, d2, d6⟩
      rw [pieces_concat, q1, q2, q3, q4, q5, q6, q7, List.append_nil]
    · cases h

theorem chwf_wf {st : Stack} {m : ClientHello} (hw : CHwf (decide (st = .dtlcp)) m) :
    Spec.Codec.wfClientHello st m = true := by
  have hck := hw.cookie
  simp only [Spec.Codec.wfClientHello, Bool.and_eq_true, beq_iff_eq, decide_eq_true_eq, Spec.Codec.allB,
    List.all_eq_true]
  refine ⟨⟨⟨⟨⟨⟨⟨⟨hw.rnd, hw.sid⟩, ?_⟩, hw.suites⟩, hw.comp⟩, hw.dot⟩, hw.tas⟩, fun p hp => hw.alpn p hp⟩, hw.total⟩
  cases st
  · simp only [reduceCtorEq, decide_false, Bool.false_eq_true, ↓reduceIte] at hck
    simp [hck]
  · simp only [decide_true, ↓reduceIte] at hck
    simp [hck]

/-- stack-independent part: header, then a body that is the encoder's body for well-formed fields -/
theorem strictClientHello_parts (c : Codes) (hc : HelloCodes c) {st : Stack} {b : Bytes} {h : DHdr} {m : ClientHello}
    (hs : Spec.Codec.strictClientHello st b = some (h, m)) :
    ∃ body, Spec.Codec.strictHeader st .clientHello b = some (h, body) ∧ CHwf (decide (st = .dtlcp)) m ∧
      encClientHelloBody c (decide (st = .dtlcp)) m = some body := by
  unfold Spec.Codec.strictClientHello at hs
  cases hsh : Spec.Codec.strictHeader st .clientHello b with
  | none => rw [hsh] at hs; cases hs
  | some p =>
    obtain ⟨hd, body⟩ := p
    rw [hsh] at hs; simp only at hs
    cases h1 : readW16 body with
    | none => rw [h1] at hs; cases hs
    | some p1 =>
    obtain ⟨vers, s1⟩ := p1
    rw [h1] at hs; simp only at hs
    cases h2 : readBytes 32 s1 with
    | none => rw [h2] at hs; cases hs
    | some p2 =>
    obtain ⟨rnd, s2⟩ := p2
    rw [h2] at hs; simp only at hs
    cases h3 : readVec8 s2 with
    | none => rw [h3] at hs; cases hs
    | some p3 =>
    obtain ⟨sid, s3⟩ := p3
    rw [h3] at hs; simp only at hs
    cases h4 : Spec.Codec.readCookie st s3 with
    | none => rw [h4] at hs; cases hs
    | some p4 =>
    obtain ⟨ck, s4⟩ := p4
    rw [h4] at hs; simp only at hs
    cases h5 : Spec.Codec.nonEmptyVec16 s4 with
    | none => rw [h5] at hs; cases hs
    | some p5 =>
    obtain ⟨csb, s5⟩ := p5
    rw [h5] at hs; simp only at hs
    cases h6 : many readW16 csb.length csb with
    | none => rw [h6] at hs; cases hs
    | some suites =>
    rw [h6] at hs; simp only at hs
    cases h7 : Spec.Codec.nonEmptyVec8 s5 with
    | none => rw [h7] at hs; cases hs
    | some p7 =>
    obtain ⟨cm, s6⟩ := p7
    rw [h7] at hs; simp only at hs
    cases h8 : Spec.Codec.strictExtBlock s6 with
    | none => rw [h8] at hs; cases hs
    | some e =>
    rw [h8] at hs; simp only at hs
    cases h9 : Spec.Codec.strictClientExts e with
    | none => rw [h9] at hs; cases hs
    | some x =>
    rw [h9] at hs; simp only at hs
    split at hs
    · rename_i h10
      simp only [Option.some.injEq, Prod.mk.injEq] at hs
      obtain ⟨hh, hm⟩ := hs
      subst hm; subst hh
      obtain ⟨he, hdot, htas, halpn⟩ := strictClientExts_eq c hc
        ⟨vers, rnd, sid, ck, suites, cm, x.serverName, x.tas, x.ocsp, x.curves, x.sigAlgs, x.alpn, x.clientId⟩
        ⟨rfl, rfl, rfl, rfl, rfl, rfl, rfl⟩ h9
      obtain ⟨hs1, hrl⟩ := readBytes_eq_some h2
      obtain ⟨hs2, hsidl⟩ := readVec8_eq_some h3
      obtain ⟨hs4, hcs0, hcsl⟩ := nonEmptyVec16_eq_some h5
      obtain ⟨hs5, hcm0, hcml⟩ := nonEmptyVec8_eq_some h7
      have hcsb := many_eq_some readW16 W16.bytes readW16_eq' _ _ _ h6
      have hcsb' : csb = w16s suites := hcsb
      have hsl : (w16s suites).length < 65536 := by rw [← hcsb']; exact hcsl
      have hsn : 0 < suites.length ∧ suites.length < 32768 := by
        have := w16s_length suites
        rw [hcsb'] at hcs0
        omega
      have hlen := cE_length c
        ⟨vers, rnd, sid, ck, suites, cm, x.serverName, x.tas, x.ocsp, x.curves, x.sigAlgs, x.alpn, x.clientId⟩
      have hex : extBlock e = some s6 ∧ e.length < 65536 := by
        rcases strictExtBlock_eq h8 with ⟨a, b'⟩ | ⟨a, b', cc⟩
        · subst a; subst b'; exact ⟨by simp [extBlock], by simp⟩
        · have hp : e.length > 0 := List.length_pos_iff.mpr a
          exact ⟨by simp only [extBlock, hp, ↓reduceIte, vec16_of_lt cc, b'], cc⟩
      -- the cookie vector, by stack
      have hck : (if decide (st = .dtlcp) = true then ck.length < 256 else ck = []) ∧
          ∃ ckb, optBytes (decide (st = .dtlcp)) (vec8 ck) = some ckb ∧ s3 = ckb ++ s4 := by
        cases st with
        | tlcp =>
          simp only [Spec.Codec.readCookie, Option.some.injEq, Prod.mk.injEq] at h4
          obtain ⟨c1, c2⟩ := h4
          subst c1; subst c2
          exact ⟨by simp, [], by simp [optBytes], by simp⟩
        | dtlcp =>
          simp only [Spec.Codec.readCookie] at h4
          obtain ⟨c1, c2⟩ := readVec8_eq_some h4
          exact ⟨by simp [c2], u8 ck.length :: ck, by simp [optBytes, vec8_of_lt c2], by rw [c1]⟩
      obtain ⟨hck1, ckb, hck2, hck3⟩ := hck
      have hw : CHwf (decide (st = .dtlcp))
          ⟨vers, rnd, sid, ck, suites, cm, x.serverName, x.tas, x.ocsp, x.curves, x.sigAlgs, x.alpn, x.clientId⟩ :=
        ⟨hrl, h10, hck1, hsn, ⟨hcm0, hcml⟩, hdot, htas, halpn, by rw [← hlen, ← he]; exact hex.2⟩
      refine ⟨body, rfl, hw, ?_⟩
      have hbody : body = vers.bytes ++ rnd ++ (u8 sid.length :: sid) ++ ckb ++ (be16 (w16s suites).length ++ w16s suites) ++
          (u8 cm.length :: cm) ++ s6 := by
        rw [readW16_eq_some h1, hs1, hs2, hck3, hs4, hs5, hcsb']
        simp [caItem]
      have hrl' : rnd.length = c.randomLen := by rw [hc.rnd]; exact hrl
      rw [hbody]
      simp only [encClientHelloBody, encClientExtensions_eq c hc _ _ hw, ← he, exactly, hrl', ↓reduceIte,
        vec8_of_lt hsidl, hck2, vec16_of_lt hsl, vec8_of_lt hcml, hex.1]
    · cases hs

theorem canon_clientHello_tlcp (c : Codes) (hc : HelloCodes c) (hm1 : c.curvesMode ≤ 1) (hm2 : c.sigAlgsMode ≤ 1)
    (ht : c.tClientHello = 1) {b : Bytes} {h : DHdr} {m : ClientHello}
    (hs : Spec.Codec.strictClientHello .tlcp b = some (h, m)) :
    encClientHello c m = some b ∧ unmarshalClientHello c b = .ok m ∧ Spec.Codec.wfClientHello .tlcp m = true := by
  obtain ⟨body, hsh, hw, henc⟩ := strictClientHello_parts c hc hs
  obtain ⟨hb, hl, _⟩ := strictHeader_tlcp_eq hsh
  have hk : Kind.clientHello.code = c.tClientHello := by rw [ht]; rfl
  rw [hk] at hb
  have hd : decide (Stack.tlcp = Stack.dtlcp) = false := by decide
  rw [hd] at hw henc
  obtain ⟨body', e1, e2, e3⟩ := rt_clientHelloBody c hc hm1 hm2 false _ hw
  rw [henc] at e1
  simp only [Option.some.injEq] at e1
  subst e1
  refine ⟨by simp only [encClientHello, henc, vec24_of_lt hl, hb], ?_, chwf_wf (st := .tlcp) (by rw [hd]; exact hw)⟩
  rw [hb, unmarshalClientHello, guardT_pass _ _ hl, decClientHello, skip4]
  simp only [e2]; rfl

theorem canon_clientHello_dtlcp (c : Codes) (hc : HelloCodes c) (hm1 : c.curvesMode ≤ 1) (hm2 : c.sigAlgsMode ≤ 1)
    (r : Lemmas.CodecDtlcp.Ready c c.tClientHello) (ht : c.tClientHello = 1) {b : Bytes} {h : DHdr} {m : ClientHello}
    (hs : Spec.Codec.strictClientHello .dtlcp b = some (h, m)) :
    Model.CodecDtlcp.encClientHello c h m = some b ∧ Model.CodecDtlcp.decClientHello c b = .ok (h, m) ∧
      Spec.Codec.wfClientHello .dtlcp m = true := by
  obtain ⟨body, hsh, hw, henc⟩ := strictClientHello_parts c hc hs
  obtain ⟨hb, hl, hh⟩ := Lemmas.CodecDtlcp.strictHeader_dtlcp_eq hsh
  have hk : Kind.clientHello.code = c.tClientHello := by rw [ht]; rfl
  rw [hk] at hb
  have hd : decide (Stack.dtlcp = Stack.dtlcp) = true := by decide
  rw [hd] at hw henc
  obtain ⟨body', e1, e2, e3⟩ := rt_clientHelloBody c hc hm1 hm2 true _ hw
  rw [henc] at e1
  simp only [Option.some.injEq] at e1
  subst e1
  have hwd := Lemmas.CodecDtlcp.wfDHdr_of_strict hh hl
  refine ⟨?_, ?_, chwf_wf (st := .dtlcp) (by rw [hd]; exact hw)⟩
  · simp only [Model.CodecDtlcp.encClientHello, henc, Lemmas.CodecDtlcp.header_complete _ _ _ hwd, hb]
  · rw [hb]
    unfold Model.CodecDtlcp.decClientHello
    rw [Lemmas.CodecDtlcp.guard_pass c r.hl _ _ hl, Lemmas.CodecDtlcp.unmarshalHeader_complete _ _ hl]
    simp only [e2]
    simp
    exact hh.symm

end Gotlcp.Lemmas.CodecHelloCanon

/-
Helper lemmas for C06, receiving side (model `Gotlcp.Model.RecordRx`).
-/
import Gotlcp.Model.RecordRxStream

set_option linter.unusedSimpArgs false
set_option linter.unusedVariables false

namespace Gotlcp.Lemmas.C06Rx
open Gotlcp.Model.RecordRx
open Gotlcp

/-! ### `readFromUntil` over a chunked transport -/

/-- `atLeastReader.Read` as written (with the `r.N > 0 &&` guard) -/
theorem atLeast_guarded (need got : Nat) (eof : Bool) :
    atLeast true need got eof = if got < need then (if eof then .short else .more) else .done := by
  unfold atLeast
  cases eof <;> simp
  · by_cases h : got < need
    · simp [h]
    · simp [h]

theorem fill_all (g e x : Bool) (n : Nat) : ∀ (cs : List Bytes) (raw : Bytes),
    (fill g e x n raw cs).1 ++ (fill g e x n raw cs).2.1.flatten = raw ++ cs.flatten := by
  intro cs
  induction cs with
  | nil => intro raw; simp [fill]
  | cons c cs ih =>
    intro raw
    simp only [fill]
    split
    · rfl
    · split
      · rfl
      · split
        · rw [ih]; simp
        · simp
        · simp

/-- the guarded reader over a transport whose deadline has not passed: success iff the bytes are
there — whether the end of the stream comes with the last chunk (`e`) or separately -/
theorem fill_ok (e : Bool) (n : Nat) : ∀ (cs : List Bytes) (raw : Bytes),
    (fill true e false n raw cs).2.2 = decide (n ≤ (raw ++ cs.flatten).length) := by
  intro cs
  induction cs with
  | nil => intro raw; simp [fill]
  | cons c cs ih =>
    intro raw
    simp only [fill]
    split
    · rename_i h
      simp only [List.length_append, List.flatten_cons]
      simp; omega
    · rename_i h
      simp only [Bool.false_eq_true, ↓reduceIte, atLeast_guarded]
      by_cases h1 : c.length < n - raw.length
      · simp only [h1, ↓reduceIte]
        cases he : (e && cs.isEmpty)
        · simp only [Bool.false_eq_true, ↓reduceIte]
          rw [ih]; simp
        · simp only [↓reduceIte]
          have hc : cs = [] := by
            have := (Bool.and_eq_true _ _).mp he
            exact List.isEmpty_iff.mp this.2
          subst hc
          simp; omega
      · simp only [h1, ↓reduceIte]
        simp; omega

theorem fill_len (e : Bool) (n : Nat) : ∀ (cs : List Bytes) (raw : Bytes),
    (fill true e false n raw cs).2.2 = true → n ≤ (fill true e false n raw cs).1.length := by
  intro cs
  induction cs with
  | nil => intro raw h; simpa [fill] using h
  | cons c cs ih =>
    intro raw h
    simp only [fill] at h ⊢
    split
    · assumption
    · rename_i hn
      simp only [hn, ↓reduceIte, Bool.false_eq_true, atLeast_guarded] at h ⊢
      by_cases h1 : c.length < n - raw.length
      · simp only [h1, ↓reduceIte] at h ⊢
        cases he : (e && cs.isEmpty)
        · simp only [he, Bool.false_eq_true, ↓reduceIte] at h ⊢
          exact ih _ h
        · simp [he] at h
      · simp only [h1, ↓reduceIte, List.length_append]
        omega

theorem fill_fail_nil (e : Bool) (n : Nat) : ∀ (cs : List Bytes) (raw : Bytes),
    (fill true e false n raw cs).2.2 = false → (fill true e false n raw cs).2.1 = [] := by
  intro cs
  induction cs with
  | nil => intro raw _; simp [fill]
  | cons c cs ih =>
    intro raw h
    simp only [fill] at h ⊢
    split
    · rename_i hn; simp [hn] at h
    · rename_i hn
      simp only [hn, ↓reduceIte, Bool.false_eq_true, atLeast_guarded] at h ⊢
      by_cases h1 : c.length < n - raw.length
      · simp only [h1, ↓reduceIte] at h ⊢
        cases he : (e && cs.isEmpty)
        · simp only [he, Bool.false_eq_true, ↓reduceIte] at h ⊢
          exact ih _ h
        · simp only [↓reduceIte]
          have := (Bool.and_eq_true _ _).mp he
          exact List.isEmpty_iff.mp this.2
      · simp [h1] at h

/-- the buffered bytes are a prefix of everything still to come -/
theorem prefix_take {a b : Bytes} (w : Bytes) (h : a ++ b = w) (n : Nat) (hn : n ≤ a.length) :
    a.take n = w.take n := by
  rw [← h, List.take_append_of_le_length hn]

theorem prefix_getD {a b : Bytes} (w : Bytes) (h : a ++ b = w) (i : Nat) (hi : i < a.length) :
    a.getD i 0 = w.getD i 0 := by
  rw [← h]
  simp [List.getD, List.getElem?_append_left hi]

theorem prefix_drop {a b : Bytes} (w : Bytes) (h : a ++ b = w) (n : Nat) (hn : n ≤ a.length) :
    a.drop n ++ b = w.drop n := by
  rw [← h, List.drop_append_of_le_length hn]

/-! ### framing depends only on the byte stream, not on how it is chunked -/

/-- the pure reading of one record off a byte string -/
def parseOne (P : Params) (w : Bytes) : FrameRes × Bytes :=
  if w.length < P.recordHeaderLen then
    (.err (if w.length = 0 then .eof else .unexpectedEOF), w)
  else
    let typ := w.getD 0 0
    let vers := be16 (w.getD 1 0) (w.getD 2 0)
    let n := be16 (w.getD 3 0) (w.getD 4 0)
    if vers ≠ P.version then (.err .badVersion, w)
    else if P.maxCiphertext < n then (.err .recordOverflow, w)
    else if w.length < P.recordHeaderLen + n then (.err .unexpectedEOF, w)
    else (.frame typ ((w.take (P.recordHeaderLen + n)).drop P.recordHeaderLen), w.drop (P.recordHeaderLen + n))

theorem Raw.all_mk (r : Raw) (a : Bytes) (b : List Bytes) :
    ({ r with raw := a, chunks := b } : Raw).all = a ++ b.flatten := rfl

/-- framing never touches the transport's flags -/
theorem nextFrame_flags (P : Params) (r : Raw) :
    (nextFrame P r).2.expired = r.expired ∧ (nextFrame P r).2.eofWithLast = r.eofWithLast := by
  unfold nextFrame
  dsimp only
  repeat' split
  all_goals exact ⟨rfl, rfl⟩

/-- with the reader as written (`hg`) and a transport whose read deadline has not passed (`hx`),
framing is a function of the bytes still to come — however they are chunked and whether the end of
the stream is reported with the last chunk or after it -/
theorem nextFrame_parse (P : Params) (h5 : 5 ≤ P.recordHeaderLen) (hg : P.eofShortOnlyWhenShort = true)
    (r : Raw) (hx : r.expired = false) :
    (nextFrame P r).1 = (parseOne P r.all).1 ∧ (nextFrame P r).2.all = (parseOne P r.all).2 := by
  have ha1 : (fill true r.eofWithLast false P.recordHeaderLen r.raw r.chunks).1 ++
      (fill true r.eofWithLast false P.recordHeaderLen r.raw r.chunks).2.1.flatten = r.all :=
    fill_all true r.eofWithLast false P.recordHeaderLen r.chunks r.raw
  have ho1 : (fill true r.eofWithLast false P.recordHeaderLen r.raw r.chunks).2.2 = decide (P.recordHeaderLen ≤ r.all.length) :=
    fill_ok r.eofWithLast P.recordHeaderLen r.chunks r.raw
  unfold nextFrame parseOne
  simp only [Raw.fill, Raw.failure, hg, hx]
  generalize r.all = w at *
  try simp only []
  cases hf1 : (fill true r.eofWithLast false P.recordHeaderLen r.raw r.chunks).2.2 with
  | false =>
    have hnil := fill_fail_nil _ _ _ _ hf1
    rw [hf1] at ho1
    have hlt : w.length < P.recordHeaderLen := by
      have := ho1.symm; simp only [decide_eq_false_iff_not] at this; omega
    rw [hnil] at ha1
    simp only [List.flatten_nil, List.append_nil] at ha1
    simp only [Bool.not_false, ↓reduceIte, hlt, Raw.all_mk, hnil, ha1, List.flatten_nil, List.append_nil,
      Bool.false_eq_true]
    exact ⟨trivial, by simp [Raw.all]⟩
  | true =>
    have hl1 := fill_len _ _ _ _ hf1
    rw [hf1] at ho1
    have hge : ¬ w.length < P.recordHeaderLen := by
      have := ho1.symm; simp only [decide_eq_true_eq] at this; omega
    have g : ∀ i, i < 5 → (fill true r.eofWithLast false P.recordHeaderLen r.raw r.chunks).1.getD i 0 = w.getD i 0 :=
      fun i hi => prefix_getD w ha1 i (by omega)
    simp only [Bool.not_true, Bool.false_eq_true, ↓reduceIte, hge, g 0 (by omega), g 1 (by omega),
      g 2 (by omega), g 3 (by omega), g 4 (by omega), Raw.all_mk]
    split
    · exact ⟨rfl, ha1⟩
    · split
      · exact ⟨rfl, ha1⟩
      · -- body
        generalize hn : be16 (w.getD 3 0) (w.getD 4 0) = n
        have ha2 := fill_all true r.eofWithLast false (P.recordHeaderLen + n)
          (fill true r.eofWithLast false P.recordHeaderLen r.raw r.chunks).2.1
          (fill true r.eofWithLast false P.recordHeaderLen r.raw r.chunks).1
        have ho2 := fill_ok r.eofWithLast (P.recordHeaderLen + n)
          (fill true r.eofWithLast false P.recordHeaderLen r.raw r.chunks).2.1
          (fill true r.eofWithLast false P.recordHeaderLen r.raw r.chunks).1
        rw [ha1] at ha2
        rw [ha1] at ho2
        cases hf2 : (fill true r.eofWithLast false (P.recordHeaderLen + n)
            (fill true r.eofWithLast false P.recordHeaderLen r.raw r.chunks).1
            (fill true r.eofWithLast false P.recordHeaderLen r.raw r.chunks).2.1).2.2 with
        | false =>
          have hnil := fill_fail_nil _ _ _ _ hf2
          rw [hf2] at ho2
          have hlt : w.length < P.recordHeaderLen + n := by
            have := ho2.symm; simp only [decide_eq_false_iff_not] at this; omega
          rw [hnil] at ha2
          simp only [List.flatten_nil, List.append_nil] at ha2
          simp only [Bool.not_false, ↓reduceIte, hlt, hnil, ha2, List.flatten_nil, List.append_nil]
          exact ⟨trivial, by simp [Raw.all]⟩
        | true =>
          have hl2 := fill_len _ _ _ _ hf2
          rw [hf2] at ho2
          have hge2 : ¬ w.length < P.recordHeaderLen + n := by
            have := ho2.symm; simp only [decide_eq_true_eq] at this; omega
          simp only [Bool.not_true, Bool.false_eq_true, ↓reduceIte, hge2]
          refine ⟨?_, ?_⟩
          · rw [prefix_take w ha2 _ hl2]
          · exact prefix_drop w ha2 _ hl2

/-- **segmentation independence of framing**: two transports carrying the same bytes yield the
same frames and the same final condition -/
theorem frames_indep (P : Params) (h5 : 5 ≤ P.recordHeaderLen) (hg : P.eofShortOnlyWhenShort = true) :
    ∀ (fuel : Nat) (r1 r2 : Raw), r1.expired = false → r2.expired = false →
      r1.all = r2.all → frames P fuel r1 = frames P fuel r2 := by
  intro fuel
  induction fuel with
  | zero => intro r1 r2 _ _ _; rfl
  | succ fuel ih =>
    intro r1 r2 hx1 hx2 h
    obtain ⟨a1, b1⟩ := nextFrame_parse P h5 hg r1 hx1
    obtain ⟨a2, b2⟩ := nextFrame_parse P h5 hg r2 hx2
    have e1 := (nextFrame_flags P r1).1
    have e2 := (nextFrame_flags P r2).1
    rw [h] at a1 b1
    simp only [frames]
    cases h1 : nextFrame P r1 with
    | mk f1 r1' =>
      cases h2 : nextFrame P r2 with
      | mk f2 r2' =>
        rw [h1] at a1 b1 e1
        rw [h2] at a2 b2 e2
        simp only [] at a1 b1 a2 b2 e1 e2
        have hf : f1 = f2 := by rw [a1, a2]
        subst hf
        cases f1 with
        | err e => rfl
        | frame t b =>
          simp only []
          rw [ih r1' r2' (by rw [e1, hx1]) (by rw [e2, hx2]) (by rw [b1, b2])]

/-! ### `Conn.Read` on the stream an honest sender produces -/

/-- the constants the argument needs (all pinned by `C06_facts`) -/
structure ParamsOK (P : Params) : Prop where
  hdr : P.recordHeaderLen = 5
  alertNeApp : P.typeAlert ≠ P.typeAppData
  appNeCCS : P.typeAppData ≠ P.typeCCS
  two : 2 ≤ P.maxPlaintext
  /-- `atLeastReader.Read` as written: `if r.N > 0 && err == io.EOF` -/
  guard : P.eofShortOnlyWhenShort = true

/-- `w` is what an honest peer sent from read sequence number `seq` on: one application-data
record per element of `ps` (non-empty, within the plaintext limit, accepted by `dec`), then —
if `closed` — a close-notify alert, then nothing the reader will look at; without a
close-notify the stream just ends. `ta`/`tl` are the record-type bytes, `cn` the alert code. -/
def Honest (P : Params) (dec : Dec) (ta tl cn : UInt8) : Nat → Bytes → List Bytes → Bool → Prop
  | _, w, [], false => w = []
  | seq, w, [], true => ∃ body w' lvl, parseOne P w = (.frame tl body, w') ∧ dec seq tl body = some [lvl, cn]
  | seq, w, p :: ps, c => ∃ body w', parseOne P w = (.frame ta body, w') ∧ dec seq ta body = some p ∧
      0 < p.length ∧ p.length ≤ P.maxPlaintext ∧ Honest P dec ta tl cn (seq + 1) w' ps c

theorem parseOne_typ (P : Params) (h5 : 5 ≤ P.recordHeaderLen) (w : Bytes) (t : UInt8) (b w' : Bytes)
    (h : parseOne P w = (.frame t b, w')) : w.getD 0 0 = t ∧ 0 < w.length := by
  unfold parseOne at h
  split at h
  · simp at h
  · rename_i hl
    simp only [] at h
    split at h
    · simp at h
    · split at h
      · simp at h
      · split at h
        · simp at h
        · simp only [Prod.mk.injEq, FrameRes.frame.injEq] at h
          exact ⟨h.1.1, by omega⟩

theorem parseOne_nil (P : Params) (h5 : 5 ≤ P.recordHeaderLen) : parseOne P [] = (.err .eof, []) := by
  unfold parseOne
  have : ([] : Bytes).length < P.recordHeaderLen := by simp; omega
  rw [if_pos this]; simp

/-- one pass over an application-data record of an honest stream -/
theorem readOne_app (P : Params) (dec : Dec) (ok : ParamsOK P) (s : Rx) (ta : UInt8)
    (hta : ta.toNat = P.typeAppData) (body w' p : Bytes)
    (hx : s.io.expired = false)
    (hp : parseOne P s.io.all = (.frame ta body, w')) (hd : dec s.seq ta body = some p)
    (h0 : 0 < p.length) (hm : p.length ≤ P.maxPlaintext) :
    ∃ s1, readOne P dec s = (.ok, s1) ∧ s1.io.all = w' ∧ s1.input = p ∧ s1.seq = s.seq + 1 ∧
      s1.err = s.err ∧ s1.io.expired = false := by
  obtain ⟨a, b⟩ := nextFrame_parse P (by rw [ok.hdr]; omega) ok.guard s.io hx
  have hfl := (nextFrame_flags P s.io).1
  rw [hp] at a b
  unfold readOne
  cases hn : nextFrame P s.io with
  | mk f io' =>
    rw [hn] at a b hfl
    simp only [] at a b hfl
    subst a
    simp only [hd]
    have h1 : ¬ P.maxPlaintext < p.length := by omega
    have h2 : ¬ P.typeAppData = P.typeAlert := fun h => ok.alertNeApp h.symm
    have h3 : ¬ P.typeAppData = P.typeCCS := ok.appNeCCS
    have h4 : ¬ p.length = 0 := by omega
    simp only [h1, ↓reduceIte, h2, h3, hta, h4, ne_eq, not_false_eq_true, true_and, gt_iff_lt, h0]
    exact ⟨_, rfl, b, rfl, rfl, rfl, by rw [← hx]; exact hfl⟩

/-- one pass over the close-notify alert -/
theorem readOne_close (P : Params) (dec : Dec) (ok : ParamsOK P) (s : Rx) (tl cn lvl : UInt8)
    (htl : tl.toNat = P.typeAlert) (hcn : cn.toNat = P.alertCloseNotify) (body w' : Bytes)
    (hx : s.io.expired = false)
    (hp : parseOne P s.io.all = (.frame tl body, w')) (hd : dec s.seq tl body = some [lvl, cn]) :
    ∃ s1, readOne P dec s = (.err .eof, s1) ∧ s1.input = s.input := by
  obtain ⟨a, b⟩ := nextFrame_parse P (by rw [ok.hdr]; omega) ok.guard s.io hx
  rw [hp] at a b
  unfold readOne
  cases hn : nextFrame P s.io with
  | mk f io' =>
    rw [hn] at a b
    simp only [] at a b
    subst a
    simp only [hd]
    have h1 : ¬ P.maxPlaintext < 2 := by have := ok.two; omega
    simp only [h1, ↓reduceIte, htl, ne_eq, not_true_eq_false, false_and, List.length_cons,
      List.length_nil, Nat.zero_add, Nat.reduceAdd, List.getD_cons_succ, List.getD_cons_zero, hcn]
    exact ⟨_, rfl, rfl⟩

/-- one pass at the end of the stream -/
theorem readOne_end (P : Params) (dec : Dec) (ok : ParamsOK P) (s : Rx) (hx : s.io.expired = false)
    (hw : s.io.all = []) :
    ∃ s1, readOne P dec s = (.err .eof, s1) ∧ s1.input = s.input := by
  obtain ⟨a, b⟩ := nextFrame_parse P (by rw [ok.hdr]; omega) ok.guard s.io hx
  rw [hw, parseOne_nil P (by rw [ok.hdr]; omega)] at a b
  unfold readOne
  cases hn : nextFrame P s.io with
  | mk f io' =>
    rw [hn] at a b
    simp only [] at a b
    subst a
    exact ⟨_, rfl, rfl⟩

theorem recFuel_succ (P : Params) : recFuel P = (P.maxUselessRecords + 1) + 1 := rfl

theorem readRecord_sticky (P : Params) (dec : Dec) (fuel : Nat) (s : Rx) (e : RxErr)
    (h : s.err = some e) : readRecord P dec (fuel + 1) s = (some e, s) := by
  simp [readRecord, h]

theorem readRecord_app (P : Params) (dec : Dec) (ok : ParamsOK P) (s : Rx) (ta : UInt8)
    (hta : ta.toNat = P.typeAppData) (body w' p : Bytes)
    (he : s.err = none) (hi : s.input = []) (hx : s.io.expired = false)
    (hp : parseOne P s.io.all = (.frame ta body, w')) (hd : dec s.seq ta body = some p)
    (h0 : 0 < p.length) (hm : p.length ≤ P.maxPlaintext) :
    ∃ s1, readRecord P dec (recFuel P) s = (none, s1) ∧ s1.io.all = w' ∧ s1.input = p ∧
      s1.seq = s.seq + 1 ∧ s1.err = none ∧ s1.io.expired = false := by
  obtain ⟨s1, h1, h2, h3, h4, h5, h6⟩ := readOne_app P dec ok s ta hta body w' p hx hp hd h0 hm
  refine ⟨s1, ?_, h2, h3, h4, by rw [h5, he], h6⟩
  rw [recFuel_succ]
  simp [readRecord, he, hi, h1]

theorem readRecord_eof (P : Params) (dec : Dec) (s : Rx) (s1 : Rx)
    (he : s.err = none) (hi : s.input = [])
    (h1 : readOne P dec s = (.err .eof, s1)) (h2 : s1.input = s.input) :
    ∃ s2, readRecord P dec (recFuel P) s = (some .eof, s2) ∧ s2.input = [] ∧ s2.err = some .eof := by
  rw [recFuel_succ]
  refine ⟨{ s1 with err := some .eof }, by simp [readRecord, he, hi, h1], by simp [h2, hi], rfl⟩

theorem fillInput_ready (P : Params) (dec : Dec) (fuel : Nat) (s : Rx) (h : s.input ≠ []) :
    fillInput P dec (fuel + 1) s = (none, s) := by
  have : s.input.length ≠ 0 := by
    intro h0; exact h (List.eq_nil_of_length_eq_zero h0)
  simp [fillInput, this]

theorem fillInput_one (P : Params) (dec : Dec) (fuel : Nat) (s s1 : Rx) (hi : s.input = [])
    (h : readRecord P dec (recFuel P) s = (none, s1)) (h1 : s1.input ≠ []) :
    fillInput P dec (fuel + 2) s = (none, s1) := by
  have : fillInput P dec (fuel + 2) s = fillInput P dec (fuel + 1) s1 := by
    simp [fillInput, hi, h]
  rw [this, fillInput_ready P dec fuel s1 h1]

theorem fillInput_err (P : Params) (dec : Dec) (fuel : Nat) (s s1 : Rx) (e : RxErr) (hi : s.input = [])
    (h : readRecord P dec (recFuel P) s = (some e, s1)) :
    fillInput P dec (fuel + 1) s = (some e, s1) := by
  simp [fillInput, hi, h]

theorem loopFuel_succ (s : Rx) : loopFuel s = s.io.all.length + 2 := rfl

/-- where an honest connection stands: `D` has been handed to the application so far -/
def Inv (P : Params) (dec : Dec) (ta tl cn : UInt8) (total : Bytes) (s : Rx) (D : Bytes) : Prop :=
  (s.err = none ∧ s.io.expired = false ∧
    ∃ ps c, Honest P dec ta tl cn s.seq s.io.all ps c ∧ D ++ s.input ++ ps.flatten = total) ∨
  (s.err = some .eof ∧ s.input = [] ∧ D = total)

theorem raw_getD (r : Raw) (h : 0 < r.raw.length) : r.raw.getD 0 0 = r.all.getD 0 0 := by
  unfold Raw.all
  cases hr : r.raw with
  | nil => rw [hr] at h; simp at h
  | cons a l => simp

/-- the tail of `Read` on an honest connection whose `input` is not empty -/
theorem drainInput_step (P : Params) (dec : Dec) (ok : ParamsOK P) (ta tl cn : UInt8)
    (hta : ta.toNat = P.typeAppData) (htl : tl.toNat = P.typeAlert) (hcn : cn.toNat = P.alertCloseNotify)
    (total : Bytes) (s : Rx) (D : Bytes) (n : Nat) (hn : 1 ≤ n)
    (he : s.err = none) (hx : s.io.expired = false) (hin : s.input ≠ []) (ps : List Bytes) (c : Bool)
    (hh : Honest P dec ta tl cn s.seq s.io.all ps c) (hD : D ++ s.input ++ ps.flatten = total) :
    Inv P dec ta tl cn total (drainInput P dec s n).2.2 (D ++ (drainInput P dec s n).1) ∧
    (((drainInput P dec s n).2.1 = none ∧ 0 < (drainInput P dec s n).1.length) ∨
     ((drainInput P dec s n).2.1 = some .eof ∧ D ++ (drainInput P dec s n).1 = total)) := by
  have h5 : 5 ≤ P.recordHeaderLen := by rw [ok.hdr]; omega
  have hlen : 0 < s.input.length := List.length_pos_iff.mpr hin
  have hout : 0 < (s.input.take n).length := by simp only [List.length_take]; omega
  have hsplit : s.input.take n ++ s.input.drop n = s.input := List.take_append_drop n s.input
  -- the state after the copy
  have hplain : Inv P dec ta tl cn total { s with input := s.input.drop n } (D ++ s.input.take n) := by
    left
    refine ⟨he, hx, ps, c, hh, ?_⟩
    show D ++ s.input.take n ++ s.input.drop n ++ ps.flatten = total
    rw [List.append_assoc D, hsplit]; exact hD
  unfold drainInput
  simp only []
  split
  · rename_i hcond
    obtain ⟨_, hdrop, hraw, htyp⟩ := hcond
    have hdrop' : s.input.drop n = [] := List.eq_nil_of_length_eq_zero hdrop
    have hg := raw_getD s.io hraw
    -- the next record is an alert: on an honest stream that is the close-notify
    cases ps with
    | cons p ps' =>
      obtain ⟨body, w', hp, _⟩ := hh
      have := (parseOne_typ P h5 _ _ _ _ hp).1
      rw [← hg] at this
      rw [this, hta] at htyp
      exact absurd htyp.symm ok.alertNeApp
    | nil =>
      cases c with
      | false =>
        have hw : s.io.raw ++ s.io.chunks.flatten = [] := hh
        have : s.io.raw = [] := (List.append_eq_nil_iff.mp hw).1
        rw [this] at hraw; simp at hraw
      | true =>
        obtain ⟨body, w', lvl, hp, hd⟩ := hh
        obtain ⟨s1, h1, h2⟩ := readOne_close P dec ok { s with input := s.input.drop n } tl cn lvl htl hcn body w' hx hp hd
        obtain ⟨s2, r1, r2, r3⟩ := readRecord_eof P dec { s with input := s.input.drop n } s1 he hdrop' h1 h2
        rw [r1]
        simp only []
        have hall : D ++ s.input.take n = total := by
          rw [← hD]
          have : s.input.take n = s.input := by
            have h' := hsplit; rw [hdrop', List.append_nil] at h'; exact h'
          rw [this]; simp
        exact ⟨Or.inr ⟨r3, r2, hall⟩, Or.inr ⟨by trivial, hall⟩⟩
  · exact ⟨hplain, Or.inl ⟨rfl, hout⟩⟩

/-- one `Read` with a non-empty buffer on an honest connection -/
theorem connRead_step (P : Params) (dec : Dec) (ok : ParamsOK P) (ta tl cn : UInt8)
    (hta : ta.toNat = P.typeAppData) (htl : tl.toNat = P.typeAlert) (hcn : cn.toNat = P.alertCloseNotify)
    (total : Bytes) (s : Rx) (D : Bytes) (n : Nat) (hn : 1 ≤ n)
    (hinv : Inv P dec ta tl cn total s D) :
    Inv P dec ta tl cn total (connRead P dec s n).2.2 (D ++ (connRead P dec s n).1) ∧
    (((connRead P dec s n).2.1 = none ∧ 0 < (connRead P dec s n).1.length) ∨
     ((connRead P dec s n).2.1 = some .eof ∧ D ++ (connRead P dec s n).1 = total)) := by
  have hn0 : ¬ n = 0 := by omega
  unfold connRead
  simp only [hn0, ↓reduceIte]
  rw [loopFuel_succ]
  rcases hinv with ⟨he, hx, ps, c, hh, hD⟩ | ⟨he, hi, hD⟩
  · by_cases hin : s.input = []
    · -- `input` is empty: read the next record
      cases ps with
      | cons p ps' =>
        obtain ⟨body, w', hp, hd, h0, hm, hrest⟩ := hh
        obtain ⟨s1, r1, r2, r3, r4, r5, r6⟩ := readRecord_app P dec ok s ta hta body w' p he hin hx hp hd h0 hm
        have hne : s1.input ≠ [] := by
          rw [r3]; intro h; rw [h] at h0; simp at h0
        rw [fillInput_one P dec _ s s1 hin r1 hne]
        simp only []
        apply drainInput_step P dec ok ta tl cn hta htl hcn total s1 D n hn r5 r6 hne ps' c
        · rw [r4, r2]; exact hrest
        · rw [r3, ← hD, hin]; simp
      | nil =>
        have hD' : D = total := by rw [← hD, hin]; simp
        have hfin : ∃ s2, readRecord P dec (recFuel P) s = (some .eof, s2) ∧ s2.input = [] ∧ s2.err = some .eof := by
          cases c with
          | false =>
            obtain ⟨s1, h1, h2⟩ := readOne_end P dec ok s hx hh
            exact readRecord_eof P dec s s1 he hin h1 h2
          | true =>
            obtain ⟨body, w', lvl, hp, hd⟩ := hh
            obtain ⟨s1, h1, h2⟩ := readOne_close P dec ok s tl cn lvl htl hcn body w' hx hp hd
            exact readRecord_eof P dec s s1 he hin h1 h2
        obtain ⟨s2, r1, r2, r3⟩ := hfin
        rw [fillInput_err P dec _ s s2 .eof hin r1]
        simp only [List.append_nil]
        exact ⟨Or.inr ⟨r3, r2, hD'⟩, Or.inr ⟨by trivial, hD'⟩⟩
    · rw [fillInput_ready P dec _ s hin]
      simp only []
      exact drainInput_step P dec ok ta tl cn hta htl hcn total s D n hn he hx hin ps c hh hD
  · -- end-of-stream was already reported: it stays reported
    have hr := readRecord_sticky P dec (P.maxUselessRecords + 1) s .eof he
    rw [← recFuel_succ] at hr
    rw [fillInput_err P dec _ s s .eof hi hr]
    simp only [List.append_nil]
    exact ⟨Or.inr ⟨he, hi, hD⟩, Or.inr ⟨by trivial, hD⟩⟩

/-- any sequence of `Read`s with non-empty buffers on an honest connection -/
theorem reads_honest (P : Params) (dec : Dec) (ok : ParamsOK P) (ta tl cn : UInt8)
    (hta : ta.toNat = P.typeAppData) (htl : tl.toNat = P.typeAlert) (hcn : cn.toNat = P.alertCloseNotify)
    (total : Bytes) : ∀ (bufs : List Nat) (s : Rx) (D : Bytes), (∀ n ∈ bufs, 1 ≤ n) →
    Inv P dec ta tl cn total s D →
    Inv P dec ta tl cn total (reads P dec s bufs).2 (D ++ delivered (reads P dec s bufs).1) ∧
    (∀ o ∈ (reads P dec s bufs).1, (o.2 = none ∧ 0 < o.1.length) ∨ o.2 = some .eof) ∧
    ((∃ o ∈ (reads P dec s bufs).1, o.2 = some .eof) → D ++ delivered (reads P dec s bufs).1 = total) := by
  intro bufs
  induction bufs with
  | nil =>
    intro s D _ hinv
    simp only [reads, delivered, List.map_nil, List.flatten_nil, List.append_nil]
    exact ⟨hinv, by simp, by simp⟩
  | cons n ns ih =>
    intro s D hb hinv
    obtain ⟨hstep, hres⟩ := connRead_step P dec ok ta tl cn hta htl hcn total s D n (hb n List.mem_cons_self) hinv
    obtain ⟨i1, i2, i3⟩ := ih (connRead P dec s n).2.2 (D ++ (connRead P dec s n).1)
      (fun m hm => hb m (List.mem_cons_of_mem _ hm)) hstep
    have hdel : D ++ delivered (reads P dec s (n :: ns)).1 =
        D ++ (connRead P dec s n).1 ++ delivered (reads P dec (connRead P dec s n).2.2 ns).1 := by
      simp [reads, delivered]
    refine ⟨?_, ?_, ?_⟩
    · rw [hdel]; exact i1
    · intro o ho
      simp only [reads, List.mem_cons] at ho
      rcases ho with ho | ho
      · subst ho
        rcases hres with ⟨a, b⟩ | ⟨a, _⟩
        · exact Or.inl ⟨a, b⟩
        · exact Or.inr a
      · exact i2 o ho
    · intro hex
      rw [hdel]
      -- once everything is delivered nothing more can come: use the invariant at the end
      rcases i1 with ⟨_, _, ps, c, _, hD⟩ | ⟨_, _, hD⟩
      · -- still active at the end: then no read reported eof in the tail, so the head did
        obtain ⟨o, ho, heo⟩ := hex
        simp only [reads, List.mem_cons] at ho
        rcases ho with ho | ho
        · subst ho
          rcases hres with ⟨a, _⟩ | ⟨_, b⟩
          · simp only [] at heo; rw [a] at heo; simp at heo
          · -- head delivered everything; the tail can only add nothing
            have := congrArg List.length hD
            have hb' := congrArg List.length b
            simp only [List.length_append] at this hb'
            have hz : (delivered (reads P dec (connRead P dec s n).2.2 ns).1).length = 0 := by omega
            rw [List.eq_nil_of_length_eq_zero hz]; simpa using b
        · exact i3 ⟨o, ho, heo⟩
      · exact hD

end Gotlcp.Lemmas.C06Rx

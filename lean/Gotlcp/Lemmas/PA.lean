/-
Helper lemmas for C20 (model `Gotlcp.Model.PA`).
-/
import Gotlcp.Model.PA
import Gotlcp.Spec.PASpec

set_option linter.unusedSimpArgs false
set_option linter.unusedVariables false

namespace Gotlcp.Lemmas.PA
open Gotlcp.Model.PA

/-! ### the transport -/

theorem tRead_pending (evs : List Ev) (n : Nat) :
    (tRead evs n).1 ++ pending (tRead evs n).2.2 = pending evs := by
  cases n with
  | zero => simp [tRead]
  | succ n =>
    cases evs with
    | nil => simp [tRead, pending]
    | cons e r =>
      cases e with
      | timeout => simp [tRead, pending]
      | data c =>
        simp only [tRead]
        split
        · simp [pending]
        · simp [pending, ← List.append_assoc, List.take_append_drop]

theorem tRead_length (evs : List Ev) (n : Nat) : (tRead evs n).1.length ≤ n := by
  cases n with
  | zero => simp [tRead]
  | succ n =>
    cases evs with
    | nil => simp [tRead]
    | cons e r =>
      cases e with
      | timeout => simp [tRead]
      | data c =>
        simp only [tRead]
        split
        · assumption
        · simp [List.length_take]; omega

theorem tRead_zero (evs : List Ev) : tRead evs 0 = ([], none, evs) := by
  cases evs <;> simp [tRead]

theorem readFull_pending (evs : List Ev) : ∀ n,
    (readFull evs n).1 ++ pending (readFull evs n).2.2 = pending evs := by
  induction evs with
  | nil => intro n; cases n <;> simp [readFull, pending]
  | cons e r ih =>
    intro n
    cases n with
    | zero => simp [readFull]
    | succ n =>
      cases e with
      | timeout => simp [readFull, pending]
      | data c =>
        simp only [readFull]
        split
        · simp only [pending, List.append_assoc]; rw [ih]
        · simp [pending, ← List.append_assoc, List.take_append_drop]

theorem readFull_length (evs : List Ev) : ∀ n, (readFull evs n).1.length ≤ n := by
  induction evs with
  | nil => intro n; cases n <;> simp [readFull]
  | cons e r ih =>
    intro n
    cases n with
    | zero => simp [readFull]
    | succ n =>
      cases e with
      | timeout => simp [readFull]
      | data c =>
        simp only [readFull]
        split
        · rename_i h
          have := ih (n + 1 - c.length)
          simp only [List.length_append]; omega
        · simp [List.length_take]; omega

/-- a short result of `readFull` always carries an error -/
theorem readFull_short (evs : List Ev) : ∀ n, (readFull evs n).1.length < n →
    (readFull evs n).2.1 ≠ none := by
  induction evs with
  | nil => intro n; cases n <;> simp [readFull]
  | cons e r ih =>
    intro n
    cases n with
    | zero => simp [readFull]
    | succ n =>
      cases e with
      | timeout => simp [readFull]
      | data c =>
        simp only [readFull]
        split
        · rename_i h
          intro hl
          apply ih
          simp only [List.length_append] at hl; omega
        · rename_i h
          intro hl
          simp [List.length_take] at hl; omega

/-- without timeouts in the script the only error is end-of-stream -/
def noTimeout : List Ev → Bool
  | [] => true
  | .timeout :: _ => false
  | .data _ :: r => noTimeout r

theorem readFull_err_eof (evs : List Ev) : ∀ n, noTimeout evs = true →
    (readFull evs n).2.1 = none ∨ (readFull evs n).2.1 = some .eof := by
  induction evs with
  | nil => intro n; cases n <;> simp [readFull]
  | cons e r ih =>
    intro n hnt
    cases n with
    | zero => simp [readFull]
    | succ n =>
      cases e with
      | timeout => simp [noTimeout] at hnt
      | data c =>
        simp only [noTimeout] at hnt
        simp only [readFull]
        split
        · exact ih _ hnt
        · simp

/-! ### `ProtocolDetectConn.Read` -/

theorem pdRead_pending (s : PD) (n : Nat) :
    (pdRead s n).1 ++ ((pdRead s n).2.2.hdr ++ pending (pdRead s n).2.2.evs)
      = s.hdr ++ pending s.evs := by
  unfold pdRead
  split
  · rename_i h
    have h0 : s.hdr = [] := List.eq_nil_of_length_eq_zero h
    simp only [h0, List.nil_append]
    exact tRead_pending s.evs n
  · split
    · split
      · simp only [List.nil_append, List.append_assoc]
        rw [tRead_pending]
      · simp
    · simp only
      rw [← List.append_assoc, List.take_append_drop]

def drained (s : PD) : Prop := s.hdr = [] ∧ s.evs = []

theorem pdRead_drained (s : PD) (n : Nat) (h : drained s) : pdRead s n = ([], if n = 0 then none else some .eof, s) := by
  obtain ⟨h1, h2⟩ := h
  cases s with
  | mk evs hdr filled major minor =>
    simp only at h1 h2
    subst h1 h2
    cases n <;> simp [pdRead, tRead]

theorem pdRead_drained' (s : PD) (n : Nat) (h : drained s) : drained (pdRead s n).2.2 := by
  rw [pdRead_drained s n h]; exact h

theorem tRead_eof (evs : List Ev) (n : Nat) (h : (tRead evs n).2.1 = some .eof) : evs = [] := by
  cases n with
  | zero => simp [tRead] at h
  | succ n =>
    cases evs with
    | nil => rfl
    | cons e r =>
      cases e with
      | timeout => simp [tRead] at h
      | data c =>
        simp only [tRead] at h
        split at h <;> simp at h

theorem tRead_nil (n : Nat) : (tRead [] n).2.2 = [] := by
  cases n <;> simp [tRead]

/-- end-of-stream is reported only when nothing is left: neither replayed header bytes nor
transport bytes -/
theorem pdRead_eof (s : PD) (n : Nat) (h : (pdRead s n).2.1 = some .eof) :
    drained (pdRead s n).2.2 := by
  unfold pdRead at h ⊢
  split
  · rename_i h0
    simp only [h0, ↓reduceIte] at h
    have he := tRead_eof _ _ h
    refine ⟨List.eq_nil_of_length_eq_zero h0, ?_⟩
    simp only [he]; exact tRead_nil n
  · rename_i h0
    simp only [h0, ↓reduceIte] at h
    split
    · rename_i h1
      simp only [h1, ↓reduceIte] at h
      split
      · rename_i h2
        simp only [h2, ↓reduceIte] at h
        have he := tRead_eof _ _ h
        refine ⟨rfl, ?_⟩
        simp only [he]; exact tRead_nil _
      · rename_i h2
        simp only [h2, ↓reduceIte] at h
        simp at h
    · rename_i h1
      simp only [h1, ↓reduceIte] at h
      simp at h

theorem reads_pending (bufs : List Nat) : ∀ s : PD,
    delivered (reads s bufs).1 ++ ((reads s bufs).2.hdr ++ pending (reads s bufs).2.evs)
      = s.hdr ++ pending s.evs := by
  induction bufs with
  | nil => intro s; simp [reads, delivered]
  | cons n ns ih =>
    intro s
    simp only [reads, delivered, List.map_cons, List.flatten_cons, List.append_assoc]
    have := ih (pdRead s n).2.2
    simp only [delivered] at this
    rw [this]
    exact pdRead_pending s n

theorem reads_drained (bufs : List Nat) : ∀ s : PD, drained s → drained (reads s bufs).2 := by
  induction bufs with
  | nil => intro s h; exact h
  | cons n ns ih =>
    intro s h
    simp only [reads]
    exact ih _ (pdRead_drained' s n h)

theorem reads_eof (bufs : List Nat) : ∀ s : PD,
    (∃ o ∈ (reads s bufs).1, o.2 = some .eof) → drained (reads s bufs).2 := by
  induction bufs with
  | nil => intro s h; simp [reads] at h
  | cons n ns ih =>
    intro s h
    simp only [reads] at h ⊢
    obtain ⟨o, ho, he⟩ := h
    simp only [List.mem_cons] at ho
    rcases ho with ho | ho
    · subst ho
      exact reads_drained ns _ (pdRead_eof s n he)
    · exact ih _ ⟨o, ho, he⟩

/-! ### progress: every read with a non-empty buffer consumes something -/

def evMeasure : List Ev → Nat
  | [] => 0
  | .data c :: r => c.length + 1 + evMeasure r
  | .timeout :: r => 1 + evMeasure r

/-- bytes of replayed header still held + bytes and events still in the transport -/
def measure (s : PD) : Nat := s.hdr.length + evMeasure s.evs

theorem evMeasure_zero (evs : List Ev) (h : evMeasure evs = 0) : evs = [] := by
  cases evs with
  | nil => rfl
  | cons e r => cases e <;> simp [evMeasure] at h <;> omega

theorem measure_zero (s : PD) (h : measure s = 0) : drained s := by
  unfold measure at h
  exact ⟨List.eq_nil_of_length_eq_zero (by omega), evMeasure_zero _ (by omega)⟩

theorem tRead_measure (evs : List Ev) (n : Nat) (hn : 1 ≤ n) :
    evMeasure (tRead evs n).2.2 ≤ evMeasure evs - 1 := by
  cases n with
  | zero => omega
  | succ n =>
    cases evs with
    | nil => simp [tRead, evMeasure]
    | cons e r =>
      cases e with
      | timeout => simp [tRead, evMeasure]
      | data c =>
        simp only [tRead]
        split
        · simp [evMeasure]
        · simp [evMeasure, List.length_drop]; omega

theorem tRead_measure_le (evs : List Ev) (n : Nat) :
    evMeasure (tRead evs n).2.2 ≤ evMeasure evs := by
  cases n with
  | zero => simp [tRead_zero]
  | succ n => have := tRead_measure evs (n + 1) (by omega); omega

theorem pdRead_measure (s : PD) (n : Nat) (hn : 1 ≤ n) :
    measure (pdRead s n).2.2 ≤ measure s - 1 := by
  unfold pdRead measure
  split
  · rename_i h0
    simp only [h0]
    have := tRead_measure s.evs n hn
    omega
  · rename_i h0
    split
    · split
      · simp only [List.length_nil]
        have := tRead_measure_le s.evs (n - s.hdr.length)
        omega
      · simp only [List.length_nil]; omega
    · simp only [List.length_drop]; omega

theorem reads_progress (bufs : List Nat) : ∀ s : PD, (∀ n ∈ bufs, 1 ≤ n) →
    measure s ≤ bufs.length → drained (reads s bufs).2 := by
  induction bufs with
  | nil => intro s _ h; exact measure_zero s (by simpa using h)
  | cons n ns ih =>
    intro s hb hm
    simp only [reads]
    apply ih
    · intro m hm'; exact hb m (List.mem_cons_of_mem _ hm')
    · have := pdRead_measure s n (hb n List.mem_cons_self)
      simp only [List.length_cons] at hm
      omega

/-! ### `ReadFirstHeader`, `detect` and retries -/

structure Valid (P : Params) : Prop where
  hlPos : 0 < P.headerLen
  mi : P.majorIndex < P.headerLen
  ni : P.minorIndex < P.headerLen

def isFresh (P : Params) (s : PD) : Bool :=
  !P.resumable || s.hdr.isEmpty || decide (s.hdr.length < s.filled)

/-- the header buffer is either about to be allocated or has its full length -/
def HOK (P : Params) (s : PD) : Prop :=
  isFresh P s = true ∨ (s.hdr.length = P.headerLen ∧ s.filled ≤ P.headerLen)

/-- the client bytes the adapter still accounts for: header bytes it keeps + what is pending -/
def accounted (P : Params) (s : PD) : Bytes :=
  (if isFresh P s then [] else s.hdr.take s.filled) ++ pending s.evs

theorem splice_length (buf : Bytes) (f : Nat) (b : Bytes) (h : f + b.length ≤ buf.length) :
    (splice buf f b).length = buf.length := by
  simp [splice, List.length_take, List.length_drop]; omega

theorem splice_take (buf : Bytes) (f : Nat) (b : Bytes) (h : f ≤ buf.length) :
    (splice buf f b).take (f + b.length) = buf.take f ++ b := by
  unfold splice
  apply List.take_left'
  simp [List.length_take]; omega

theorem rfh_spec (P : Params) (s : PD) (hv : Valid P) (hs : HOK P s) :
    (readFirstHeader P s).2.hdr.length = P.headerLen ∧
    (readFirstHeader P s).2.filled ≤ P.headerLen ∧
    (readFirstHeader P s).2.hdr.take (readFirstHeader P s).2.filled
        ++ pending (readFirstHeader P s).2.evs = accounted P s ∧
    (readFirstHeader P s).1 ≠ .panic ∧
    ((readFirstHeader P s).1 = .ok →
      (readFirstHeader P s).2.filled = P.headerLen ∧
      (readFirstHeader P s).2.hdr[P.majorIndex]? = some (readFirstHeader P s).2.major) := by
  -- the buffer and fill mark ReadFull starts from
  have hst : (hdrStart P s).1.length = P.headerLen ∧ (hdrStart P s).2 ≤ P.headerLen ∧
      (hdrStart P s).1.take (hdrStart P s).2 = (if isFresh P s then [] else s.hdr.take s.filled) := by
    unfold hdrStart isFresh at *
    split
    · simp
    · rename_i hf
      rcases hs with h | h
      · exact absurd h hf
      · simp [h.1, h.2]
  obtain ⟨hlen, hfill, htake⟩ := hst
  have hrl := readFull_length s.evs ((hdrStart P s).1.length - (hdrStart P s).2)
  have hrp := readFull_pending s.evs ((hdrStart P s).1.length - (hdrStart P s).2)
  have hsl := splice_length (hdrStart P s).1 (hdrStart P s).2
    (readFull s.evs ((hdrStart P s).1.length - (hdrStart P s).2)).1 (by omega)
  have hstk := splice_take (hdrStart P s).1 (hdrStart P s).2
    (readFull s.evs ((hdrStart P s).1.length - (hdrStart P s).2)).1 (by omega)
  have hmi : P.majorIndex < (splice (hdrStart P s).1 (hdrStart P s).2
    (readFull s.evs ((hdrStart P s).1.length - (hdrStart P s).2)).1).length := by
    rw [hsl, hlen]; exact hv.mi
  have hni : P.minorIndex < (splice (hdrStart P s).1 (hdrStart P s).2
    (readFull s.evs ((hdrStart P s).1.length - (hdrStart P s).2)).1).length := by
    rw [hsl, hlen]; exact hv.ni
  unfold readFirstHeader
  simp only []
  rw [List.getElem?_eq_getElem hmi, List.getElem?_eq_getElem hni]
  simp only []
  have hacc : (splice (hdrStart P s).1 (hdrStart P s).2
        (readFull s.evs ((hdrStart P s).1.length - (hdrStart P s).2)).1).take
        ((hdrStart P s).2 + (readFull s.evs ((hdrStart P s).1.length - (hdrStart P s).2)).1.length)
      ++ pending (readFull s.evs ((hdrStart P s).1.length - (hdrStart P s).2)).2.2 = accounted P s := by
    rw [hstk, htake, List.append_assoc, hrp]; rfl
  split
  · rename_i herr
    refine ⟨by simpa [hlen] using hsl, by simp only []; omega, hacc, by simp, ?_⟩
    intro _
    refine ⟨?_, by simp only []; rw [List.getElem?_eq_getElem hmi]⟩
    simp only []
    unfold readFullErr at herr
    split at herr
    · omega
    · split at herr
      · simp at herr
      · rename_i h1 h2
        exact absurd herr (readFull_short _ _ (by omega))
  · refine ⟨by simpa [hlen] using hsl, by simp only []; omega, hacc, by simp, by simp⟩

theorem isFresh_full (P : Params) (s : PD) (hv : Valid P) (hr : P.resumable = true)
    (h : s.hdr.length = P.headerLen) (hf : s.filled ≤ P.headerLen) : isFresh P s = false := by
  unfold isFresh
  have : s.hdr ≠ [] := by
    intro h0; rw [h0] at h; have := hv.hlPos; simp at h; omega
  cases hh : s.hdr with
  | nil => exact absurd hh this
  | cons a l => rw [hh] at h; simp only [List.length_cons] at h; simp [hr]; omega

/-- one call of `detect` on a connection that has no stack yet: either an I/O error, or a
routing decision taken on byte `majorIndex` of the bytes accounted for -/
theorem detect_step (P : Params) (cfg : Cfg) (c : SC) (hv : Valid P) (hr : P.resumable = true)
    (hw : c.wrapped = none) (hs : HOK P c.p) :
    (HOK P (detect P cfg c).2.p ∧ accounted P (detect P cfg c).2.p = accounted P c.p) ∧
    ((∃ e, (detect P cfg c).1 = .io e ∧ (detect P cfg c).2.wrapped = none) ∨
     (∃ mj, (detect P cfg c).1 = route P cfg mj ∧
        (accounted P c.p)[P.majorIndex]? = some mj ∧
        P.headerLen ≤ (accounted P c.p).length ∧
        (detect P cfg c).2.wrapped = (if (route P cfg mj).served then some (route P cfg mj) else none) ∧
        (detect P cfg c).2.p.hdr ++ pending (detect P cfg c).2.p.evs = accounted P c.p)) := by
  obtain ⟨h1, h2, h3, h4, h5⟩ := rfh_spec P c.p hv hs
  have hfr := isFresh_full P (readFirstHeader P c.p).2 hv hr h1 h2
  have hinv : HOK P (readFirstHeader P c.p).2 ∧
      accounted P (readFirstHeader P c.p).2 = accounted P c.p := by
    refine ⟨Or.inr ⟨h1, h2⟩, ?_⟩
    have : accounted P (readFirstHeader P c.p).2 =
        (readFirstHeader P c.p).2.hdr.take (readFirstHeader P c.p).2.filled
          ++ pending (readFirstHeader P c.p).2.evs := by
      unfold accounted; rw [hfr]; simp
    rw [this]; exact h3
  unfold detect
  rw [hw]
  simp only []
  cases hres : readFirstHeader P c.p with
  | mk r p1 =>
    rw [hres] at h1 h2 h3 h4 h5 hinv
    simp only [] at h1 h2 h3 h4 h5 hinv
    cases r with
    | panic => exact absurd rfl h4
    | err e => exact ⟨hinv, Or.inl ⟨e, rfl, rfl⟩⟩
    | ok =>
      obtain ⟨h5a, h5b⟩ := h5 rfl
      have htk : p1.hdr.take p1.filled = p1.hdr := by
        rw [h5a, ← h1]; exact List.take_length
      rw [htk] at h3
      have hlen : P.headerLen ≤ (accounted P c.p).length := by
        rw [← h3, List.length_append, h1]; omega
      have hmj : (accounted P c.p)[P.majorIndex]? = some p1.major := by
        rw [← h3, List.getElem?_append_left (by rw [h1]; exact hv.mi)]; exact h5b
      simp only []
      split
      · rename_i hsv
        refine ⟨hinv, Or.inr ⟨p1.major, rfl, hmj, hlen, ?_, h3⟩⟩
        simp [hsv]
      · rename_i hsv
        refine ⟨hinv, Or.inr ⟨p1.major, rfl, hmj, hlen, ?_, h3⟩⟩
        simp [hsv]

theorem isPrefix_append (a b : Bytes) : Spec.PA.isPrefix a (a ++ b) = true := by
  induction a with
  | nil => simp [Spec.PA.isPrefix]
  | cons x xs ih => simp [Spec.PA.isPrefix, ih]

end Gotlcp.Lemmas.PA

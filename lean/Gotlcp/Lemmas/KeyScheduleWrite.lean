/-
Helper lemmas for C04, write side under transport failures and the padding contract:
  * `write_consumes_seq` — one record through `writeRecordLocked` advances the sequence state by one
    whether or not the transport took it; `nextSealSeq_ne`, `history_keys` lift that to histories;
  * `validPad_iff`, `contract_eq`, `contract_tail` — the contract `extractPadding` of the C04 model
    of `decrypt` is the bit-level model of C05 (`Model.RecordRx.extractPadding`), i.e. the RFC's
    padding validity.
-/
import Gotlcp.Lemmas.KeyScheduleRecord
import Gotlcp.Model.KeyScheduleSrc
import Gotlcp.Lemmas.RecordRx

set_option linter.unusedSimpArgs false
set_option linter.unusedVariables false

namespace Gotlcp.Lemmas.KeyScheduleWrite
open Gotlcp.Crypto
open Gotlcp.Lemmas.KeySchedule
open Gotlcp.Lemmas.KeyScheduleRecord
open Gotlcp.Model.KeySchedule

/-- the position of a write side in its sequence-number space: the 64-bit `out.seq` (tlcp) resp. the
48-bit `writeSeq` of the current epoch (dtlcp) -/
def sealKey (st : Stack) (w : WriteSide) : Nat :=
  match st with
  | .tlcp => fromBE w.out.seq
  | .dtlcp => w.writeSeq

theorem encrypt_keeps (P : Prims) (st : Stack) (h : Half) (record payload rand rec : Bytes) (h' : Half)
    (he : encrypt P (srcOf st) st h record payload rand = .ok (rec, h')) :
    h'.cipher = h.cipher ∧ h'.next = h.next ∧
    (st = .dtlcp ∨ h.cipher = none → h'.seq = h.seq) ∧
    (st = .tlcp → h.cipher ≠ none → fromBE h'.seq = fromBE h.seq + 1 ∧ h'.seq.length = h.seq.length) := by
  unfold encrypt at he
  cases hc : h.cipher with
  | none =>
    simp only [hc] at he
    injection he with he; injection he with _ he; subst he
    simp [hc]
  | some c =>
    simp only [hc] at he
    cases st with
    | dtlcp =>
      simp only [] at he
      injection he with he; injection he with _ he; subst he
      simp [hc]
    | tlcp =>
      simp only [] at he
      cases hi : incSeq h.seq with
      | none => simp [hi] at he
      | some s =>
        simp only [hi] at he
        injection he with he; injection he with _ he; subst he
        have := incSeq_some _ _ hi
        simp [hc, this]

theorem consumed (st : Stack) : (srcOf st).seqConsumedOnWriteError = true := by
  cases st <;> decide

/-- one record through `writeRecordLocked`, whatever the transport answers: one step further
(restated as `C04_write_consumes_seq`) -/
theorem write_consumes_seq (P : Prims) (st : Stack) (w : WriteSide) (typ vers : Nat) (chunk rand : Bytes)
    (sent : Bool) (rec : Bytes) (w' : WriteSide)
    (hc : w.out.cipher ≠ none) (hb : st = .dtlcp → w.writeSeq + 1 < 2 ^ 64)
    (h : writeOneT P (srcOf st) st w typ vers chunk rand sent = .ok (rec, w')) :
    sealKey st w' = sealKey st w + 1 ∧ w'.writeEpoch = w.writeEpoch ∧ w'.out.cipher = w.out.cipher ∧
    (st = .tlcp → w'.out.seq.length = w.out.seq.length) := by
  have hcons := consumed st
  cases st with
  | tlcp =>
    cases sent with
    | true =>
      simp only [writeOneT, if_true, writeOne] at h
      cases he : encrypt P (srcOf .tlcp) .tlcp w.out (buildHeader .tlcp w typ vers chunk.length) chunk rand with
      | ok r =>
        obtain ⟨rec0, out'⟩ := r
        simp only [he] at h
        injection h with h; injection h with _ h; subst h
        obtain ⟨k1, _, _, k4⟩ := encrypt_keeps P .tlcp _ _ _ _ _ _ he
        obtain ⟨k5, k6⟩ := k4 rfl hc
        exact ⟨k5, rfl, k1, fun _ => k6⟩
      | alert a => simp [he] at h
      | panic => simp [he] at h
    | false =>
      simp only [writeOneT, Bool.false_eq_true, if_false, writeOneFailed, hcons, if_true] at h
      cases he : encrypt P (srcOf .tlcp) .tlcp w.out (buildHeader .tlcp w typ vers chunk.length) chunk rand with
      | ok r =>
        obtain ⟨rec0, out'⟩ := r
        simp only [he] at h
        injection h with h; injection h with _ h; subst h
        obtain ⟨k1, _, _, k4⟩ := encrypt_keeps P .tlcp _ _ _ _ _ _ he
        obtain ⟨k5, k6⟩ := k4 rfl hc
        exact ⟨k5, rfl, k1, fun _ => k6⟩
      | alert a => simp [he] at h
      | panic => simp [he] at h
  | dtlcp =>
    have hb' := hb rfl
    have hmod : (w.writeSeq + 1) % 2 ^ 64 = w.writeSeq + 1 := Nat.mod_eq_of_lt hb'
    cases sent with
    | true =>
      simp only [writeOneT, if_true, writeOne] at h
      cases he : encrypt P (srcOf .dtlcp) .dtlcp (setWriteSeq w).out (buildHeader .dtlcp (setWriteSeq w) typ vers chunk.length) chunk rand with
      | ok r =>
        obtain ⟨rec0, out'⟩ := r
        simp only [he] at h
        injection h with h; injection h with _ h; subst h
        obtain ⟨k1, _, _, _⟩ := encrypt_keeps P .dtlcp _ _ _ _ _ _ he
        refine ⟨?_, rfl, ?_, fun h => by cases h⟩
        · simp only [sealKey, setWriteSeq]; exact hmod
        · simpa [setWriteSeq] using k1
      | alert a => simp [he] at h
      | panic => simp [he] at h
    | false =>
      simp only [writeOneT, Bool.false_eq_true, if_false, writeOneFailed, hcons, if_true] at h
      cases he : encrypt P (srcOf .dtlcp) .dtlcp (setWriteSeq w).out (buildHeader .dtlcp (setWriteSeq w) typ vers chunk.length) chunk rand with
      | ok r =>
        obtain ⟨rec0, out'⟩ := r
        simp only [he] at h
        injection h with h; injection h with _ h; subst h
        obtain ⟨k1, _, _, _⟩ := encrypt_keeps P .dtlcp _ _ _ _ _ _ he
        refine ⟨?_, rfl, ?_, fun h => by cases h⟩
        · simp only [sealKey, setWriteSeq]; exact hmod
        · simpa [setWriteSeq] using k1
      | alert a => simp [he] at h
      | panic => simp [he] at h

/-- the 8 bytes the next record is sealed under determine the position, within an epoch -/
theorem nextSealSeq_ne (st : Stack) (w w' : WriteSide) (he : w'.writeEpoch = w.writeEpoch)
    (hlen : st = .tlcp → w'.out.seq.length = w.out.seq.length)
    (hb : st = .dtlcp → w.writeSeq < 2 ^ 48 ∧ w'.writeSeq < 2 ^ 48)
    (hlt : sealKey st w < sealKey st w') : nextSealSeq st w ≠ nextSealSeq st w' := by
  intro h
  cases st with
  | tlcp =>
    simp only [nextSealSeq] at h
    simp only [sealKey, h] at hlt
    omega
  | dtlcp =>
    obtain ⟨b1, b2⟩ := hb rfl
    simp only [nextSealSeq, setWriteSeq, he, List.append_cancel_left_eq] at h
    have := be_inj 6 _ _ (by simpa using b1) (by simpa using b2) h
    simp only [sealKey] at hlt
    omega

/-- every number a history seals under belongs to a state at or after the start, in the same
epoch, with the same sequence-number length, below the 48-bit bound -/
theorem history_keys (P : Prims) (st : Stack) (vers : Nat) :
    ∀ (hist : List (Nat × Bytes × Bytes × Bool)) (w : WriteSide),
      w.out.cipher ≠ none → (st = .dtlcp → w.writeSeq + hist.length ≤ 2 ^ 48) →
      ∀ x ∈ (writeHistory P (srcOf st) st vers w hist).map (·.1),
        ∃ w'', x = nextSealSeq st w'' ∧ sealKey st w ≤ sealKey st w'' ∧ w''.writeEpoch = w.writeEpoch ∧
          (st = .tlcp → w''.out.seq.length = w.out.seq.length) ∧ (st = .dtlcp → w''.writeSeq < 2 ^ 48) := by
  intro hist
  induction hist with
  | nil => intro w _ _ x hx; simp [writeHistory] at hx
  | cons e rest ih =>
    intro w hc hb x hx
    obtain ⟨typ, chunk, rand, sent⟩ := e
    simp only [writeHistory] at hx
    cases hw : writeOneT P (srcOf st) st w typ vers chunk rand sent with
    | ok r =>
      obtain ⟨rec, w'⟩ := r
      simp only [hw, List.map_cons, List.mem_cons] at hx
      have hb64 : st = .dtlcp → w.writeSeq + 1 < 2 ^ 64 := by
        intro h; have := hb h; simp only [List.length_cons] at this
        have : (2:Nat) ^ 48 < 2 ^ 64 := by decide
        omega
      obtain ⟨k1, k2, k3, k4⟩ := write_consumes_seq P st w typ vers chunk rand sent rec w' hc hb64 hw
      rcases hx with rfl | hx
      · refine ⟨w, rfl, Nat.le_refl _, rfl, fun _ => rfl, ?_⟩
        intro h; have := hb h; simp only [List.length_cons] at this; omega
      · have hb' : st = .dtlcp → w'.writeSeq + rest.length ≤ 2 ^ 48 := by
          intro h; have := hb h; simp only [List.length_cons] at this
          have e : w'.writeSeq = w.writeSeq + 1 := by subst h; simpa [sealKey] using k1
          omega
        obtain ⟨w'', e1, e2, e3, e4, e5⟩ := ih w' (by rw [k3]; exact hc) hb' x hx
        exact ⟨w'', e1, by omega, by rw [e3, k2], fun h => by rw [e4 h, k4 h], e5⟩
    | alert a => simp [hw, writeHistory] at hx
    | panic => simp [hw, writeHistory] at hx

/-! ### the padding contract -/

/-- the RFC's validity of a CBC padding (`Lemmas.RecordRx.ValidPad`: the last `pl+1` bytes all
equal `pl`) is what the contract used by the C04 model of `decrypt` tests -/
theorem validPad_iff (p : Bytes) (l : UInt8) :
    Lemmas.RecordRx.ValidPad p l ↔
      (l.toNat + 1 ≤ p.length ∧ (p.drop (p.length - (l.toNat + 1))).all (· == l) = true) := by
  unfold Lemmas.RecordRx.ValidPad
  constructor
  · rintro ⟨h1, h2⟩
    refine ⟨h1, ?_⟩
    rw [List.all_eq_true]
    intro x hx
    obtain ⟨i, hi, rfl⟩ := List.mem_iff_getElem.mp hx
    have hi' : i < l.toNat + 1 := by simp only [List.length_drop] at hi; omega
    have := h2 (l.toNat - i) (by simp only [List.length_reverse]; omega) (by omega)
    simp only [List.getElem_reverse] at this
    simp only [List.getElem_drop, beq_iff_eq]
    have e : p.length - (l.toNat + 1) + i = p.length - 1 - (l.toNat - i) := by omega
    simp only [e]
    exact this
  · rintro ⟨h1, h2⟩
    refine ⟨h1, ?_⟩
    intro j hj hle
    rw [List.all_eq_true] at h2
    simp only [List.length_reverse] at hj
    have hmem : p.reverse[j] ∈ p.drop (p.length - (l.toNat + 1)) := by
      rw [List.mem_iff_getElem]
      refine ⟨l.toNat - j, by simp only [List.length_drop]; omega, ?_⟩
      simp only [List.getElem_drop, List.getElem_reverse]
      congr 1
      omega
    simpa using h2 _ hmem

/-- the contract `extractPadding` of the C04 model is the bit-level model of C05 (whose correctness
against the RFC's definition is `Lemmas.RecordRx.extractPadding_correct`) -/
theorem contract_eq (p : Bytes) (hlen : p.length ≤ 2 ^ 31) :
    extractPadding p = ((Model.RecordRx.extractPadding p).1, (Model.RecordRx.extractPadding p).2 != 0) := by
  cases hl : p.getLast? with
  | none =>
    have : p = [] := by simpa using hl
    subst this; rfl
  | some l =>
    obtain ⟨c1, c2⟩ := Lemmas.RecordRx.extractPadding_correct p l hl hlen
    unfold extractPadding
    rw [hl]
    by_cases hv : Lemmas.RecordRx.ValidPad p l
    · rw [c1 hv]
      obtain ⟨v1, v2⟩ := (validPad_iff p l).mp hv
      simp only [v1, v2, decide_true, Bool.and_self, if_true]
      rfl
    · rw [c2 hv]
      have : ¬ (l.toNat + 1 ≤ p.length ∧ (p.drop (p.length - (l.toNat + 1))).all (· == l) = true) :=
        fun h => hv ((validPad_iff p l).mpr h)
      by_cases h1 : l.toNat + 1 ≤ p.length
      · have h2 : (p.drop (p.length - (l.toNat + 1))).all (· == l) = false := by
          cases h : (p.drop (p.length - (l.toNat + 1))).all (· == l) with
          | true => exact absurd ⟨h1, h⟩ this
          | false => rfl
        simp only [h1, h2, decide_true, Bool.and_false, Bool.false_eq_true, if_false]
        rfl
      · simp only [h1, decide_false, Bool.false_and, Bool.false_eq_true, if_false]
        rfl

/-- the contract on a payload whose last `l + 1` bytes are `tail`, `tail` ending in `l` -/
theorem contract_tail (body tail : Bytes) (l : UInt8) (htl : tail.length = l.toNat + 1) (hlast : tail.getLast? = some l) :
    extractPadding (body ++ tail) = if tail.all (· == l) then (l.toNat + 1, true) else (1, false) := by
  have hne : tail ≠ [] := by intro h; subst h; simp at htl
  have hl : (body ++ tail).getLast? = some l := by
    rw [List.getLast?_append, hlast]; rfl
  have hdrop : (body ++ tail).drop ((body ++ tail).length - (l.toNat + 1)) = tail := by
    have : (body ++ tail).length - (l.toNat + 1) = body.length := by simp [htl]
    rw [this]; simp
  unfold extractPadding
  rw [hl]
  simp only [hdrop]
  have hle : l.toNat + 1 ≤ (body ++ tail).length := by simp [htl]
  simp only [hle, decide_true, Bool.true_and]
  cases tail.all (· == l) <;> rfl

end Gotlcp.Lemmas.KeyScheduleWrite

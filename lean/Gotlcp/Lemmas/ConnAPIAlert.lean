/-
Helper lemmas for C12: the alerts the receiving record layer sends.

`RxState.alerts` lists the alert descriptions this side has sent (`c.sendAlert(a)` inside
`readRecordOrCCS`).  Whenever the record layer reports a *local* alert (`&net.OpError{Op: "local
error", Err: a}`: a record that does not authenticate, an unexpected message, …) from a state
whose latch was clear, it has gone through `sendAlert` during that very call: the list has grown.
`Model.ConnAPI.outErrAfter` latches `c.out.err` from that list, i.e. independently of what the
transport did with the alert record (`sendAlertLocked` ignores `writeErr` for every alert other
than close_notify).
-/
import Gotlcp.Lemmas.ConnAPIEof

set_option linter.unusedSimpArgs false
set_option linter.unusedVariables false

namespace Gotlcp.Lemmas.ConnAPIAlert
open Gotlcp.Model.RecordRx
open Gotlcp.Model.ConnAPI
open Gotlcp.Lemmas.RecordRx
open Gotlcp.Lemmas.ConnAPI
open Gotlcp.Lemmas.ConnAPIEof

/-- the list of sent alerts only grows during `r`, and strictly when `r` reports a local alert -/
def Sent (s : RxState) (s' : RxState) (isLocal : Bool) : Prop :=
  s.alerts.length ≤ s'.alerts.length ∧ (isLocal = true → s.alerts.length < s'.alerts.length)

def RxOut.isLocal : RxOut → Bool
  | .err (.localAlert _) => true
  | _ => false

def Stop.isLocal : Stop → Bool
  | .err (.localAlert _) => true
  | _ => false

theorem dispatch_sent (p : Params) (c : Ctx) (s : RxState) (typ : Nat) (data : Bytes) :
    Sent s (dispatch p c s typ data).1 (RxOut.isLocal (dispatch p c s typ data).2) := by
  obtain ⟨e1, e2, e3, e4, e5⟩ := resetRetry_fields p s typ data
  generalize hr : dispatch p c s typ data = r
  simp [dispatch, failAlert, fail, failWith, retry] at hr
  generalize resetRetry p s typ data = s1 at *
  unfold Sent
  repeat' split at hr
  all_goals (subst hr; simp_all [RxOut.isLocal])

theorem rx_sent {β : Type} (p : Params) (D : Dec β) (c : Ctx) (s : RxState) (w : Wire β) :
    Sent s (rx p D c s w).1 (RxOut.isLocal (rx p D c s w).2) := by
  unfold rx
  split
  · rename_i r hr
    obtain ⟨a, e⟩ := r
    have := hdrCheck_header _ _ _ _ _ _ _ hr
    subst this
    cases a <;> simp [Sent, failHdr, fail, failWith, RxOut.isLocal]
  · split
    · simp [Sent, failAlert, RxOut.isLocal]
    · rename_i data _
      exact dispatch_sent p c { s with seq := s.seq + 1 } w.typ data

theorem atTail_sent (p : Params) (c : Ctx) (s : RxState) (t : Tail) :
    Sent s (atTail p c s t).1 (Stop.isLocal (atTail p c s t).2) := by
  unfold atTail
  split
  · split <;> simp [Sent, Stop.isLocal]
  · split <;> simp [Sent, Stop.isLocal]
  · split
    · rename_i r hr
      obtain ⟨a, e⟩ := r
      have := hdrCheck_header _ _ _ _ _ _ _ hr
      subst this
      cases a <;> simp [Sent, failHdr, fail, failWith, Stop.isLocal]
    · split <;> simp [Sent, Stop.isLocal]

theorem sent_trans {s1 s2 s3 : RxState} {b : Bool} (h1 : Sent s1 s2 false) (h2 : Sent s2 s3 b) : Sent s1 s3 b :=
  ⟨Nat.le_trans h1.1 h2.1, fun h => Nat.lt_of_le_of_lt h1.1 (h2.2 h)⟩

/-- `pump` from a state whose latch is clear: a reported local alert was sent during the call -/
theorem pump_sent {β : Type} (p : Params) (D : Dec β) (c : Ctx) (t : Tail) (stop : Bool) :
    ∀ (ws : List (Wire β)) (s : RxState), s.err = none →
      Sent s (pump p D c t stop s ws).1 (Stop.isLocal (pump p D c t stop s ws).2.2) := by
  intro ws
  induction ws with
  | nil =>
    intro s he
    have hp' : pump p D c t stop s [] = ((atTail p c s t).1, [], (atTail p c s t).2) := by simp [pump, he]
    rw [hp']; exact atTail_sent p c s t
  | cons w ws ih =>
    intro s he
    by_cases hi : s.input = []
    · have hsent := rx_sent p D c s w
      obtain ⟨_, hsh⟩ := rx_shape p D c s w
      generalize hr : rx p D c s w = r at hsent hsh
      obtain ⟨s', o⟩ := r
      simp only at hsent hsh
      have hs' : (∀ e, o ≠ .err e) → s'.err = none := by
        intro hne
        rcases hsh with ⟨e, ho, _⟩ | ⟨_, h⟩
        · exact absurd ho (hne e)
        · rw [h, he]
      cases o with
      | err e =>
        have : pump p D c t stop s (w :: ws) = (s', ws, .err e) := by simp [pump, he, hi, hr]
        rw [this]
        cases e <;> simpa [Stop.isLocal, RxOut.isLocal] using hsent
      | data d =>
        have : pump p D c t stop s (w :: ws) = ({ s' with input := d }, ws, .filled) := by
          simp [pump, he, hi, hr]
        rw [this]
        exact ⟨hsent.1, by simp [Stop.isLocal]⟩
      | cont =>
        have : pump p D c t stop s (w :: ws) = pump p D c t stop s' ws := by simp [pump, he, hi, hr]
        rw [this]
        exact sent_trans (by simpa [RxOut.isLocal] using hsent) (ih s' (hs' (by simp)))
      | hand =>
        cases stop with
        | true =>
          have : pump p D c t true s (w :: ws) = (s', ws, .nil) := by simp [pump, he, hi, hr]
          rw [this]; exact ⟨hsent.1, by simp [Stop.isLocal]⟩
        | false =>
          have : pump p D c t false s (w :: ws) = pump p D c t false s' ws := by simp [pump, he, hi, hr]
          rw [this]
          exact sent_trans (by simpa [RxOut.isLocal] using hsent) (ih s' (hs' (by simp)))
      | ccs =>
        cases stop with
        | true =>
          have : pump p D c t true s (w :: ws) = (s', ws, .nil) := by simp [pump, he, hi, hr]
          rw [this]; exact ⟨hsent.1, by simp [Stop.isLocal]⟩
        | false =>
          have : pump p D c t false s (w :: ws) = pump p D c t false s' ws := by simp [pump, he, hi, hr]
          rw [this]
          exact sent_trans (by simpa [RxOut.isLocal] using hsent) (ih s' (hs' (by simp)))
    · have : pump p D c t stop s (w :: ws) = ({ s with err := some .internalPending }, w :: ws, .err .internalPending) := by
        simp [pump, he, hi]
      rw [this]; simp [Sent, Stop.isLocal]

def ReadRes.isLocal : ReadRes → Bool
  | .err (.localAlert _) => true
  | .okErr _ (.localAlert _) => true
  | _ => false

/-- the record-layer part of one `Read` (fill, drain, look-ahead) from a clear latch -/
theorem readRec_sent (t : Tail) (seg : Seg) (raw : Nat) (tb : Bool)
    (s : RxState) (ws : List (Wire Bytes)) (n : Nat) (he : s.err = none) :
    Sent s (readRec t seg raw tb s ws n).1.1.1 (ReadRes.isLocal (readRec t seg raw tb s ws n).1.2) := by
  unfold readRec
  -- the first part: `readCall … false`
  have h1 : Sent s (readCall P plainDec Ctx.established t s ws n false).1.1
      (ReadRes.isLocal (readCall P plainDec Ctx.established t s ws n false).2) ∧
      (∀ out, (readCall P plainDec Ctx.established t s ws n false).2 = .ok out →
        (readCall P plainDec Ctx.established t s ws n false).1.1.err = none) := by
    unfold readCall
    by_cases hn : n = 0
    · simp [hn, Sent, ReadRes.isLocal, he]
    simp only [hn, if_false, Bool.and_false, Bool.false_and, Bool.false_eq_true]
    by_cases hi : s.input = []
    · simp only [hi, ne_eq, not_true_eq_false, if_false]
      have hs := pump_sent P plainDec Ctx.established t false ws s he
      obtain ⟨_, l2, _⟩ := pump_latch P plainDec Ctx.established t false ws s hi
      generalize pump P plainDec Ctx.established t false s ws = r at hs l2
      obtain ⟨s1, ws1, st⟩ := r
      simp only at hs l2
      cases st with
      | err e => exact ⟨by cases e <;> simpa [Stop.isLocal, ReadRes.isLocal] using hs, by simp⟩
      | blocked => exact ⟨⟨hs.1, by simp [ReadRes.isLocal]⟩, by simp⟩
      | filled => exact ⟨⟨hs.1, by simp [ReadRes.isLocal]⟩, fun _ _ => (l2 (by simp)).2⟩
      | nil => exact ⟨⟨hs.1, by simp [ReadRes.isLocal]⟩, fun _ _ => (l2 (by simp)).2⟩
    · simp only [ne_eq, hi, not_false_eq_true, if_true]
      exact ⟨⟨Nat.le_refl _, by simp [ReadRes.isLocal]⟩, fun _ _ => he⟩
  generalize readCall P plainDec Ctx.established t s ws n false = r1 at h1
  obtain ⟨⟨s1, ws1⟩, res1⟩ := r1
  obtain ⟨h1, h1e⟩ := h1
  simp only at h1 h1e ⊢
  cases res1 with
  | ok out =>
    simp only
    generalize (decide (rawAfter seg raw (ws.length - ws1.length) ws1.length tb > 0) &&
      nextWire ws1 t == some P.tAlert) = pk
    have he1 := h1e out rfl
    have h1' : Sent s s1 false := ⟨h1.1, by simp⟩
    unfold lookAhead
    split
    · have hs := pump_sent P plainDec Ctx.established t true ws1 s1 he1
      generalize pump P plainDec Ctx.established t true s1 ws1 = r at hs
      obtain ⟨s3, ws3, st⟩ := r
      simp only at hs
      cases st with
      | err e => exact sent_trans h1' (by cases e <;> simpa [Stop.isLocal, ReadRes.isLocal] using hs)
      | blocked => exact sent_trans h1' ⟨hs.1, by simp [ReadRes.isLocal]⟩
      | filled => exact sent_trans h1' ⟨hs.1, by simp [ReadRes.isLocal]⟩
      | nil => exact sent_trans h1' ⟨hs.1, by simp [ReadRes.isLocal]⟩
    · exact ⟨h1.1, by simp [ReadRes.isLocal]⟩
  | okErr d e => exact h1
  | err e => exact h1
  | blocked d => exact h1

/-- `outErrAfter` latches `c.out.err` as soon as an alert was sent during the call -/
theorem outErrAfter_sent (old new : RxState) (o : Option ApiErr) (h : old.alerts.length < new.alerts.length) :
    (outErrAfter old new o).isSome = true := by
  unfold outErrAfter
  cases hl : (new.alerts.drop old.alerts.length).getLast? with
  | none => simp [List.getLast?_eq_none_iff] at hl; omega
  | some a => simp

end Gotlcp.Lemmas.ConnAPIAlert

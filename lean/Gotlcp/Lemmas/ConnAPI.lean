/-
Helper lemmas for C12 (`Gotlcp.Model.ConnAPI` on top of `Gotlcp.Model.RecordRx`).
-/
import Gotlcp.Model.ConnAPI
import Gotlcp.Lemmas.RecordRx

set_option linter.unusedSimpArgs false
set_option linter.unusedVariables false

namespace Gotlcp.Lemmas.ConnAPI
open Gotlcp.Model.RecordRx
open Gotlcp.Model.ConnAPI
open Gotlcp.Lemmas.RecordRx

/-! ### shape of one record step, in every state of the connection -/

/-- `rx` either fails and latches exactly the error it returns, or leaves the latch alone;
it never touches `c.input` -/
def Shape (s : RxState) (r : RxState × RxOut) : Prop :=
  r.1.input = s.input ∧
  ((∃ e, r.2 = .err e ∧ r.1.err = some e) ∨ ((∀ e, r.2 ≠ .err e) ∧ r.1.err = s.err))

theorem dispatch_shape (p : Params) (c : Ctx) (s : RxState) (typ : Nat) (data : Bytes) :
    Shape s (dispatch p c s typ data) := by
  obtain ⟨e1, e2, e3, _, _⟩ := resetRetry_fields p s typ data
  generalize hr : dispatch p c s typ data = r
  simp [dispatch, failAlert, fail, failWith, retry] at hr
  generalize resetRetry p s typ data = s1 at *
  unfold Shape
  repeat' split at hr
  all_goals (subst hr; simp_all)

theorem rx_shape {β : Type} (p : Params) (D : Dec β) (c : Ctx) (s : RxState) (w : Wire β) :
    Shape s (rx p D c s w) := by
  unfold rx
  split
  · rename_i r _
    obtain ⟨a, e⟩ := r
    cases a <;> simp [Shape, failHdr, fail, failWith]
  · split
    · simp [Shape, failAlert]
    · rename_i data _
      have := dispatch_shape p c { s with seq := s.seq + 1 } w.typ data
      exact this

theorem atTail_shape (p : Params) (c : Ctx) (s : RxState) (t : Tail) :
    (atTail p c s t).1.input = s.input ∧
    (((atTail p c s t).2 = .blocked ∧ (atTail p c s t).1 = s) ∨
     (∃ e, (atTail p c s t).2 = .err e ∧ (atTail p c s t).1.err = some e)) := by
  rcases atTail_cases p c s t with ⟨h1, h2⟩ | ⟨e, h1, h2, h3⟩
  · exact ⟨by rw [h2], Or.inl ⟨h1, h2⟩⟩
  · exact ⟨h3, Or.inr ⟨e, h1, h2⟩⟩

/-- what `pump` guarantees about the latch, whatever the realisation of protection:
an error result is latched (with `c.input` empty), any other result leaves the latch clear -/
theorem pump_latch {β : Type} (p : Params) (D : Dec β) (c : Ctx) (t : Tail) (stop : Bool) :
    ∀ (ws : List (Wire β)) (s : RxState), s.input = [] →
      (∀ e, (pump p D c t stop s ws).2.2 = .err e →
          (pump p D c t stop s ws).1.err = some e ∧ (pump p D c t stop s ws).1.input = []) ∧
      ((∀ e, (pump p D c t stop s ws).2.2 ≠ .err e) → s.err = none ∧ (pump p D c t stop s ws).1.err = none) ∧
      (∀ e, s.err = some e → pump p D c t stop s ws = (s, ws, .err e)) := by
  intro ws
  induction ws with
  | nil =>
    intro s hi
    cases he : s.err with
    | some e =>
      have : pump p D c t stop s [] = (s, [], .err e) := by simp [pump, he]
      rw [this]
      refine ⟨?_, ?_, ?_⟩
      · intro e' h; cases h; exact ⟨he, hi⟩
      · intro h; exact absurd rfl (h e)
      · intro e' h; cases h; rfl
    | none =>
      have hp' : pump p D c t stop s [] = ((atTail p c s t).1, [], (atTail p c s t).2) := by simp [pump, he]
      rw [hp']
      obtain ⟨h0, h1⟩ := atTail_shape p c s t
      refine ⟨?_, ?_, by simp⟩
      · intro e h
        rcases h1 with ⟨hb, _⟩ | ⟨e', h2, h3⟩
        · simp only at h; rw [hb] at h; cases h
        · simp only at h; rw [h2] at h; cases h
          exact ⟨h3, by rw [h0, hi]⟩
      · intro h
        rcases h1 with ⟨hb, hs⟩ | ⟨e', h2, h3⟩
        · exact ⟨rfl, by simp only; rw [hs, he]⟩
        · exact absurd h2 (h e')
  | cons w ws ih =>
    intro s hi
    cases he : s.err with
    | some e =>
      have : pump p D c t stop s (w :: ws) = (s, w :: ws, .err e) := by simp [pump, he]
      rw [this]
      refine ⟨?_, ?_, ?_⟩
      · intro e' h; cases h; exact ⟨he, hi⟩
      · intro h; exact absurd rfl (h e)
      · intro e' h; cases h; rfl
    | none =>
      obtain ⟨hin, hsh⟩ := rx_shape p D c s w
      generalize hr : rx p D c s w = r at hin hsh
      obtain ⟨s', o⟩ := r
      simp only at hin hsh
      have hi' : s'.input = [] := by rw [hin, hi]
      rcases hsh with ⟨e, ho, hs'⟩ | ⟨hne, hs'⟩
      · subst ho
        have : pump p D c t stop s (w :: ws) = (s', ws, .err e) := by simp [pump, he, hi, hr]
        rw [this]
        refine ⟨?_, ?_, by simp⟩
        · intro e' h; cases h; exact ⟨hs', hi'⟩
        · intro h; exact absurd rfl (h e)
      · have hs'' : s'.err = none := by rw [hs', he]
        cases o with
        | err e => exact absurd rfl (hne e)
        | data d =>
          have : pump p D c t stop s (w :: ws) = ({ s' with input := d }, ws, .filled) := by
            simp [pump, he, hi, hr]
          rw [this]
          exact ⟨(by intro e h; cases h), fun _ => ⟨rfl, hs''⟩, by simp⟩
        | cont =>
          have : pump p D c t stop s (w :: ws) = pump p D c t stop s' ws := by simp [pump, he, hi, hr]
          rw [this]
          obtain ⟨a, b, _⟩ := ih s' hi'
          exact ⟨a, fun h => ⟨rfl, (b h).2⟩, by simp⟩
        | hand =>
          cases stop with
          | true =>
            have : pump p D c t true s (w :: ws) = (s', ws, .nil) := by simp [pump, he, hi, hr]
            rw [this]
            exact ⟨(by intro e h; cases h), fun _ => ⟨rfl, hs''⟩, by simp⟩
          | false =>
            have : pump p D c t false s (w :: ws) = pump p D c t false s' ws := by simp [pump, he, hi, hr]
            rw [this]
            obtain ⟨a, b, _⟩ := ih s' hi'
            exact ⟨a, fun h => ⟨rfl, (b h).2⟩, by simp⟩
        | ccs =>
          cases stop with
          | true =>
            have : pump p D c t true s (w :: ws) = (s', ws, .nil) := by simp [pump, he, hi, hr]
            rw [this]
            exact ⟨(by intro e h; cases h), fun _ => ⟨rfl, hs''⟩, by simp⟩
          | false =>
            have : pump p D c t false s (w :: ws) = pump p D c t false s' ws := by simp [pump, he, hi, hr]
            rw [this]
            obtain ⟨a, b, _⟩ := ih s' hi'
            exact ⟨a, fun h => ⟨rfl, (b h).2⟩, by simp⟩

/-- `readCall` without the look-ahead (`peek = false`): an error result means the latch is set
and `c.input` is empty; a latched state with empty `c.input` answers every non-empty read with
its error and does not change -/
theorem readCall_latch {β : Type} (p : Params) (D : Dec β) (c : Ctx) (t : Tail)
    (s : RxState) (ws : List (Wire β)) (n : Nat) (hn : n ≠ 0) :
    (∀ e, (readCall p D c t s ws n false).2 = .err e →
        (readCall p D c t s ws n false).1.1.err = some e ∧ (readCall p D c t s ws n false).1.1.input = []) ∧
    (∀ d e, (readCall p D c t s ws n false).2 ≠ .okErr d e) ∧
    (∀ e, s.err = some e → s.input = [] → readCall p D c t s ws n false = ((s, ws), .err e)) := by
  unfold readCall
  simp only [hn, if_false, Bool.and_false, Bool.false_and, Bool.false_eq_true, if_false]
  by_cases hi : s.input = []
  · simp only [hi, ne_eq, not_true_eq_false, if_false]
    obtain ⟨h1, h2, h3⟩ := pump_latch p D c t false ws s hi
    generalize pump p D c t false s ws = r at h1 h2 h3
    obtain ⟨s1, ws1, st⟩ := r
    cases st with
    | err e =>
      refine ⟨?_, by simp, ?_⟩
      · intro e' h; cases h; exact h1 e rfl
      · intro e' he _
        have := h3 e' he
        simp only [Prod.mk.injEq] at this
        obtain ⟨rfl, rfl, h⟩ := this
        cases h; rfl
    | blocked =>
      refine ⟨by simp, by simp, ?_⟩
      intro e' he _
      have := h3 e' he
      simp at this
    | filled =>
      refine ⟨by simp, by simp, ?_⟩
      intro e' he _
      have := h3 e' he
      simp at this
    | nil =>
      refine ⟨by simp, by simp, ?_⟩
      intro e' he _
      have := h3 e' he
      simp at this
  · simp only [ne_eq, hi, not_false_eq_true, if_true]
    refine ⟨by simp, by simp, ?_⟩
    intro e _ h
    first | exact absurd h hi | exact h.elim

/-- `pump` started with empty `c.input` leaves it empty unless it reports `filled` -/
theorem pump_input {β : Type} (p : Params) (D : Dec β) (c : Ctx) (t : Tail) (stop : Bool) :
    ∀ (ws : List (Wire β)) (s : RxState), s.input = [] →
      (pump p D c t stop s ws).2.2 ≠ .filled → (pump p D c t stop s ws).1.input = [] := by
  intro ws
  induction ws with
  | nil =>
    intro s hi _
    cases he : s.err with
    | some e => simp [pump, he, hi]
    | none =>
      have hp' : pump p D c t stop s [] = ((atTail p c s t).1, [], (atTail p c s t).2) := by simp [pump, he]
      rw [hp']; simp only
      rw [(atTail_shape p c s t).1, hi]
  | cons w ws ih =>
    intro s hi hnf
    cases he : s.err with
    | some e => simp [pump, he, hi]
    | none =>
      obtain ⟨hin, _⟩ := rx_shape p D c s w
      generalize hr : rx p D c s w = r at hin
      obtain ⟨s', o⟩ := r
      simp only at hin
      have hi' : s'.input = [] := by rw [hin, hi]
      cases o with
      | err e => simp [pump, he, hi, hr, hi']
      | data d => exfalso; apply hnf; simp [pump, he, hi, hr]
      | cont =>
        have e1 : pump p D c t stop s (w :: ws) = pump p D c t stop s' ws := by simp [pump, he, hi, hr]
        rw [e1] at hnf ⊢; exact ih s' hi' hnf
      | hand =>
        cases stop with
        | true => simp [pump, he, hi, hr, hi']
        | false =>
          have e1 : pump p D c t false s (w :: ws) = pump p D c t false s' ws := by simp [pump, he, hi, hr]
          rw [e1] at hnf ⊢; exact ih s' hi' hnf
      | ccs =>
        cases stop with
        | true => simp [pump, he, hi, hr, hi']
        | false =>
          have e1 : pump p D c t false s (w :: ws) = pump p D c t false s' ws := by simp [pump, he, hi, hr]
          rw [e1] at hnf ⊢; exact ih s' hi' hnf

/-- a `blocked` result of `readCall` (no look-ahead) hands out nothing and leaves `c.input` empty -/
theorem readCall_blocked {β : Type} (p : Params) (D : Dec β) (c : Ctx) (t : Tail)
    (s : RxState) (ws : List (Wire β)) (n : Nat) (d : Bytes)
    (h : (readCall p D c t s ws n false).2 = .blocked d) :
    d = [] ∧ (readCall p D c t s ws n false).1.1.input = [] := by
  unfold readCall at h ⊢
  by_cases hn : n = 0
  · simp [hn] at h
  simp only [hn, if_false, Bool.and_false, Bool.false_and, Bool.false_eq_true] at h ⊢
  by_cases hi : s.input = []
  · simp only [hi, ne_eq, not_true_eq_false, if_false] at h ⊢
    have hpi := pump_input p D c t false ws s hi
    generalize pump p D c t false s ws = r at h hpi
    obtain ⟨s1, ws1, st⟩ := r
    cases st <;> simp at h ⊢
    exact ⟨h, hpi (by simp)⟩
  · simp [hi] at h

/-! ### the close-notify look-ahead and the record-layer part of one `Read` -/

/-- the look-ahead never returns a bare error; when it returns one with the bytes it is latched and
`c.input` is empty; it only ever runs with `c.input` drained -/
theorem lookAhead_shape (t : Tail) (pk : Bool) (s : RxState) (ws : List (Wire Bytes)) (out : Bytes) :
    (∀ e, (lookAhead t pk s ws out).2 ≠ .err e) ∧
    (∀ d e, (lookAhead t pk s ws out).2 = .okErr d e → d = out ∧ out ≠ [] ∧ s.input = [] ∧
        (lookAhead t pk s ws out).1.1.err = some e ∧ (lookAhead t pk s ws out).1.1.input = []) ∧
    (∀ d, (lookAhead t pk s ws out).2 = .blocked d → d = out ∧ out ≠ [] ∧ s.input = [] ∧
        (lookAhead t pk s ws out).1.1.input = []) ∧
    (∀ d, (lookAhead t pk s ws out).2 = .ok d → d = out) := by
  unfold lookAhead
  by_cases hc : (decide (out ≠ []) && s.input == [] && pk) = true
  · simp only [hc, if_true]
    have hi : s.input = [] := by
      simp only [Bool.and_eq_true, beq_iff_eq] at hc; exact hc.1.2
    have hne : out ≠ [] := by
      simp only [Bool.and_eq_true, decide_eq_true_eq] at hc; exact hc.1.1
    obtain ⟨h1, h2, h3⟩ := pump_latch P plainDec Ctx.established t true ws s hi
    have hpi := pump_input P plainDec Ctx.established t true ws s hi
    generalize pump P plainDec Ctx.established t true s ws = r at h1 h2 h3 hpi
    obtain ⟨s3, ws3, st⟩ := r
    simp only at h1 h2 h3 hpi
    cases st with
    | err e =>
      refine ⟨by simp, ?_, by simp, by simp⟩
      intro d e' h
      simp only [ReadRes.okErr.injEq] at h
      obtain ⟨rfl, rfl⟩ := h
      exact ⟨rfl, hne, hi, h1 e rfl⟩
    | blocked =>
      refine ⟨by simp, by simp, ?_, by simp⟩
      intro d h
      simp only [ReadRes.blocked.injEq] at h
      subst h
      exact ⟨rfl, hne, hi, hpi (by simp)⟩
    | filled => exact ⟨by simp, by simp, by simp, by intro d h; simp at h; exact h.symm⟩
    | nil => exact ⟨by simp, by simp, by simp, by intro d h; simp at h; exact h.symm⟩
  · simp only [hc, Bool.false_eq_true, if_false]
    exact ⟨by simp, by simp, by simp, by intro d h; simp at h; exact h.symm⟩

/-- `readRec` (fill, drain, look-ahead): every error result is latched with `c.input` empty, a
blocked call leaves `c.input` empty, and a latched state with empty `c.input` answers every
non-empty read with its error and does not change -/
theorem readRec_latch (t : Tail) (seg : Seg) (raw : Nat) (tb : Bool)
    (s : RxState) (ws : List (Wire Bytes)) (n : Nat) (hn : n ≠ 0) :
    (∀ e, (readRec t seg raw tb s ws n).1.2 = .err e →
        (readRec t seg raw tb s ws n).1.1.1.err = some e ∧ (readRec t seg raw tb s ws n).1.1.1.input = []) ∧
    (∀ d e, (readRec t seg raw tb s ws n).1.2 = .okErr d e →
        (readRec t seg raw tb s ws n).1.1.1.err = some e ∧ (readRec t seg raw tb s ws n).1.1.1.input = []) ∧
    (∀ d, (readRec t seg raw tb s ws n).1.2 = .blocked d → (readRec t seg raw tb s ws n).1.1.1.input = []) ∧
    (∀ e, s.err = some e → s.input = [] → (readRec t seg raw tb s ws n).1 = ((s, ws), .err e)) := by
  obtain ⟨l1, l2, l3⟩ := readCall_latch P plainDec Ctx.established t s ws n hn
  have lb := readCall_blocked P plainDec Ctx.established t s ws n
  unfold readRec
  generalize readCall P plainDec Ctx.established t s ws n false = r1 at l1 l2 l3 lb
  obtain ⟨⟨s1, ws1⟩, res1⟩ := r1
  simp only at l1 l2 l3 lb ⊢
  cases res1 with
  | ok out =>
    simp only
    generalize (decide (rawAfter seg raw (ws.length - ws1.length) ws1.length tb > 0) &&
      nextWire ws1 t == some P.tAlert) = pk
    obtain ⟨a1, a2, a3, a4⟩ := lookAhead_shape t pk s1 ws1 out
    generalize lookAhead t pk s1 ws1 out = la at a1 a2 a3 a4
    refine ⟨fun e h => absurd h (a1 e), fun d e h => (a2 d e h).2.2.2, fun d h => (a3 d h).2.2.2, ?_⟩
    intro e he hi
    have := l3 e he hi
    simp at this
  | okErr d e => exact absurd rfl (l2 d e)
  | err e =>
    simp only
    refine ⟨fun e' h => by cases h; exact l1 e rfl, by simp, by simp, ?_⟩
    intro e' he hi
    have := l3 e' he hi
    simp only [Prod.mk.injEq] at this
    obtain ⟨⟨rfl, rfl⟩, h⟩ := this
    cases h; rfl
  | blocked d =>
    simp only
    refine ⟨by simp, by simp, fun d' h => by cases h; exact (lb d rfl).2, ?_⟩
    intro e' he hi
    have := l3 e' he hi
    simp at this

end Gotlcp.Lemmas.ConnAPI

/-
C09 (a) — certificate lists: `Model.CertIdx.mayPanic` does not depend on the length of the list
beyond the largest constant of the program (`pbound`), hence the finite check `Model.CertIdx.check`
decides it for EVERY length.
-/
import Gotlcp.Model.CertIdx

namespace Gotlcp.Lemmas.CertIdx
open Gotlcp.Model.CertIdx

/-- every integer local holds a value below `B` -/
def VB (B : Nat) (vs : Vars) : Prop := ∀ v x, getVar vs v = some x → x < B

theorem VB_nil (B : Nat) : VB B [] := by
  intro v x h; simp [getVar] at h

theorem VB_cons {B : Nat} {vs : Vars} (h : VB B vs) (v k : Nat) (hk : k < B) : VB B ((v, k) :: vs) := by
  intro w x hx
  simp only [getVar] at hx
  split at hx
  · cases hx; exact hk
  · exact h w x hx

theorem evalC_clamp (f0 f1 : Bool) (B n : Nat) (hn : B ≤ n) :
    ∀ c : Cond, cbound c ≤ B → evalC n f0 f1 c = evalC B f0 f1 c := by
  intro c
  induction c with
  | lt k =>
    intro h
    simp only [cbound] at h
    simp only [evalC]
    have h1 : ¬ n < k := by omega
    have h2 : ¬ B < k := by omega
    simp [h1, h2]
  | flag i => intro _; rfl
  | opq => intro _; rfl
  | not c ih => intro h; simp only [cbound] at h; simp only [evalC, ih h]
  | and a b iha ihb =>
    intro h
    simp only [cbound] at h
    have ha : cbound a ≤ B := by omega
    have hb : cbound b ≤ B := by omega
    simp only [evalC, iha ha, ihb hb]
  | or a b iha ihb =>
    intro h
    simp only [cbound] at h
    have ha : cbound a ≤ B := by omega
    have hb : cbound b ≤ B := by omega
    simp only [evalC, iha ha, ihb hb]

theorem val_lt {B : Nat} {e : E} {vs : Vars} {i : Nat} (he : ebound e ≤ B) (hv : VB B vs)
    (h : val e vs = some i) : i < B := by
  cases e with
  | k m => simp only [val] at h; cases h; simp only [ebound] at he; omega
  | v j => simp only [val] at h; exact hv j i h

/-- the clamp: with every constant of the block at most `B`, every local below `B` and
continuations that agree on such locals, a list of `n ≥ B` entries behaves as one of `B` entries -/
theorem mp_clamp (f0 f1 : Bool) (B n : Nat) (hn : B ≤ n) :
    ∀ (p : Prog), pbound p ≤ B → ∀ (vs : Vars), VB B vs →
      ∀ (kf kb kc kf' kb' kc' : Vars → Bool),
        (∀ w, VB B w → kf w = kf' w) → (∀ w, VB B w → kb w = kb' w) → (∀ w, VB B w → kc w = kc' w) →
        mp n f0 f1 p vs kf kb kc = mp B f0 f1 p vs kf' kb' kc' := by
  intro p
  induction p with
  | done => intro _ vs hv kf kb kc kf' kb' kc' hf _ _; simp only [mp]; exact hf vs hv
  | ret => intros; rfl
  | brk => intro _ vs hv kf kb kc kf' kb' kc' _ hb _; simp only [mp]; exact hb vs hv
  | cont => intro _ vs hv kf kb kc kf' kb' kc' _ _ hc; simp only [mp]; exact hc vs hv
  | havoc => intros; rfl
  | idx e rest ih =>
    intro hp vs hv kf kb kc kf' kb' kc' hf hb hc
    simp only [pbound] at hp
    have he : ebound e ≤ B := by omega
    have hr : pbound rest ≤ B := by omega
    simp only [mp]
    cases hval : val e vs with
    | none => rfl
    | some i =>
      have hi : i < B := val_lt he hv hval
      have h1 : i < n := by omega
      simp only [h1, hi, ↓reduceIte]
      exact ih hr vs hv kf kb kc kf' kb' kc' hf hb hc
  | slice e rest ih =>
    intro hp vs hv kf kb kc kf' kb' kc' hf hb hc
    simp only [pbound] at hp
    have he : ebound e ≤ B := by omega
    have hr : pbound rest ≤ B := by omega
    simp only [mp]
    cases hval : val e vs with
    | none => rfl
    | some i =>
      have hi : i < B := val_lt he hv hval
      have h1 : i ≤ n := by omega
      have h2 : i ≤ B := by omega
      simp only [h1, h2, ↓reduceIte]
      exact ih hr vs hv kf kb kc kf' kb' kc' hf hb hc
  | set v k rest ih =>
    intro hp vs hv kf kb kc kf' kb' kc' hf hb hc
    simp only [pbound] at hp
    have hk : k < B := by omega
    have hr : pbound rest ≤ B := by omega
    simp only [mp]
    exact ih hr _ (VB_cons hv v k hk) kf kb kc kf' kb' kc' hf hb hc
  | ite c t e rest iht ihe ihr =>
    intro hp vs hv kf kb kc kf' kb' kc' hf hb hc
    simp only [pbound] at hp
    have hcb : cbound c ≤ B := by omega
    have ht : pbound t ≤ B := by omega
    have he : pbound e ≤ B := by omega
    have hr : pbound rest ≤ B := by omega
    simp only [mp, evalC_clamp f0 f1 B n hn c hcb]
    have hk : ∀ w, VB B w → (fun vs' => mp n f0 f1 rest vs' kf kb kc) w = (fun vs' => mp B f0 f1 rest vs' kf' kb' kc') w :=
      fun w hw => ihr hr w hw kf kb kc kf' kb' kc' hf hb hc
    have e1 := iht ht vs hv _ kb kc _ kb' kc' hk hb hc
    have e2 := ihe he vs hv _ kb kc _ kb' kc' hk hb hc
    cases evalC B f0 f1 c with
    | none => simp only [e1, e2]
    | some b => cases b <;> simp only [e1, e2]
  | loop b rest ihb ihr =>
    intro hp vs hv kf kb kc kf' kb' kc' hf hb hc
    simp only [pbound] at hp
    have hbb : pbound b ≤ B := by omega
    have hr : pbound rest ≤ B := by omega
    simp only [mp]
    rw [ihb hbb vs hv _ _ _ (fun _ => false) (fun _ => false) (fun _ => false) (fun _ _ => rfl) (fun _ _ => rfl) (fun _ _ => rfl),
      ihr hr vs hv kf kb kc kf' kb' kc' hf hb hc]
  | scope b rest ihb ihr =>
    intro hp vs hv kf kb kc kf' kb' kc' hf hb hc
    simp only [pbound] at hp
    have hbb : pbound b ≤ B := by omega
    have hr : pbound rest ≤ B := by omega
    simp only [mp]
    have hk : ∀ w, VB B w → (fun vs' => mp n f0 f1 rest vs' kf kb kc) w = (fun vs' => mp B f0 f1 rest vs' kf' kb' kc') w :=
      fun w hw => ihr hr w hw kf kb kc kf' kb' kc' hf hb hc
    exact ihb hbb vs hv _ _ kc _ _ kc' hk hk hc

/-- a list longer than every constant of the program behaves as one of exactly that length -/
theorem mayPanic_clamp (p : Prog) (n : Nat) (hn : pbound p ≤ n) (f0 f1 : Bool) :
    mayPanic p n f0 f1 = mayPanic p (pbound p) f0 f1 := by
  unfold mayPanic
  exact mp_clamp f0 f1 (pbound p) n hn p (Nat.le_refl _) [] (VB_nil _) _ _ _ _ _ _
    (fun _ _ => rfl) (fun _ _ => rfl) (fun _ _ => rfl)

theorem safeUpTo_all {p : Prog} (h : safeUpTo p = true) (n : Nat) (f0 f1 : Bool) : mayPanic p n f0 f1 = false := by
  have key : ∀ m, m ≤ pbound p → ∀ g0 g1 : Bool, mayPanic p m g0 g1 = false := by
    intro m hm g0 g1
    unfold safeUpTo at h
    rw [List.all_eq_true] at h
    have hm' := h m (List.mem_range.mpr (by omega))
    simp only [Bool.and_eq_true, Bool.not_eq_true'] at hm'
    obtain ⟨⟨⟨h00, h01⟩, h10⟩, h11⟩ := hm'
    cases g0 <;> cases g1 <;> assumption
  by_cases hn : n ≤ pbound p
  · exact key n hn f0 f1
  · rw [mayPanic_clamp p n (by omega) f0 f1]
    exact key _ (Nat.le_refl _) f0 f1

/-- the finite check is the statement for every length and every value of the boolean locals -/
theorem safe_of_check {toks : List Tok} (h : check toks = true) :
    ∃ p, progOf toks = some p ∧ ∀ (n : Nat) (f0 f1 : Bool), mayPanic p n f0 f1 = false := by
  unfold check at h
  cases hp : progOf toks with
  | none => rw [hp] at h; cases h
  | some p =>
    rw [hp] at h
    exact ⟨p, rfl, safeUpTo_all h⟩

end Gotlcp.Lemmas.CertIdx

/-
The world invariant behind C10's history theorems, and its preservation by every step of
`Gotlcp.Model.Resumption` (for the repaired client: one object per cache key, new session
stored after the server's Finished).
-/
import Gotlcp.Lemmas.Resumption
import Gotlcp.Props.C11

set_option linter.unusedSimpArgs false
set_option linter.unusedVariables false

namespace Gotlcp.Lemmas.ResumptionInv
open Gotlcp.Model
open Gotlcp.Model.Resumption
open Gotlcp.Model.LRU (Entry State live)
open Gotlcp.Lemmas.Resumption
open Gotlcp.Props.C11 (Safe put_safe get_safe mem_live_of_mem)

/-- two session records describe the same session -/
def Agree (a b : Session) : Prop := a.vers = b.vers ∧ a.suite = b.suite ∧ a.ms = b.ms

theorem Agree.refl (a : Session) : Agree a a := ⟨rfl, rfl, rfl⟩
theorem Agree.symm {a b : Session} (h : Agree a b) : Agree b a := ⟨h.1.symm, h.2.1.symm, h.2.2.symm⟩

structure Inv (src : Nat → Nat) (w : World) : Prop where
  /-- every identifier in the heap was drawn from the source -/
  idsBelow : ∀ o : Nat, o < w.nObj → ∃ m, m < w.nId ∧ (w.heap o).id = src m
  /-- records with the same identifier agree on version, suite and master secret -/
  coherent : ∀ o1 o2 : Nat, o1 < w.nObj → o2 < w.nObj → (w.heap o1).id = (w.heap o2).id → Agree (w.heap o1) (w.heap o2)
  allocC : ∀ e ∈ w.client.q, ∀ o : Nat, e.val = some o → o < w.nObj
  allocS : ∀ i, ∀ e ∈ (w.servers i).q, ∀ o : Nat, e.val = some o → o < w.nObj
  /-- a server files a session under its own identifier -/
  keyedS : ∀ i, ∀ e ∈ (w.servers i).q, ∀ o : Nat, e.val = some o → e.key = idKey (w.heap o).id
  /-- a record that names a server as its peer shares its identifier only with that server's cache -/
  issuer : ∀ o1 : Nat, o1 < w.nObj → ∀ j, (w.heap o1).peer = some j →
      ∀ i, ∀ e ∈ (w.servers i).q, ∀ o2 : Nat, e.val = some o2 → (w.heap o2).id = (w.heap o1).id → j = i
  /-- no object reachable through a cache is wiped (C11_live_unharmed's invariant) -/
  safeC : ∃ used, Safe used w.client ∧ ∀ o : Nat, o ∈ used → o < w.nObj
  safeS : ∀ i, ∃ used, Safe used (w.servers i) ∧ ∀ o : Nat, o ∈ used → o < w.nObj

variable {src : Nat → Nat}

/-! ### primitive steps -/

/-- same caches and heap, counters not smaller -/
theorem inv_counters {w w' : World} (h : Inv src w) (hc : w'.client = w.client) (hs : w'.servers = w.servers)
    (hh : w'.heap = w.heap) (ho : w'.nObj = w.nObj) (hi : w.nId ≤ w'.nId) : Inv src w' := by
  obtain ⟨h1, h2, h3, h4, h5, h6, h7, h8⟩ := h
  refine ⟨?_, ?_, ?_, ?_, ?_, ?_, ?_, ?_⟩
  · intro o ho'; rw [ho] at ho'; obtain ⟨m, hm, he⟩ := h1 o ho'; exact ⟨m, by omega, by rw [hh]; exact he⟩
  · intro o1 o2 a b; rw [ho] at a b; rw [hh]; exact h2 o1 o2 a b
  · rw [hc, ho]; exact h3
  · rw [hs, ho]; exact h4
  · rw [hs, hh]; exact h5
  · rw [hs, hh, ho]; exact h6
  · rw [hc, ho]; exact h7
  · rw [hs, ho]; exact h8

theorem inv_getC {w : World} (h : Inv src w) (k : String) :
    Inv src { w with client := (LRU.get w.client k).1 } := by
  obtain ⟨h1, h2, h3, h4, h5, h6, h7, h8⟩ := h
  refine ⟨h1, h2, ?_, h4, h5, h6, ?_, h8⟩
  · intro e he o hv; exact h3 e (mem_get he) o hv
  · obtain ⟨used, hs, hu⟩ := h7
    exact ⟨used, get_safe used _ k hs, hu⟩

theorem mem_setServer {f : Nat → State} {i j : Nat} {s : State} {e : Entry}
    (h : e ∈ (setServer f i s j).q) : (j = i ∧ e ∈ s.q) ∨ (j ≠ i ∧ e ∈ (f j).q) := by
  unfold setServer at h
  by_cases hj : j = i
  · simp [hj] at h; exact Or.inl ⟨hj, h⟩
  · simp [hj] at h; exact Or.inr ⟨hj, h⟩

theorem inv_getS {w : World} (h : Inv src w) (i : Nat) (k : String) :
    Inv src { w with servers := setServer w.servers i (LRU.get (w.servers i) k).1 } := by
  obtain ⟨h1, h2, h3, h4, h5, h6, h7, h8⟩ := h
  have sub : ∀ j e, e ∈ (setServer w.servers i (LRU.get (w.servers i) k).1 j).q → e ∈ (w.servers j).q := by
    intro j e he
    rcases mem_setServer he with ⟨rfl, he⟩ | ⟨_, he⟩
    · exact mem_get he
    · exact he
  refine ⟨h1, h2, h3, ?_, ?_, ?_, h7, ?_⟩
  · intro j e he o hv; exact h4 j e (sub j e he) o hv
  · intro j e he o hv; exact h5 j e (sub j e he) o hv
  · intro o1 ho1 j hp j' e he o2 hv hid; exact h6 o1 ho1 j hp j' e (sub j' e he) o2 hv hid
  · intro j
    by_cases hj : j = i
    · subst hj
      obtain ⟨used, hs, hu⟩ := h8 j
      refine ⟨used, ?_, hu⟩
      show Safe used (setServer w.servers j (LRU.get (w.servers j) k).1 j)
      unfold setServer; simp only [if_true]
      exact get_safe used _ k hs
    · obtain ⟨used, hs, hu⟩ := h8 j
      refine ⟨used, ?_, hu⟩
      show Safe used (setServer w.servers i (LRU.get (w.servers i) k).1 j)
      unfold setServer; simp only [hj, if_false]
      exact hs

theorem inv_dropServer {w : World} (h : Inv src w) (i : Nat) :
    Inv src { w with servers := setServer w.servers i { cap := (w.servers i).cap, q := [], zeroed := [] } } := by
  obtain ⟨h1, h2, h3, h4, h5, h6, h7, h8⟩ := h
  have sub : ∀ j e, e ∈ (setServer w.servers i { cap := (w.servers i).cap, q := [], zeroed := [] } j).q →
      e ∈ (w.servers j).q := by
    intro j e he
    rcases mem_setServer he with ⟨rfl, he⟩ | ⟨_, he⟩
    · simp at he
    · exact he
  refine ⟨h1, h2, h3, ?_, ?_, ?_, h7, ?_⟩
  · intro j e he o hv; exact h4 j e (sub j e he) o hv
  · intro j e he o hv; exact h5 j e (sub j e he) o hv
  · intro o1 ho1 j hp j' e he o2 hv hid; exact h6 o1 ho1 j hp j' e (sub j' e he) o2 hv hid
  · intro j
    by_cases hj : j = i
    · subst hj
      refine ⟨[], ?_, by simp⟩
      show Safe [] (setServer w.servers j _ j)
      unfold setServer; simp only [if_true]
      exact ⟨by simp [live], by simp [live], by simp, by simp [live]⟩
    · obtain ⟨used, hs, hu⟩ := h8 j
      refine ⟨used, ?_, hu⟩
      show Safe used (setServer w.servers i _ j)
      unfold setServer; simp only [hj, if_false]
      exact hs

/-- deleting from the client cache -/
theorem inv_cputNone {w : World} (p : Params) (h : Inv src w) (k : String) : Inv src (cput p w k none) := by
  obtain ⟨h1, h2, h3, h4, h5, h6, h7, h8⟩ := h
  refine ⟨h1, h2, ?_, h4, h5, h6, ?_, h8⟩
  · intro e he o hv
    rcases mem_put he with rfl | he
    · simp at hv
    · exact h3 e he o hv
  · obtain ⟨used, hs, hu⟩ := h7
    exact ⟨used, put_safe p.strictDelete used w.client k none hs (by intro o h; cases h), hu⟩

theorem heap_alloc_old (w : World) (s : Session) {o : Nat} (h : o < w.nObj) : (alloc w s).1.heap o = w.heap o := by
  unfold alloc; simp only []
  have : o ≠ w.nObj := Nat.ne_of_lt h
  simp [this]

theorem heap_alloc_new (w : World) (s : Session) : (alloc w s).1.heap w.nObj = s := by
  unfold alloc; simp

/-- heap part of the invariant after allocating `s` -/
theorem heap_after_alloc {w : World} (h : Inv src w) (s : Session)
    (hid : ∃ m, m < w.nId ∧ s.id = src m)
    (hcoh : ∀ o : Nat, o < w.nObj → (w.heap o).id = s.id → Agree (w.heap o) s) :
    (∀ o : Nat, o < w.nObj + 1 → ∃ m, m < w.nId ∧ ((alloc w s).1.heap o).id = src m) ∧
    (∀ o1 o2 : Nat, o1 < w.nObj + 1 → o2 < w.nObj + 1 → ((alloc w s).1.heap o1).id = ((alloc w s).1.heap o2).id →
      Agree ((alloc w s).1.heap o1) ((alloc w s).1.heap o2)) := by
  constructor
  · intro o ho
    by_cases hlt : o < w.nObj
    · rw [heap_alloc_old w s hlt]; exact h.idsBelow o hlt
    · have : o = w.nObj := by omega
      subst this; rw [heap_alloc_new]; exact hid
  · intro o1 o2 h1 h2 hid'
    by_cases a : o1 < w.nObj <;> by_cases b : o2 < w.nObj
    · rw [heap_alloc_old w s a, heap_alloc_old w s b] at *; exact h.coherent o1 o2 a b hid'
    · have : o2 = w.nObj := by omega
      subst this
      rw [heap_alloc_old w s a, heap_alloc_new] at *
      exact hcoh o1 a hid'
    · have : o1 = w.nObj := by omega
      subst this
      rw [heap_alloc_old w s b, heap_alloc_new] at *
      exact (hcoh o2 b hid'.symm).symm
    · have e1 : o1 = w.nObj := by omega
      have e2 : o2 = w.nObj := by omega
      subst e1; subst e2; exact Agree.refl _

/-- allocate a record and file it in the client cache -/
theorem inv_allocPutC {w : World} (p : Params) (h : Inv src w) (s : Session) (k : String)
    (hid : ∃ m, m < w.nId ∧ s.id = src m)
    (hcoh : ∀ o : Nat, o < w.nObj → (w.heap o).id = s.id → Agree (w.heap o) s)
    (hiss : ∀ j, s.peer = some j → ∀ i, ∀ e ∈ (w.servers i).q, ∀ o2 : Nat, e.val = some o2 → (w.heap o2).id = s.id → j = i) :
    Inv src (cput p (alloc w s).1 k (some (alloc w s).2)) := by
  have hh := heap_after_alloc h s hid hcoh
  obtain ⟨h1, h2, h3, h4, h5, h6, h7, h8⟩ := h
  have hobj : (cput p (alloc w s).1 k (some (alloc w s).2)).nObj = w.nObj + 1 := rfl
  have hheap : (cput p (alloc w s).1 k (some (alloc w s).2)).heap = (alloc w s).1.heap := rfl
  have hsrv : (cput p (alloc w s).1 k (some (alloc w s).2)).servers = w.servers := rfl
  have hnid : (cput p (alloc w s).1 k (some (alloc w s).2)).nId = w.nId := rfl
  have hcl : (cput p (alloc w s).1 k (some (alloc w s).2)).client = LRU.put p.strictDelete w.client k (some w.nObj) := rfl
  refine ⟨?_, ?_, ?_, ?_, ?_, ?_, ?_, ?_⟩
  · rw [hobj, hheap, hnid]; exact hh.1
  · rw [hobj, hheap]; exact hh.2
  · rw [hcl, hobj]
    intro e he o hv
    rcases mem_put he with rfl | he
    · have : w.nObj = o := by simpa using hv
      omega
    · have := h3 e he o hv; omega
  · rw [hsrv, hobj]; intro i e he o hv; have := h4 i e he o hv; omega
  · rw [hsrv, hheap]; intro i e he o hv
    rw [heap_alloc_old w s (h4 i e he o hv)]; exact h5 i e he o hv
  · rw [hsrv, hheap, hobj]
    intro o1 ho1 j hp i e he o2 hv hid'
    have ho2 := h4 i e he o2 hv
    rw [heap_alloc_old w s ho2] at hid'
    by_cases a : o1 < w.nObj
    · rw [heap_alloc_old w s a] at hp hid'
      exact h6 o1 a j hp i e he o2 hv hid'
    · have : o1 = w.nObj := by omega
      subst this
      rw [heap_alloc_new] at hp hid'
      exact hiss j hp i e he o2 hv hid'
  · rw [hcl, hobj]
    obtain ⟨used, hs, hu⟩ := h7
    refine ⟨w.nObj :: used, ?_, ?_⟩
    · have := put_safe p.strictDelete used w.client k (some w.nObj) hs (by
        intro o ho; cases ho; intro hm; have := hu _ hm; omega)
      exact this
    · intro o ho
      rcases List.mem_cons.mp ho with rfl | ho
      · omega
      · have := hu o ho; omega
  · rw [hsrv, hobj]
    intro i
    obtain ⟨used, hs, hu⟩ := h8 i
    exact ⟨used, hs, fun o ho => by have := hu o ho; omega⟩

/-- allocate a record and file it in a server cache under its own identifier -/
theorem inv_allocPutS {w : World} (p : Params) (h : Inv src w) (s : Session) (i : Nat)
    (hid : ∃ m, m < w.nId ∧ s.id = src m)
    (hfresh : ∀ o : Nat, o < w.nObj → (w.heap o).id ≠ s.id)
    (hpeer : s.peer = none) :
    Inv src (sput p (alloc w s).1 i (idKey s.id) (some (alloc w s).2)) := by
  have hh := heap_after_alloc h s hid (fun o ho he => absurd he (hfresh o ho))
  obtain ⟨h1, h2, h3, h4, h5, h6, h7, h8⟩ := h
  have hobj : (sput p (alloc w s).1 i (idKey s.id) (some (alloc w s).2)).nObj = w.nObj + 1 := rfl
  have hheap : (sput p (alloc w s).1 i (idKey s.id) (some (alloc w s).2)).heap = (alloc w s).1.heap := rfl
  have hcl : (sput p (alloc w s).1 i (idKey s.id) (some (alloc w s).2)).client = w.client := rfl
  have hnid : (sput p (alloc w s).1 i (idKey s.id) (some (alloc w s).2)).nId = w.nId := rfl
  have hsrv : (sput p (alloc w s).1 i (idKey s.id) (some (alloc w s).2)).servers =
      setServer w.servers i (LRU.put p.strictDelete (w.servers i) (idKey s.id) (some w.nObj)) := rfl
  -- entries of the new server caches
  have ent : ∀ j e, e ∈ (setServer w.servers i (LRU.put p.strictDelete (w.servers i) (idKey s.id) (some w.nObj)) j).q →
      (j = i ∧ e = ⟨idKey s.id, some w.nObj⟩) ∨ e ∈ (w.servers j).q := by
    intro j e he
    rcases mem_setServer he with ⟨rfl, he⟩ | ⟨_, he⟩
    · rcases mem_put he with rfl | he
      · exact Or.inl ⟨rfl, rfl⟩
      · exact Or.inr he
    · exact Or.inr he
  refine ⟨?_, ?_, ?_, ?_, ?_, ?_, ?_, ?_⟩
  · rw [hobj, hheap, hnid]; exact hh.1
  · rw [hobj, hheap]; exact hh.2
  · rw [hcl, hobj]; intro e he o hv; have := h3 e he o hv; omega
  · rw [hsrv, hobj]
    intro j e he o hv
    rcases ent j e he with ⟨_, rfl⟩ | he
    · have : w.nObj = o := by simpa using hv
      omega
    · have := h4 j e he o hv; omega
  · rw [hsrv, hheap]
    intro j e he o hv
    rcases ent j e he with ⟨_, rfl⟩ | he
    · simp at hv; subst hv; rw [heap_alloc_new]
    · rw [heap_alloc_old w s (h4 j e he o hv)]; exact h5 j e he o hv
  · rw [hsrv, hheap, hobj]
    intro o1 ho1 j hp j' e he o2 hv hid'
    by_cases a : o1 < w.nObj
    · rw [heap_alloc_old w s a] at hp hid'
      rcases ent j' e he with ⟨_, rfl⟩ | he
      · simp at hv; subst hv
        rw [heap_alloc_new] at hid'
        exact absurd hid'.symm (hfresh o1 a)
      · rw [heap_alloc_old w s (h4 j' e he o2 hv)] at hid'
        exact h6 o1 a j hp j' e he o2 hv hid'
    · have : o1 = w.nObj := by omega
      subst this
      rw [heap_alloc_new] at hp
      rw [hpeer] at hp; cases hp
  · rw [hcl, hobj]
    obtain ⟨used, hs, hu⟩ := h7
    exact ⟨used, hs, fun o ho => by have := hu o ho; omega⟩
  · rw [hsrv, hobj]
    intro j
    by_cases hj : j = i
    · subst hj
      obtain ⟨used, hs, hu⟩ := h8 j
      refine ⟨w.nObj :: used, ?_, ?_⟩
      · show Safe (w.nObj :: used) (setServer w.servers j _ j)
        unfold setServer; simp only [if_true]
        exact put_safe p.strictDelete used (w.servers j) (idKey s.id) (some w.nObj) hs (by
          intro o ho; cases ho; intro hm; have := hu _ hm; omega)
      · intro o ho
        rcases List.mem_cons.mp ho with rfl | ho
        · omega
        · have := hu o ho; omega
    · obtain ⟨used, hs, hu⟩ := h8 j
      refine ⟨used, ?_, fun o ho => by have := hu o ho; omega⟩
      show Safe used (setServer w.servers i _ j)
      unfold setServer; simp only [hj, if_false]
      exact hs

/-! ### composite steps -/

/-- identifiers not yet drawn are not in the heap -/
theorem fresh_of_inv {w : World} (h : Inv src w) (hinj : Function.Injective src) {o : Nat} (ho : o < w.nObj)
    {n : Nat} (hn : w.nId ≤ n) : (w.heap o).id ≠ src n := by
  obtain ⟨m, hm, he⟩ := h.idsBelow o ho
  rw [he]; intro hh
  have := hinj hh
  omega

theorem inv_cleanup {w : World} (p : Params) (h : Inv src w) (d : Nat) (l : Option ObjId) :
    Inv src (cleanup p w d l) := by
  unfold cleanup
  cases l with
  | none => exact h
  | some o => exact inv_cputNone p (inv_cputNone p h _) _

/-- createNewSession of the repaired client: two records, one per key -/
theorem inv_createNewSession {w : World} (p : Params) (hp : p.perKeyObject = true) (h : Inv src w) (d : Nat) (s : Session)
    (hid : ∃ m, m < w.nId ∧ s.id = src m)
    (hcoh : ∀ o : Nat, o < w.nObj → (w.heap o).id = s.id → Agree (w.heap o) s)
    (hiss : ∀ j, s.peer = some j → ∀ i, ∀ e ∈ (w.servers i).q, ∀ o2 : Nat, e.val = some o2 → (w.heap o2).id = s.id → j = i) :
    Inv src (createNewSession p w d s) := by
  unfold createNewSession
  simp only [hp, if_true]
  have h1 := inv_allocPutC p h s (idKey s.id) hid hcoh hiss
  refine inv_allocPutC p h1 s (dstKey d) hid ?_ ?_
  · intro o ho hido
    have hobj : (cput p (alloc w s).1 (idKey s.id) (some (alloc w s).2)).nObj = w.nObj + 1 := rfl
    have hheap : (cput p (alloc w s).1 (idKey s.id) (some (alloc w s).2)).heap = (alloc w s).1.heap := rfl
    rw [hobj] at ho
    rw [hheap] at hido ⊢
    by_cases a : o < w.nObj
    · rw [heap_alloc_old w s a] at hido ⊢; exact hcoh o a hido
    · have : o = w.nObj := by omega
      subst this; rw [heap_alloc_new]; exact Agree.refl _
  · intro j hj i e he o2 hv hido
    have hsrv : (cput p (alloc w s).1 (idKey s.id) (some (alloc w s).2)).servers = w.servers := rfl
    have hheap : (cput p (alloc w s).1 (idKey s.id) (some (alloc w s).2)).heap = (alloc w s).1.heap := rfl
    rw [hsrv] at he
    rw [hheap] at hido
    rw [heap_alloc_old w s (h.allocS i e he o2 hv)] at hido
    exact hiss j hj i e he o2 hv hido

theorem inv_createSessionState {w : World} (p : Params) (h : Inv src w) (i : Nat) (s : Session)
    (hid : ∃ m, m < w.nId ∧ s.id = src m)
    (hfresh : ∀ o : Nat, o < w.nObj → (w.heap o).id ≠ s.id)
    (hpeer : s.peer = none) : Inv src (createSessionState p w i s) := by
  unfold createSessionState
  exact inv_allocPutS p h s i hid hfresh hpeer

/-- a made-up record (fresh identifier) filed in the client cache -/
theorem inv_madeUpPut {w : World} (p : Params) (hinj : Function.Injective src) (h : Inv src w)
    (suite : Nat) (peer : Option Nat) (k : String) :
    Inv src (cput p (alloc (madeUp p src w suite peer).1 (madeUp p src w suite peer).2).1 k
      (some (alloc (madeUp p src w suite peer).1 (madeUp p src w suite peer).2).2)) := by
  have h0 : Inv src (madeUp p src w suite peer).1 := inv_counters h rfl rfl rfl rfl (by simp [madeUp])
  have hf : ∀ o : Nat, o < w.nObj → (w.heap o).id ≠ src w.nId := fun o ho => fresh_of_inv h hinj ho (Nat.le_refl _)
  refine inv_allocPutC p h0 _ k ⟨w.nId, by simp [madeUp], rfl⟩ ?_ ?_
  · intro o ho hido; exact absurd hido (hf o ho)
  · intro j _ i e he o2 hv hido
    exact absurd hido (hf o2 (h.allocS i e he o2 hv))

theorem inv_junkPuts (p : Params) (hinj : Function.Injective src) (suite : Nat) (k : Nat) :
    ∀ w : World, Inv src w → Inv src (junkPuts p src suite w k) := by
  induction k with
  | zero => intro w h; exact h
  | succ k ih =>
    intro w h
    unfold junkPuts
    simp only []
    apply ih
    have := inv_madeUpPut p hinj h suite none (junkKey w.nJunk)
    exact inv_counters this rfl rfl rfl rfl (Nat.le_refl _)

theorem inv_runPre (p : Params) (hinj : Function.Injective src) (c : Conn) {w : World} (h : Inv src w) (a : Pre) :
    Inv src (runPre p src c w a) := by
  cases a with
  | junk k => exact inv_junkPuts p hinj _ k w h
  | forge certs => exact inv_madeUpPut p hinj h _ _ _
  | dropServer => exact inv_dropServer h c.server
  | stale d =>
    unfold runPre
    simp only []
    have h1 := inv_getC h (dstKey d)
    split
    · rename_i o hg
      split
      · exact h1
      · -- copy of a record the client cache holds
        have hmem := (get_hit (dstKey_ne_empty d) (ok := true) (by rw [hg])).2
        have ho : o < w.nObj := h1.allocC _ hmem o rfl
        refine inv_allocPutC p h1 _ (dstKey c.dst) (h1.idsBelow o ho) ?_ ?_
        · intro o' ho' hid; exact h1.coherent o' o ho' ho hid
        · intro j hj i e he o2 hv hid
          exact h1.issuer o ho j hj i e he o2 hv hid
    · exact h1

theorem inv_runPres (p : Params) (hinj : Function.Injective src) (c : Conn) (as : List Pre) :
    ∀ w : World, Inv src w → Inv src (runPres p src c w as) := by
  induction as with
  | nil => intro w h; exact h
  | cons a as ih => intro w h; exact ih _ (inv_runPre p hinj c h a)

theorem inv_loadSession (p : Params) {w : World} (h : Inv src w) (d : Nat) : Inv src (loadSession p w d).1 := by
  unfold loadSession; exact inv_getC h _

theorem inv_checkForResumption (p : Params) {w : World} (h : Inv src w) (c : Conn) (off : List Nat) (x : Option Nat) :
    Inv src (checkForResumption p w c off x).1 := by
  unfold checkForResumption
  cases x with
  | none => exact h
  | some x =>
    simp only []
    have h1 := inv_getS h c.server (idKey x)
    split
    · split <;> exact h1
    · exact h1

theorem inv_resumeBranch (p : Params) {w : World} (h : Inv src w) (c : Conn) (l : Option ObjId) (so : ObjId)
    (rnd : Nat × Nat) (full : Option Nat) : Inv src (resumeBranch p w c l so rnd full).1 := by
  unfold resumeBranch
  simp only []
  split
  · exact inv_cleanup p h _ _
  · split
    · exact h
    · split
      · rename_i lo _
        exact inv_cleanup p h c.dst (some lo)
      · exact h

theorem inv_fullBranch (p : Params) (hp5 : p.perKeyObject = true) (hp16 : p.storeAfterFinished = true)
    (hinj : Function.Injective src) {w : World} (h : Inv src w) (c : Conn) (l : Option ObjId) (su : Nat)
    (rnd : Nat × Nat) (full : Option Nat) : Inv src (fullBranch p src w c l su rnd full).1 := by
  unfold fullBranch
  simp only [hp16, if_true]
  have h4 : Inv src { w with nId := w.nId + 1, nSec := w.nSec + 1 } := inv_counters h rfl rfl rfl rfl (by simp)
  have hf : ∀ o : Nat, o < w.nObj → (w.heap o).id ≠ src w.nId := fun o ho => fresh_of_inv h hinj ho (Nat.le_refl _)
  have hid : ∃ m, m < w.nId + 1 ∧ src w.nId = src m := ⟨w.nId, by omega, rfl⟩
  have h5 := inv_createSessionState p h4 c.server
    { id := src w.nId, vers := p.version, suite := su, ms := w.nSec, peer := none, cpeer := sentCert p c } hid hf rfl
  split
  · exact inv_cleanup p h4 _ _
  · split
    · exact inv_cleanup p h4 _ _
    · exact inv_cleanup p h5 _ _
    · -- both sides complete: server record, then the client's two records
      refine inv_createNewSession p hp5 h5 c.dst _ hid ?_ ?_
      · intro o ho hido
        have hobj : (createSessionState p { w with nId := w.nId + 1, nSec := w.nSec + 1 } c.server
          { id := src w.nId, vers := p.version, suite := su, ms := w.nSec, peer := none, cpeer := sentCert p c }).nObj = w.nObj + 1 := rfl
        rw [hobj] at ho
        by_cases a : o < w.nObj
        · have : (createSessionState p { w with nId := w.nId + 1, nSec := w.nSec + 1 } c.server
            { id := src w.nId, vers := p.version, suite := su, ms := w.nSec, peer := none, cpeer := sentCert p c }).heap o = w.heap o :=
            heap_alloc_old { w with nId := w.nId + 1, nSec := w.nSec + 1 } _ a
          rw [this] at hido
          exact absurd hido (hf o a)
        · have e : o = w.nObj := by omega
          subst e
          have : (createSessionState p { w with nId := w.nId + 1, nSec := w.nSec + 1 } c.server
            { id := src w.nId, vers := p.version, suite := su, ms := w.nSec, peer := none, cpeer := sentCert p c }).heap w.nObj =
            { id := src w.nId, vers := p.version, suite := su, ms := w.nSec, peer := none, cpeer := sentCert p c } :=
            heap_alloc_new { w with nId := w.nId + 1, nSec := w.nSec + 1 } _
          rw [this]; exact ⟨rfl, rfl, rfl⟩
      · intro j hj i e he o2 hv hido
        simp only [Option.some.injEq] at hj
        subst hj
        have hsrv : (createSessionState p { w with nId := w.nId + 1, nSec := w.nSec + 1 } c.server
          { id := src w.nId, vers := p.version, suite := su, ms := w.nSec, peer := none, cpeer := sentCert p c }).servers =
          setServer w.servers c.server (LRU.put p.strictDelete (w.servers c.server) (idKey (src w.nId)) (some w.nObj)) := rfl
        rw [hsrv] at he
        rcases mem_setServer he with ⟨rfl, he⟩ | ⟨hne, he⟩
        · rfl
        · -- an old entry of another server cannot carry the new identifier
          have ho2 := h.allocS i e he o2 hv
          have : (createSessionState p { w with nId := w.nId + 1, nSec := w.nSec + 1 } c.server
            { id := src w.nId, vers := p.version, suite := su, ms := w.nSec, peer := none, cpeer := sentCert p c }).heap o2 = w.heap o2 :=
            heap_alloc_old { w with nId := w.nId + 1, nSec := w.nSec + 1 } _ ho2
          rw [this] at hido
          exact absurd hido (hf o2 ho2)

theorem inv_afterLoad (p : Params) {w : World} (h : Inv src w) (c : Conn) : Inv src (afterLoad p w c) := by
  unfold afterLoad
  exact inv_counters (inv_loadSession p h c.dst) rfl rfl rfl rfl (Nat.le_refl _)

theorem inv_afterCheck (p : Params) {w : World} (h : Inv src w) (c : Conn) : Inv src (afterCheck p w c).1 := by
  unfold afterCheck
  exact inv_checkForResumption p (inv_afterLoad p h c) c _ _

theorem inv_connect (p : Params) (hp5 : p.perKeyObject = true) (hp16 : p.storeAfterFinished = true)
    (hinj : Function.Injective src) {w : World} (h : Inv src w) (c : Conn) : Inv src (connect p src w c).1 := by
  unfold connect
  simp only []
  have h3 := inv_afterCheck p h c
  split
  · exact inv_resumeBranch p h3 ..
  · split
    · exact inv_cleanup p h3 _ _
    · exact inv_fullBranch p hp5 hp16 hinj h3 ..

theorem inv_step (p : Params) (hp5 : p.perKeyObject = true) (hp16 : p.storeAfterFinished = true)
    (hinj : Function.Injective src) {w : World} (h : Inv src w) (c : Conn) : Inv src (step p src w c).1 := by
  unfold step
  exact inv_connect p hp5 hp16 hinj (inv_runPres p hinj c c.pre w h) c

theorem inv_run (p : Params) (hp5 : p.perKeyObject = true) (hp16 : p.storeAfterFinished = true)
    (hinj : Function.Injective src) (cs : List Conn) : ∀ w : World, Inv src w → Inv src (run p src w cs).1 := by
  induction cs with
  | nil => intro w h; exact h
  | cons c cs ih =>
    intro w h
    unfold run
    simp only []
    exact ih _ (inv_step p hp5 hp16 hinj h c)

theorem inv_init (d : Nat) (ccap scap : Int) : Inv src (Resumption.init d ccap scap) := by
  have hs : ∀ c : Int, Safe [] (LRU.init d c) := fun c =>
    ⟨by simp [live, LRU.init], by simp [live, LRU.init], by simp [LRU.init], by simp [live, LRU.init]⟩
  refine ⟨?_, ?_, ?_, ?_, ?_, ?_, ⟨[], hs ccap, by simp⟩, fun i => ⟨[], hs scap, by simp⟩⟩
  · intro o ho; simp [Resumption.init] at ho
  · intro o1 o2 ho; simp [Resumption.init] at ho
  · intro e he; simp [Resumption.init, LRU.init] at he
  · intro i e he; simp [Resumption.init, LRU.init] at he
  · intro i e he; simp [Resumption.init, LRU.init] at he
  · intro o1 ho; simp [Resumption.init] at ho

/-! ### what the invariant gives at the start of a connection -/

theorem offer_sub (p : Params) (cs : List Nat) {s : Nat} (h : s ∈ offer p cs) : s ∈ cs := by
  unfold offer at h
  have := (List.mem_filter.mp h).2
  simp at this
  exact this.1

theorem loadSession_frame (p : Params) (w : World) (d : Nat) :
    (loadSession p w d).1.servers = w.servers ∧ (loadSession p w d).1.heap = w.heap ∧
    (loadSession p w d).1.nObj = w.nObj ∧ (loadSession p w d).1.nId = w.nId ∧ (loadSession p w d).1.nSec = w.nSec := by
  unfold loadSession; simp

theorem loadSession_some {p : Params} {w : World} {d : Nat} {lo : ObjId} (h : (loadSession p w d).2 = some lo) :
    (⟨dstKey d, some lo⟩ : Entry) ∈ (loadSession p w d).1.client.q ∧ (⟨dstKey d, some lo⟩ : Entry) ∈ w.client.q ∧
    (p.verifyOnLoad = true → (w.heap lo).peer.isSome = true) := by
  unfold loadSession at h ⊢
  simp only [] at h ⊢
  split at h
  · rename_i o hg
    have hh := get_hit (dstKey_ne_empty d) (ok := true) (by rw [hg])
    split at h
    · simp at h
    · rename_i hc
      simp only [Option.some.injEq] at h
      subst h
      refine ⟨hh.2, hh.1, ?_⟩
      intro hv
      simp only [hv, Bool.true_and, Bool.not_eq_true] at hc
      cases hp : (w.heap o).peer with
      | none => simp [hp] at hc
      | some _ => rfl
  · simp at h

theorem checkForResumption_servers (p : Params) (w : World) (c : Conn) (off : List Nat) (x : Nat) :
    (checkForResumption p w c off (some x)).1.servers =
      setServer w.servers c.server (LRU.get (w.servers c.server) (idKey x)).1 := by
  unfold checkForResumption
  simp only []
  split
  · split <;> rfl
  · rfl

theorem checkForResumption_some {p : Params} {w : World} {c : Conn} {off : List Nat} {offered : Option Nat}
    {o : ObjId} (h : (checkForResumption p w c off offered).2 = some o) :
    ∃ x, offered = some x ∧ (⟨idKey x, some o⟩ : Entry) ∈ (w.servers c.server).q ∧
      (⟨idKey x, some o⟩ : Entry) ∈ ((checkForResumption p w c off offered).1.servers c.server).q ∧
      (w.heap o).vers = p.version ∧ (w.heap o).suite ∈ off ∧ (w.heap o).suite ∈ c.ssuites ∧
      certsOk p c.auth (w.heap o).cpeer = true ∧ ((w.heap o).cpeer.isSome = true → c.auth ≠ 0) := by
  cases offered with
  | none => simp [checkForResumption] at h
  | some x =>
    rw [checkForResumption_servers]
    unfold checkForResumption at h
    simp only [] at h
    split at h
    · rename_i o' hg
      have hh := get_hit (idKey_ne_empty x) (ok := true) (by rw [hg])
      split at h
      · rename_i hc
        simp only [Option.some.injEq] at h
        subst h
        simp only [Bool.and_eq_true, beq_iff_eq, List.contains_eq_mem, decide_eq_true_eq] at hc
        obtain ⟨⟨⟨⟨g1, g2⟩, hv⟩, hs1⟩, hs2⟩ := hc
        refine ⟨x, rfl, hh.1, ?_, hv, hs1, hs2, ?_, ?_⟩
        · unfold setServer; simp only [if_true]; exact hh.2
        · unfold certsOk; rw [Bool.and_comm]; exact g1
        · intro hsome h0
          rw [hsome, h0] at g2
          simp at g2
      · simp at h
    · simp at h

theorem checkForResumption_frame (p : Params) (w : World) (c : Conn) (off : List Nat) (offered : Option Nat) :
    (checkForResumption p w c off offered).1.heap = w.heap ∧
    (checkForResumption p w c off offered).1.client = w.client ∧
    (checkForResumption p w c off offered).1.nObj = w.nObj ∧
    (checkForResumption p w c off offered).1.nId = w.nId ∧
    (checkForResumption p w c off offered).1.nSec = w.nSec := by
  unfold checkForResumption
  split
  · simp
  · simp only []
    split
    · split <;> simp
    · simp

theorem not_zeroed_of_safe {used : List ObjId} {s : State} (hs : Safe used s) {e : Entry} {o : ObjId}
    (he : e ∈ s.q) (hv : e.val = some o) : s.zeroed.contains o = false := by
  have := hs.unharmed o (mem_live_of_mem he hv)
  simpa using this

/-- **an undisturbed resumption attempt succeeds**: when the server finds the offered session
usable, every check of the client passes, the certificates recorded in the session pass
processCertsFromClient and both Finished messages verify; the server's peer identity is the one
recorded in its session -/
theorem resume_ok (p : Params) {w : World} (h : Inv src w) (c : Conn) (hf : c.fault = .none)
    (lo so : ObjId) (rnd : Nat × Nat) (full : Option Nat)
    (hlo : (⟨dstKey c.dst, some lo⟩ : Entry) ∈ w.client.q)
    (hso : (⟨idKey (w.heap lo).id, some so⟩ : Entry) ∈ (w.servers c.server).q)
    (hvers : (w.heap so).vers = p.version)
    (hcert : certsOk p c.auth (w.heap so).cpeer = true) :
    (resumeBranch p w c (some lo) so rnd full).2 =
      withPeer p c.auth true (w.heap so).cpeer
      { cOk := true, sOk := true, cRes := true, sRes := true, offered := some (w.heap lo).id,
        returned := some (w.heap lo).id, suite := some (w.heap so).suite, peer := (w.heap lo).peer,
        ms := some (w.heap lo).ms, rnd := rnd, full := full } ∧
    (∀ j, (w.heap lo).peer = some j → j = c.server) := by
  have hlo' : lo < w.nObj := h.allocC _ hlo lo rfl
  have hso' : so < w.nObj := h.allocS _ _ hso so rfl
  have hkey := h.keyedS _ _ hso so rfl
  have hid : (w.heap lo).id = (w.heap so).id := idKey_inj hkey
  obtain ⟨hv, hs, hm⟩ := h.coherent lo so hlo' hso' hid
  obtain ⟨uc, hsc, _⟩ := h.safeC
  obtain ⟨us, hss, _⟩ := h.safeS c.server
  have z1 := not_zeroed_of_safe hsc hlo rfl
  have z2 := not_zeroed_of_safe hss hso rfl
  constructor
  · unfold resumeBranch
    have e : (Fault.none != Fault.clientFin) = true := by decide
    simp only [z2, Bool.false_eq_true, if_false, hv, hvers, hs, hm, z1, hf, offeredId, hcert, e]
    simp
  · intro j hj
    exact h.issuer lo hlo' j hj c.server _ hso so rfl hid.symm

/-- the full-handshake branch without a man in the middle, the client supplying a certificate
whenever the policy requires one -/
theorem full_ok (p : Params) (hinj : Function.Injective src) {w : World} (h : Inv src w) (c : Conn) (hf : c.fault = .none)
    (hm : certMissing p c = false)
    (l : Option ObjId) (hl : ∀ lo, l = some lo → lo < w.nObj) (su : Nat) (rnd : Nat × Nat) (full : Option Nat) :
    (fullBranch p src w c l su rnd full).2 =
      withPeer p c.auth (requestsCert p c.auth) (sentCert p c)
      { cOk := true, sOk := true, cRes := false, sRes := false, offered := offeredId w l, returned := some (src w.nId),
        suite := some su, peer := some c.server, ms := some w.nSec, rnd := rnd, full := full } := by
  unfold fullBranch
  simp only []
  have hc : (l.isSome && offeredId w l == some (src w.nId)) = false := by
    cases l with
    | none => rfl
    | some lo =>
      have := fresh_of_inv h hinj (hl lo rfl) (Nat.le_refl _)
      simp [offeredId, this]
  simp only [hc, Bool.false_eq_true, if_false, hf, hm]

/-- a full handshake in which a required client certificate is missing fails on both sides, after
the ServerHello, whatever else happens -/
theorem full_missing (p : Params) (src : Nat → Nat) (w : World) (c : Conn) (hm : certMissing p c = true)
    (l : Option ObjId) (su : Nat) (rnd : Nat × Nat) (full : Option Nat) :
    (fullBranch p src w c l su rnd full).2 = failed (offeredId w l) (some (src w.nId)) rnd full := by
  unfold fullBranch
  simp only [hm, if_true]
  split <;> rfl

theorem afterLoad_frame (p : Params) (w : World) (c : Conn) :
    (afterLoad p w c).servers = w.servers ∧ (afterLoad p w c).heap = w.heap ∧
    (afterLoad p w c).nObj = w.nObj ∧ (afterLoad p w c).nId = w.nId ∧ (afterLoad p w c).nSec = w.nSec + 2 ∧
    (afterLoad p w c).client = (loadSession p w c.dst).1.client := by
  unfold afterLoad loadSession; simp

theorem afterCheck_frame (p : Params) (w : World) (c : Conn) :
    (afterCheck p w c).1.heap = w.heap ∧ (afterCheck p w c).1.client = (loadSession p w c.dst).1.client ∧
    (afterCheck p w c).1.nObj = w.nObj ∧ (afterCheck p w c).1.nId = w.nId ∧ (afterCheck p w c).1.nSec = w.nSec + 2 := by
  have a := afterLoad_frame p w c
  have b := checkForResumption_frame p (afterLoad p w c) c (offer p c.csuites) (offeredId (afterLoad p w c) (loadedOf p w c))
  unfold afterCheck
  exact ⟨b.1.trans a.2.1, b.2.1.trans a.2.2.2.2.2, b.2.2.1.trans a.2.2.1, b.2.2.2.1.trans a.2.2.2.1, b.2.2.2.2.trans a.2.2.2.2.1⟩

theorem connect_honest (p : Params) (hinj : Function.Injective src) {w : World} (h : Inv src w) (c : Conn)
    (hf : c.fault = .none) :
    ((connect p src w c).2.cOk = true ∧ (connect p src w c).2.sOk = true ∧
      (connect p src w c).2.cRes = true ∧ (connect p src w c).2.sRes = true ∧
      (connect p src w c).2.offered.isSome = true ∧ (connect p src w c).2.returned = (connect p src w c).2.offered ∧
      (∀ j, (connect p src w c).2.peer = some j → j = c.server) ∧
      (p.verifyOnLoad = true → (connect p src w c).2.peer = some c.server)) ∨
    ((connect p src w c).2.cRes = false ∧ (connect p src w c).2.sRes = false ∧
      (connect p src w c).2.cOk = (connect p src w c).2.full.isSome ∧
      (connect p src w c).2.sOk = (connect p src w c).2.full.isSome ∧
      (∀ su, (connect p src w c).2.full = some su →
        (connect p src w c).2.suite = some su ∧ (connect p src w c).2.peer = some c.server ∧
        (connect p src w c).2.returned = some (src w.nId) ∧ (connect p src w c).2.ms = some (w.nSec + 2))) := by
  have h3 := inv_afterCheck p h c
  have hfr := afterCheck_frame p w c
  have hal := afterLoad_frame p w c
  unfold connect
  simp only []
  split
  · -- the server resumes
    rename_i so hr
    left
    unfold afterCheck at hr
    obtain ⟨x, hx, _, hso, hvers, _, _, hcert, _⟩ := checkForResumption_some hr
    cases hl : loadedOf p w c with
    | none => rw [hl] at hx; simp [offeredId] at hx
    | some lo =>
      rw [hl] at hx
      simp only [offeredId, Option.map_some, Option.some.injEq] at hx
      have hl' : (loadSession p w c.dst).2 = some lo := hl
      obtain ⟨hlo1, _, hpeer⟩ := loadSession_some hl'
      have hlo3 : (⟨dstKey c.dst, some lo⟩ : Entry) ∈ (afterCheck p w c).1.client.q := by
        rw [hfr.2.1]; exact hlo1
      have hso3 : (⟨idKey ((afterCheck p w c).1.heap lo).id, some so⟩ : Entry) ∈ ((afterCheck p w c).1.servers c.server).q := by
        rw [hfr.1, ← hal.2.1, hx]
        exact hso
      have hv3 : ((afterCheck p w c).1.heap so).vers = p.version := by
        rw [hfr.1, ← hal.2.1]; exact hvers
      have hc3 : certsOk p c.auth ((afterCheck p w c).1.heap so).cpeer = true := by
        rw [hfr.1, ← hal.2.1]; exact hcert
      obtain ⟨hobs, hpj⟩ := resume_ok p h3 c hf lo so (w.nSec, w.nSec + 1) (fullOutcome p c) hlo3 hso3 hv3 hc3
      rw [hobs]
      simp only [withPeer, Option.isSome_some, true_and]
      refine ⟨hpj, ?_⟩
      intro hv
      have hp := hpeer hv
      rw [hfr.1]
      cases hpp : (w.heap lo).peer with
      | none => simp [hpp] at hp
      | some j =>
        have := hpj j (by rw [hfr.1]; exact hpp)
        rw [this]
  · right
    split
    · rename_i hfull
      have : fullOutcome p c = none := by unfold fullOutcome; rw [hfull]; simp
      simp [failed, this]
    · rename_i su hfull
      cases hm : certMissing p c with
      | true =>
        have : fullOutcome p c = none := by unfold fullOutcome; simp [hm]
        rw [full_missing p src _ c hm]
        simp [failed, this]
      | false =>
        have hfo : fullOutcome p c = some su := by unfold fullOutcome; simp [hm, hfull]
        have hl : ∀ lo, loadedOf p w c = some lo → lo < (afterCheck p w c).1.nObj := by
          intro lo hlo
          rw [hfr.2.2.1]
          exact h.allocC _ (loadSession_some (p := p) (w := w) (d := c.dst) hlo).2.1 lo rfl
        rw [full_ok p hinj h3 c hf hm _ hl]
        simp only [withPeer, hfo, Option.isSome_some, true_and, Option.some.injEq]
        intro su' hsu
        subst hsu
        exact ⟨rfl, by rw [hfr.2.2.2.1], by rw [hfr.2.2.2.2]⟩

/-! ### what the two branches report, in any world -/

theorem resume_obs (p : Params) (w : World) (c : Conn) (loaded : Option ObjId) (so : ObjId) (rnd : Nat × Nat) (full : Option Nat) :
    ((resumeBranch p w c loaded so rnd full).2.cOk = true → (resumeBranch p w c loaded so rnd full).2.sOk = true →
      (resumeBranch p w c loaded so rnd full).2.cRes = (resumeBranch p w c loaded so rnd full).2.sRes) ∧
    ((resumeBranch p w c loaded so rnd full).2.cRes = true ∨ (resumeBranch p w c loaded so rnd full).2.sRes = true →
      (resumeBranch p w c loaded so rnd full).2.returned = (resumeBranch p w c loaded so rnd full).2.offered ∧
      (resumeBranch p w c loaded so rnd full).2.suite = some (w.heap so).suite ∧
      (resumeBranch p w c loaded so rnd full).2.offered = offeredId w loaded) := by
  unfold resumeBranch withPeer
  simp only []
  repeat' split
  all_goals simp_all [failed]

theorem full_obs (p : Params) (src : Nat → Nat) (w : World) (c : Conn) (loaded : Option ObjId) (su : Nat) (rnd : Nat × Nat) (full : Option Nat) :
    (fullBranch p src w c loaded su rnd full).2.cRes = false ∧ (fullBranch p src w c loaded su rnd full).2.sRes = false := by
  unfold fullBranch withPeer
  simp only []
  repeat' split
  all_goals simp_all [failed]

theorem connect_full (p : Params) (src : Nat → Nat) (w : World) (c : Conn) :
    (connect p src w c).2.full = fullOutcome p c := by
  unfold connect resumeBranch fullBranch withPeer
  simp only []
  repeat' split
  all_goals simp_all [failed]

theorem connect_both_report (p : Params) (src : Nat → Nat) (w : World) (c : Conn) :
    (connect p src w c).2.cOk = true → (connect p src w c).2.sOk = true →
      (connect p src w c).2.cRes = (connect p src w c).2.sRes := by
  unfold connect
  simp only []
  split
  · exact (resume_obs ..).1
  · split
    · simp [failed]
    · intro _ _
      rw [(full_obs ..).1, (full_obs ..).2]

theorem resume_peer (p : Params) (w : World) (c : Conn) (lo so : ObjId) (rnd : Nat × Nat) (full : Option Nat)
    (h : (resumeBranch p w c (some lo) so rnd full).2.cOk = true) :
    (resumeBranch p w c (some lo) so rnd full).2.peer = (w.heap lo).peer := by
  unfold resumeBranch withPeer at h ⊢
  simp only [] at h ⊢
  repeat' split at h
  all_goals simp_all [failed]

theorem resume_none (p : Params) (w : World) (c : Conn) (so : ObjId) (rnd : Nat × Nat) (full : Option Nat) :
    (resumeBranch p w c none so rnd full).2.cOk = false := by
  unfold resumeBranch withPeer
  simp only []
  repeat' split
  all_goals simp_all [failed]

theorem full_peer (p : Params) (src : Nat → Nat) (w : World) (c : Conn) (l : Option ObjId) (su : Nat) (rnd : Nat × Nat)
    (full : Option Nat) (h : (fullBranch p src w c l su rnd full).2.cOk = true) :
    (fullBranch p src w c l su rnd full).2.peer = some c.server := by
  unfold fullBranch withPeer at h ⊢
  simp only [] at h ⊢
  split at h
  · simp [failed] at h
  · rename_i hc
    simp only [hc, if_false] at h ⊢
    split at h <;> simp_all [failed]

/-- whenever the client completes, the peer identity it reports is the server it talked to -/
theorem connect_identity (p : Params) {w : World} (h : Inv src w) (c : Conn)
    (hc : (connect p src w c).2.cOk = true) (j : Nat) (hj : (connect p src w c).2.peer = some j) : j = c.server := by
  have h3 := inv_afterCheck p h c
  have hfr := afterCheck_frame p w c
  have hal := afterLoad_frame p w c
  unfold connect at hc hj
  simp only [] at hc hj
  cases hr : (afterCheck p w c).2 with
  | some so =>
    simp only [hr] at hc hj
    unfold afterCheck at hr
    obtain ⟨x, hx, _, hso, hvers, _, _, _, _⟩ := checkForResumption_some hr
    cases hl : loadedOf p w c with
    | none => rw [hl] at hc; rw [resume_none] at hc; cases hc
    | some lo =>
      rw [hl] at hx hc hj
      simp only [offeredId, Option.map_some, Option.some.injEq] at hx
      have hl' : (loadSession p w c.dst).2 = some lo := hl
      obtain ⟨hlo1, _, _⟩ := loadSession_some hl'
      have hlo3 : (⟨dstKey c.dst, some lo⟩ : Entry) ∈ (afterCheck p w c).1.client.q := by
        rw [hfr.2.1]; exact hlo1
      have hso3 : (⟨idKey ((afterCheck p w c).1.heap lo).id, some so⟩ : Entry) ∈ ((afterCheck p w c).1.servers c.server).q := by
        rw [hfr.1, ← hal.2.1, hx]
        exact hso
      rw [resume_peer p _ c lo so _ _ hc] at hj
      have hlo' : lo < (afterCheck p w c).1.nObj := h3.allocC _ hlo3 lo rfl
      have hkey := h3.keyedS _ _ hso3 so rfl
      exact h3.issuer lo hlo' j hj c.server _ hso3 so rfl (idKey_inj hkey).symm
  | none =>
    simp only [hr] at hc hj
    cases hfull : pickSuite p c.ssuites (offer p c.csuites) with
    | none => simp [hfull, failed] at hc
    | some su =>
      simp only [hfull] at hc hj
      rw [full_peer _ _ _ _ _ _ _ _ hc] at hj
      cases hj; rfl

end Gotlcp.Lemmas.ResumptionInv

/-
The extra invariant behind `C10_failed_not_reoffered`: no entry of the client cache under a
destination key holds a session whose handshake failed at this client, and sessions under
different destination keys have different identifiers.  Proved for the repaired client (new
session stored after the server's Finished) over histories in which the harness does not copy
sessions between destinations.
-/
import Gotlcp.Lemmas.ResumptionInv

set_option linter.unusedSimpArgs false
set_option linter.unusedVariables false

namespace Gotlcp.Lemmas.ResumptionFail
open Gotlcp.Model
open Gotlcp.Model.Resumption
open Gotlcp.Model.LRU (Entry State)
open Gotlcp.Lemmas.Resumption
open Gotlcp.Lemmas.ResumptionInv

def isDst (k : String) : Prop := ∃ d, k = dstKey d

theorem not_isDst_idKey (x : Nat) : ¬ isDst (idKey x) := fun ⟨d, h⟩ => dstKey_ne_idKey d x h.symm
theorem not_isDst_junkKey (x : Nat) : ¬ isDst (junkKey x) := fun ⟨d, h⟩ => dstKey_ne_junkKey d x h.symm

/-- `F` = identifiers of the sessions in use by connections that failed at the client -/
structure FExt (src : Nat → Nat) (F : List Nat) (w : World) : Prop where
  fBelow   : ∀ x ∈ F, ∃ m, m < w.nId ∧ x = src m
  noFailed : ∀ e ∈ w.client.q, isDst e.key → ∀ o : Nat, e.val = some o → (w.heap o).id ∉ F
  distinct : ∀ e1 ∈ w.client.q, ∀ e2 ∈ w.client.q, isDst e1.key → isDst e2.key → ∀ o1 o2 : Nat,
      e1.val = some o1 → e2.val = some o2 → (w.heap o1).id = (w.heap o2).id → e1.key = e2.key

variable {src : Nat → Nat} {F : List Nat}

/-- client entries are a subset of the old ones, heap agrees on allocated objects, counters grow -/
theorem fext_sub {w w' : World} (hi : Inv src w) (h : FExt src F w)
    (hq : ∀ e ∈ w'.client.q, e.val.isSome = true → e ∈ w.client.q)
    (hh : ∀ o : Nat, o < w.nObj → w'.heap o = w.heap o) (hn : w.nId ≤ w'.nId) : FExt src F w' := by
  refine ⟨?_, ?_, ?_⟩
  · intro x hx; obtain ⟨m, hm, e⟩ := h.fBelow x hx; exact ⟨m, by omega, e⟩
  · intro e he hd o hv
    have he' := hq e he (by rw [hv]; rfl)
    rw [hh o (hi.allocC e he' o hv)]
    exact h.noFailed e he' hd o hv
  · intro e1 he1 e2 he2 d1 d2 o1 o2 v1 v2 hid
    have a := hq e1 he1 (by rw [v1]; rfl)
    have b := hq e2 he2 (by rw [v2]; rfl)
    rw [hh o1 (hi.allocC e1 a o1 v1), hh o2 (hi.allocC e2 b o2 v2)] at hid
    exact h.distinct e1 a e2 b d1 d2 o1 o2 v1 v2 hid

theorem fext_getC {w : World} (hi : Inv src w) (h : FExt src F w) (k : String) :
    FExt src F { w with client := (LRU.get w.client k).1 } :=
  fext_sub hi h (fun e he _ => mem_get he) (fun _ _ => rfl) (Nat.le_refl _)

theorem fext_cputNone {w : World} (p : Params) (hi : Inv src w) (h : FExt src F w) (k : String) :
    FExt src F (cput p w k none) := by
  refine fext_sub hi h ?_ (fun _ _ => rfl) (Nat.le_refl _)
  intro e he hs
  rcases mem_put he with rfl | he
  · simp at hs
  · exact he

/-- allocate a record with a FRESH identifier and file it in the client cache -/
theorem fext_allocPutC {w : World} (p : Params) (hi : Inv src w) (h : FExt src F w) (s : Session) (k : String)
    (hF : s.id ∉ F)
    (hfresh : isDst k → ∀ e ∈ w.client.q, isDst e.key → ∀ o : Nat, e.val = some o → (w.heap o).id ≠ s.id) :
    FExt src F (cput p (alloc w s).1 k (some (alloc w s).2)) := by
  have hcl : (cput p (alloc w s).1 k (some (alloc w s).2)).client = LRU.put p.strictDelete w.client k (some w.nObj) := rfl
  have hheap : (cput p (alloc w s).1 k (some (alloc w s).2)).heap = (alloc w s).1.heap := rfl
  have hnid : (cput p (alloc w s).1 k (some (alloc w s).2)).nId = w.nId := rfl
  refine ⟨?_, ?_, ?_⟩
  · rw [hnid]; exact h.fBelow
  · rw [hcl, hheap]
    intro e he hd o hv
    rcases mem_put he with rfl | he
    · have : w.nObj = o := by simpa using hv
      subst this; rw [heap_alloc_new]; exact hF
    · rw [heap_alloc_old w s (hi.allocC e he o hv)]; exact h.noFailed e he hd o hv
  · rw [hcl, hheap]
    intro e1 he1 e2 he2 d1 d2 o1 o2 v1 v2 hid
    rcases mem_put he1 with rfl | he1' <;> rcases mem_put he2 with rfl | he2'
    · rfl
    · have : w.nObj = o1 := by simpa using v1
      subst this
      rw [heap_alloc_new, heap_alloc_old w s (hi.allocC e2 he2' o2 v2)] at hid
      exact absurd hid.symm (hfresh d1 e2 he2' d2 o2 v2)
    · have : w.nObj = o2 := by simpa using v2
      subst this
      rw [heap_alloc_new, heap_alloc_old w s (hi.allocC e1 he1' o1 v1)] at hid
      exact absurd hid (hfresh d2 e1 he1' d1 o1 v1)
    · rw [heap_alloc_old w s (hi.allocC e1 he1' o1 v1), heap_alloc_old w s (hi.allocC e2 he2' o2 v2)] at hid
      exact h.distinct e1 he1' e2 he2' d1 d2 o1 o2 v1 v2 hid

/-- a record filed under a key that is not a destination key -/
theorem fext_allocPutC_other {w : World} (p : Params) (hi : Inv src w) (h : FExt src F w) (s : Session) (k : String)
    (hk : ¬ isDst k) : FExt src F (cput p (alloc w s).1 k (some (alloc w s).2)) := by
  have hcl : (cput p (alloc w s).1 k (some (alloc w s).2)).client = LRU.put p.strictDelete w.client k (some w.nObj) := rfl
  have hheap : (cput p (alloc w s).1 k (some (alloc w s).2)).heap = (alloc w s).1.heap := rfl
  have hnid : (cput p (alloc w s).1 k (some (alloc w s).2)).nId = w.nId := rfl
  have old : ∀ e, e ∈ (LRU.put p.strictDelete w.client k (some w.nObj)).q → isDst e.key → e ∈ w.client.q := by
    intro e he hd
    rcases mem_put he with rfl | he
    · exact absurd hd hk
    · exact he
  refine ⟨?_, ?_, ?_⟩
  · rw [hnid]; exact h.fBelow
  · rw [hcl, hheap]
    intro e he hd o hv
    have he' := old e he hd
    rw [heap_alloc_old w s (hi.allocC e he' o hv)]; exact h.noFailed e he' hd o hv
  · rw [hcl, hheap]
    intro e1 he1 e2 he2 d1 d2 o1 o2 v1 v2 hid
    have a := old e1 he1 d1
    have b := old e2 he2 d2
    rw [heap_alloc_old w s (hi.allocC e1 a o1 v1), heap_alloc_old w s (hi.allocC e2 b o2 v2)] at hid
    exact h.distinct e1 a e2 b d1 d2 o1 o2 v1 v2 hid

/-- allocation on the server side: the client cache is untouched, the heap only grows -/
theorem fext_allocPutS {w : World} (p : Params) (hi : Inv src w) (h : FExt src F w) (s : Session) (i : Nat) (k : String) :
    FExt src F (sput p (alloc w s).1 i k (some (alloc w s).2)) :=
  fext_sub hi h (fun e he _ => he) (fun o ho => heap_alloc_old w s ho) (Nat.le_refl _)

theorem fext_counters {w w' : World} (hi : Inv src w) (h : FExt src F w) (hc : w'.client = w.client)
    (hh : w'.heap = w.heap) (hn : w.nId ≤ w'.nId) : FExt src F w' :=
  fext_sub hi h (fun e he _ => hc ▸ he) (fun o _ => by rw [hh]) hn

/-! ### composite steps -/

theorem fext_cleanup {w : World} (p : Params) (hi : Inv src w) (h : FExt src F w) (d : Nat) (l : Option ObjId) :
    FExt src F (cleanup p w d l) := by
  unfold cleanup
  cases l with
  | none => exact h
  | some o => exact fext_cputNone p (inv_cputNone p hi _) (fext_cputNone p hi h _) _

/-- identifiers below the counter are not the next one -/
theorem F_fresh (hinj : Function.Injective src) {w : World} (h : FExt src F w) {n : Nat} (hn : w.nId ≤ n) : src n ∉ F := by
  intro hx
  obtain ⟨m, hm, e⟩ := h.fBelow _ hx
  have := hinj e
  omega

theorem fext_madeUpPut {w : World} (p : Params) (hinj : Function.Injective src) (hi : Inv src w) (h : FExt src F w)
    (suite : Nat) (peer : Option Nat) (k : String) :
    FExt src F (cput p (alloc (madeUp p src w suite peer).1 (madeUp p src w suite peer).2).1 k
      (some (alloc (madeUp p src w suite peer).1 (madeUp p src w suite peer).2).2)) := by
  have hi0 : Inv src (madeUp p src w suite peer).1 := inv_counters hi rfl rfl rfl rfl (by simp [madeUp])
  have h0 : FExt src F (madeUp p src w suite peer).1 := fext_counters hi h rfl rfl (by simp [madeUp])
  refine fext_allocPutC p hi0 h0 _ k (F_fresh hinj h (Nat.le_refl _)) ?_
  intro _ e he _ o hv
  exact fresh_of_inv hi hinj (hi.allocC e he o hv) (Nat.le_refl _)

theorem fext_junkPuts (p : Params) (hinj : Function.Injective src) (suite : Nat) (k : Nat) :
    ∀ w : World, Inv src w → FExt src F w → FExt src F (junkPuts p src suite w k) := by
  induction k with
  | zero => intro w _ h; exact h
  | succ k ih =>
    intro w hi h
    unfold junkPuts
    simp only []
    have hi0 : Inv src (madeUp p src w suite none).1 := inv_counters hi rfl rfl rfl rfl (by simp [madeUp])
    have h0 : FExt src F (madeUp p src w suite none).1 := fext_counters hi h rfl rfl (by simp [madeUp])
    have i1 := inv_madeUpPut p hinj hi suite none (junkKey w.nJunk)
    have f1 := fext_allocPutC_other p hi0 h0 (madeUp p src w suite none).2 (junkKey w.nJunk) (not_isDst_junkKey _)
    exact ih _ (inv_counters i1 rfl rfl rfl rfl (Nat.le_refl _)) (fext_counters i1 f1 rfl rfl (Nat.le_refl _))

def notStale : Pre → Prop
  | .stale _ => False
  | _ => True

theorem fext_runPre (p : Params) (hinj : Function.Injective src) (c : Conn) {w : World} (hi : Inv src w)
    (h : FExt src F w) (a : Pre) (ha : notStale a) : FExt src F (runPre p src c w a) := by
  cases a with
  | junk k => exact fext_junkPuts p hinj _ k w hi h
  | forge certs => exact fext_madeUpPut p hinj hi h _ _ _
  | dropServer => exact fext_counters hi h rfl rfl (Nat.le_refl _)
  | stale d => exact ha.elim

theorem fext_runPres (p : Params) (hinj : Function.Injective src) (c : Conn) (as : List Pre) :
    ∀ w : World, Inv src w → FExt src F w → (∀ a ∈ as, notStale a) → FExt src F (runPres p src c w as) := by
  induction as with
  | nil => intro w _ h _; exact h
  | cons a as ih =>
    intro w hi h hs
    exact ih _ (inv_runPre p hinj c hi a) (fext_runPre p hinj c hi h a (hs a List.mem_cons_self))
      (fun b hb => hs b (List.mem_cons_of_mem _ hb))

/-! ### one connection -/

/-- the sessions of a connection that failed at the client: the one it offered and the one in
use (named by the ServerHello) -/
def failedOf (o : Obs) : List Nat := if o.cOk then [] else o.offered.toList ++ o.returned.toList

theorem fext_cons {w : World} (h : FExt src F w) (x : Nat) (hx : ∃ m, m < w.nId ∧ x = src m)
    (hne : ∀ e ∈ w.client.q, isDst e.key → ∀ o : Nat, e.val = some o → (w.heap o).id ≠ x) : FExt src (x :: F) w := by
  refine ⟨?_, ?_, h.distinct⟩
  · intro y hy
    rcases List.mem_cons.mp hy with rfl | hy
    · exact hx
    · exact h.fBelow y hy
  · intro e he hd o hv hm
    rcases List.mem_cons.mp hm with hm | hm
    · exact hne e he hd o hv hm
    · exact h.noFailed e he hd o hv hm

theorem fext_createNewSession {w : World} (p : Params) (hp : p.perKeyObject = true) (hi : Inv src w) (h : FExt src F w)
    (d : Nat) (s : Session)
    (hid : ∃ m, m < w.nId ∧ s.id = src m)
    (hcoh : ∀ o : Nat, o < w.nObj → (w.heap o).id = s.id → Agree (w.heap o) s)
    (hiss : ∀ j, s.peer = some j → ∀ i, ∀ e ∈ (w.servers i).q, ∀ o2 : Nat, e.val = some o2 → (w.heap o2).id = s.id → j = i)
    (hF : s.id ∉ F)
    (hfresh : ∀ e ∈ w.client.q, ∀ o : Nat, e.val = some o → (w.heap o).id ≠ s.id) :
    FExt src F (createNewSession p w d s) := by
  unfold createNewSession
  simp only [hp, if_true]
  have i1 := inv_allocPutC p hi s (idKey s.id) hid hcoh hiss
  have f1 := fext_allocPutC_other p hi h s (idKey s.id) (not_isDst_idKey _)
  refine fext_allocPutC p i1 f1 s (dstKey d) hF ?_
  intro _ e he hd o hv
  have hcl : (cput p (alloc w s).1 (idKey s.id) (some (alloc w s).2)).client =
      LRU.put p.strictDelete w.client (idKey s.id) (some w.nObj) := rfl
  have hheap : (cput p (alloc w s).1 (idKey s.id) (some (alloc w s).2)).heap = (alloc w s).1.heap := rfl
  rw [hcl] at he
  rw [hheap]
  rcases mem_put he with rfl | he
  · exact absurd hd (not_isDst_idKey _)
  · rw [heap_alloc_old w s (hi.allocC e he o hv)]; exact hfresh e he o hv

theorem cleanup_dst_none {p : Params} {w : World} {d : Nat} {lo : ObjId} {e : Entry}
    (he : e ∈ (cleanup p w d (some lo)).client.q) (hk : e.key = dstKey d) : e.val = none := by
  unfold cleanup cput at he
  simp only [] at he
  rcases mem_put he with rfl | he
  · rfl
  · exact put_none_key he hk

theorem cleanup_sub {p : Params} {w : World} {d : Nat} {l : Option ObjId} {e : Entry}
    (he : e ∈ (cleanup p w d l).client.q) (hs : e.val.isSome = true) : e ∈ w.client.q := by
  cases l with
  | none => exact he
  | some lo =>
    unfold cleanup cput at he
    simp only [] at he
    rcases mem_put he with rfl | he
    · simp at hs
    · rcases mem_put he with rfl | he
      · simp at hs
      · exact he

theorem cleanup_frame (p : Params) (w : World) (d : Nat) (l : Option ObjId) :
    (cleanup p w d l).heap = w.heap ∧ (cleanup p w d l).nId = w.nId ∧ (cleanup p w d l).nObj = w.nObj := by
  cases l <;> simp [cleanup, cput]

/-- the deferred cleanup after a failure: the offered (= loaded) session joins `F`, and no
destination entry carries it afterwards -/
theorem fext_cleanup_offered (p : Params) {w : World} (hi : Inv src w) (h : FExt src F w) (d : Nat) (l : Option ObjId)
    (hl : ∀ lo, l = some lo → (⟨dstKey d, some lo⟩ : Entry) ∈ w.client.q) :
    FExt src ((offeredId w l).toList ++ F) (cleanup p w d l) := by
  cases l with
  | none =>
    simp only [offeredId, Option.map_none, Option.toList, List.nil_append]
    exact fext_cleanup p hi h d none
  | some lo =>
    simp only [offeredId, Option.map_some, Option.toList, List.singleton_append]
    have hmem := hl lo rfl
    have hlo : lo < w.nObj := hi.allocC _ hmem lo rfl
    have hc := fext_cleanup (F := F) p hi h d (some lo)
    have fr := cleanup_frame p w d (some lo)
    refine fext_cons hc _ ?_ ?_
    · rw [fr.2.1]; exact hi.idsBelow lo hlo
    · intro e he hd o hv hid
      have he' := cleanup_sub he (by rw [hv]; rfl)
      rw [fr.1] at hid
      have := h.distinct e he' _ hmem hd ⟨d, rfl⟩ o lo hv rfl hid
      have hnone := cleanup_dst_none he this
      rw [hv] at hnone; cases hnone

theorem fext_resumeBranch (p : Params) {w : World} (hi : Inv src w) (h : FExt src F w) (c : Conn) (l : Option ObjId)
    (so : ObjId) (rnd : Nat × Nat) (full : Option Nat)
    (hl : ∀ lo, l = some lo → (⟨dstKey c.dst, some lo⟩ : Entry) ∈ w.client.q) :
    FExt src (failedOf (resumeBranch p w c l so rnd full).2 ++ F) (resumeBranch p w c l so rnd full).1 := by
  have hoff := fext_cleanup_offered p hi h c.dst l hl
  unfold resumeBranch
  simp only []
  split
  · simp only [failedOf, failed, Bool.false_eq_true, if_false, Option.toList, List.append_nil]
    exact hoff
  · split
    · simp only [failedOf, failed, offeredId, Option.map_none, Bool.false_eq_true, if_false, Option.toList, List.nil_append]
      exact h
    · rename_i lo
      split
      · -- the resumption attempt fails at the client: offered = returned = the loaded session
        simp only [failedOf, failed, Bool.false_eq_true, if_false]
        have h1 := fext_cleanup_offered p hi h c.dst (some lo) hl
        simp only [offeredId, Option.map_some, Option.toList, List.singleton_append] at h1 ⊢
        exact fext_cons h1 _ (h1.fBelow _ List.mem_cons_self) (fun e he hd o hv => by
          have := h1.noFailed e he hd o hv
          intro hid; exact this (by rw [hid]; exact List.mem_cons_self))
      · simp only [failedOf, withPeer_cOk, if_true, List.nil_append]
        exact h

theorem fext_fullBranch (p : Params) (hp5 : p.perKeyObject = true) (hp16 : p.storeAfterFinished = true)
    (hinj : Function.Injective src) {w : World} (hi : Inv src w) (h : FExt src F w) (c : Conn) (l : Option ObjId) (su : Nat)
    (rnd : Nat × Nat) (full : Option Nat)
    (hl : ∀ lo, l = some lo → (⟨dstKey c.dst, some lo⟩ : Entry) ∈ w.client.q) :
    FExt src (failedOf (fullBranch p src w c l su rnd full).2 ++ F) (fullBranch p src w c l su rnd full).1 := by
  unfold fullBranch
  simp only [hp16, if_true]
  have i4 : Inv src { w with nId := w.nId + 1, nSec := w.nSec + 1 } := inv_counters hi rfl rfl rfl rfl (by simp)
  have f4 : FExt src F { w with nId := w.nId + 1, nSec := w.nSec + 1 } := fext_counters hi h rfl rfl (by simp)
  have hf : ∀ o : Nat, o < w.nObj → (w.heap o).id ≠ src w.nId := fun o ho => fresh_of_inv hi hinj ho (Nat.le_refl _)
  have hid : ∃ m, m < w.nId + 1 ∧ src w.nId = src m := ⟨w.nId, by omega, rfl⟩
  have i5 := inv_createSessionState p i4 c.server
    { id := src w.nId, vers := p.version, suite := su, ms := w.nSec, peer := none, cpeer := sentCert p c } hid hf rfl
  have f5 : FExt src F (createSessionState p { w with nId := w.nId + 1, nSec := w.nSec + 1 } c.server
      { id := src w.nId, vers := p.version, suite := su, ms := w.nSec, peer := none, cpeer := sentCert p c }) := by
    unfold createSessionState; exact fext_allocPutS p i4 f4 _ _ _
  -- a failing full handshake: the new identifier and the offered one join F
  have failCase : ∀ w' : World, Inv src w' → FExt src F w' → w'.nId = w.nId + 1 → w'.client = w.client →
      (∀ o : Nat, o < w.nObj → w'.heap o = w.heap o) →
      FExt src ((offeredId w l).toList ++ src w.nId :: F) (cleanup p w' c.dst l) := by
    intro w' i' f' hn hq hh
    have f1 : FExt src (src w.nId :: F) w' := by
      refine fext_cons f' _ (by rw [hn]; exact hid) ?_
      intro e he hd o hv
      rw [hq] at he
      have ho := hi.allocC e he o hv
      rw [hh o ho]; exact hf o ho
    have hoffeq : offeredId w' l = offeredId w l := by
      cases l with
      | none => rfl
      | some lo =>
        have := hi.allocC _ (hl lo rfl) lo rfl
        simp only [offeredId, Option.map_some, hh lo this]
    rw [← hoffeq]
    exact fext_cleanup_offered p i' f1 c.dst l (fun lo hlo => by rw [hq]; exact hl lo hlo)
  split
  · simp only [failedOf, failed, Bool.false_eq_true, if_false, Option.toList_some, List.append_assoc, List.singleton_append]
    exact failCase _ i4 f4 rfl rfl (fun _ _ => rfl)
  · split
    · simp only [failedOf, failed, Bool.false_eq_true, if_false, Option.toList_some, List.append_assoc, List.singleton_append]
      exact failCase _ i4 f4 rfl rfl (fun _ _ => rfl)
    · simp only [failedOf, withPeer_cOk, withPeer_offered, withPeer_returned, failed, Bool.false_eq_true, if_false, Option.toList_some, List.append_assoc, List.singleton_append]
      exact failCase _ i5 f5 rfl rfl
        (fun o ho => heap_alloc_old { w with nId := w.nId + 1, nSec := w.nSec + 1 } _ ho)
    · simp only [failedOf, withPeer_cOk, if_true, List.nil_append]
      have hheap5 : ∀ o : Nat, o < w.nObj → (createSessionState p { w with nId := w.nId + 1, nSec := w.nSec + 1 } c.server
          { id := src w.nId, vers := p.version, suite := su, ms := w.nSec, peer := none, cpeer := sentCert p c }).heap o = w.heap o :=
        fun o ho => heap_alloc_old { w with nId := w.nId + 1, nSec := w.nSec + 1 } _ ho
      refine fext_createNewSession p hp5 i5 f5 c.dst _ hid ?_ ?_ (F_fresh hinj h (Nat.le_refl _)) ?_
      · intro o ho hido
        have hobj : (createSessionState p { w with nId := w.nId + 1, nSec := w.nSec + 1 } c.server
          { id := src w.nId, vers := p.version, suite := su, ms := w.nSec, peer := none, cpeer := sentCert p c }).nObj = w.nObj + 1 := rfl
        rw [hobj] at ho
        by_cases a : o < w.nObj
        · rw [hheap5 o a] at hido; exact absurd hido (hf o a)
        · have e : o = w.nObj := by omega
          subst e
          have : (createSessionState p { w with nId := w.nId + 1, nSec := w.nSec + 1 } c.server
            { id := src w.nId, vers := p.version, suite := su, ms := w.nSec, peer := none, cpeer := sentCert p c }).heap w.nObj =
            { id := src w.nId, vers := p.version, suite := su, ms := w.nSec, peer := none, cpeer := sentCert p c } :=
            heap_alloc_new { w with nId := w.nId + 1, nSec := w.nSec + 1 } _
          rw [this]; exact ⟨rfl, rfl, rfl⟩
      · intro j hj i e he o2 hv hido
        simp only [Option.some.injEq] at hj
        subst hj
        have hsrv : (createSessionState p { w with nId := w.nId + 1, nSec := w.nSec + 1 } c.server
          { id := src w.nId, vers := p.version, suite := su, ms := w.nSec, peer := none, cpeer := sentCert p c }).servers =
          setServer w.servers c.server (LRU.put p.strictDelete (w.servers c.server) (idKey (src w.nId)) (some w.nObj)) := rfl
        rw [hsrv] at he
        rcases mem_setServer he with ⟨rfl, he⟩ | ⟨hne, he⟩
        · rfl
        · have ho2 := hi.allocS i e he o2 hv
          rw [hheap5 o2 ho2] at hido
          exact absurd hido (hf o2 ho2)
      · intro e he o hv
        have ho := hi.allocC e he o hv
        rw [hheap5 o ho]; exact hf o ho

theorem connect_offered (p : Params) (src : Nat → Nat) (w : World) (c : Conn) :
    (connect p src w c).2.offered = offeredId w (loadedOf p w c) := by
  have hfr := afterCheck_frame p w c
  have e : offeredId (afterCheck p w c).1 (loadedOf p w c) = offeredId w (loadedOf p w c) := by
    unfold offeredId; rw [hfr.1]
  unfold connect resumeBranch fullBranch
  simp only []
  repeat' split
  all_goals simp_all [failed]

theorem fext_connect (p : Params) (hp5 : p.perKeyObject = true) (hp16 : p.storeAfterFinished = true)
    (hinj : Function.Injective src) {w : World} (hi : Inv src w) (h : FExt src F w) (c : Conn) :
    FExt src (failedOf (connect p src w c).2 ++ F) (connect p src w c).1 ∧
    (∀ x, (connect p src w c).2.offered = some x → x ∉ F) := by
  have i3 := inv_afterCheck p hi c
  have hfr := afterCheck_frame p w c
  have f1 : FExt src F (loadSession p w c.dst).1 := by unfold loadSession; exact fext_getC hi h _
  have f3 : FExt src F (afterCheck p w c).1 :=
    fext_counters (inv_loadSession p hi c.dst) f1 hfr.2.1 (hfr.1.trans (loadSession_frame p w c.dst).2.1.symm)
      (by rw [hfr.2.2.2.1, (loadSession_frame p w c.dst).2.2.2.1]; exact Nat.le_refl _)
  have hl : ∀ lo, loadedOf p w c = some lo → (⟨dstKey c.dst, some lo⟩ : Entry) ∈ (afterCheck p w c).1.client.q := by
    intro lo hlo
    rw [hfr.2.1]
    exact (loadSession_some (p := p) (w := w) (d := c.dst) hlo).1
  constructor
  · unfold connect
    simp only []
    split
    · exact fext_resumeBranch p i3 f3 c _ _ _ _ hl
    · split
      · simp only [failedOf, failed, Bool.false_eq_true, if_false, Option.toList, List.append_nil]
        exact fext_cleanup_offered p i3 f3 c.dst _ hl
      · exact fext_fullBranch p hp5 hp16 hinj i3 f3 c _ _ _ _ hl
  · intro x hx
    rw [connect_offered] at hx
    cases hlo : loadedOf p w c with
    | none => rw [hlo] at hx; simp [offeredId] at hx
    | some lo =>
      rw [hlo] at hx
      simp only [offeredId, Option.map_some, Option.some.injEq] at hx
      subst hx
      have hmem := (loadSession_some (p := p) (w := w) (d := c.dst) hlo).2.1
      exact h.noFailed _ hmem ⟨c.dst, rfl⟩ lo rfl

/-- the history predicate: no connection offers the session in use by an earlier connection that
failed at the client -/
def NoReoffer : List Nat → List Obs → Prop
  | _, [] => True
  | F, o :: os => (∀ x, o.offered = some x → x ∉ F) ∧ NoReoffer (failedOf o ++ F) os

def noStaleConn (c : Conn) : Prop := ∀ a ∈ c.pre, notStale a

theorem run_noReoffer (p : Params) (hp5 : p.perKeyObject = true) (hp16 : p.storeAfterFinished = true)
    (hinj : Function.Injective src) (cs : List Conn) :
    ∀ (F : List Nat) (w : World), Inv src w → FExt src F w → (∀ c ∈ cs, noStaleConn c) →
      NoReoffer F (run p src w cs).2 := by
  induction cs with
  | nil => intro F w _ _ _; trivial
  | cons c cs ih =>
    intro F w hi h hs
    unfold run
    simp only []
    have hc := hs c List.mem_cons_self
    have i0 := inv_runPres p hinj c c.pre w hi
    have f0 := fext_runPres p hinj c c.pre w hi h hc
    have := fext_connect p hp5 hp16 hinj i0 f0 c
    refine ⟨this.2, ?_⟩
    exact ih _ _ (inv_connect p hp5 hp16 hinj i0 c) this.1 (fun c' hc' => hs c' (List.mem_cons_of_mem _ hc'))

theorem fext_init (d : Nat) (ccap scap : Int) : FExt src [] (Resumption.init d ccap scap) := by
  refine ⟨by simp, ?_, ?_⟩
  · intro e he; simp [Resumption.init, LRU.init] at he
  · intro e he; simp [Resumption.init, LRU.init] at he

/-- the pairwise reading of `NoReoffer` -/
def NotReoffered (a b : Obs) : Prop :=
  a.cOk = false → ∀ x, (a.offered = some x ∨ a.returned = some x) → b.offered ≠ some x

theorem noReoffer_pairwise (os : List Obs) : ∀ F : List Nat, NoReoffer F os →
    os.Pairwise NotReoffered ∧ (∀ o ∈ os, ∀ x ∈ F, o.offered ≠ some x) := by
  induction os with
  | nil => intro F _; exact ⟨List.Pairwise.nil, by simp⟩
  | cons o os ih =>
    intro F h
    obtain ⟨h1, h2⟩ := h
    obtain ⟨p1, p2⟩ := ih _ h2
    refine ⟨List.Pairwise.cons ?_ p1, ?_⟩
    · intro b hb hc x hx
      apply p2 b hb x
      apply List.mem_append_left
      rcases hx with hx | hx <;> simp [failedOf, hc, hx]
    · intro b hb x hx
      rcases List.mem_cons.mp hb with rfl | hb
      · intro hoff; exact h1 x hoff hx
      · exact p2 b hb x (List.mem_append_right _ hx)

/-- where a returned identifier can come from -/
theorem connect_returned (p : Params) (src : Nat → Nat) (w : World) (c : Conn) (y : Nat)
    (h : (connect p src w c).2.returned = some y) :
    (connect p src w c).2.returned = (connect p src w c).2.offered ∨ y = src w.nId := by
  have hfr := afterCheck_frame p w c
  unfold connect resumeBranch fullBranch at h ⊢
  simp only [] at h ⊢
  repeat' split at h
  all_goals simp_all [failed]

/-- every outcome of the full-handshake branch carries the next draw of the identifier source in its
ServerHello (doFullHandshake has ONE, unconditional, write of `hs.hello.sessionId`: fact
`resSessionIdWrites`) -/
theorem fullBranch_returned (p : Params) (src : Nat → Nat) (w : World) (c : Conn) (l : Option ObjId) (su : Nat)
    (rnd : Nat × Nat) (full : Option Nat) :
    (fullBranch p src w c l su rnd full).2.returned = some (src w.nId) := by
  unfold fullBranch
  simp only []
  repeat' split
  all_goals simp [failed, withPeer]

/-- when the server does not accept the offered session, a ServerHello — if one is sent at all — names
the next draw of the identifier source -/
theorem connect_refused_returned (p : Params) (src : Nat → Nat) (w : World) (c : Conn) (y : Nat)
    (href : (afterCheck p w c).2 = none) (h : (connect p src w c).2.returned = some y) : y = src w.nId := by
  have hfr := afterCheck_frame p w c
  unfold connect at h
  simp only [href] at h
  split at h
  · simp [failed] at h
  · rw [fullBranch_returned, hfr.2.2.2.1] at h
    exact (Option.some.inj h).symm

end Gotlcp.Lemmas.ResumptionFail

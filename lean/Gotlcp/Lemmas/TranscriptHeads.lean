/-
Histories only grow, and they start with the honest hello messages: the client's history
begins with the ClientHello it generated from nothing, the server's (once it answered) with
the ClientHello it accepted followed by the ServerHello it generated from exactly that message.
Core Lean only.
-/
import Gotlcp.Lemmas.TranscriptConn

set_option linter.unusedSimpArgs false
set_option linter.unusedVariables false

namespace Gotlcp.Lemmas.Transcript
open Gotlcp.Model.Transcript

variable {P : Prims} {k : Codes} {f : TFlags} {W : World P}

theorem emit_prefix (h : HS P) (t : Nat) (b : Bool) : h.log <+: (HS.emit W h t b).log :=
  List.prefix_append _ _

theorem sendFinished_prefix (h : HS P) (s : P.Secret) (b : Bool) : h.log <+: (HS.sendFinished k h s b).log :=
  List.prefix_append _ _

theorem recvFinished_prefix {h h1 : HS P} {s : P.Secret} {m : Msg} {a b : Bool}
    (hr : HS.recvFinished f W h s m a b = some h1) : h.log <+: h1.log := by
  unfold HS.recvFinished at hr
  by_cases hc : finMatches f.finFullCompare (mbody m)
      (P.prf s (!h.role.isClient) (hashT P (if a = true then h.transcript else h.transcript ++ [m]))) = true
  · simp only [hc, if_true, Option.some.injEq] at hr; rw [← hr]; exact List.prefix_append _ _
  · simp [hc] at hr

theorem takeS_log (h : HS P) (m : Msg) : (HS.takeS f W h m).log = h.log ++ [.msg false m] := by
  unfold HS.takeS; split <;> rfl

theorem clientFlight_prefix (h : HS P) (r : Bool) : h.log <+: (HS.clientFlight k f W h r).log := by
  unfold HS.clientFlight
  simp only []
  have p1 : h.log <+: (if r = true then HS.emit W h k.tCert f.cWritesHashed else h).log := by
    split
    · exact emit_prefix _ _ _
    · exact List.prefix_refl _
  generalize (if r = true then HS.emit W h k.tCert f.cWritesHashed else h) = h1 at p1
  have p2 : h1.log <+: (HS.emit W h1 k.tCKX f.cWritesHashed).log := emit_prefix _ _ _
  generalize HS.emit W h1 k.tCKX f.cWritesHashed = h2 at p2
  have p3 : h2.log <+: (if (r && W.choice .client .sendCertVerify h2.log) = true then HS.emit W h2 k.tCV f.cWritesHashed else h2).log := by
    split
    · exact emit_prefix _ _ _
    · exact List.prefix_refl _
  generalize (if (r && W.choice .client .sendCertVerify h2.log) = true then HS.emit W h2 k.tCV f.cWritesHashed else h2) = h3 at p3
  exact p1.trans (p2.trans (p3.trans (sendFinished_prefix _ _ _)))

/-- the server's first flight starts with the ServerHello generated from the history so far -/
theorem serverFlight_log (h : HS P) : ∃ rest, (HS.serverFlight k f W h).log =
    h.log ++ .msg true (frame k.tSH (W.say h.role k.tSH h.log)) :: rest := by
  unfold HS.serverFlight
  simp only []
  have e0 : (HS.emit W h k.tSH f.sWritesHashed).log = h.log ++ [.msg true (frame k.tSH (W.say h.role k.tSH h.log))] := rfl
  generalize HS.emit W h k.tSH f.sWritesHashed = h1 at e0
  have p1 : h1.log <+: (HS.emit W h1 k.tCert f.sWritesHashed).log := emit_prefix _ _ _
  generalize HS.emit W h1 k.tCert f.sWritesHashed = h2 at p1
  have p2 : h2.log <+: (if W.choice .server .sendSKX h2.log = true then HS.emit W h2 k.tSKX f.sWritesHashed else h2).log := by
    split
    · exact emit_prefix _ _ _
    · exact List.prefix_refl _
  generalize (if W.choice .server .sendSKX h2.log = true then HS.emit W h2 k.tSKX f.sWritesHashed else h2) = h3 at p2
  have p3 : h3.log <+: (if W.choice .server .sendCertReq h3.log = true then HS.emit W h3 k.tCR f.sWritesHashed else h3).log := by
    split
    · exact emit_prefix _ _ _
    · exact List.prefix_refl _
  generalize (if W.choice .server .sendCertReq h3.log = true then HS.emit W h3 k.tCR f.sWritesHashed else h3) = h4 at p3
  have p4 : h4.log <+: (HS.emit W h4 k.tSHD f.sWritesHashed).log := emit_prefix _ _ _
  obtain ⟨r, hr⟩ := (p1.trans (p2.trans (p3.trans p4)))
  refine ⟨r, ?_⟩
  show (HS.emit W h4 k.tSHD f.sWritesHashed).log = _
  rw [← hr, e0]; simp

theorem onCCS_prefix (h : HS P) : h.log <+: (HS.onCCS k h).log := by
  unfold HS.onCCS
  split
  · exact List.prefix_append _ _
  · exact List.prefix_append _ _
  · exact List.prefix_refl _
  · exact List.prefix_refl _
  · exact List.prefix_refl _

theorem take_prefix (h : HS P) (m : Msg) (b : Bool) : h.log <+: (HS.take h m b).log := List.prefix_append _ _

theorem serverFlight_prefix (h : HS P) : h.log <+: (HS.serverFlight k f W h).log := by
  obtain ⟨r, hr⟩ := serverFlight_log (k := k) (f := f) (W := W) h
  rw [hr]; exact List.prefix_append _ _

theorem onMsg_prefix (h : HS P) (m : Msg) : h.log <+: (HS.onMsg k f W h m).log := by
  have tk : ∀ b, h.log <+: (HS.take h m b).log := fun b => take_prefix h m b
  unfold HS.onMsg
  simp only []
  split
  · -- cSH
    split
    · split
      · exact List.prefix_append _ _
      · exact List.prefix_append _ _
    · exact List.prefix_refl _
  · split
    · exact List.prefix_append _ _
    · exact List.prefix_refl _
  · -- cSKX
    split
    · exact List.prefix_refl _
    · split
      · exact List.prefix_append _ _
      · split
        · exact List.prefix_append _ _
        · split
          · exact (tk _).trans (clientFlight_prefix _ _)
          · exact List.prefix_refl _
  · -- cCR
    split
    · exact List.prefix_refl _
    · split
      · exact List.prefix_append _ _
      · split
        · exact (tk _).trans (clientFlight_prefix _ _)
        · exact List.prefix_refl _
  · -- cSHD
    split
    · exact (tk _).trans (clientFlight_prefix _ _)
    · exact List.prefix_refl _
  · -- cFin
    split
    · exact List.prefix_refl _
    · split
      · split
        · exact List.prefix_refl _
        · rename_i h1 hrecv
          split
          · dsimp only
            exact (recvFinished_prefix hrecv).trans (sendFinished_prefix (k := k) h1 _ _)
          · dsimp only
            exact recvFinished_prefix hrecv
      · exact List.prefix_refl _
  · -- sCH
    split
    · split
      · dsimp only
        refine List.IsPrefix.trans ?_ (sendFinished_prefix (k := k) _ _ _)
        refine List.IsPrefix.trans ?_ (emit_prefix _ _ _)
        exact List.prefix_append _ _
      · refine List.IsPrefix.trans ?_ (serverFlight_prefix _)
        exact List.prefix_append _ _
    · exact List.prefix_refl _
  · split
    · simp only [takeS_log]; exact List.prefix_append _ _
    · exact List.prefix_refl _
  · -- sCKX
    split
    · split
      · simp only [takeS_log]; exact List.prefix_append _ _
      · simp only [takeS_log]; exact List.prefix_append _ _
    · exact List.prefix_refl _
  · split
    · exact List.prefix_append _ _
    · exact List.prefix_refl _
  · -- sFin
    split
    · exact List.prefix_refl _
    · split
      · split
        · exact List.prefix_refl _
        · rename_i h1 hrecv
          split
          · dsimp only
            exact recvFinished_prefix hrecv
          · dsimp only
            exact (recvFinished_prefix hrecv).trans (sendFinished_prefix (k := k) h1 _ _)
      · exact List.prefix_refl _
  · exact List.prefix_refl _
  · exact List.prefix_refl _
  · exact List.prefix_refl _
  · exact List.prefix_refl _

/-! ### the hello messages at the head of every history -/

/-- the ClientHello the honest client generates (from an empty history) -/
def honestCH (k : Codes) (W : World P) : Msg := frame k.tCH (W.say .client k.tCH [])

/-- the ServerHello the honest server generates in answer to ClientHello `ch` -/
def honestSH (k : Codes) (W : World P) (ch : Msg) : Msg := frame k.tSH (W.say .server k.tSH [.msg false ch])

theorem client_head {h : HS P} (hr : ReachR k f W .client h) : [.msg true (honestCH k W)] <+: h.log := by
  induction hr with
  | init => exact List.prefix_refl _
  | msg m _ _ ih => exact ih.trans (onMsg_prefix _ _)
  | ccs _ ih => exact ih.trans (onCCS_prefix _)
  | skip _ ih => rw [skipCCS_log]; exact ih
  | fail a _ ih => exact ih

def ServerHead (k : Codes) (W : World P) (h : HS P) : Prop :=
  (h.log = [] ∧ (h.ctl = .sCH ∨ ∃ a, h.ctl = .failed a)) ∨
  ∃ ch, [.msg false ch, .msg true (honestSH k W ch)] <+: h.log

theorem server_head {h : HS P} (hr : ReachR k f W .server h) : ServerHead k W h := by
  induction hr with
  | init => exact Or.inl ⟨rfl, Or.inl rfl⟩
  | @msg h m hprev _ ih =>
    have hrole := hprev.role
    rcases ih with ⟨hl, hctl⟩ | ⟨ch, hp⟩
    · rcases hctl with hctl | ⟨a, hctl⟩
      · -- the transition out of `sCH`
        unfold HS.onMsg
        simp only [hctl]
        split
        · split
          · right
            refine ⟨m, ?_⟩
            dsimp only
            refine List.IsPrefix.trans ?_ (sendFinished_prefix (k := k) _ _ _)
            simp only [HS.emit, HS.take, hl, hrole, List.nil_append, honestSH]
            exact List.prefix_refl _
          · right
            refine ⟨m, ?_⟩
            obtain ⟨rest, hrest⟩ := serverFlight_log (k := k) (f := f) (W := W)
              ({ role := h.role, ctl := h.ctl, log := h.log ++ [.msg false m], transcript := if f.sHelloAdded = true then [asMarshalled f W .server m] else [], ms := h.ms } : HS P)
            simp only [HS.take] at hrest ⊢
            rw [hrest]
            simp only [hl, hrole, List.nil_append, honestSH, List.singleton_append]
            exact ⟨rest, rfl⟩
        · exact Or.inl ⟨hl, Or.inr ⟨_, rfl⟩⟩
      · unfold HS.onMsg
        simp only [hctl]
        exact Or.inl ⟨hl, Or.inr ⟨a, hctl⟩⟩
    · exact Or.inr ⟨ch, hp.trans (onMsg_prefix _ _)⟩
  | @ccs h hprev ih =>
    rcases ih with ⟨hl, hctl⟩ | ⟨ch, hp⟩
    · rcases hctl with hctl | ⟨a, hctl⟩
      · unfold HS.onCCS; simp only [hctl]
        exact Or.inl ⟨hl, Or.inr ⟨_, rfl⟩⟩
      · unfold HS.onCCS; simp only [hctl]
        exact Or.inl ⟨hl, Or.inr ⟨a, hctl⟩⟩
    · exact Or.inr ⟨ch, hp.trans (onCCS_prefix _)⟩
  | @skip h hprev ih =>
    rcases ih with ⟨hl, hctl⟩ | ⟨ch, hp⟩
    · refine Or.inl ⟨by rw [skipCCS_log]; exact hl, ?_⟩
      rcases hctl with hctl | ⟨a, hctl⟩
      · left; unfold HS.skipCCS; split
        · exact hctl
        · simp only [hctl]
      · right; refine ⟨a, ?_⟩; unfold HS.skipCCS; split
        · exact hctl
        · simp only [hctl]
    · exact Or.inr ⟨ch, by rw [skipCCS_log]; exact hp⟩
  | fail a _ ih =>
    rcases ih with ⟨hl, _⟩ | ⟨ch, hp⟩
    · exact Or.inl ⟨hl, Or.inr ⟨a, rfl⟩⟩
    · exact Or.inr ⟨ch, hp⟩

end Gotlcp.Lemmas.Transcript

/-
Linearizability of the mutex-protected session cache (helper lemmas and the invariant).
-/
import Gotlcp.Model.LRUConc

set_option linter.unusedSimpArgs false

namespace Gotlcp.Lemmas.LRUConc
open Gotlcp.Model.LRU
open Gotlcp.Model.LRUConc

theorem run_length (b : Bool) (s : State) (ops : List Op) : (run b s ops).2.length = ops.length := by
  induction ops generalizing s with
  | nil => rfl
  | cons op ops ih => simp [run, ih]

theorem run_append_one (b : Bool) (s : State) (ops : List Op) (op : Op) :
    run b s (ops ++ [op]) =
      ((step b (run b s ops).1 op).1, (run b s ops).2 ++ [(step b (run b s ops).1 op).2]) := by
  induction ops generalizing s with
  | nil => simp [run]
  | cons o ops ih => simp [run, ih]

theorem outsOf_append_one (t t' : Nat) (op : Op) (o : Out) :
    ∀ (ds : List (Nat × Op)) (os : List Out), ds.length = os.length →
      outsOf t (ds ++ [(t', op)]) (os ++ [o]) = outsOf t ds os ++ (if t' = t then [o] else []) := by
  intro ds
  induction ds with
  | nil =>
    intro os h
    cases os with
    | nil => simp [outsOf]
    | cons _ _ => simp at h
  | cons d ds ih =>
    intro os h
    cases os with
    | nil => simp at h
    | cons o' os =>
      obtain ⟨t1, op1⟩ := d
      simp only [List.length_cons, Nat.add_right_cancel_iff] at h
      simp only [List.cons_append, outsOf]
      split
      · simp [ih os h]
      · exact ih os h

theorem opsOf_append_one (t t' : Nat) (op : Op) (ds : List (Nat × Op)) :
    opsOf t (ds ++ [(t', op)]) = opsOf t ds ++ (if t' = t then [op] else []) := by
  unfold opsOf
  rw [List.filter_append, List.map_append]
  by_cases h : t' = t
  · simp [h]
  · simp [h]

/-- the invariant of every reachable concurrent state, relative to the initial cache `s0`
and the initial programs `p0` -/
structure Inv (b : Bool) (s0 : State) (p0 : Nat → List Op) (c : Conc) : Prop where
  cacheEq : c.cache = (run b s0 (c.done.map (·.2))).1
  outsEq  : ∀ t, c.outs t = outsOf t c.done (run b s0 (c.done.map (·.2))).2
  progEq  : ∀ t, opsOf t c.done ++ c.progs t = p0 t
  holds   : ∀ h, c.holder = some h → c.progs h ≠ []

theorem inv_start (b : Bool) (s0 : State) (p0 : Nat → List Op) : Inv b s0 p0 (start s0 p0) :=
  ⟨rfl, fun _ => rfl, fun _ => rfl, fun _ h => by simp [start] at h⟩

theorem inv_tick (b : Bool) (s0 : State) (p0 : Nat → List Op) (c : Conc) (t : Nat)
    (h : Inv b s0 p0 c) : Inv b s0 p0 (tick b c t) := by
  unfold tick
  cases hh : c.holder with
  | none =>
    simp only
    cases hp : c.progs t with
    | nil => simp only; exact h
    | cons op rest =>
      simp only
      exact ⟨h.cacheEq, h.outsEq, h.progEq, fun x hx => by
        simp only [Option.some.injEq] at hx; subst hx; simp [hp]⟩
  | some hd =>
    simp only
    by_cases ht : hd = t
    · subst ht
      simp only [if_true]
      cases hp : c.progs hd with
      | nil => exact absurd hp (h.holds hd hh)
      | cons op rest =>
        simp only
        have hlen : c.done.length = (run b s0 (c.done.map (·.2))).2.length := by
          rw [run_length]; simp
        refine ⟨?_, ?_, ?_, fun x hx => by simp at hx⟩
        · simp only [List.map_append, List.map_cons, List.map_nil, run_append_one, ← h.cacheEq]
        · intro t'
          simp only [List.map_append, List.map_cons, List.map_nil, run_append_one]
          rw [outsOf_append_one t' hd op _ c.done _ hlen, ← h.cacheEq, ← h.outsEq]
          unfold upd
          by_cases e : t' = hd
          · subst e; simp
          · have e' : ¬ hd = t' := fun x => e x.symm
            simp [e, e']
        · intro t'
          rw [opsOf_append_one]
          unfold upd
          by_cases e : t' = hd
          · subst e
            have := h.progEq t'
            rw [hp] at this
            simp [← this]
          · have e' : ¬ hd = t' := fun x => e x.symm
            simp [e, e', h.progEq t']
    · simp only [ht, if_false]; exact h

theorem inv_exec (b : Bool) (s0 : State) (p0 : Nat → List Op) (c : Conc) (sched : List Nat)
    (h : Inv b s0 p0 c) : Inv b s0 p0 (exec b c sched) := by
  induction sched generalizing c with
  | nil => exact h
  | cons t ts ih => exact ih _ (inv_tick b s0 p0 c t h)

end Gotlcp.Lemmas.LRUConc

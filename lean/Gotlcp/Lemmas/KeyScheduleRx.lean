/-
Helper lemmas for C04, receiving side: whatever the model's `decrypt` (the transcription of
`halfConn.decrypt`) hands on from a record, under an installed cipher, is AUTHENTIC in the sense of
the standard (`Spec.KeySchedule.Authentic`): it opens under that cipher's keys with seq_num, type,
version and length authenticated.  One lemma per stack × cipher kind; `Props.C04_delivered_is_authentic`
combines them.  No primitive law is needed: the statements hold for ANY MAC / block function / AEAD.
Core Lean only.
-/
import Gotlcp.Lemmas.KeyScheduleRecord
import Gotlcp.Spec.KeySchedule

set_option linter.unusedSimpArgs false
set_option linter.unusedVariables false

namespace Gotlcp.Lemmas.KeyScheduleRx
open Gotlcp.Crypto
open Gotlcp.Lemmas.KeySchedule
open Gotlcp.Lemmas.KeyScheduleRecord
open Gotlcp.Model.KeySchedule

theorem prefixNonce_tlcp (iv e : Bytes) (hiv : iv.length = 4) (he : e.length = 8) : prefixNonce srcTlcp iv e = iv ++ e := by
  simp only [prefixNonce]
  have a : srcTlcp.noncePrefixLen = 4 := rfl
  have b : srcTlcp.aeadNonceLen = 12 := rfl
  rw [a, b, List.take_of_length_le (by omega), List.take_of_length_le (by omega)]

theorem prefixNonce_dtlcp (iv e : Bytes) (hiv : iv.length = 4) (he : e.length = 8) : prefixNonce srcDtlcp iv e = iv ++ e := by
  simp only [prefixNonce]
  have a : srcDtlcp.noncePrefixLen = 4 := rfl
  have b : srcDtlcp.aeadNonceLen = 12 := rfl
  rw [a, b, List.take_of_length_le (by omega), List.take_of_length_le (by omega)]

/-- TLCP, AEAD -/
theorem authentic_aead_tlcp (P : Prims) (k : DirKeys) (next : Option Cipher)
    (typ ver epoch seq : Nat) (body x : Bytes) (h' : Half) (hiv : k.iv.length = 4)
    (h : decrypt P srcTlcp .tlcp ⟨some (.aead k), next, Spec.KeySchedule.seqNum .tlcp epoch seq⟩
        (Spec.KeySchedule.header .tlcp typ ver epoch seq body.length ++ body) = .ok (x, h')) :
    Spec.KeySchedule.Authentic P .gcm ⟨k.mac, k.key, k.iv⟩ .tlcp typ ver epoch seq body x := by
  have hS : srcTlcp.recordHeaderLen = 5 := rfl
  have hen : explicitNonceLen srcTlcp (some (.aead k)) = 8 := rfl
  simp only [Spec.KeySchedule.header, Spec.KeySchedule.seqNum] at h
  have d1 : (be 1 typ ++ be 2 ver ++ be 2 body.length ++ body).drop 5 = body := by
    rw [List.drop_append_of_le_length (by simp [length_be]), List.drop_of_length_le (by simp [length_be])]; simp
  have t3 : (be 1 typ ++ be 2 ver ++ be 2 body.length ++ body).take 3 = be 1 typ ++ be 2 ver := by
    simp [be]
  unfold decrypt at h
  simp only [hS, hen, d1, t3] at h
  by_cases c1 : body.length < 8
  · simp [c1] at h
  · by_cases c2 : (body.drop 8).length < P.tagLen
    · simp only [c1, c2, if_true, if_false] at h; simp at h
    · have hl8 : (body.take 8).length = 8 := by simp [List.length_take]; omega
      have hne : ((body.take 8).length == 0) = false := by simp [hl8]
      simp only [c1, c2, if_false, hne, Bool.false_eq_true, prefixNonce_tlcp k.iv (body.take 8) hiv hl8, len16_eq] at h
      simp only [Spec.KeySchedule.Authentic, Spec.KeySchedule.explicitNonceLen, Spec.KeySchedule.gcmNonce,
        Spec.KeySchedule.additionalData, Spec.KeySchedule.pseudoHeader, Spec.KeySchedule.seqNum]
      rw [List.append_assoc (be 8 seq)]
      cases ho : P.aeadOpen k.key (k.iv ++ body.take 8)
          (be 8 seq ++ (be 1 typ ++ be 2 ver) ++ be 2 ((body.drop 8).length - P.tagLen)) (body.drop 8) with
      | none => rw [ho] at h; simp at h
      | some pt =>
        rw [ho] at h
        cases hi : incSeq (be 8 seq) with
        | none => simp [hi] at h
        | some s =>
          simp only [hi] at h
          have : pt = x := by injection h with h; exact (Prod.mk.inj h).1
          rw [← this]

/-- the 13-byte header followed by the body, in the shape the lemmas below work on -/
theorem dtlcp_record_shape (typ ver epoch seq : Nat) (body : Bytes) :
    Spec.KeySchedule.header .dtlcp typ ver epoch seq body.length ++ body
      = [UInt8.ofNat typ, UInt8.ofNat (ver / 256), UInt8.ofNat ver] ++ ((be 2 epoch ++ be 6 seq) ++ be 2 body.length) ++ body := by
  have hb : be 1 typ ++ be 2 ver = [UInt8.ofNat typ, UInt8.ofNat (ver / 256), UInt8.ofNat ver] := by simp [be]
  simp only [Spec.KeySchedule.header]
  rw [hb]; simp

/-- DTLCP, AEAD -/
theorem authentic_aead_dtlcp (P : Prims) (k : DirKeys) (next : Option Cipher)
    (typ ver epoch seq : Nat) (body x : Bytes) (h' : Half) (hiv : k.iv.length = 4)
    (h : decrypt P srcDtlcp .dtlcp ⟨some (.aead k), next, Spec.KeySchedule.seqNum .dtlcp epoch seq⟩
        (Spec.KeySchedule.header .dtlcp typ ver epoch seq body.length ++ body) = .ok (x, h')) :
    Spec.KeySchedule.Authentic P .gcm ⟨k.mac, k.key, k.iv⟩ .dtlcp typ ver epoch seq body x := by
  have hS : srcDtlcp.recordHeaderLen = 13 := rfl
  have hen : explicitNonceLen srcDtlcp (some (.aead k)) = 8 := rfl
  rw [dtlcp_record_shape] at h
  simp only [Spec.KeySchedule.seqNum] at h
  generalize hsq : be 2 epoch ++ be 6 seq = sq at *
  have hsql : sq.length = 8 := by rw [← hsq]; simp [length_be]
  have d1 : ([UInt8.ofNat typ, UInt8.ofNat (ver / 256), UInt8.ofNat ver] ++ (sq ++ be 2 body.length) ++ body).drop 13 = body := by
    rw [List.drop_append_of_le_length (by simp [length_be, hsql]), List.drop_of_length_le (by simp [length_be, hsql])]; simp
  have g0 : ([UInt8.ofNat typ, UInt8.ofNat (ver / 256), UInt8.ofNat ver] ++ (sq ++ be 2 body.length) ++ body).getD 0 0 = UInt8.ofNat typ := by simp
  have g1 : ([UInt8.ofNat typ, UInt8.ofNat (ver / 256), UInt8.ofNat ver] ++ (sq ++ be 2 body.length) ++ body).getD 1 0 = UInt8.ofNat (ver / 256) := by simp
  have g2 : ([UInt8.ofNat typ, UInt8.ofNat (ver / 256), UInt8.ofNat ver] ++ (sq ++ be 2 body.length) ++ body).getD 2 0 = UInt8.ofNat ver := by simp
  unfold decrypt at h
  simp only [hS, hen, d1, g0, g1, g2] at h
  by_cases c1 : body.length < 8
  · simp [c1] at h
  · by_cases c2 : (body.drop 8).length < P.tagLen
    · simp only [c1, c2, if_true, if_false] at h; simp at h
    · have hl8 : (body.take 8).length = 8 := by simp [List.length_take]; omega
      have hne : ((body.take 8).length == 0) = false := by simp [hl8]
      simp only [c1, c2, if_false, hne, Bool.false_eq_true, prefixNonce_dtlcp k.iv (body.take 8) hiv hl8, len16_eq] at h
      simp only [Spec.KeySchedule.Authentic, Spec.KeySchedule.explicitNonceLen, Spec.KeySchedule.gcmNonce,
        Spec.KeySchedule.additionalData, Spec.KeySchedule.pseudoHeader, Spec.KeySchedule.seqNum]
      have had : sq ++ [UInt8.ofNat typ] ++ [UInt8.ofNat (ver / 256), UInt8.ofNat ver] ++ be 2 ((body.drop 8).length - P.tagLen)
          = sq ++ be 1 typ ++ be 2 ver ++ be 2 ((body.drop 8).length - P.tagLen) := by
        have hb : be 1 typ ++ be 2 ver = [UInt8.ofNat typ, UInt8.ofNat (ver / 256), UInt8.ofNat ver] := by simp [be]
        rw [List.append_assoc sq (be 1 typ), hb]; simp
      rw [had] at h
      rw [hsq]
      cases ho : P.aeadOpen k.key (k.iv ++ body.take 8)
          (sq ++ be 1 typ ++ be 2 ver ++ be 2 ((body.drop 8).length - P.tagLen)) (body.drop 8) with
      | none => rw [ho] at h; simp at h
      | some pt =>
        rw [ho] at h
        have : pt = x := by injection h with h; exact (Prod.mk.inj h).1
        rw [← this]

/-- DTLCP, CBC + HMAC -/
theorem authentic_cbc_dtlcp (P : Prims) (k : DirKeys) (next : Option Cipher)
    (typ ver epoch seq : Nat) (body x : Bytes) (h' : Half)
    (h : decrypt P srcDtlcp .dtlcp ⟨some (.cbc k), next, Spec.KeySchedule.seqNum .dtlcp epoch seq⟩
        (Spec.KeySchedule.header .dtlcp typ ver epoch seq body.length ++ body) = .ok (x, h')) :
    Spec.KeySchedule.Authentic P .cbc ⟨k.mac, k.key, k.iv⟩ .dtlcp typ ver epoch seq body x := by
  have hS : srcDtlcp.recordHeaderLen = 13 := rfl
  have hen : explicitNonceLen srcDtlcp (some (.cbc k)) = 16 := rfl
  rw [dtlcp_record_shape] at h
  simp only [Spec.KeySchedule.seqNum] at h
  generalize hsq : be 2 epoch ++ be 6 seq = sq at *
  have hsql : sq.length = 8 := by rw [← hsq]; simp [length_be]
  have d1 : ([UInt8.ofNat typ, UInt8.ofNat (ver / 256), UInt8.ofNat ver] ++ (sq ++ be 2 body.length) ++ body).drop 13 = body := by
    rw [List.drop_append_of_le_length (by simp [length_be, hsql]), List.drop_of_length_le (by simp [length_be, hsql])]; simp
  have g0 : ([UInt8.ofNat typ, UInt8.ofNat (ver / 256), UInt8.ofNat ver] ++ (sq ++ be 2 body.length) ++ body).getD 0 0 = UInt8.ofNat typ := by simp
  have g1 : ([UInt8.ofNat typ, UInt8.ofNat (ver / 256), UInt8.ofNat ver] ++ (sq ++ be 2 body.length) ++ body).getD 1 0 = UInt8.ofNat (ver / 256) := by simp
  have g2 : ([UInt8.ofNat typ, UInt8.ofNat (ver / 256), UInt8.ofNat ver] ++ (sq ++ be 2 body.length) ++ body).getD 2 0 = UInt8.ofNat ver := by simp
  unfold decrypt at h
  simp only [hS, hen, d1, g0, g1, g2] at h
  generalize hpt : CBC.decrypt (P.dec k.key) (body.take 16) (body.drop 16) = pt at h
  cases hep : extractPadding pt with
  | mk pl good =>
    simp only [hep] at h
    split at h
    · simp at h
    · split at h
      · simp at h
      · split at h
        · rename_i hc
          have hx : pt.take (pt.length - P.hLen - pl) = x := by injection h with h; exact (Prod.mk.inj h).1
          have hmac : tls10MAC P k.mac sq ([UInt8.ofNat typ, UInt8.ofNat (ver / 256), UInt8.ofNat ver] ++ len16 (pt.length - P.hLen - pl))
              (pt.take (pt.length - P.hLen - pl)) = (pt.drop (pt.length - P.hLen - pl)).take P.hLen := by
            simp only [Bool.and_eq_true, beq_iff_eq] at hc; exact hc.1
          have hxl : x.length = pt.length - P.hLen - pl := by rw [← hx]; simp [List.length_take]; omega
          simp only [Spec.KeySchedule.Authentic, Spec.KeySchedule.blockLen, Spec.KeySchedule.macInput,
            Spec.KeySchedule.pseudoHeader, Spec.KeySchedule.seqNum, hpt, hsq]
          constructor
          · rw [hxl]; exact hx
          · rw [hxl, ← hmac, hx]
            have hb : be 1 typ ++ be 2 ver = [UInt8.ofNat typ, UInt8.ofNat (ver / 256), UInt8.ofNat ver] := by simp [be]
            simp only [tls10MAC, len16_eq]
            simp [hb, be]
        · simp at h

/-- TLCP, CBC + HMAC -/
theorem authentic_cbc_tlcp (P : Prims) (k : DirKeys) (next : Option Cipher)
    (typ ver epoch seq : Nat) (body x : Bytes) (h' : Half)
    (h : decrypt P srcTlcp .tlcp ⟨some (.cbc k), next, Spec.KeySchedule.seqNum .tlcp epoch seq⟩
        (Spec.KeySchedule.header .tlcp typ ver epoch seq body.length ++ body) = .ok (x, h')) :
    Spec.KeySchedule.Authentic P .cbc ⟨k.mac, k.key, k.iv⟩ .tlcp typ ver epoch seq body x := by
  have hS : srcTlcp.recordHeaderLen = 5 := rfl
  have hen : explicitNonceLen srcTlcp (some (.cbc k)) = 16 := rfl
  simp only [Spec.KeySchedule.header, Spec.KeySchedule.seqNum] at h
  have hhl : (be 1 typ ++ be 2 ver ++ be 2 body.length).length = srcTlcp.recordHeaderLen := by simp [length_be, hS]
  have d1 : (be 1 typ ++ be 2 ver ++ be 2 body.length ++ body).drop 5 = body := by
    rw [List.drop_append_of_le_length (by simp [length_be]), List.drop_of_length_le (by simp [length_be])]; simp
  have hdr : ∀ n, (setLen srcTlcp (be 1 typ ++ be 2 ver ++ be 2 body.length ++ body) n).take 5 = be 1 typ ++ be 2 ver ++ be 2 n := by
    intro n
    rw [setLen_shape srcTlcp _ body n hhl, hS, len16_eq]
    have t3 : (be 1 typ ++ be 2 ver ++ be 2 body.length).take (5 - 2) = be 1 typ ++ be 2 ver := by simp [be]
    rw [t3, List.take_append_of_le_length (by simp [length_be]), List.take_of_length_le (by simp [length_be])]
  unfold decrypt at h
  simp only [hS, hen, d1, hdr] at h
  generalize hpt : CBC.decrypt (P.dec k.key) (body.take 16) (body.drop 16) = pt at h
  cases hep : extractPadding pt with
  | mk pl good =>
    simp only [hep] at h
    split at h
    · simp at h
    · split at h
      · simp at h
      · split at h
        · rename_i hc
          cases hi : incSeq (be 8 seq) with
          | none => simp [hi] at h
          | some s =>
            simp only [hi] at h
            have hx : pt.take (pt.length - P.hLen - pl) = x := by injection h with h; exact (Prod.mk.inj h).1
            have hmac : tls10MAC P k.mac (be 8 seq) (be 1 typ ++ be 2 ver ++ be 2 (pt.length - P.hLen - pl))
                (pt.take (pt.length - P.hLen - pl)) = (pt.drop (pt.length - P.hLen - pl)).take P.hLen := by
              simp only [Bool.and_eq_true, beq_iff_eq] at hc; exact hc.1
            have hxl : x.length = pt.length - P.hLen - pl := by rw [← hx]; simp [List.length_take]; omega
            simp only [Spec.KeySchedule.Authentic, Spec.KeySchedule.blockLen, Spec.KeySchedule.macInput,
              Spec.KeySchedule.pseudoHeader, Spec.KeySchedule.seqNum, hpt]
            constructor
            · rw [hxl]; exact hx
            · rw [hxl, ← hmac, hx]
              simp only [tls10MAC]
              simp
        · simp at h

/-! ### the standard's own receiver hands on authentic content only -/

theorem openBody_authentic (P : Prims) (m : Spec.KeySchedule.Mode) (k : Spec.KeySchedule.DirKeys) (st : Spec.KeySchedule.Stack)
    (typ ver epoch seq : Nat) (body x : Bytes)
    (h : Spec.KeySchedule.openBody P m k st typ ver epoch seq body = .ok x) :
    Spec.KeySchedule.Authentic P m k st typ ver epoch seq body x := by
  cases m with
  | gcm =>
    simp only [Spec.KeySchedule.openBody, Spec.KeySchedule.openGCM] at h
    split at h
    · simp at h
    · simp only [Spec.KeySchedule.Authentic]
      split at h
      · rename_i p hp
        have : p = x := by injection h
        rw [← this]; exact hp
      · simp at h
  | cbc =>
    simp only [Spec.KeySchedule.openBody, Spec.KeySchedule.openCBC] at h
    split at h
    · simp at h
    · generalize hpt : CBC.decrypt (P.dec k.key) (body.take Spec.KeySchedule.blockLen) (body.drop Spec.KeySchedule.blockLen) = pt at h
      split at h
      · simp at h
      · split at h
        · simp at h
        · split at h
          · rename_i hc
            simp only [Spec.KeySchedule.Authentic, hpt]
            have hx : pt.take (pt.length - ((pt.getLast?.getD 0).toNat + 1) - P.hLen) = x := by injection h
            have hcl : (pt.take (pt.length - ((pt.getLast?.getD 0).toNat + 1) - P.hLen)).length
                = pt.length - ((pt.getLast?.getD 0).toNat + 1) - P.hLen := by simp [List.length_take]; omega
            rw [← hx]
            constructor
            · rw [hcl]
            · simp only [beq_iff_eq] at hc; exact hc
          · simp at h

end Gotlcp.Lemmas.KeyScheduleRx

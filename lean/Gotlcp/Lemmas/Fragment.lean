/-
Helper lemmas for C17 (model `Gotlcp.Model.Fragment` against `Gotlcp.Spec.FragmentSpec`).
-/
import Gotlcp.Model.Fragment
import Gotlcp.Spec.FragmentSpec

set_option linter.unusedSimpArgs false
set_option linter.unusedVariables false

namespace Gotlcp.Lemmas.Fragment
open Gotlcp.Model.Fragment
open Gotlcp.Spec

/-! ### bit arithmetic on `UInt8` -/

theorem shr3 (i : Nat) : i >>> 3 = i / 8 := by
  simp [Nat.shiftRight_eq_div_pow]

theorem and7 (i : Nat) : i &&& 7 = i % 8 := by
  have := Nat.and_two_pow_sub_one_eq_mod i 3
  simpa using this

theorem one_shl (k : Nat) (hk : k < 8) : ((1 : UInt8) <<< UInt8.ofNat k).toNat = 2 ^ k := by
  rw [UInt8.toNat_shiftLeft]
  have h1 : (UInt8.ofNat k).toNat = k := by simp [UInt8.toNat_ofNat']; omega
  rw [h1]
  simp [Nat.mod_eq_of_lt hk, Nat.shiftLeft_eq]
  have : 2 ^ k < 2 ^ 8 := Nat.pow_lt_pow_right (by omega) hk
  omega

theorem tb_or_bit (x : UInt8) (k j : Nat) (hk : k < 8) :
    (x ||| ((1 : UInt8) <<< UInt8.ofNat k)).toNat.testBit j = (x.toNat.testBit j || decide (k = j)) := by
  rw [UInt8.toNat_or, Nat.testBit_or, one_shl k hk, Nat.testBit_two_pow]

theorem ff_iff (b : UInt8) : b = 0xFF ↔ ∀ k < 8, b.toNat.testBit k = true := by
  have hff : (0xFF : UInt8).toNat = 2 ^ 8 - 1 := by decide
  constructor
  · intro h k hk; subst h
    rw [hff, Nat.testBit_two_pow_sub_one]; simpa using hk
  · intro h
    apply UInt8.toNat_inj.mp
    apply Nat.eq_of_testBit_eq
    intro i
    rw [hff, Nat.testBit_two_pow_sub_one]
    by_cases hi : i < 8
    · simp [hi, h i hi]
    · simp [hi]
      exact Nat.testBit_lt_two_pow (Nat.lt_of_lt_of_le b.toNat_lt (Nat.pow_le_pow_right (by omega) (by omega)))

theorem mask_iff (b : UInt8) (rem : Nat) (hr : rem < 8) :
    (b &&& UInt8.ofNat ((1 <<< rem) - 1)) = UInt8.ofNat ((1 <<< rem) - 1) ↔ ∀ k < rem, b.toNat.testBit k = true := by
  have hm : (UInt8.ofNat ((1 <<< rem) - 1)).toNat = 2 ^ rem - 1 := by
    rw [UInt8.toNat_ofNat', Nat.shiftLeft_eq, Nat.one_mul]
    have : 2 ^ rem < 2 ^ 8 := Nat.pow_lt_pow_right (by omega) hr
    omega
  rw [← UInt8.toNat_inj, UInt8.toNat_and, hm]
  constructor
  · intro h k hk
    have := congrArg (fun x => Nat.testBit x k) h
    simp [Nat.testBit_and, Nat.testBit_two_pow_sub_one, hk] at this
    exact this
  · intro h
    apply Nat.eq_of_testBit_eq
    intro i
    rw [Nat.testBit_and, Nat.testBit_two_pow_sub_one]
    by_cases hi : i < rem
    · simp [hi, h i hi]
    · simp [hi]

/-! ### the bitmap as a predicate on byte indices -/

/-- bit `j` of the received bitmap -/
def tb (r : Bytes) (j : Nat) : Bool := (r.getD (j / 8) 0).toNat.testBit (j % 8)

theorem setBit_length (r : Bytes) (i : Nat) : (setBit r i).length = r.length := by
  simp [setBit]

theorem tb_setBit (r : Bytes) (i j : Nat) (hi : i / 8 < r.length) :
    tb (setBit r i) j = (tb r j || decide (i = j)) := by
  unfold tb setBit
  rw [shr3, and7]
  by_cases hq : j / 8 = i / 8
  · rw [hq]
    have : (r.set (i / 8) (r.getD (i / 8) 0 ||| ((1 : UInt8) <<< UInt8.ofNat (i % 8)))).getD (i / 8) 0
        = r.getD (i / 8) 0 ||| ((1 : UInt8) <<< UInt8.ofNat (i % 8)) := by
      simp [List.getD_eq_getElem?_getD, List.getElem?_set, hi]
    rw [this, tb_or_bit _ _ _ (Nat.mod_lt _ (by omega))]
    congr 1
    have : (i % 8 = j % 8) ↔ (i = j) := by omega
    simp [this]
  · have : (r.set (i / 8) (r.getD (i / 8) 0 ||| ((1 : UInt8) <<< UInt8.ofNat (i % 8)))).getD (j / 8) 0
        = r.getD (j / 8) 0 := by
      have hq2 : ¬ i / 8 = j / 8 := fun h => hq h.symm
      simp [List.getD_eq_getElem?_getD, List.getElem?_set, hq2]
    rw [this]
    have : i ≠ j := by intro h; subst h; exact hq rfl
    simp [this]

theorem setBits_length (r : Bytes) (off len : Nat) : (setBits r off len).length = r.length := by
  induction len generalizing r off with
  | zero => rfl
  | succ k ih => simp [setBits, ih, setBit_length]

theorem tb_setBits (r : Bytes) (off len j : Nat) (h : off + len ≤ 8 * r.length) :
    tb (setBits r off len) j = (tb r j || decide (off ≤ j ∧ j < off + len)) := by
  induction len generalizing r off with
  | zero => simp [setBits]; omega
  | succ k ih =>
    simp only [setBits]
    rw [ih (setBit r off) (off + 1) (by rw [setBit_length]; omega)]
    rw [tb_setBit r off j (by omega)]
    rw [Bool.or_assoc]
    congr 1
    rw [← Bool.decide_or]
    apply decide_eq_decide.mpr
    omega

theorem complete_iff_tb (fb : FragBuf) :
    complete fb = true ↔ ∀ i < fb.n, tb fb.received i = true := by
  unfold complete
  simp only [shr3, and7]
  constructor
  · intro h i hi
    split at h
    · exact absurd h (by simp)
    · rename_i hall
      simp only [Bool.not_eq_true, Bool.not_eq_false', List.all_eq_true, List.mem_range, beq_iff_eq] at hall
      unfold tb
      by_cases hq : i / 8 < fb.n / 8
      · exact (ff_iff _).mp (hall _ hq) _ (Nat.mod_lt _ (by omega))
      · have hq' : i / 8 = fb.n / 8 := by omega
        have hrem : i % 8 < fb.n % 8 := by omega
        split at h
        · rw [hq']
          simp only [beq_iff_eq] at h
          exact (mask_iff _ _ (Nat.mod_lt _ (by omega))).mp h _ hrem
        · omega
  · intro h
    have hall : (List.range (fb.n / 8)).all (fun i => fb.received.getD i 0 == 0xFF) = true := by
      simp only [List.all_eq_true, List.mem_range, beq_iff_eq]
      intro q hq
      apply (ff_iff _).mpr
      intro k hk
      have := h (8 * q + k) (by omega)
      unfold tb at this
      have e1 : (8 * q + k) / 8 = q := by omega
      have e2 : (8 * q + k) % 8 = k := by omega
      rw [e1, e2] at this
      exact this
    simp only [hall, Bool.not_true, Bool.false_eq_true, if_false]
    split
    · simp only [beq_iff_eq]
      apply (mask_iff _ _ (Nat.mod_lt _ (by omega))).mpr
      intro k hk
      have := h (8 * (fb.n / 8) + k) (by omega)
      unfold tb at this
      have e1 : (8 * (fb.n / 8) + k) / 8 = fb.n / 8 := by omega
      have e2 : (8 * (fb.n / 8) + k) % 8 = k := by omega
      rw [e1, e2] at this
      exact this
    · rfl

/-! ### the data copy -/

theorem copyInto_length (data : Bytes) (off len : Nat) (frag : Bytes) (h : off + len ≤ data.length) :
    (copyInto data off len frag).length = data.length := by
  unfold copyInto
  simp only [List.length_append, List.length_take, List.length_drop]
  omega

theorem copyInto_get (data : Bytes) (off len : Nat) (frag : Bytes) (h : off + len ≤ data.length)
    (hf : len ≤ frag.length) (i : Nat) :
    (copyInto data off len frag)[i]? = if off ≤ i ∧ i < off + len then frag[i - off]? else data[i]? := by
  unfold copyInto
  have hk : min len frag.length = len := by omega
  rw [hk]
  by_cases h1 : i < off
  · have : ¬ (off ≤ i ∧ i < off + len) := by omega
    simp only [this, if_false]
    rw [List.append_assoc, List.getElem?_append_left (by simp; omega)]
    simp [List.getElem?_take, h1]
  · by_cases h2 : i < off + len
    · have : (off ≤ i ∧ i < off + len) := by omega
      simp only [this, and_self, if_true]
      rw [List.append_assoc, List.getElem?_append_right (by simp; omega)]
      have e : (List.take off data).length = off := by simp; omega
      rw [e, List.getElem?_append_left (by simp; omega)]
      simp [List.getElem?_take]; omega
    · have : ¬ (off ≤ i ∧ i < off + len) := by omega
      simp only [this, if_false]
      rw [List.getElem?_append_right (by simp; omega)]
      simp only [List.length_append, List.length_take, List.getElem?_drop]
      congr 1
      omega

/-! ### buffers: well-formedness and the two invariants of `run` -/

def toSpec (f : Frag) : FragmentSpec.Frag := ⟨f.off, f.len, f.body⟩

structure WF (fb : FragBuf) : Prop where
  dlen : fb.data.length = fb.n
  rlen : fb.received.length = (fb.n + 7) / 8

theorem newBuf_n (total : Nat) : (newBuf total).n = if total < 1 then 1 else total := rfl
theorem newBuf_total (total : Nat) : (newBuf total).total = total := rfl

theorem newBuf_n_pos (total : Nat) (h : 0 < total) : (newBuf total).n = total := by
  rw [newBuf_n]; split <;> omega

theorem newBuf_wf (total : Nat) : WF (newBuf total) := by
  constructor
  · simp [newBuf]
  · simp [newBuf, shr3]

theorem tb_replicate (k j : Nat) : tb (List.replicate k (0 : UInt8)) j = false := by
  unfold tb
  have : (List.replicate k (0 : UInt8)).getD (j / 8) 0 = 0 := by
    simp [List.getD_eq_getElem?_getD, List.getElem?_replicate]
    split <;> rfl
  rw [this]; simp

theorem newBuf_tb (total j : Nat) : tb (newBuf total).received j = false := by
  simp [newBuf, tb_replicate]

theorem add_n (fb : FragBuf) (off len : Nat) (frag : Bytes) : (addFragment fb off len frag).1.n = fb.n := by
  unfold addFragment; split <;> rfl

theorem add_total (fb : FragBuf) (off len : Nat) (frag : Bytes) : (addFragment fb off len frag).1.total = fb.total := by
  unfold addFragment; split <;> rfl

theorem add_ok (fb : FragBuf) (off len : Nat) (frag : Bytes) :
    (addFragment fb off len frag).2 = decide (off + len ≤ fb.n) := by
  unfold addFragment; split
  · simp; omega
  · simp; omega

theorem add_wf (fb : FragBuf) (off len : Nat) (frag : Bytes) (h : WF fb) : WF (addFragment fb off len frag).1 := by
  unfold addFragment; split
  · exact h
  · rename_i hb
    constructor
    · simp only []; rw [copyInto_length _ _ _ _ (by rw [h.dlen]; omega)]; exact h.dlen
    · simp only []; rw [setBits_length]; exact h.rlen

theorem add_tb (fb : FragBuf) (off len : Nat) (frag : Bytes) (h : WF fb) (j : Nat) :
    tb (addFragment fb off len frag).1.received j
      = (tb fb.received j || (decide (off + len ≤ fb.n) && decide (off ≤ j ∧ j < off + len))) := by
  unfold addFragment; split
  · rename_i hb
    have : ¬ (off + len ≤ fb.n) := by omega
    simp [this]
  · rename_i hb
    have hle : off + len ≤ fb.n := by omega
    simp only []
    rw [tb_setBits _ _ _ _ (by rw [h.rlen]; omega)]
    simp [hle]

theorem add_data (fb : FragBuf) (off len : Nat) (frag : Bytes) (h : WF fb) (hf : len ≤ frag.length) (i : Nat) :
    (addFragment fb off len frag).1.data[i]?
      = if off + len ≤ fb.n ∧ off ≤ i ∧ i < off + len then frag[i - off]? else fb.data[i]? := by
  unfold addFragment; split
  · rename_i hb
    have : ¬ (off + len ≤ fb.n ∧ off ≤ i ∧ i < off + len) := by omega
    simp [this]
  · rename_i hb
    have hle : off + len ≤ fb.n := by omega
    simp only []
    rw [copyInto_get _ _ _ _ (by rw [h.dlen]; omega) hf]
    simp [hle]

theorem run_n (fb : FragBuf) (fs : List Frag) : (run fb fs).1.n = fb.n := by
  induction fs generalizing fb with
  | nil => rfl
  | cons f fs ih => simp only [run]; rw [ih, add_n]

theorem run_total (fb : FragBuf) (fs : List Frag) : (run fb fs).1.total = fb.total := by
  induction fs generalizing fb with
  | nil => rfl
  | cons f fs ih => simp only [run]; rw [ih, add_total]

theorem run_wf (fb : FragBuf) (fs : List Frag) (h : WF fb) : WF (run fb fs).1 := by
  induction fs generalizing fb with
  | nil => exact h
  | cons f fs ih => simp only [run]; exact ih _ (add_wf _ _ _ _ h)

theorem run_append (fb : FragBuf) (fs gs : List Frag) :
    (run fb (fs ++ gs)).1 = (run (run fb fs).1 gs).1 := by
  induction fs generalizing fb with
  | nil => rfl
  | cons f fs ih => simp only [List.cons_append, run]; exact ih _

/-- the accept bits are exactly the admissibility test of the spec -/
theorem run_oks (fb : FragBuf) (fs : List Frag) :
    (run fb fs).2 = fs.map fun f => (toSpec f).admissible fb.n := by
  induction fs generalizing fb with
  | nil => rfl
  | cons f fs ih =>
    simp only [run, List.map_cons]
    rw [ih, add_n, add_ok]
    simp only [toSpec, FragmentSpec.Frag.admissible, List.cons.injEq, and_true]
    congr

theorem covered_cons (n : Nat) (f : FragmentSpec.Frag) (fs : List FragmentSpec.Frag) (i : Nat) :
    FragmentSpec.covered n (f :: fs) i = ((f.admissible n && f.covers i) || FragmentSpec.covered n fs i) := by
  simp [FragmentSpec.covered]

/-- bitmap invariant: bit `j` is set iff it was set before or an accepted fragment covers `j` -/
theorem run_tb (fb : FragBuf) (fs : List Frag) (h : WF fb) (j : Nat) :
    tb (run fb fs).1.received j = (tb fb.received j || FragmentSpec.covered fb.n (fs.map toSpec) j) := by
  induction fs generalizing fb with
  | nil => simp [run, FragmentSpec.covered]
  | cons f fs ih =>
    simp only [run, List.map_cons]
    rw [ih _ (add_wf _ _ _ _ h), add_n, add_tb _ _ _ _ h, covered_cons, Bool.or_assoc]
    congr 1
    simp only [toSpec, FragmentSpec.Frag.admissible, FragmentSpec.Frag.covers, Bool.decide_and]
    congr

/-- fragment `f` carries the bytes of `m` at its offset -/
def Consistent (m : Bytes) (f : Frag) : Prop :=
  f.len ≤ f.body.length ∧ ∀ j < f.len, f.body[j]? = m[f.off + j]?

/-- data invariant: every index whose bit is set holds the byte of `m` -/
theorem run_data (m : Bytes) (fb : FragBuf) (fs : List Frag) (h : WF fb)
    (h0 : ∀ i < fb.n, tb fb.received i = true → fb.data[i]? = m[i]?)
    (hc : ∀ f ∈ fs, f.off + f.len ≤ fb.n → Consistent m f) :
    ∀ i < fb.n, tb (run fb fs).1.received i = true → (run fb fs).1.data[i]? = m[i]? := by
  induction fs generalizing fb with
  | nil => exact h0
  | cons f fs ih =>
    simp only [run]
    have hn := add_n fb f.off f.len f.body
    intro i hi
    refine ih _ (add_wf _ _ _ _ h) ?_ ?_ i (by rw [hn]; exact hi)
    · intro i hi htb
      rw [hn] at hi
      rw [add_tb _ _ _ _ h] at htb
      by_cases hadm : f.off + f.len ≤ fb.n
      · obtain ⟨hlen, hbytes⟩ := hc f (by simp) hadm
        rw [add_data _ _ _ _ h hlen]
        by_cases hr : f.off ≤ i ∧ i < f.off + f.len
        · simp only [hadm, hr, and_self, if_true]
          have := hbytes (i - f.off) (by omega)
          rw [this]; congr 1; omega
        · have : ¬ (f.off + f.len ≤ fb.n ∧ f.off ≤ i ∧ i < f.off + f.len) := fun x => hr x.2
          simp only [this, if_false]
          simp [hr] at htb
          exact h0 i hi htb
      · have hx : (addFragment fb f.off f.len f.body).1 = fb := by
          unfold addFragment; split
          · rfl
          · omega
        rw [hx]
        simp [hadm] at htb
        exact h0 i hi htb
    · intro g hg hadm
      rw [hn] at hadm
      exact hc g (by simp [hg]) hadm

theorem isComplete_iff (n : Nat) (fs : List FragmentSpec.Frag) :
    FragmentSpec.isComplete n fs = true ↔ ∀ i < n, FragmentSpec.covered n fs i = true := by
  simp [FragmentSpec.isComplete, List.all_eq_true, List.mem_range]

/-- a complete buffer fed only with fragments of `m` holds exactly `m` -/
theorem run_exact (m : Bytes) (hm : 0 < m.length) (fs : List Frag)
    (hc : ∀ f ∈ fs, f.off + f.len ≤ m.length → Consistent m f)
    (hcomp : complete (run (newBuf m.length) fs).1 = true) :
    (run (newBuf m.length) fs).1.data = m := by
  have hn : (newBuf m.length).n = m.length := newBuf_n_pos _ hm
  have hwf := run_wf _ fs (newBuf_wf m.length)
  have hrn := run_n (newBuf m.length) fs
  have hd := run_data m (newBuf m.length) fs (newBuf_wf _)
    (by intro i _ h; rw [newBuf_tb] at h; exact absurd h (by simp))
    (by intro f hf h; rw [hn] at h; exact hc f hf h)
  have hall := (complete_iff_tb _).mp hcomp
  apply List.ext_getElem?
  intro i
  by_cases hi : i < m.length
  · exact hd i (by rw [hn]; exact hi) (hall i (by rw [hrn, hn]; exact hi))
  · have h1 : (run (newBuf m.length) fs).1.data.length = m.length := by rw [hwf.dlen, hrn, hn]
    rw [List.getElem?_eq_none (by omega), List.getElem?_eq_none (by omega)]

/-! ### the sender's fragmentation loop -/

theorem fragLoop_mem (body : Bytes) (mfb : Nat) (fuel off : Nat) (f : Frag)
    (hf : f ∈ fragLoop body mfb fuel off) :
    off ≤ f.off ∧ f.off < body.length ∧ f.off + f.len ≤ body.length ∧ f.len ≤ mfb ∧
      f.body = (body.drop f.off).take f.len := by
  induction fuel generalizing off with
  | zero => simp [fragLoop] at hf
  | succ k ih =>
    unfold fragLoop at hf
    split at hf
    · rename_i hlt
      simp only [List.mem_cons] at hf
      rcases hf with h | h
      · subst h
        simp only []
        split <;> (refine ⟨Nat.le_refl _, hlt, ?_, ?_, ?_⟩ <;> first | omega | trivial | rfl)
      · have := ih _ h
        split at this <;> (obtain ⟨a, b, c, d, e⟩ := this; exact ⟨by omega, b, c, d, e⟩)
    · simp at hf

theorem fragLoop_cover (body : Bytes) (mfb : Nat) (hm : 0 < mfb) (fuel off : Nat)
    (hfuel : body.length - off ≤ fuel) (i : Nat) (h1 : off ≤ i) (h2 : i < body.length) :
    ∃ f ∈ fragLoop body mfb fuel off, f.off ≤ i ∧ i < f.off + f.len := by
  induction fuel generalizing off with
  | zero => omega
  | succ k ih =>
    unfold fragLoop
    have hlt : off < body.length := by omega
    simp only [hlt, if_true]
    by_cases hin : i < (if off + mfb > body.length then body.length else off + mfb)
    · refine ⟨_, List.mem_cons_self, h1, ?_⟩
      simp only []
      split at hin <;> split <;> omega
    · obtain ⟨f, hf, hc⟩ := ih (if off + mfb > body.length then body.length else off + mfb)
        (by split <;> omega) (by omega)
      exact ⟨f, List.mem_cons_of_mem _ hf, hc⟩

theorem fragmentize_consistent (body : Bytes) (mfb : Nat) (f : Frag) (hf : f ∈ fragmentize body mfb) :
    f.off + f.len ≤ body.length ∧ Consistent body f ∧ f.body.length = f.len ∧ f.len ≤ mfb := by
  obtain ⟨_, _, hle, hm, hb⟩ := fragLoop_mem body mfb _ _ f hf
  have hl : f.body.length = f.len := by rw [hb]; simp; omega
  refine ⟨hle, ⟨by omega, ?_⟩, hl, hm⟩
  intro j hj
  rw [hb, List.getElem?_take]
  simp [hj, List.getElem?_drop]

theorem fragmentize_covers (body : Bytes) (mfb : Nat) (hm : 0 < mfb) (i : Nat) (hi : i < body.length) :
    FragmentSpec.covered body.length ((fragmentize body mfb).map toSpec) i = true := by
  obtain ⟨f, hf, h1, h2⟩ := fragLoop_cover body mfb hm body.length 0 (by omega) i (by omega) hi
  obtain ⟨_, _, hle, _, _⟩ := fragLoop_mem body mfb _ _ f hf
  simp only [FragmentSpec.covered, List.any_map, List.any_eq_true]
  refine ⟨f, hf, ?_⟩
  simp [toSpec, FragmentSpec.Frag.admissible, FragmentSpec.Frag.covers, hle, h1, h2]

/-- coverage only depends on the set of fragments -/
theorem covered_of_subset (n : Nat) (fs gs : List FragmentSpec.Frag) (h : ∀ f ∈ fs, f ∈ gs) (i : Nat)
    (hc : FragmentSpec.covered n fs i = true) : FragmentSpec.covered n gs i = true := by
  simp only [FragmentSpec.covered, List.any_eq_true] at hc ⊢
  obtain ⟨f, hf, hp⟩ := hc
  exact ⟨f, h f hf, hp⟩

/-! ### the receiver's table of pending buffers -/

theorem lookup_mem (st : Pending) (seq : Nat) (fb : FragBuf) (h : lookup st seq = some fb) : (seq, fb) ∈ st := by
  unfold lookup at h
  cases hf : st.find? (fun p => p.1 == seq) with
  | none => simp [hf] at h
  | some p =>
    simp [hf] at h
    have hm := List.mem_of_find?_eq_some hf
    have hp := List.find?_some hf
    simp at hp
    have : p = (seq, fb) := by cases p; simp_all
    rw [← this]; exact hm

theorem mem_erase (st : Pending) (seq : Nat) (p : Nat × FragBuf) (h : p ∈ erase st seq) : p ∈ st := by
  unfold erase at h; exact (List.mem_filter.mp h).1

theorem mem_store (st : Pending) (seq : Nat) (fb : FragBuf) (p : Nat × FragBuf) (h : p ∈ store st seq fb) :
    p = (seq, fb) ∨ p ∈ st := by
  unfold store at h
  rcases List.mem_cons.mp h with h | h
  · exact Or.inl h
  · exact Or.inr (mem_erase _ _ _ h)

theorem erase_length (st : Pending) (seq : Nat) : (erase st seq).length ≤ st.length := by
  unfold erase; exact List.length_filter_le _ _

theorem store_length (st : Pending) (seq : Nat) (fb : FragBuf) : (store st seq fb).length ≤ st.length + 1 := by
  unfold store; simp only [List.length_cons]; have := erase_length st seq; omega

theorem lookup_store (st : Pending) (seq : Nat) (fb : FragBuf) : lookup (store st seq fb) seq = some fb := by
  simp [lookup, store]

/-- a buffer that was built by `newFragmentBuffer` and `addFragment` only -/
def Reach (fb : FragBuf) : Prop := ∃ fs, fb = (run (newBuf fb.total) fs).1

theorem reach_new (total : Nat) : Reach (newBuf total) := ⟨[], rfl⟩

theorem reach_add (fb : FragBuf) (off len : Nat) (frag : Bytes) (h : Reach fb) :
    Reach (addFragment fb off len frag).1 := by
  obtain ⟨fs, hfs⟩ := h
  refine ⟨fs ++ [⟨off, len, frag⟩], ?_⟩
  rw [add_total, run_append, ← hfs]
  simp [run]

/-- invariant of the pending table -/
def PInv (maxHs : Nat) (st : Pending) : Prop :=
  ∀ p ∈ st, Reach p.2 ∧ 0 < p.2.total ∧ p.2.total ≤ maxHs

theorem reach_sizes (fb : FragBuf) (h : Reach fb) (hp : 0 < fb.total) :
    fb.n = fb.total ∧ fb.data.length = fb.total ∧ fb.received.length = (fb.total + 7) / 8 := by
  obtain ⟨fs, hfs⟩ := h
  have hn : fb.n = fb.total := by
    rw [hfs, run_n, run_total, newBuf_total, newBuf_n_pos _ hp]
  have hwf : WF fb := by rw [hfs]; exact run_wf _ _ (newBuf_wf _)
  exact ⟨hn, by rw [hwf.dlen, hn], by rw [hwf.rlen, hn]⟩

/-- the buffer the fragment branch works on -/
def chosen (b : Bool) (st : Pending) (m : FragMsg) : Option FragBuf :=
  match lookup st m.seq with
  | some fb => if b && fb.total != m.total then none else some fb
  | none => some (newBuf m.total)

theorem apply_frag (b : Bool) (st : Pending) (m : FragMsg) (hfr : m.len < m.total ∨ m.off > 0) :
    apply b st m =
      match chosen b st m with
      | none => (st, .fatal .mismatch)
      | some fb =>
        let fb' := (addFragment fb m.off m.len m.payload).1
        if !complete fb' then (store st m.seq fb', .cont)
        else (erase st m.seq, .deliver (header m.typ m.total m.seq 0 m.total ++ assembled fb')) := by
  unfold apply chosen
  have : (decide (m.len < m.total) || decide (m.off > 0)) = true := by
    rcases hfr with h | h <;> simp [h]
  simp only [this, if_true]
  rfl

theorem apply_whole (b : Bool) (st : Pending) (m : FragMsg) (hfr : ¬ (m.len < m.total ∨ m.off > 0)) :
    apply b st m = (st, .deliver (header m.typ m.total m.seq m.off m.len ++ m.payload)) := by
  unfold apply
  have : (decide (m.len < m.total) || decide (m.off > 0)) = false := by
    simp only [not_or] at hfr
    simp [hfr.1, hfr.2]
  simp only [this, Bool.false_eq_true, if_false]

theorem chosen_props (b : Bool) (maxHs : Nat) (st : Pending) (m : FragMsg) (fb : FragBuf)
    (hinv : PInv maxHs st) (hck : check maxHs m.total m.off m.len = none)
    (hfr : m.len < m.total ∨ m.off > 0) (h : chosen b st m = some fb) :
    Reach fb ∧ 0 < fb.total ∧ fb.total ≤ maxHs ∧ (b = true → fb.total = m.total) := by
  have hc : m.total ≤ maxHs ∧ m.off + m.len ≤ m.total := by
    unfold check at hck
    split at hck
    · simp at hck
    · split at hck
      · simp at hck
      · omega
  unfold chosen at h
  cases hl : lookup st m.seq with
  | some fb0 =>
    simp only [hl] at h
    split at h
    · simp at h
    · rename_i hne
      simp only [Option.some.injEq] at h; subst h
      obtain ⟨r, p, q⟩ := hinv _ (lookup_mem _ _ _ hl)
      refine ⟨r, p, q, ?_⟩
      intro hb; subst hb
      simpa using hne
  | none =>
    simp only [hl, Option.some.injEq] at h; subst h
    exact ⟨reach_new _, by rw [newBuf_total]; omega, by rw [newBuf_total]; omega, fun _ => newBuf_total _⟩

theorem apply_inv (b : Bool) (maxHs : Nat) (st : Pending) (m : FragMsg)
    (hinv : PInv maxHs st) (hck : check maxHs m.total m.off m.len = none) :
    PInv maxHs (apply b st m).1 ∧ (apply b st m).1.length ≤ st.length + 1 := by
  by_cases hfr : m.len < m.total ∨ m.off > 0
  · rw [apply_frag b st m hfr]
    cases hch : chosen b st m with
    | none => exact ⟨hinv, by simp⟩
    | some fb =>
      obtain ⟨r, p, q, _⟩ := chosen_props b maxHs st m fb hinv hck hfr hch
      simp only []
      split
      · refine ⟨?_, store_length _ _ _⟩
        intro x hx
        rcases mem_store _ _ _ _ hx with h | h
        · subst h
          exact ⟨reach_add _ _ _ _ r, by rw [add_total]; exact p, by rw [add_total]; exact q⟩
        · exact hinv x h
      · refine ⟨fun x hx => hinv x (mem_erase _ _ _ hx), ?_⟩
        have := erase_length st m.seq
        simp only []; omega
  · rw [apply_whole b st m hfr]
    exact ⟨hinv, by simp⟩

/-! ### the receive loop -/

theorem recv_bound (b : Bool) (maxHs : Nat) (fuel : Nat) (st : Pending) (ms : List FragMsg)
    (hinv : PInv maxHs st) :
    PInv maxHs (recv b maxHs fuel st ms).1 ∧ (recv b maxHs fuel st ms).1.length ≤ st.length + fuel := by
  induction fuel generalizing st ms with
  | zero => exact ⟨hinv, by simp [recv]⟩
  | succ k ih =>
    cases ms with
    | nil => exact ⟨hinv, by simp [recv]⟩
    | cons m ms =>
      unfold recv
      cases hck : check maxHs m.total m.off m.len with
      | some f => exact ⟨hinv, by simp⟩
      | none =>
        simp only []
        obtain ⟨hi, hl⟩ := apply_inv b maxHs st m hinv hck
        cases hap : apply b st m with
        | mk st' a =>
          rw [hap] at hi hl
          cases a with
          | cont =>
            simp only []
            obtain ⟨h1, h2⟩ := ih st' ms hi
            exact ⟨h1, by simp only [] at hl; omega⟩
          | deliver d => exact ⟨hi, by simp only [] at hl ⊢; omega⟩
          | fatal f => exact ⟨hi, by simp only [] at hl ⊢; omega⟩

/-- what a delivered message can be -/
def Delivered (b : Bool) (m : FragMsg) (d : Bytes) : Prop :=
  (¬ (m.len < m.total ∨ m.off > 0) ∧ d = header m.typ m.total m.seq m.off m.len ++ m.payload) ∨
  (∃ fb fs, 0 < fb.total ∧ fb = (run (newBuf fb.total) fs).1 ∧ complete fb = true ∧
      d = header m.typ m.total m.seq 0 m.total ++ fb.data ∧ (b = true → fb.total = m.total))

theorem apply_deliver (b : Bool) (maxHs : Nat) (st st' : Pending) (m : FragMsg) (d : Bytes)
    (hinv : PInv maxHs st) (hck : check maxHs m.total m.off m.len = none)
    (h : apply b st m = (st', .deliver d)) : Delivered b m d := by
  by_cases hfr : m.len < m.total ∨ m.off > 0
  · rw [apply_frag b st m hfr] at h
    cases hch : chosen b st m with
    | none => simp [hch] at h
    | some fb =>
      obtain ⟨r, p, q, hb⟩ := chosen_props b maxHs st m fb hinv hck hfr hch
      simp only [hch] at h
      split at h
      · simp at h
      · rename_i hc
        simp only [Prod.mk.injEq, Applied.deliver.injEq] at h
        right
        have r' := reach_add fb m.off m.len m.payload r
        obtain ⟨fs, hfs⟩ := r'
        refine ⟨_, fs, by rw [add_total]; exact p, hfs, by simpa using hc, h.2.symm, ?_⟩
        intro hbt; rw [add_total]; exact hb hbt
  · rw [apply_whole b st m hfr] at h
    simp only [Prod.mk.injEq, Applied.deliver.injEq] at h
    exact Or.inl ⟨hfr, h.2.symm⟩

theorem recv_msg (b : Bool) (maxHs : Nat) (fuel : Nat) (st st' : Pending) (ms rest : List FragMsg) (d : Bytes)
    (hinv : PInv maxHs st) (h : recv b maxHs fuel st ms = (st', .msg d, rest)) :
    ∃ m ∈ ms, check maxHs m.total m.off m.len = none ∧ Delivered b m d := by
  induction fuel generalizing st ms with
  | zero => simp [recv] at h
  | succ k ih =>
    cases ms with
    | nil => simp [recv] at h
    | cons m ms =>
      unfold recv at h
      cases hck : check maxHs m.total m.off m.len with
      | some f => simp [hck] at h
      | none =>
        simp only [hck] at h
        obtain ⟨hi, _⟩ := apply_inv b maxHs st m hinv hck
        cases hap : apply b st m with
        | mk st1 a =>
          rw [hap] at hi
          simp only [hap] at h
          cases a with
          | cont =>
            simp only [] at h
            obtain ⟨m', hm', hr⟩ := ih st1 ms hi h
            exact ⟨m', List.mem_cons_of_mem _ hm', hr⟩
          | deliver d' =>
            simp only [Prod.mk.injEq, Result.msg.injEq] at h
            refine ⟨m, List.mem_cons_self, hck, ?_⟩
            rw [← h.2.1]
            exact apply_deliver b maxHs st st1 m d' hinv hck hap
          | fatal f => simp at h

def msgOf (typ total seq : Nat) (f : Frag) : FragMsg := ⟨typ, total, seq, f.off, f.len, f.body⟩

/-- the buffer standing for `seq` (a fresh one when none is pending) -/
def bufOf (st : Pending) (seq total : Nat) : FragBuf := (lookup st seq).getD (newBuf total)

/-- Any sequence of genuine fragments of `m` that jointly cover it makes `readHandshake`
return exactly `header ++ m`, in whatever order, with whatever overlap or duplication. -/
theorem recv_exact (b : Bool) (maxHs typ seq : Nat) (m : Bytes) (hm : 0 < m.length) (hmax : m.length ≤ maxHs)
    (fuel : Nat) (st : Pending) (consumed fs : List Frag)
    (hfuel : fs.length ≤ fuel)
    (hfs : ∀ f ∈ fs, f.off + f.len ≤ m.length ∧ Consistent m f ∧ (f.len < m.length ∨ f.off > 0))
    (hcons : ∀ f ∈ consumed, f.off + f.len ≤ m.length → Consistent m f)
    (hbuf : bufOf st seq m.length = (run (newBuf m.length) consumed).1)
    (hinc : complete (bufOf st seq m.length) = false)
    (hcov : ∀ i < m.length, FragmentSpec.covered m.length ((consumed ++ fs).map toSpec) i = true) :
    ∃ st' rest, recv b maxHs fuel st (fs.map (msgOf typ m.length seq))
      = (st', .msg (header typ m.length seq 0 m.length ++ m), rest) := by
  have hn : (newBuf m.length).n = m.length := newBuf_n_pos _ hm
  induction fs generalizing fuel st consumed with
  | nil =>
    exfalso
    have : complete (bufOf st seq m.length) = true := by
      rw [hbuf, complete_iff_tb]
      intro i hi
      rw [run_n, hn] at hi
      rw [run_tb _ _ (newBuf_wf _), hn]
      simp only [List.append_nil] at hcov
      simp [hcov i hi]
    rw [this] at hinc; exact absurd hinc (by simp)
  | cons f fs ih =>
    cases fuel with
    | zero => simp at hfuel
    | succ k =>
      obtain ⟨hadm, hcf, hfr⟩ := hfs f List.mem_cons_self
      simp only [List.map_cons]
      unfold recv
      have hck : check maxHs (msgOf typ m.length seq f).total (msgOf typ m.length seq f).off (msgOf typ m.length seq f).len = none := by
        simp only [msgOf, check]
        have h1 : ¬ m.length > maxHs := by omega
        have h2 : ¬ f.off + f.len > m.length := by omega
        simp [h1, h2]
      simp only [hck]
      rw [apply_frag b st _ (by simpa [msgOf] using hfr)]
      have hch : chosen b st (msgOf typ m.length seq f) = some (bufOf st seq m.length) := by
        unfold chosen bufOf
        simp only [msgOf]
        cases hl : lookup st seq with
        | none => simp
        | some fb0 =>
          have e : fb0 = (run (newBuf m.length) consumed).1 := by
            rw [← hbuf]; simp [bufOf, hl]
          have : fb0.total = m.length := by rw [e, run_total, newBuf_total]
          simp [this]
      rw [hch]
      simp only [msgOf]
      have hnew : (addFragment (bufOf st seq m.length) f.off f.len f.body).1
          = (run (newBuf m.length) (consumed ++ [f])).1 := by
        rw [run_append, ← hbuf]; simp [run]
      have hcons' : ∀ g ∈ consumed ++ [f], g.off + g.len ≤ m.length → Consistent m g := by
        intro g hg hga
        rcases List.mem_append.mp hg with h | h
        · exact hcons g h hga
        · simp at h; subst h; exact hcf
      by_cases hc : complete (addFragment (bufOf st seq m.length) f.off f.len f.body).1 = true
      · simp only [hc, Bool.not_true, Bool.false_eq_true, if_false]
        have hd : assembled (addFragment (bufOf st seq m.length) f.off f.len f.body).1 = m := by
          unfold assembled
          rw [hnew]
          rw [hnew] at hc
          exact run_exact m hm _ hcons' hc
        rw [hd]
        exact ⟨_, _, rfl⟩
      · simp only [hc, Bool.not_false, if_true]
        have hc' : complete (addFragment (bufOf st seq m.length) f.off f.len f.body).1 = false := by
          simpa using hc
        apply ih k (store st seq _) (consumed ++ [f]) (by simp at hfuel; omega)
          (fun g hg => hfs g (List.mem_cons_of_mem _ hg)) hcons'
        · have e : bufOf (store st seq (addFragment (bufOf st seq m.length) f.off f.len f.body).1) seq m.length
              = (addFragment (bufOf st seq m.length) f.off f.len f.body).1 := by
            simp only [bufOf, lookup_store, Option.getD_some]
          rw [e, hnew]
        · simp only [bufOf, lookup_store, Option.getD_some]; exact hc'
        · intro i hi
          have := hcov i hi
          simpa [List.append_assoc] using this

/-
Helper lemmas for C03: 4-byte-header framing is uniquely parseable (so a hash that is
injective on byte strings is injective on message lists), the canonical direction assignment,
list bookkeeping for histories.  Core Lean only (no Mathlib in this project).
-/
import Gotlcp.Model.Transcript

namespace Gotlcp.Lemmas.Transcript
open Gotlcp.Model.Transcript

/-! ### framing -/

theorem be24_length (n : Nat) : (be24 n).length = 3 := rfl

theorem ofNat_toNat (n : Nat) : (UInt8.ofNat n).toNat = n % 256 := by
  simp [UInt8.toNat_ofNat']

theorem nat24_be24 {n : Nat} (h : n < 16777216) :
    nat24 (UInt8.ofNat (n / 65536)) (UInt8.ofNat (n / 256)) (UInt8.ofNat n) = n := by
  simp only [nat24, ofNat_toNat]; omega

theorem be24_inj {n n' : Nat} (h : n < 16777216) (h' : n' < 16777216) (e : be24 n = be24 n') : n = n' := by
  simp only [be24, List.cons.injEq, and_true] at e
  obtain ⟨e1, e2, e3⟩ := e
  have := nat24_be24 h
  rw [e1, e2, e3, nat24_be24 h'] at this
  exact this.symm

/-- a framed message determines its body and what follows it -/
theorem frame_injective {t t' : UInt8} {a a' r r' : Bytes} (ha : a.length < 16777216) (ha' : a'.length < 16777216)
    (h : t :: (be24 a.length ++ a) ++ r = t' :: (be24 a'.length ++ a') ++ r') : t = t' ∧ a = a' ∧ r = r' := by
  simp only [List.cons_append, List.cons.injEq, List.append_assoc] at h
  obtain ⟨ht, h⟩ := h
  have h3 := List.append_inj h (by simp [be24_length])
  have hl := be24_inj ha ha' h3.1
  have h4 := List.append_inj h3.2 hl
  exact ⟨ht, h4.1, h4.2⟩

theorem wellFramed_ne_nil {m : Msg} (h : WellFramed m) : m ≠ [] := by
  obtain ⟨t, b, _, rfl⟩ := h; simp

/-- the concatenation of well-framed messages parses in one way only -/
theorem flatten_injective : ∀ (a b : List Msg), (∀ m ∈ a, WellFramed m) → (∀ m ∈ b, WellFramed m) →
    a.flatten = b.flatten → a = b
  | [], [], _, _, _ => rfl
  | [], m :: b, _, hb, h => by
    have := wellFramed_ne_nil (hb m (by simp))
    simp only [List.flatten_nil, List.flatten_cons] at h
    have : m = [] := (List.append_eq_nil_iff.mp h.symm).1
    contradiction
  | m :: a, [], ha, _, h => by
    have := wellFramed_ne_nil (ha m (by simp))
    simp only [List.flatten_nil, List.flatten_cons] at h
    have : m = [] := (List.append_eq_nil_iff.mp h).1
    contradiction
  | m :: a, m' :: b, ha, hb, h => by
    obtain ⟨t, body, hl, rfl⟩ := ha m (by simp)
    obtain ⟨t', body', hl', rfl⟩ := hb m' (by simp)
    simp only [List.flatten_cons] at h
    obtain ⟨e1, e2, e3⟩ := frame_injective hl hl' h
    subst e1 e2
    have := flatten_injective a b (fun x hx => ha x (by simp [hx])) (fun x hx => hb x (by simp [hx])) e3
    rw [this]

/-- a hash that is injective on byte strings is injective on lists of framed messages -/
theorem hashT_injective (P : Prims) {a b : List Msg} (ha : ∀ m ∈ a, WellFramed m) (hb : ∀ m ∈ b, WellFramed m)
    (h : hashT P a = hashT P b) : a = b :=
  flatten_injective a b ha hb (P.hash_inj _ _ h)

theorem mtype_frame {t : Nat} (ht : t < 256) (b : Bytes) : mtype (frame t b) = t := by
  simp only [frame, mtype, ofNat_toNat]; omega

theorem mbody_frame (t : Nat) (b : Bytes) : mbody (frame t b) = b := by
  simp [frame, mbody, be24]

/-- a well-framed message is the frame of its type and body -/
theorem wellFramed_eq_frame {m : Msg} (h : WellFramed m) : m = frame (mtype m) (mbody m) := by
  obtain ⟨t, b, _, rfl⟩ := h
  simp [frame, mtype, mbody, be24]

theorem be24_nat24 (a b c : UInt8) : be24 (nat24 a b c) = [a, b, c] := by
  have ha := UInt8.toNat_lt a; have hb := UInt8.toNat_lt b; have hc := UInt8.toNat_lt c
  simp only [be24, nat24]
  have h1 : UInt8.ofNat ((a.toNat * 65536 + b.toNat * 256 + c.toNat) / 65536) = a := by
    apply UInt8.toNat_inj.mp; rw [ofNat_toNat]; omega
  have h2 : UInt8.ofNat ((a.toNat * 65536 + b.toNat * 256 + c.toNat) / 256) = b := by
    apply UInt8.toNat_inj.mp; rw [ofNat_toNat]; omega
  have h3 : UInt8.ofNat (a.toNat * 65536 + b.toNat * 256 + c.toNat) = c := by
    apply UInt8.toNat_inj.mp; rw [ofNat_toNat]; omega
  rw [h1, h2, h3]

/-- executable form of `WellFramed` -/
def wellFramedB : Msg → Bool
  | _ :: a :: b :: c :: rest => rest.length == nat24 a b c
  | _ => false

theorem wellFramed_of_B {m : Msg} (h : wellFramedB m = true) : WellFramed m := by
  unfold wellFramedB at h
  split at h
  · rename_i t a b c rest
    have hl : rest.length = nat24 a b c := by simpa using h
    have ha := UInt8.toNat_lt a; have hb := UInt8.toNat_lt b; have hc := UInt8.toNat_lt c
    refine ⟨t, rest, by rw [hl]; unfold nat24; omega, ?_⟩
    rw [hl, be24_nat24]; rfl
  · cases h

/-- what `readHandshake` splits off the buffer is well framed -/
theorem splitMsg_wellFramed {hand : Bytes} {m : Msg} {rest : Bytes} (h : splitMsg hand = some (m, rest)) :
    WellFramed m ∧ hand = m ++ rest := by
  unfold splitMsg at h
  split at h
  · rename_i t a b c r
    simp only at h
    split at h
    · cases h
    · rename_i hlen
      simp only [Option.some.injEq, Prod.mk.injEq] at h
      obtain ⟨rfl, rfl⟩ := h
      have ha := UInt8.toNat_lt a; have hb := UInt8.toNat_lt b; have hc := UInt8.toNat_lt c
      have hn : nat24 a b c < 16777216 := by unfold nat24; omega
      have hl : (r.take (nat24 a b c)).length = nat24 a b c := by
        rw [List.length_take]; omega
      refine ⟨⟨t, r.take (nat24 a b c), by omega, ?_⟩, ?_⟩
      · rw [hl]
        have : be24 (nat24 a b c) = [a, b, c] := by
          simp only [be24, nat24]
          have h1 : UInt8.ofNat ((a.toNat * 65536 + b.toNat * 256 + c.toNat) / 65536) = a := by
            apply UInt8.toNat_inj.mp; rw [ofNat_toNat]; omega
          have h2 : UInt8.ofNat ((a.toNat * 65536 + b.toNat * 256 + c.toNat) / 256) = b := by
            apply UInt8.toNat_inj.mp; rw [ofNat_toNat]; omega
          have h3 : UInt8.ofNat (a.toNat * 65536 + b.toNat * 256 + c.toNat) = c := by
            apply UInt8.toNat_inj.mp; rw [ofNat_toNat]; omega
          rw [h1, h2, h3]
        rw [this]; rfl
      · simp [List.take_append_drop]
  · cases h

/-! ### type codes -/

/-- every ordered pair of handshake type codes is different (from `Codes.ok`) -/
structure CodesNe (k : Codes) : Prop where
  ne_CH_SH : k.tCH ≠ k.tSH
  ne_CH_Cert : k.tCH ≠ k.tCert
  ne_CH_SKX : k.tCH ≠ k.tSKX
  ne_CH_CR : k.tCH ≠ k.tCR
  ne_CH_SHD : k.tCH ≠ k.tSHD
  ne_CH_CV : k.tCH ≠ k.tCV
  ne_CH_CKX : k.tCH ≠ k.tCKX
  ne_CH_Fin : k.tCH ≠ k.tFin
  ne_SH_CH : k.tSH ≠ k.tCH
  ne_SH_Cert : k.tSH ≠ k.tCert
  ne_SH_SKX : k.tSH ≠ k.tSKX
  ne_SH_CR : k.tSH ≠ k.tCR
  ne_SH_SHD : k.tSH ≠ k.tSHD
  ne_SH_CV : k.tSH ≠ k.tCV
  ne_SH_CKX : k.tSH ≠ k.tCKX
  ne_SH_Fin : k.tSH ≠ k.tFin
  ne_Cert_CH : k.tCert ≠ k.tCH
  ne_Cert_SH : k.tCert ≠ k.tSH
  ne_Cert_SKX : k.tCert ≠ k.tSKX
  ne_Cert_CR : k.tCert ≠ k.tCR
  ne_Cert_SHD : k.tCert ≠ k.tSHD
  ne_Cert_CV : k.tCert ≠ k.tCV
  ne_Cert_CKX : k.tCert ≠ k.tCKX
  ne_Cert_Fin : k.tCert ≠ k.tFin
  ne_SKX_CH : k.tSKX ≠ k.tCH
  ne_SKX_SH : k.tSKX ≠ k.tSH
  ne_SKX_Cert : k.tSKX ≠ k.tCert
  ne_SKX_CR : k.tSKX ≠ k.tCR
  ne_SKX_SHD : k.tSKX ≠ k.tSHD
  ne_SKX_CV : k.tSKX ≠ k.tCV
  ne_SKX_CKX : k.tSKX ≠ k.tCKX
  ne_SKX_Fin : k.tSKX ≠ k.tFin
  ne_CR_CH : k.tCR ≠ k.tCH
  ne_CR_SH : k.tCR ≠ k.tSH
  ne_CR_Cert : k.tCR ≠ k.tCert
  ne_CR_SKX : k.tCR ≠ k.tSKX
  ne_CR_SHD : k.tCR ≠ k.tSHD
  ne_CR_CV : k.tCR ≠ k.tCV
  ne_CR_CKX : k.tCR ≠ k.tCKX
  ne_CR_Fin : k.tCR ≠ k.tFin
  ne_SHD_CH : k.tSHD ≠ k.tCH
  ne_SHD_SH : k.tSHD ≠ k.tSH
  ne_SHD_Cert : k.tSHD ≠ k.tCert
  ne_SHD_SKX : k.tSHD ≠ k.tSKX
  ne_SHD_CR : k.tSHD ≠ k.tCR
  ne_SHD_CV : k.tSHD ≠ k.tCV
  ne_SHD_CKX : k.tSHD ≠ k.tCKX
  ne_SHD_Fin : k.tSHD ≠ k.tFin
  ne_CV_CH : k.tCV ≠ k.tCH
  ne_CV_SH : k.tCV ≠ k.tSH
  ne_CV_Cert : k.tCV ≠ k.tCert
  ne_CV_SKX : k.tCV ≠ k.tSKX
  ne_CV_CR : k.tCV ≠ k.tCR
  ne_CV_SHD : k.tCV ≠ k.tSHD
  ne_CV_CKX : k.tCV ≠ k.tCKX
  ne_CV_Fin : k.tCV ≠ k.tFin
  ne_CKX_CH : k.tCKX ≠ k.tCH
  ne_CKX_SH : k.tCKX ≠ k.tSH
  ne_CKX_Cert : k.tCKX ≠ k.tCert
  ne_CKX_SKX : k.tCKX ≠ k.tSKX
  ne_CKX_CR : k.tCKX ≠ k.tCR
  ne_CKX_SHD : k.tCKX ≠ k.tSHD
  ne_CKX_CV : k.tCKX ≠ k.tCV
  ne_CKX_Fin : k.tCKX ≠ k.tFin
  ne_Fin_CH : k.tFin ≠ k.tCH
  ne_Fin_SH : k.tFin ≠ k.tSH
  ne_Fin_Cert : k.tFin ≠ k.tCert
  ne_Fin_SKX : k.tFin ≠ k.tSKX
  ne_Fin_CR : k.tFin ≠ k.tCR
  ne_Fin_SHD : k.tFin ≠ k.tSHD
  ne_Fin_CV : k.tFin ≠ k.tCV
  ne_Fin_CKX : k.tFin ≠ k.tCKX
  lt_CH : k.tCH < 256
  lt_SH : k.tSH < 256
  lt_Cert : k.tCert < 256
  lt_SKX : k.tSKX < 256
  lt_CR : k.tCR < 256
  lt_SHD : k.tSHD < 256
  lt_CV : k.tCV < 256
  lt_CKX : k.tCKX < 256
  lt_Fin : k.tFin < 256

theorem codesNe {k : Codes} (h : k.ok = true) : CodesNe k := by
  simp only [Codes.ok, Bool.and_eq_true, bne_iff_ne, ne_eq, decide_eq_true_eq] at h
  obtain ⟨h_CH_SH, h_CH_Cert, h_CH_SKX, h_CH_CR, h_CH_SHD, h_CH_CV, h_CH_CKX, h_CH_Fin, h_SH_Cert, h_SH_SKX, h_SH_CR, h_SH_SHD, h_SH_CV, h_SH_CKX, h_SH_Fin, h_Cert_SKX, h_Cert_CR, h_Cert_SHD, h_Cert_CV, h_Cert_CKX, h_Cert_Fin, h_SKX_CR, h_SKX_SHD, h_SKX_CV, h_SKX_CKX, h_SKX_Fin, h_CR_SHD, h_CR_CV, h_CR_CKX, h_CR_Fin, h_SHD_CV, h_SHD_CKX, h_SHD_Fin, h_CV_CKX, h_CV_Fin, h_CKX_Fin, l_CH, l_SH, l_Cert, l_SKX, l_CR, l_SHD, l_CV, l_CKX, l_Fin⟩ := h
  exact ⟨h_CH_SH,
    h_CH_Cert,
    h_CH_SKX,
    h_CH_CR,
    h_CH_SHD,
    h_CH_CV,
    h_CH_CKX,
    h_CH_Fin,
    fun e => h_CH_SH e.symm,
    h_SH_Cert,
    h_SH_SKX,
    h_SH_CR,
    h_SH_SHD,
    h_SH_CV,
    h_SH_CKX,
    h_SH_Fin,
    fun e => h_CH_Cert e.symm,
    fun e => h_SH_Cert e.symm,
    h_Cert_SKX,
    h_Cert_CR,
    h_Cert_SHD,
    h_Cert_CV,
    h_Cert_CKX,
    h_Cert_Fin,
    fun e => h_CH_SKX e.symm,
    fun e => h_SH_SKX e.symm,
    fun e => h_Cert_SKX e.symm,
    h_SKX_CR,
    h_SKX_SHD,
    h_SKX_CV,
    h_SKX_CKX,
    h_SKX_Fin,
    fun e => h_CH_CR e.symm,
    fun e => h_SH_CR e.symm,
    fun e => h_Cert_CR e.symm,
    fun e => h_SKX_CR e.symm,
    h_CR_SHD,
    h_CR_CV,
    h_CR_CKX,
    h_CR_Fin,
    fun e => h_CH_SHD e.symm,
    fun e => h_SH_SHD e.symm,
    fun e => h_Cert_SHD e.symm,
    fun e => h_SKX_SHD e.symm,
    fun e => h_CR_SHD e.symm,
    h_SHD_CV,
    h_SHD_CKX,
    h_SHD_Fin,
    fun e => h_CH_CV e.symm,
    fun e => h_SH_CV e.symm,
    fun e => h_Cert_CV e.symm,
    fun e => h_SKX_CV e.symm,
    fun e => h_CR_CV e.symm,
    fun e => h_SHD_CV e.symm,
    h_CV_CKX,
    h_CV_Fin,
    fun e => h_CH_CKX e.symm,
    fun e => h_SH_CKX e.symm,
    fun e => h_Cert_CKX e.symm,
    fun e => h_SKX_CKX e.symm,
    fun e => h_CR_CKX e.symm,
    fun e => h_SHD_CKX e.symm,
    fun e => h_CV_CKX e.symm,
    h_CKX_Fin,
    fun e => h_CH_Fin e.symm,
    fun e => h_SH_Fin e.symm,
    fun e => h_Cert_Fin e.symm,
    fun e => h_SKX_Fin e.symm,
    fun e => h_CR_Fin e.symm,
    fun e => h_SHD_Fin e.symm,
    fun e => h_CV_Fin e.symm,
    fun e => h_CKX_Fin e.symm,
    l_CH,
    l_SH,
    l_Cert,
    l_SKX,
    l_CR,
    l_SHD,
    l_CV,
    l_CKX,
    l_Fin⟩

/-! ### histories -/

def itemsOf : List Entry → List Item
  | [] => []
  | .msg _ m :: r => .msg m :: itemsOf r
  | .ccs _ :: r => .ccs :: itemsOf r

theorem acceptedOf_append (a b : List Entry) : acceptedOf (a ++ b) = acceptedOf a ++ acceptedOf b := by
  induction a with
  | nil => rfl
  | cons e r ih =>
    cases e with
    | msg d m => cases d <;> simp [acceptedOf, ih]
    | ccs d => cases d <;> simp [acceptedOf, ih]

theorem sentOf_append (a b : List Entry) : sentOf (a ++ b) = sentOf a ++ sentOf b := by
  induction a with
  | nil => rfl
  | cons e r ih =>
    cases e with
    | msg d m => cases d <;> simp [sentOf, ih]
    | ccs d => cases d <;> simp [sentOf, ih]

theorem msgsOf_append (a b : List Entry) : msgsOf (a ++ b) = msgsOf a ++ msgsOf b := by
  induction a with
  | nil => rfl
  | cons e r ih => cases e <;> simp [msgsOf, ih]

theorem itemsOf_append (a b : List Entry) : itemsOf (a ++ b) = itemsOf a ++ itemsOf b := by
  induction a with
  | nil => rfl
  | cons e r ih => cases e <;> simp [itemsOf, ih]

theorem finSent_append (k : Codes) (a b : List Entry) : finSent k (a ++ b) = finSent k a ++ finSent k b := by
  induction a with
  | nil => rfl
  | cons e r ih =>
    cases e with
    | msg d m =>
      cases d
      · simp [finSent, ih]
      · simp only [List.cons_append, finSent, ih]; split <;> simp
    | ccs d => simp [finSent, ih]

theorem finAccepted_append (k : Codes) (a b : List Entry) :
    finAccepted k (a ++ b) = finAccepted k a ++ finAccepted k b := by
  induction a with
  | nil => rfl
  | cons e r ih =>
    cases e with
    | msg d m =>
      cases d
      · simp only [List.cons_append, finAccepted, ih]; split <;> simp
      · simp [finAccepted, ih]
    | ccs d => simp [finAccepted, ih]

/-- number of Finished-typed messages -/
def nFin (k : Codes) : List Entry → Nat
  | [] => 0
  | .msg _ m :: r => (if mtype m = k.tFin then 1 else 0) + nFin k r
  | .ccs _ :: r => nFin k r

/-- a ServerHelloDone-typed message occurs -/
def hasSHD (k : Codes) : List Entry → Bool
  | [] => false
  | .msg _ m :: r => mtype m = k.tSHD || hasSHD k r
  | .ccs _ :: r => hasSHD k r

def noCCS : List Entry → Bool
  | [] => true
  | .msg _ _ :: r => noCCS r
  | .ccs _ :: _ => false

theorem nFin_append (k : Codes) (a b : List Entry) : nFin k (a ++ b) = nFin k a + nFin k b := by
  induction a with
  | nil => simp [nFin]
  | cons e r ih => cases e <;> simp [nFin, ih] <;> omega

theorem hasSHD_append (k : Codes) (a b : List Entry) : hasSHD k (a ++ b) = (hasSHD k a || hasSHD k b) := by
  induction a with
  | nil => simp [hasSHD]
  | cons e r ih => cases e <;> simp [hasSHD, ih, Bool.or_assoc]

theorem noCCS_append (a b : List Entry) : noCCS (a ++ b) = (noCCS a && noCCS b) := by
  induction a with
  | nil => simp [noCCS]
  | cons e r ih => cases e <;> simp [noCCS, ih]

theorem finSent_nil_of_nFin {k : Codes} {a : List Entry} (h : nFin k a = 0) : finSent k a = [] := by
  induction a with
  | nil => rfl
  | cons e r ih =>
    cases e with
    | msg d m =>
      simp only [nFin] at h
      have hm : mtype m ≠ k.tFin := by intro hh; simp [hh] at h
      have hr : nFin k r = 0 := by omega
      cases d <;> simp [finSent, hm, ih hr]
    | ccs d => simp only [nFin] at h; simp [finSent, ih h]

theorem finAccepted_nil_of_nFin {k : Codes} {a : List Entry} (h : nFin k a = 0) : finAccepted k a = [] := by
  induction a with
  | nil => rfl
  | cons e r ih =>
    cases e with
    | msg d m =>
      simp only [nFin] at h
      have hm : mtype m ≠ k.tFin := by intro hh; simp [hh] at h
      have hr : nFin k r = 0 := by omega
      cases d <;> simp [finAccepted, hm, ih hr]
    | ccs d => simp only [nFin] at h; simp [finAccepted, ih h]

/-- no Finished-typed message among the messages of a history without Finished -/
theorem not_fin_of_nFin {k : Codes} {a : List Entry} (h : nFin k a = 0) : ∀ m ∈ msgsOf a, mtype m ≠ k.tFin := by
  induction a with
  | nil => intro m hm; simp [msgsOf] at hm
  | cons e r ih =>
    cases e with
    | msg d x =>
      simp only [nFin] at h
      have hx : mtype x ≠ k.tFin := by intro hh; simp [hh] at h
      have hr : nFin k r = 0 := by omega
      intro m hm
      simp only [msgsOf, List.mem_cons] at hm
      rcases hm with rfl | hm
      · exact hx
      · exact ih hr m hm
    | ccs d => simp only [nFin] at h; intro m hm; exact ih h m (by simpa [msgsOf] using hm)

/-! ### the canonical direction of every item

Who writes an item is a function of the item and of what precedes it: ClientHello,
ClientKeyExchange and CertificateVerify are the client's; a Certificate is the server's before
ServerHelloDone and the client's after it; the first ChangeCipherSpec + Finished pair is the
client's exactly when a ServerHelloDone has been seen (full handshake), the second pair is the
other side's; everything else is the server's. -/

def clientWrote (k : Codes) (shd : Bool) (nfin : Nat) : Item → Bool
  | .ccs => if nfin = 0 then shd else !shd
  | .msg m =>
    let t := mtype m
    if t = k.tFin then (if nfin = 0 then shd else !shd)
    else if t = k.tCert then shd
    else decide (t = k.tCH ∨ t = k.tCKX ∨ t = k.tCV)

def itemSHD (k : Codes) : Item → Bool
  | .ccs => false
  | .msg m => mtype m = k.tSHD

def itemFin (k : Codes) : Item → Nat
  | .ccs => 0
  | .msg m => if mtype m = k.tFin then 1 else 0

def tag (sent : Bool) : Item → Entry
  | .ccs => .ccs sent
  | .msg m => .msg sent m

/-- the history an endpoint (`isClient`) has when it sent / accepted exactly these items -/
def assign (k : Codes) (isClient : Bool) : Bool → Nat → List Item → List Entry
  | _, _, [] => []
  | shd, nfin, it :: r =>
    tag (clientWrote k shd nfin it == isClient) it :: assign k isClient (shd || itemSHD k it) (nfin + itemFin k it) r

def itemsSHD (k : Codes) : List Item → Bool
  | [] => false
  | it :: r => itemSHD k it || itemsSHD k r

def itemsFin (k : Codes) : List Item → Nat
  | [] => 0
  | it :: r => itemFin k it + itemsFin k r

theorem assign_append (k : Codes) (c : Bool) : ∀ (shd : Bool) (n : Nat) (a b : List Item),
    assign k c shd n (a ++ b) = assign k c shd n a ++ assign k c (shd || itemsSHD k a) (n + itemsFin k a) b
  | shd, n, [], b => by simp [assign, itemsSHD, itemsFin]
  | shd, n, it :: a, b => by
    simp only [List.cons_append, assign, itemsSHD, itemsFin, List.cons.injEq, true_and]
    rw [assign_append k c _ _ a b, Bool.or_assoc, Nat.add_assoc]

theorem itemsSHD_itemsOf (k : Codes) (l : List Entry) : itemsSHD k (itemsOf l) = hasSHD k l := by
  induction l with
  | nil => rfl
  | cons e r ih => cases e <;> simp [itemsOf, itemsSHD, itemSHD, hasSHD, ih]

theorem itemsFin_itemsOf (k : Codes) (l : List Entry) : itemsFin k (itemsOf l) = nFin k l := by
  induction l with
  | nil => rfl
  | cons e r ih => cases e <;> simp [itemsOf, itemsFin, itemFin, nFin, ih]

/-- what the client accepted is what the server sent, and conversely, when both histories are
the canonical assignment of the same item list -/
theorem accepted_client_eq_sent_server (k : Codes) : ∀ (shd : Bool) (n : Nat) (l : List Item),
    acceptedOf (assign k true shd n l) = sentOf (assign k false shd n l)
  | _, _, [] => rfl
  | shd, n, it :: r => by
    have ih := accepted_client_eq_sent_server k (shd || itemSHD k it) (n + itemFin k it) r
    cases it with
    | ccs => simp only [assign, tag]; cases clientWrote k shd n Item.ccs <;> simp [acceptedOf, sentOf, ih]
    | msg m => simp only [assign, tag]; cases clientWrote k shd n (Item.msg m) <;> simp [acceptedOf, sentOf, ih]

theorem accepted_server_eq_sent_client (k : Codes) : ∀ (shd : Bool) (n : Nat) (l : List Item),
    acceptedOf (assign k false shd n l) = sentOf (assign k true shd n l)
  | _, _, [] => rfl
  | shd, n, it :: r => by
    have ih := accepted_server_eq_sent_client k (shd || itemSHD k it) (n + itemFin k it) r
    cases it with
    | ccs => simp only [assign, tag]; cases clientWrote k shd n Item.ccs <;> simp [acceptedOf, sentOf, ih]
    | msg m => simp only [assign, tag]; cases clientWrote k shd n (Item.msg m) <;> simp [acceptedOf, sentOf, ih]

end Gotlcp.Lemmas.Transcript
